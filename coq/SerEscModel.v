(* SerEscModel.v — C04: what the XML serializer writes for a text node / attribute value / CDATA
   section is read back by the model XML reader (XmlParseDefs.v) as the original string.
   Lemmas only; the definitions are in GenSer / SerUtfDefs / SerEscDefs / XmlParseDefs.
   The generated tables are consumed through finite sweeps proved by vm_compute and lifted with
   forallb_forall: a changed table entry re-checks and, if wrong, breaks the proof.
   Definitions after the library repair: the UTF-16 writer handles surrogate pairs itself (u16_at,
   unpaired surrogates throw err_surrogate); CR / NEL / LSEP / reference-only characters in a CDATA section
   leave the section and are written as references (cdata_roundtrip is a full theorem); characters that
   an encoding cannot represent inside a comment are an exception (comment_* theorems). *)
From Coq Require Import NArith List Bool Lia ZifyBool ZifyNat ZifyN.
Require Import XV.SerDefs XV.XmlParseDefs.
Import ListNotations.
Local Open Scope N_scope.

(* ---- well-formed input text: Chars of the version, surrogates only in pairs --------------------- *)
Fixpoint wf_text (v11 : bool) (s : list N) : bool :=
  match s with
  | [] => true
  | c :: r => if x_high c then match r with lo :: r' => x_low lo && wf_text v11 r' | [] => false end
              else if x_low c then false else xml_char v11 c && wf_text v11 r
  end.

Lemma wf_text_ind' (v11 : bool) (P : list N -> Prop) :
  P [] ->
  (forall hi lo r, x_high hi = true -> x_low lo = true -> wf_text v11 r = true -> P r ->
                   P (hi :: lo :: r)) ->
  (forall c r, x_high c = false -> x_low c = false -> xml_char v11 c = true ->
               wf_text v11 r = true -> P r -> P (c :: r)) ->
  forall s, wf_text v11 s = true -> P s.
Proof.
  intros H0 Hp Hc s.
  assert (G : forall n s, (length s <= n)%nat -> wf_text v11 s = true -> P s).
  { induction n as [|n IH]; intros [|c r] Hl Hw; try exact H0; cbn [length] in Hl; try lia.
    cbn [wf_text] in Hw. destruct (x_high c) eqn:Eh.
    - destruct r as [|lo r']; [discriminate|]. apply andb_true_iff in Hw. destruct Hw as [Hlo Hw].
      apply Hp; auto. apply IH; auto. cbn [length] in Hl. lia.
    - destruct (x_low c) eqn:El; [discriminate|]. apply andb_true_iff in Hw. destruct Hw as [Hx Hw].
      apply Hc; auto. apply IH; auto. lia. }
  intros Hw. apply (G (length s)); auto.
Qed.

(* ---- small tools --------------------------------------------------------------------------------- *)
Fixpoint leqb (a b : list N) : bool :=
  match a, b with
  | [], [] => true
  | x :: a', y :: b' => (x =? y) && leqb a' b'
  | _, _ => false
  end.

Lemma leqb_eq : forall a b, leqb a b = true -> a = b.
Proof.
  induction a as [|x a IH]; intros [|y b] H; cbn [leqb] in H; try discriminate; auto.
  apply andb_true_iff in H. destruct H as [H1 H2]. apply N.eqb_eq in H1. subst. f_equal. auto.
Qed.

Definition upto (n : N) : list N := map N.of_nat (seq 0 (S (N.to_nat n))).

Lemma upto_in : forall n c, c <= n -> In c (upto n).
Proof.
  intros n c H. unfold upto. apply in_map_iff. exists (N.to_nat c). split.
  - apply N2Nat.id.
  - apply in_seq. lia.
Qed.

Lemma sweep : forall (P : N -> bool) n, forallb P (upto n) = true -> forall c, c <= n -> P c = true.
Proof. intros P n H c Hc. rewrite forallb_forall in H. apply H. apply upto_in. exact Hc. Qed.

Lemma payload_app : forall a b,
  payload (a ++ b) =
  match payload a with
  | Ok x => match payload b with Ok y => Ok (x ++ y) | Oob => Oob | Thrown c => Thrown c end
  | Oob => Oob
  | Thrown c => Thrown c
  end.
Proof.
  induction a as [|it a IH]; intros b.
  - cbn [app payload]. destruct (payload b); reflexivity.
  - destruct it; cbn [app payload]; rewrite ?IH;
      destruct (payload a); destruct (payload b); try reflexivity; rewrite app_assoc; reflexivity.
Qed.

Lemma payload_u16_unit : forall c, payload (u16_unit c) = Ok [c].
Proof. reflexivity. Qed.

Lemma payload_u16_block : forall xs, payload (u16_block xs) = Ok xs.
Proof.
  intros xs. unfold u16_block. destruct (kbuf_utf16 <? len xs); cbn [payload]; rewrite app_nil_r; reflexivity.
Qed.

(* ---- decimal numbers ------------------------------------------------------------------------------ *)
Definition dval (l : list N) : N := fold_right (fun d a => a * 10 + (d - 48)) 0 l.

Lemma digits_rev_spec : forall fuel n, n < 10 ^ N.of_nat (S fuel) ->
  dval (digits_rev (S fuel) n) = n /\ forallb is_digit (digits_rev (S fuel) n) = true /\
  digits_rev (S fuel) n <> [].
Proof.
  induction fuel as [|f IH]; intros n Hn.
  - change (10 ^ N.of_nat 1) with 10 in Hn. cbn [digits_rev].
    destruct (n <? 10) eqn:E; [|lia]. cbn [dval fold_right forallb]. unfold is_digit, x_in.
    repeat split; try lia. discriminate.
  - remember (S f) as f1. cbn [digits_rev]. destruct (n <? 10) eqn:E.
    + cbn [dval fold_right forallb]. unfold is_digit, x_in. repeat split; try lia. discriminate.
    + assert (Hd : n / 10 < 10 ^ N.of_nat f1).
      { apply N.div_lt_upper_bound; [lia|]. rewrite <- N.pow_succ_r'.
        replace (N.succ (N.of_nat f1)) with (N.of_nat (S f1)) by lia. exact Hn. }
      subst f1. destruct (IH _ Hd) as (H1 & H2 & H3). cbn [dval fold_right forallb].
      fold (dval (digits_rev (S f) (n / 10))). rewrite H1, H2.
      assert (Hm : n mod 10 < 10) by (apply N.mod_lt; lia).
      pose proof (N.div_mod n 10 ltac:(lia)) as Hdm.
      unfold is_digit, x_in. repeat split; try lia. discriminate.
Qed.

Lemma parse_digits_app : forall ds acc rest, forallb is_digit ds = true ->
  parse_digits acc (ds ++ rest) = parse_digits (fold_left (fun a d => a * 10 + (d - 48)) ds acc) rest.
Proof.
  induction ds as [|d ds IH]; intros acc rest H; [reflexivity|].
  cbn [forallb] in H. apply andb_true_iff in H. destruct H as [H1 H2].
  cbn [app parse_digits fold_left]. rewrite H1. apply IH. exact H2.
Qed.

Lemma decimal_spec : forall n, n < 10 ^ 20 ->
  forallb is_digit (decimal n) = true /\ decimal n <> [] /\
  forall rest, parse_digits 0 (decimal n ++ 59 :: rest) = (n, 59 :: rest).
Proof.
  intros n Hn. destruct (digits_rev_spec 19 n Hn) as (H1 & H2 & H3). unfold decimal.
  assert (Hf : forallb is_digit (rev (digits_rev 20 n)) = true).
  { apply forallb_forall. intros x Hx. apply in_rev in Hx. rewrite forallb_forall in H2. auto. }
  split; [exact Hf|]. split.
  - intros E. apply H3. rewrite <- (rev_involutive (digits_rev 20 n)), E. reflexivity.
  - intros rest. rewrite parse_digits_app by exact Hf. rewrite <- fold_left_rev_right, rev_involutive.
    fold (dval (digits_rev 20 n)). rewrite H1. reflexivity.
Qed.

(* ---- the reader on one escaped character ----------------------------------------------------------- *)
(* units that the escaping never writes literally *)
Definition okunit (v11 : bool) (b : N) : bool :=
  negb (b =? 13) && negb (b =? 62) && negb (v11 && ((b =? 133) || (b =? 8232))).

Lemma eol_norm_id : forall v11 bs, forallb (okunit v11) bs = true -> eol_norm v11 bs = bs.
Proof.
  induction bs as [|c r IH]; intros H; [reflexivity|].
  cbn [forallb] in H. apply andb_true_iff in H. destruct H as [H1 H2].
  cbn [eol_norm]. unfold okunit in H1.
  destruct (c =? 13) eqn:E1; [cbn in H1; lia|].
  destruct (v11 && ((c =? 133) || (c =? 8232))) eqn:E2; [rewrite andb_false_r in H1; discriminate|].
  rewrite IH; auto.
Qed.

Lemma no_close : forall v11 l, forallb (okunit v11) l = true -> starts_with [93; 93; 62] l = None.
Proof.
  intros v11 l H. destruct l as [|a [|b [|c l]]]; cbn [starts_with]; try reflexivity;
    try (destruct (93 =? a); reflexivity).
  - destruct (93 =? a); [|reflexivity]. destruct (93 =? b); reflexivity.
  - destruct (93 =? a); [|reflexivity]. destruct (93 =? b); [|reflexivity].
    destruct (62 =? c) eqn:E; [|reflexivity]. cbn [forallb] in H. unfold okunit in H. lia.
Qed.

Lemma digits_ok : forall v11 ds, forallb is_digit ds = true -> forallb (okunit v11) ds = true.
Proof.
  intros v11 ds H. apply forallb_forall. intros x Hx. rewrite forallb_forall in H. specialize (H x Hx).
  unfold is_digit, x_in in H. unfold okunit. destruct v11; lia.
Qed.

Definition lit_content (v11 : bool) (c : N) : bool :=
  negb (c =? 38) && negb (c =? 60) && okunit v11 c && negb (x_high c) && negb (x_low c)
  && literal_ok v11 c.

Definition lit_attr (v11 : bool) (c : N) : bool :=
  lit_content v11 c && negb (c =? 34) && negb (c =? 9) && negb (c =? 10).

Definition is_ent (c : N) : bool := (c =? 60) || (c =? 62) || (c =? 38) || (c =? 34).
Definition ent_of (c : N) : list N :=
  if c =? 60 then [38; 108; 116; 59]
  else if c =? 62 then [38; 103; 116; 59]
  else if c =? 38 then [38; 97; 109; 112; 59]
  else [38; 113; 117; 111; 116; 59].

(* the three ways a character is written *)
Definition shape (lit : bool -> N -> bool) (v11 : bool) (c : N) (e : list N) : bool :=
  (leqb e [c] && lit v11 c) || (is_ent c && leqb e (ent_of c))
  || (leqb e (charref c) && xml_char v11 c && (c <? 65536)).

Lemma shape_cases : forall lit v11 c e, shape lit v11 c e = true ->
  (e = [c] /\ lit v11 c = true) \/ (is_ent c = true /\ e = ent_of c) \/
  (e = charref c /\ xml_char v11 c = true /\ c < 65536).
Proof.
  intros lit v11 c e H. unfold shape in H. apply orb_true_iff in H. destruct H as [H|H].
  - apply orb_true_iff in H. destruct H as [H|H]; apply andb_true_iff in H; destruct H as [H1 H2].
    + left. split; [apply leqb_eq; exact H1 | exact H2].
    + right. left. split; [exact H1 | apply leqb_eq; exact H2].
  - apply andb_true_iff in H. destruct H as [H H3]. apply andb_true_iff in H. destruct H as [H1 H2].
    right. right. split; [apply leqb_eq; exact H1|]. split; [exact H2 | lia].
Qed.

Lemma xml_char_bound : forall v11 c, xml_char v11 c = true -> c < 10 ^ 20.
Proof.
  intros v11 c H. assert (c <= 1114111). { unfold xml_char, x_in in H. destruct v11; lia. }
  assert (1114111 < 10 ^ 20) by reflexivity. lia.
Qed.

(* a decimal character reference of a Char below 65536, after '&' *)
Lemma parse_ref_charref : forall v11 c rest, xml_char v11 c = true ->
  parse_ref v11 (35 :: decimal c ++ 59 :: rest) = Some (units_of_cp c, rest).
Proof.
  intros v11 c rest Hx. destruct (decimal_spec c (xml_char_bound _ _ Hx)) as (Hd & Hne & Hp).
  specialize (Hp rest). unfold parse_ref. change (35 =? 35) with true. cbv iota.
  destruct (decimal c) as [|d ds] eqn:E; [congruence|]. cbn [app] in *.
  cbn [forallb] in Hd. apply andb_true_iff in Hd. destruct Hd as [Hd1 Hd2].
  assert (E120 : (d =? 120) = false). { unfold is_digit, x_in in Hd1. lia. }
  rewrite E120, Hd1, Hp. unfold finish_ref. rewrite Hx. reflexivity.
Qed.

Lemma shape_okunits : forall lit v11 c e,
  (forall c, lit v11 c = true -> okunit v11 c = true) ->
  shape lit v11 c e = true -> forallb (okunit v11) e = true.
Proof.
  intros lit v11 c e Hl H. apply shape_cases in H. destruct H as [[-> H]|[[H ->]|[-> [H1 H2]]]].
  - cbn [forallb]. rewrite (Hl _ H). reflexivity.
  - unfold ent_of. destruct (c =? 60); [destruct v11; reflexivity|].
    destruct (c =? 62); [destruct v11; reflexivity|]. destruct (c =? 38); destruct v11; reflexivity.
  - destruct (decimal_spec c (xml_char_bound _ _ H1)) as (Hd & _ & _). unfold charref.
    cbn [forallb]. rewrite forallb_app. rewrite (digits_ok v11 _ Hd).
    destruct v11; reflexivity.
Qed.

Lemma lit_content_ok : forall v11 c, lit_content v11 c = true -> okunit v11 c = true.
Proof. intros v11 c H. unfold lit_content in H. lia. Qed.
Lemma lit_attr_ok : forall v11 c, lit_attr v11 c = true -> okunit v11 c = true.
Proof. intros v11 c H. unfold lit_attr, lit_content in H. lia. Qed.

Lemma scan_content_shape : forall v11 c e rest f,
  shape lit_content v11 c e = true -> forallb (okunit v11) rest = true ->
  scan_content v11 (S f) false (e ++ rest) = option_map (app [c]) (scan_content v11 f false rest).
Proof.
  intros v11 c e rest f H Hr. pose proof (shape_okunits _ _ _ _ (lit_content_ok v11) H) as Hok.
  apply shape_cases in H. destruct H as [[-> H]|[[H ->]|[-> [H1 H2]]]].
  - assert (Hc : starts_with [93; 93; 62] (c :: rest) = None).
    { apply (no_close v11). cbn [forallb app] in *. rewrite Hr. rewrite andb_true_r in Hok. rewrite Hok. reflexivity. }
    cbn [app scan_content]. rewrite Hc. unfold lit_content in H.
    destruct (c =? 38) eqn:E1; [cbn in H; discriminate|].
    destruct (c =? 60) eqn:E2; [cbn in H; discriminate|].
    destruct (x_high c) eqn:E3; [rewrite ?andb_false_r in H; cbn in H; discriminate|].
    destruct (x_low c) eqn:E4; [rewrite ?andb_false_r in H; cbn in H; discriminate|].
    destruct (literal_ok v11 c) eqn:E5; [|rewrite ?andb_false_r in H; discriminate].
    destruct (scan_content v11 f false rest); reflexivity.
  - unfold is_ent in H. unfold ent_of.
    destruct (c =? 60) eqn:E1; [apply N.eqb_eq in E1; subst c; cbn; destruct (scan_content v11 f false rest); reflexivity|].
    destruct (c =? 62) eqn:E2; [apply N.eqb_eq in E2; subst c; cbn; destruct (scan_content v11 f false rest); reflexivity|].
    destruct (c =? 38) eqn:E3; [apply N.eqb_eq in E3; subst c; cbn; destruct (scan_content v11 f false rest); reflexivity|].
    destruct (c =? 34) eqn:E4; [apply N.eqb_eq in E4; subst c; cbn; destruct (scan_content v11 f false rest); reflexivity|].
    discriminate.
  - unfold charref. cbn [app scan_content]. change (38 =? 38) with true. cbv iota.
    rewrite <- app_assoc. cbn [app]. rewrite parse_ref_charref by exact H1.
    unfold units_of_cp. destruct (c <? 65536) eqn:E; [|lia]. reflexivity.
Qed.

Lemma scan_attr_shape : forall v11 c e rest f,
  shape lit_attr v11 c e = true ->
  scan_attr v11 (S f) (e ++ rest) = option_map (app [c]) (scan_attr v11 f rest).
Proof.
  intros v11 c e rest f H.
  apply shape_cases in H. destruct H as [[-> H]|[[H ->]|[-> [H1 H2]]]].
  - cbn [app scan_attr]. unfold lit_attr, lit_content in H.
    destruct (c =? 38) eqn:E1; [cbn in H; discriminate|].
    destruct (c =? 60) eqn:E2; [cbn in H; discriminate|].
    destruct (c =? 34) eqn:E6; [rewrite ?andb_false_r in H; cbn in H; discriminate|].
    destruct (c =? 9) eqn:E7; [rewrite ?andb_false_r in H; cbn in H; discriminate|].
    destruct (c =? 10) eqn:E8; [rewrite ?andb_false_r in H; cbn in H; discriminate|].
    destruct (c =? 13) eqn:E9; [unfold okunit in H; lia|].
    destruct (x_high c) eqn:E3; [cbn in H; rewrite ?andb_false_r in H; cbn in H; discriminate|].
    destruct (x_low c) eqn:E4; [cbn in H; rewrite ?andb_false_r in H; cbn in H; discriminate|].
    destruct (literal_ok v11 c) eqn:E5; [|cbn in H; rewrite ?andb_false_r in H; discriminate].
    cbn [orb]. cbv iota. destruct (scan_attr v11 f rest); reflexivity.
  - unfold is_ent in H. unfold ent_of.
    destruct (c =? 60) eqn:E1; [apply N.eqb_eq in E1; subst c; cbn; destruct (scan_attr v11 f rest); reflexivity|].
    destruct (c =? 62) eqn:E2; [apply N.eqb_eq in E2; subst c; cbn; destruct (scan_attr v11 f rest); reflexivity|].
    destruct (c =? 38) eqn:E3; [apply N.eqb_eq in E3; subst c; cbn; destruct (scan_attr v11 f rest); reflexivity|].
    destruct (c =? 34) eqn:E4; [apply N.eqb_eq in E4; subst c; cbn; destruct (scan_attr v11 f rest); reflexivity|].
    discriminate.
  - unfold charref. cbn [app scan_attr]. change (38 =? 38) with true. cbv iota.
    rewrite <- app_assoc. cbn [app]. rewrite parse_ref_charref by exact H1.
    unfold units_of_cp. destruct (c <? 65536) eqn:E; [|lia]. reflexivity.
Qed.

(* a surrogate pair, literally *)
Lemma scan_content_pair : forall v11 hi lo rest f, x_high hi = true -> x_low lo = true ->
  scan_content v11 (S f) false (hi :: lo :: rest) =
  option_map (fun t => hi :: lo :: t) (scan_content v11 f false rest).
Proof.
  intros v11 hi lo rest f Hh Hl. cbn [scan_content starts_with]. rewrite Hh, Hl.
  unfold x_high, x_in in Hh.
  destruct (hi =? 38) eqn:E1; [lia|]. destruct (hi =? 60) eqn:E2; [lia|].
  destruct (93 =? hi) eqn:E3; [lia|]. reflexivity.
Qed.

Lemma scan_attr_pair : forall v11 hi lo rest f, x_high hi = true -> x_low lo = true ->
  scan_attr v11 (S f) (hi :: lo :: rest) = option_map (fun t => hi :: lo :: t) (scan_attr v11 f rest).
Proof.
  intros v11 hi lo rest f Hh Hl. cbn [scan_attr]. rewrite Hh, Hl.
  unfold x_high, x_in in Hh.
  destruct (hi =? 38) eqn:E1; [lia|]. destruct (hi =? 60) eqn:E2; [lia|].
  destruct (hi =? 34) eqn:E3; [lia|]. destruct (hi =? 9) eqn:E4; [lia|].
  destruct (hi =? 10) eqn:E5; [lia|]. destruct (hi =? 13) eqn:E6; [lia|]. reflexivity.
Qed.

(* ---- the UTF-16 writer: one step of the escaping loops ------------------------------------------ *)
Definition cs (v11 : bool) (c : N) : list item := fst (content_step fam_utf16 v11 c []).
Definition ats (v11 : bool) (c : N) : list item := fst (attr_step fam_utf16 v11 c []).

Lemma u16_at_plain : forall c r, x_high c = false -> x_low c = false -> u16_at c r = (u16_unit c, false).
Proof.
  intros c r Hh Hl. unfold u16_at. change (is_high c) with (x_high c). change (is_low c) with (x_low c).
  rewrite Hh, Hl. reflexivity.
Qed.

Lemma u16_at_pair : forall hi lo r, x_high hi = true -> x_low lo = true ->
  u16_at hi (lo :: r) = (u16_unit hi ++ u16_unit lo, true).
Proof.
  intros hi lo r Hh Hl. unfold u16_at. change (is_high hi) with (x_high hi). change (is_low lo) with (x_low lo).
  rewrite Hh, Hl. reflexivity.
Qed.

Lemma content_step_16 : forall v11 c r, x_high c = false -> x_low c = false ->
  content_step fam_utf16 v11 c r = (cs v11 c, false).
Proof.
  intros v11 c r Hh Hl. unfold cs, content_step, normalized_big. cbn [f_at fam_utf16].
  rewrite !(u16_at_plain c _ Hh Hl).
  destruct (p_range v11 c); [destruct (v11 && (c =? 8232)); reflexivity|].
  destruct (negb (p_content v11 c)); reflexivity.
Qed.

Lemma attr_step_16 : forall v11 c r, x_high c = false -> x_low c = false ->
  attr_step fam_utf16 v11 c r = (ats v11 c, false).
Proof.
  intros v11 c r Hh Hl. unfold ats, attr_step, normalized_big. cbn [f_at fam_utf16].
  rewrite !(u16_at_plain c _ Hh Hl).
  destruct (p_range v11 c); [destruct (v11 && (c =? 8232)); reflexivity|].
  destruct (negb (p_attribute v11 c)); reflexivity.
Qed.

Lemma write_content_cons : forall v11 c r, x_high c = false -> x_low c = false ->
  write_content fam_utf16 v11 (c :: r) = cs v11 c ++ write_content fam_utf16 v11 r.
Proof. intros. unfold write_content. cbn [char_loop]. rewrite content_step_16 by assumption. reflexivity. Qed.

Lemma write_attr_cons : forall v11 c r, x_high c = false -> x_low c = false ->
  write_attr_string fam_utf16 v11 (c :: r) = ats v11 c ++ write_attr_string fam_utf16 v11 r.
Proof. intros. unfold write_attr_string. cbn [char_loop]. rewrite attr_step_16 by assumption. reflexivity. Qed.

(* sweeps over the generated tables *)
Definition res_shape (lit : bool -> N -> bool) (v11 : bool) (c : N) (r : res (list N)) : bool :=
  match r with Ok e => shape lit v11 c e | _ => false end.

Definition chk_content (v11 : bool) (c : N) : bool :=
  p_range v11 c || negb (xml_char v11 c) || res_shape lit_content v11 c (payload (cs v11 c)).
Definition chk_attr (v11 : bool) (c : N) : bool :=
  p_range v11 c || negb (xml_char v11 c) || res_shape lit_attr v11 c (payload (ats v11 c)).

Lemma sweep_content : forall v11, forallb (chk_content v11) (upto (sp_last v11)) = true.
Proof. intros [|]; vm_compute; reflexivity. Qed.
Lemma sweep_attr : forall v11, forallb (chk_attr v11) (upto (sp_last v11)) = true.
Proof. intros [|]; vm_compute; reflexivity. Qed.

Lemma lsep_content : res_shape lit_content true 8232 (payload (cs true 8232)) = true.
Proof. vm_compute. reflexivity. Qed.
Lemma lsep_attr : res_shape lit_attr true 8232 (payload (ats true 8232)) = true.
Proof. vm_compute. reflexivity. Qed.

(* above the table: literally, except U+2028 in 1.1 *)
Lemma cs_high : forall v11 c, p_range v11 c = true -> (v11 && (c =? 8232)) = false ->
  x_high c = false -> x_low c = false -> payload (cs v11 c) = Ok [c].
Proof.
  intros v11 c H1 H2 Hh Hl. unfold cs, content_step, normalized_big. rewrite H1, H2.
  cbn [f_at fam_utf16]. rewrite (u16_at_plain c _ Hh Hl). reflexivity.
Qed.
Lemma ats_high : forall v11 c, p_range v11 c = true -> (v11 && (c =? 8232)) = false ->
  x_high c = false -> x_low c = false -> payload (ats v11 c) = Ok [c].
Proof.
  intros v11 c H1 H2 Hh Hl. unfold ats, attr_step, normalized_big. rewrite H1, H2.
  cbn [f_at fam_utf16]. rewrite (u16_at_plain c _ Hh Hl). reflexivity.
Qed.

Lemma high_lit : forall v11 c, p_range v11 c = true -> (v11 && (c =? 8232)) = false ->
  x_high c = false -> x_low c = false -> xml_char v11 c = true -> lit_attr v11 c = true.
Proof.
  intros v11 c H1 H2 H3 H4 H5.
  unfold lit_attr, lit_content, okunit, literal_ok, restricted_char, xml_char, x_high, x_low, x_in,
    p_range, sp_last, last_special_1_0, last_special_1_1 in *.
  destruct v11; lia.
Qed.

Lemma lit_attr_content : forall v11 c, lit_attr v11 c = true -> lit_content v11 c = true.
Proof. intros v11 c H. unfold lit_attr in H. lia. Qed.

Lemma cs_shape : forall v11 c, x_high c = false -> x_low c = false -> xml_char v11 c = true ->
  exists e, payload (cs v11 c) = Ok e /\ shape lit_content v11 c e = true.
Proof.
  intros v11 c Hh Hl Hx. destruct (p_range v11 c) eqn:Er.
  - destruct (v11 && (c =? 8232)) eqn:E8.
    + assert (v11 = true /\ c = 8232) as [-> ->] by lia.
      pose proof lsep_content as H. destruct (payload (cs true 8232)) as [e| |]; try discriminate.
      exists e. split; [reflexivity | exact H].
    + exists [c]. split; [apply cs_high; assumption|]. unfold shape.
      rewrite (lit_attr_content _ _ (high_lit _ _ Er E8 Hh Hl Hx)). cbn [leqb]. rewrite N.eqb_refl. reflexivity.
  - assert (Hle : c <= sp_last v11) by (unfold p_range in Er; lia).
    pose proof (sweep _ _ (sweep_content v11) c Hle) as H. unfold chk_content in H.
    rewrite Er, Hx in H. cbn [negb orb] in H.
    destruct (payload (cs v11 c)) as [e| |]; try discriminate. exists e. split; [reflexivity | exact H].
Qed.

Lemma ats_shape : forall v11 c, x_high c = false -> x_low c = false -> xml_char v11 c = true ->
  exists e, payload (ats v11 c) = Ok e /\ shape lit_attr v11 c e = true.
Proof.
  intros v11 c Hh Hl Hx. destruct (p_range v11 c) eqn:Er.
  - destruct (v11 && (c =? 8232)) eqn:E8.
    + assert (v11 = true /\ c = 8232) as [-> ->] by lia.
      pose proof lsep_attr as H. destruct (payload (ats true 8232)) as [e| |]; try discriminate.
      exists e. split; [reflexivity | exact H].
    + exists [c]. split; [apply ats_high; assumption|]. unfold shape.
      rewrite (high_lit _ _ Er E8 Hh Hl Hx). cbn [leqb]. rewrite N.eqb_refl. reflexivity.
  - assert (Hle : c <= sp_last v11) by (unfold p_range in Er; lia).
    pose proof (sweep _ _ (sweep_attr v11) c Hle) as H. unfold chk_attr in H.
    rewrite Er, Hx in H. cbn [negb orb] in H.
    destruct (payload (ats v11 c)) as [e| |]; try discriminate. exists e. split; [reflexivity | exact H].
Qed.

Lemma sur_high : forall v11 c, x_high c = true \/ x_low c = true ->
  p_range v11 c = true /\ (v11 && (c =? 8232)) = false /\ okunit v11 c = true.
Proof.
  intros v11 c H.
  unfold x_high, x_low, x_in, okunit, p_range, sp_last, last_special_1_0, last_special_1_1 in *.
  destruct v11; lia.
Qed.

Lemma write_content_pair : forall v11 hi lo r, x_high hi = true -> x_low lo = true ->
  write_content fam_utf16 v11 (hi :: lo :: r) = (u16_unit hi ++ u16_unit lo) ++ write_content fam_utf16 v11 r.
Proof.
  intros v11 hi lo r Hh Hl. destruct (sur_high v11 hi (or_introl Hh)) as (A1 & A2 & _).
  unfold write_content. cbn [char_loop]. unfold content_step at 1. rewrite A1. unfold normalized_big.
  rewrite A2. cbn [f_at fam_utf16]. rewrite (u16_at_pair _ _ _ Hh Hl). reflexivity.
Qed.

Lemma write_attr_pair : forall v11 hi lo r, x_high hi = true -> x_low lo = true ->
  write_attr_string fam_utf16 v11 (hi :: lo :: r) = (u16_unit hi ++ u16_unit lo) ++ write_attr_string fam_utf16 v11 r.
Proof.
  intros v11 hi lo r Hh Hl. destruct (sur_high v11 hi (or_introl Hh)) as (A1 & A2 & _).
  unfold write_attr_string. cbn [char_loop]. unfold attr_step at 1. rewrite A1. unfold normalized_big.
  rewrite A2. cbn [f_at fam_utf16]. rewrite (u16_at_pair _ _ _ Hh Hl). reflexivity.
Qed.

(* ---- 1. text nodes ------------------------------------------------------------------------------------ *)
Lemma content_main : forall v11 s, wf_text v11 s = true ->
  exists bs, payload (write_content fam_utf16 v11 s) = Ok bs /\ forallb (okunit v11) bs = true /\
             forall f, (length bs < f)%nat -> scan_content v11 f false bs = Some s.
Proof.
  intros v11. apply wf_text_ind'.
  - exists []. repeat split; try reflexivity. intros [|f] Hf; [cbn in Hf; lia | reflexivity].
  - intros hi lo r Hh Hl Hw (bs & Hp & Hok & Hs).
    destruct (sur_high v11 hi (or_introl Hh)) as (A1 & A2 & A3).
    destruct (sur_high v11 lo (or_intror Hl)) as (B1 & B2 & B3).
    exists (hi :: lo :: bs). rewrite write_content_pair, payload_app by assumption.
    cbn [u16_unit app payload]. rewrite Hp. repeat split.
    + cbn [forallb]. rewrite A3, B3, Hok. reflexivity.
    + intros [|f] Hf; cbn [length] in Hf; [clear -Hf; lia|]. rewrite scan_content_pair by assumption.
      rewrite Hs by (clear -Hf; lia). reflexivity.
  - intros c r Hh Hl Hx Hw (bs & Hp & Hok & Hs).
    destruct (cs_shape v11 c Hh Hl Hx) as (e & He & Hsh).
    exists (e ++ bs). rewrite write_content_cons, payload_app, He, Hp by assumption. repeat split.
    + rewrite forallb_app, Hok, (shape_okunits _ _ _ _ (lit_content_ok v11) Hsh). reflexivity.
    + intros [|f] Hf; [clear -Hf; lia|]. rewrite (scan_content_shape _ _ _ _ _ Hsh Hok).
      rewrite Hs; [reflexivity|]. rewrite app_length in Hf.
      assert (length e <> 0)%nat.
      { apply shape_cases in Hsh. destruct Hsh as [[-> _]|[[_ ->]|[-> _]]]; try discriminate.
        unfold ent_of. destruct (c =? 60), (c =? 62), (c =? 38); discriminate. }
      lia.
Qed.

Theorem content_roundtrip : forall v11 s, wf_text v11 s = true ->
  exists bs, payload (write_content fam_utf16 v11 s) = Ok bs /\ parse_content v11 bs = Some s.
Proof.
  intros v11 s Hw. destruct (content_main v11 s Hw) as (bs & Hp & Hok & Hs).
  exists bs. split; [exact Hp|]. unfold parse_content. rewrite (eol_norm_id _ _ Hok). apply Hs. lia.
Qed.

(* ---- 2. attribute values ------------------------------------------------------------------------------ *)
Lemma attr_main : forall v11 s, wf_text v11 s = true ->
  exists bs, payload (write_attr_string fam_utf16 v11 s) = Ok bs /\ forallb (okunit v11) bs = true /\
             forall f, (length bs < f)%nat -> scan_attr v11 f bs = Some s.
Proof.
  intros v11. apply wf_text_ind'.
  - exists []. repeat split; try reflexivity. intros [|f] Hf; [cbn in Hf; lia | reflexivity].
  - intros hi lo r Hh Hl Hw (bs & Hp & Hok & Hs).
    destruct (sur_high v11 hi (or_introl Hh)) as (A1 & A2 & A3).
    destruct (sur_high v11 lo (or_intror Hl)) as (B1 & B2 & B3).
    exists (hi :: lo :: bs). rewrite write_attr_pair, payload_app by assumption.
    cbn [u16_unit app payload]. rewrite Hp. repeat split.
    + cbn [forallb]. rewrite A3, B3, Hok. reflexivity.
    + intros [|f] Hf; cbn [length] in Hf; [clear -Hf; lia|]. rewrite scan_attr_pair by assumption.
      rewrite Hs by (clear -Hf; lia). reflexivity.
  - intros c r Hh Hl Hx Hw (bs & Hp & Hok & Hs).
    destruct (ats_shape v11 c Hh Hl Hx) as (e & He & Hsh).
    exists (e ++ bs). rewrite write_attr_cons, payload_app, He, Hp by assumption. repeat split.
    + rewrite forallb_app, Hok, (shape_okunits _ _ _ _ (lit_attr_ok v11) Hsh). reflexivity.
    + intros [|f] Hf; [clear -Hf; lia|]. rewrite (scan_attr_shape _ _ _ _ _ Hsh).
      rewrite Hs; [reflexivity|]. rewrite app_length in Hf.
      assert (length e <> 0)%nat.
      { apply shape_cases in Hsh. destruct Hsh as [[-> _]|[[_ ->]|[-> _]]]; try discriminate.
        unfold ent_of. destruct (c =? 60), (c =? 62), (c =? 38); discriminate. }
      lia.
Qed.

Theorem attr_roundtrip : forall v11 s, wf_text v11 s = true ->
  exists bs, payload (write_attr_string fam_utf16 v11 s) = Ok bs /\ parse_attr v11 bs = Some s.
Proof.
  intros v11 s Hw. destruct (attr_main v11 s Hw) as (bs & Hp & Hok & Hs).
  exists bs. split; [exact Hp|]. unfold parse_attr. rewrite (eol_norm_id _ _ Hok). apply Hs. lia.
Qed.

(* ---- 3. forbidden characters ---------------------------------------------------------------------- *)
Definition chk_forb (v11 : bool) (c : N) : bool :=
  match payload (cs v11 c) with
  | Ok _ => negb (p_forbidden v11 c)
  | Thrown k => k =? err_forbidden
  | Oob => false
  end.

Lemma sweep_forb : forall v11, forallb (chk_forb v11) (upto (sp_last v11)) = true.
Proof. intros [|]; vm_compute; reflexivity. Qed.

Lemma chk_forb_all : forall v11 c, x_high c = false -> x_low c = false -> chk_forb v11 c = true.
Proof.
  intros v11 c Hh Hl. destruct (p_range v11 c) eqn:Er.
  - unfold chk_forb. assert (Hf : p_forbidden v11 c = false).
    { unfold p_forbidden. unfold p_range in Er. rewrite Er. reflexivity. }
    rewrite Hf. destruct (v11 && (c =? 8232)) eqn:E8.
    + assert (v11 = true /\ c = 8232) as [-> ->] by lia. vm_compute. reflexivity.
    + rewrite (cs_high _ _ Er E8 Hh Hl). reflexivity.
  - apply (sweep _ _ (sweep_forb v11)). unfold p_range in Er. lia.
Qed.

(* surrogates only in pairs (the UTF-16 writer throws err_surrogate otherwise) *)
Fixpoint sur_paired (s : list N) : bool :=
  match s with
  | [] => true
  | c :: r => if x_high c then match r with lo :: r' => x_low lo && sur_paired r' | [] => false end
              else if x_low c then false else sur_paired r
  end.

Lemma sur_paired_ind' (P : list N -> Prop) :
  P [] ->
  (forall hi lo r, x_high hi = true -> x_low lo = true -> sur_paired r = true -> P r -> P (hi :: lo :: r)) ->
  (forall c r, x_high c = false -> x_low c = false -> sur_paired r = true -> P r -> P (c :: r)) ->
  forall s, sur_paired s = true -> P s.
Proof.
  intros H0 Hp Hc s.
  assert (G : forall n s, (length s <= n)%nat -> sur_paired s = true -> P s).
  { induction n as [|n IH]; intros [|c r] Hl Hw; try exact H0; cbn [length] in Hl; try lia.
    cbn [sur_paired] in Hw. destruct (x_high c) eqn:Eh.
    - destruct r as [|lo r']; [discriminate|]. apply andb_true_iff in Hw. destruct Hw as [Hlo Hw].
      apply Hp; auto. apply IH; auto. cbn [length] in Hl. lia.
    - destruct (x_low c) eqn:El; [discriminate|]. apply Hc; auto. apply IH; auto. lia. }
  intros Hw. apply (G (length s)); auto.
Qed.

Lemma wf_text_paired : forall v11 s, wf_text v11 s = true -> sur_paired s = true.
Proof.
  intros v11. apply wf_text_ind'; [reflexivity| |].
  - intros hi lo r Hh Hl _ IH. cbn [sur_paired]. rewrite Hh, Hl, IH. reflexivity.
  - intros c r Hh Hl _ _ IH. cbn [sur_paired]. rewrite Hh, Hl, IH. reflexivity.
Qed.

(* NEW DEFINITIONS: an unpaired surrogate is an exception of its own (err_surrogate), so the statement
   needs the pairing guard; see forbidden_char_fails_unpaired_refuted *)
Theorem forbidden_char_fails : forall v11 s, sur_paired s = true ->
  (exists c, In c s /\ p_forbidden v11 c = true) ->
  payload (write_content fam_utf16 v11 s) = Thrown err_forbidden.
Proof.
  intros v11. apply (sur_paired_ind' (fun s => (exists c, In c s /\ p_forbidden v11 c = true) ->
    payload (write_content fam_utf16 v11 s) = Thrown err_forbidden)).
  - intros (c & [] & _).
  - intros hi lo r Hh Hl _ IH (c & Hin & Hf).
    rewrite write_content_pair, payload_app by assumption. cbn [u16_unit app payload].
    assert (Hr : exists c, In c r /\ p_forbidden v11 c = true).
    { exists c. split; [|exact Hf]. destruct Hin as [->|[->|Hin]]; [| |exact Hin]; exfalso.
      - destruct (sur_high v11 c (or_introl Hh)) as (A1 & _ & _). unfold p_forbidden in Hf.
        unfold p_range in A1. rewrite A1 in Hf. discriminate.
      - destruct (sur_high v11 c (or_intror Hl)) as (A1 & _ & _). unfold p_forbidden in Hf.
        unfold p_range in A1. rewrite A1 in Hf. discriminate. }
    rewrite (IH Hr). reflexivity.
  - intros a r Hh Hl _ IH (c & Hin & Hf).
    rewrite write_content_cons, payload_app by assumption.
    pose proof (chk_forb_all v11 a Hh Hl) as Ha. unfold chk_forb in Ha.
    destruct (payload (cs v11 a)) as [e| |k]; try discriminate.
    + destruct Hin as [->|Hin]; [rewrite Hf in Ha; discriminate|].
      rewrite IH; [reflexivity|]. exists c. split; assumption.
    + apply N.eqb_eq in Ha. subst k. reflexivity.
Qed.

Theorem forbidden_char_fails_unpaired_refuted :
  p_forbidden false 0 = true /\
  payload (write_content fam_utf16 false [55296; 0]) = Thrown err_surrogate.
Proof. vm_compute. split; reflexivity. Qed.

(* with paired surrogates the only exception of the UTF-16 family in content is err_forbidden *)
Theorem content_no_other_exception : forall v11 s, sur_paired s = true ->
  match payload (write_content fam_utf16 v11 s) with
  | Ok _ => True | Thrown k => k = err_forbidden | Oob => False
  end.
Proof.
  intros v11. apply sur_paired_ind'.
  - exact I.
  - intros hi lo r Hh Hl _ IH. rewrite write_content_pair, payload_app by assumption.
    cbn [u16_unit app payload]. destruct (payload (write_content fam_utf16 v11 r)); auto.
  - intros a r Hh Hl _ IH. rewrite write_content_cons, payload_app by assumption.
    pose proof (chk_forb_all v11 a Hh Hl) as Ha. unfold chk_forb in Ha.
    destruct (payload (cs v11 a)) as [e| |k]; try discriminate.
    + destruct (payload (write_content fam_utf16 v11 r)); auto.
    + apply N.eqb_eq in Ha. exact Ha.
Qed.

Lemma sweep_forb_1_0 :
  forallb (fun c => eqb (p_forbidden false c) (negb (xml_char false c))) (upto 127) = true.
Proof. vm_compute. reflexivity. Qed.

Theorem forbidden_iff_not_char_1_0' : forall c, c < 128 -> p_forbidden false c = negb (xml_char false c).
Proof.
  intros c H. apply eqb_prop. apply (sweep (fun c => eqb (p_forbidden false c) (negb (xml_char false c))) 127 sweep_forb_1_0). lia.
Qed.

Theorem forbidden_iff_not_char_1_0 : forall c, c < 128 -> c <> 0 ->
  p_forbidden false c = negb (xml_char false c).
Proof. intros c H _. apply forbidden_iff_not_char_1_0'. exact H. Qed.

Lemma sweep_forb_1_1 : forallb (fun c => negb (p_forbidden true c)) (upto (sp_last true)) = true.
Proof. vm_compute. reflexivity. Qed.

Theorem no_forbidden_1_1 : forall c, p_forbidden true c = false.
Proof.
  intros c. destruct (sp_last true <? c) eqn:E.
  - unfold p_forbidden. rewrite E. reflexivity.
  - apply negb_true_iff. apply (sweep (fun c => negb (p_forbidden true c)) _ sweep_forb_1_1). lia.
Qed.
(* ---- 5. the "other encoding" writer: unrepresentable characters become decimal references ----------- *)
Lemma digits_rev_digits : forall fuel n, forallb is_digit (digits_rev fuel n) = true.
Proof.
  induction fuel as [|f IH]; intros n; [reflexivity|]. cbn [digits_rev].
  destruct (n <? 10) eqn:E; cbn [forallb].
  - unfold is_digit, x_in. lia.
  - rewrite IH. assert (n mod 10 < 10) by (apply N.mod_lt; lia). unfold is_digit, x_in. lia.
Qed.

Lemma decimal_digits : forall n, forallb is_digit (decimal n) = true.
Proof.
  intros n. unfold decimal. apply forallb_forall. intros x Hx. apply in_rev in Hx.
  pose proof (digits_rev_digits 20 n) as H. rewrite forallb_forall in H. auto.
Qed.

Lemma decode_pair_spec : forall hi lo, x_high hi = true -> x_low lo = true ->
  decode_pair hi lo = 1024 * (hi - 55296 + 64) + (lo - 56320) /\ lo - 56320 < 1024.
Proof.
  intros hi lo Hh Hl. unfold decode_pair, sur_sub_hi, sur_shift, sur_sub_lo, sur_add.
  rewrite N.shiftl_mul_pow2. change (2 ^ 10) with 1024. unfold x_high, x_low, x_in in *. lia.
Qed.

Lemma units_of_decode : forall hi lo, x_high hi = true -> x_low lo = true ->
  units_of_cp (decode_pair hi lo) = [hi; lo].
Proof.
  intros hi lo Hh Hl. destruct (decode_pair_spec hi lo Hh Hl) as [E B]. unfold units_of_cp.
  unfold x_high, x_low, x_in in *.
  destruct (decode_pair hi lo <? 65536) eqn:E1; [lia|].
  assert (D : (decode_pair hi lo - 65536) / 1024 = hi - 55296).
  { symmetry. apply N.div_unique with (r := lo - 56320); lia. }
  assert (M : (decode_pair hi lo - 65536) mod 1024 = lo - 56320).
  { symmetry. apply N.mod_unique with (q := hi - 55296); lia. }
  rewrite D, M. f_equal; [lia|]. f_equal. lia.
Qed.

Lemma decode_char : forall v11 hi lo, x_high hi = true -> x_low lo = true ->
  xml_char v11 (decode_pair hi lo) = true.
Proof.
  intros v11 hi lo Hh Hl. destruct (decode_pair_spec hi lo Hh Hl) as [E B].
  unfold xml_char, x_high, x_low, x_in in *. destruct v11; lia.
Qed.

Section OtherFamily.
  Variable rep : N -> bool.
  Hypothesis rep_low : forall c, c < 128 -> rep c = true.

  Let F := fam_other rep.

  Lemma payload_o_unit : forall c, payload (o_unit rep c) = Ok (if rep c then [c] else charref c).
  Proof.
    intros c. unfold o_unit, o_charref. destruct (rep c); cbn [payload app]; rewrite ?app_nil_r; reflexivity.
  Qed.

  Lemma payload_o_str : forall l, forallb (fun x => x <? 128) l = true -> payload (o_str rep l) = Ok l.
  Proof.
    induction l as [|x l IH]; intros H; [reflexivity|]. cbn [forallb] in H.
    apply andb_true_iff in H. destruct H as [H1 H2]. unfold o_str in *. cbn [flat_map].
    rewrite payload_app, payload_o_unit, (IH H2), (rep_low x ltac:(lia)). reflexivity.
  Qed.

  Lemma payload_o_code_pair : forall hi lo, x_high hi = true -> x_low lo = true ->
    payload (o_code (decode_pair hi lo)) = Ok [hi; lo].
  Proof.
    intros hi lo Hh Hl. destruct (decode_pair_spec hi lo Hh Hl) as [E B]. unfold o_code.
    unfold other_split_gt, other_pair_guard, other_hi_shift, other_hi_add, other_lo_mask, other_lo_add,
      other_pair_decrement. unfold x_high, x_low, x_in in *.
    destruct (65535 <? decode_pair hi lo) eqn:E1; [|lia]. cbn [payload app].
    rewrite N.shiftr_div_pow2. change (2 ^ 10) with 1024. change 1023 with (N.ones 10).
    rewrite N.land_ones. change (2 ^ 10) with 1024.
    assert (D : decode_pair hi lo / 1024 = hi - 55296 + 64).
    { symmetry. apply N.div_unique with (r := lo - 56320); lia. }
    assert (M : decode_pair hi lo mod 1024 = lo - 56320).
    { symmetry. apply N.mod_unique with (q := hi - 55296 + 64); lia. }
    rewrite D, M. replace (hi - 55296 + 64 + 55232) with hi by lia. replace (lo - 56320 + 56320) with lo by lia.
    rewrite !N.mod_small by lia. reflexivity.
  Qed.

  Lemma payload_ncr_other : forall c, payload (ncr F c) = Ok (charref c).
  Proof.
    intros c. unfold ncr, F. cbn [f_unit f_str fam_other]. rewrite !payload_app, !payload_o_unit.
    rewrite !rep_low by lia. rewrite payload_o_str.
    - unfold charref. cbn [app]. reflexivity.
    - pose proof (decimal_digits c) as H. apply forallb_forall. intros x Hx. rewrite forallb_forall in H.
      specialize (H x Hx). unfold is_digit, x_in in H. lia.
  Qed.

  Lemma leqb_refl : forall l, leqb l l = true.
  Proof. induction l as [|x l IH]; [reflexivity|]. cbn [leqb]. rewrite N.eqb_refl, IH. reflexivity. Qed.

  Lemma payload_ncr_16 : forall c, payload (ncr fam_utf16 c) = Ok (charref c).
  Proof.
    intros c. unfold ncr. cbn [f_unit f_str fam_utf16].
    rewrite !payload_app, !payload_u16_unit, payload_u16_block. reflexivity.
  Qed.

  Lemma default_entity_same : forall c,
    match default_entity F c, default_entity fam_utf16 c with
    | Some a, Some b => payload a = payload b
    | None, None => True
    | _, _ => False
    end.
  Proof.
    intros c. unfold default_entity, F. cbn [f_const fam_other fam_utf16].
    destruct (c =? 60); [rewrite payload_o_str, payload_u16_block by reflexivity; reflexivity|].
    destruct (c =? 62); [rewrite payload_o_str, payload_u16_block by reflexivity; reflexivity|].
    destruct (c =? 38); [rewrite payload_o_str, payload_u16_block by reflexivity; reflexivity|].
    exact I.
  Qed.

  Lemma default_escape_same : forall v11 c,
    payload (default_escape F v11 c) = payload (default_escape fam_utf16 v11 c).
  Proof.
    intros v11 c. unfold default_escape. pose proof (default_entity_same c) as H.
    destruct (default_entity F c), (default_entity fam_utf16 c); try contradiction; [exact H|].
    destruct (c =? 10).
    - unfold F. cbn [f_newline fam_other fam_utf16]. rewrite payload_o_str, payload_u16_block by reflexivity. reflexivity.
    - destruct (p_forbidden v11 c); [reflexivity|]. rewrite payload_ncr_other, payload_ncr_16. reflexivity.
  Qed.

  Lemma default_attr_escape_same : forall v11 c,
    payload (default_attr_escape F v11 c) = payload (default_attr_escape fam_utf16 v11 c).
  Proof.
    intros v11 c. unfold default_attr_escape. pose proof (default_entity_same c) as H.
    destruct (default_entity F c), (default_entity fam_utf16 c); try contradiction; [exact H|].
    destruct (c =? 34).
    - unfold F. cbn [f_const fam_other fam_utf16]. rewrite payload_o_str, payload_u16_block by reflexivity. reflexivity.
    - destruct (p_forbidden v11 c); [reflexivity|]. rewrite payload_ncr_other, payload_ncr_16. reflexivity.
  Qed.

  Lemma ref_shape : forall lit v11 c, xml_char v11 c = true -> c < 65536 -> shape lit v11 c (charref c) = true.
  Proof.
    intros lit v11 c Hx Hc. unfold shape. rewrite leqb_refl, Hx. destruct (c <? 65536) eqn:E; [|lia].
    cbn [andb]. apply orb_true_r.
  Qed.

  (* writeNormalizedCharBig for a non-surrogate unit above the table *)
  Lemma big_shape : forall v11 c r, p_range v11 c = true ->
    x_high c = false -> x_low c = false -> xml_char v11 c = true -> c < 65536 ->
    exists its e, normalized_big F v11 c r = (its, false) /\ payload its = Ok e /\
                  shape lit_attr v11 c e = true /\ shape lit_content v11 c e = true.
  Proof.
    intros v11 c r Er Hh Hl Hx Hc. unfold normalized_big. destruct (v11 && (c =? 8232)) eqn:E8.
    - assert (v11 = true /\ c = 8232) as [-> ->] by lia.
      exists (ncr F 8232), (charref 8232). split; [reflexivity|]. split; [apply payload_ncr_other|].
      split; apply ref_shape; auto.
    - unfold F. cbn [f_at fam_other]. unfold o_at, o_at_gen. change (is_high c) with (x_high c). change (is_low c) with (x_low c). rewrite Hh, Hl.
      destruct (rep c) eqn:Erep.
      + unfold o_code, other_split_gt. destruct (65535 <? c) eqn:E; [lia|].
        eexists. exists [c]. split; [reflexivity|]. split; [reflexivity|].
        pose proof (high_lit _ _ Er E8 Hh Hl Hx) as Hlit. unfold shape. cbn [leqb]. rewrite N.eqb_refl.
        rewrite Hlit, (lit_attr_content _ _ Hlit). split; reflexivity.
      + eexists. exists (charref c). split; [reflexivity|]. split.
        * unfold o_charref. cbn [payload]. rewrite app_nil_r. reflexivity.
        * split; apply ref_shape; auto.
  Qed.

  Lemma cso_shape : forall v11 c r,
    x_high c = false -> x_low c = false -> xml_char v11 c = true -> c < 65536 ->
    exists its e, content_step F v11 c r = (its, false) /\ payload its = Ok e /\
                  shape lit_content v11 c e = true.
  Proof.
    intros v11 c r Hh Hl Hx Hc. unfold content_step. destruct (p_range v11 c) eqn:Er.
    - destruct (big_shape v11 c r Er Hh Hl Hx Hc) as (its & e & A & B & _ & D). exists its, e. auto.
    - assert (Hle : c <= sp_last v11) by (unfold p_range in Er; lia).
      pose proof (sweep _ _ (sweep_content v11) c Hle) as H. unfold chk_content in H.
      rewrite Er, Hx in H. cbn [negb orb] in H. unfold cs, content_step in H. rewrite Er in H.
      destruct (negb (p_content v11 c)) eqn:Ec; cbn [fst] in H.
      + eexists. eexists. split; [reflexivity|]. unfold F. cbn [f_unit fam_other]. rewrite payload_o_unit.
        split; [reflexivity|]. destruct (rep c); [exact H | apply ref_shape; auto].
      + eexists. rewrite <- default_escape_same in H.
        destruct (payload (default_escape F v11 c)) as [e| |] eqn:E; try discriminate.
        exists e. split; [reflexivity|]. split; [exact E | exact H].
  Qed.

  Lemma aso_shape : forall v11 c r,
    x_high c = false -> x_low c = false -> xml_char v11 c = true -> c < 65536 ->
    exists its e, attr_step F v11 c r = (its, false) /\ payload its = Ok e /\
                  shape lit_attr v11 c e = true.
  Proof.
    intros v11 c r Hh Hl Hx Hc. unfold attr_step. destruct (p_range v11 c) eqn:Er.
    - destruct (big_shape v11 c r Er Hh Hl Hx Hc) as (its & e & A & B & D & _). exists its, e. auto.
    - assert (Hle : c <= sp_last v11) by (unfold p_range in Er; lia).
      pose proof (sweep _ _ (sweep_attr v11) c Hle) as H. unfold chk_attr in H.
      rewrite Er, Hx in H. cbn [negb orb] in H. unfold ats, attr_step in H. rewrite Er in H.
      destruct (negb (p_attribute v11 c)) eqn:Ec; cbn [fst] in H.
      + eexists. eexists. split; [reflexivity|]. unfold F. cbn [f_unit fam_other]. rewrite payload_o_unit.
        split; [reflexivity|]. destruct (rep c); [exact H | apply ref_shape; auto].
      + eexists. rewrite <- default_attr_escape_same in H.
        destruct (payload (default_attr_escape F v11 c)) as [e| |] eqn:E; try discriminate.
        exists e. split; [reflexivity|]. split; [exact E | exact H].
  Qed.

  (* a surrogate pair: both units, or one reference to the code point *)
  Lemma big_pair : forall v11 hi lo r, x_high hi = true -> x_low lo = true ->
    exists its e, normalized_big F v11 hi (lo :: r) = (its, true) /\ payload its = Ok e /\
                  (e = [hi; lo] \/ e = charref (decode_pair hi lo)).
  Proof.
    intros v11 hi lo r Hh Hl. destruct (sur_high v11 hi (or_introl Hh)) as (A1 & A2 & _).
    unfold normalized_big. rewrite A2. unfold F. cbn [f_at fam_other]. unfold o_at, o_at_gen.
    change (is_high hi) with (x_high hi). change (is_low lo) with (x_low lo). rewrite Hh, Hl.
    destruct (rep (decode_pair hi lo)).
    - eexists. exists [hi; lo]. split; [reflexivity|]. split; [apply payload_o_code_pair; assumption | left; reflexivity].
    - eexists. exists (charref (decode_pair hi lo)). split; [reflexivity|]. split.
      + unfold o_charref. cbn [payload]. rewrite app_nil_r. reflexivity.
      + right. reflexivity.
  Qed.

  Lemma charref_okunits : forall v11 n, forallb (okunit v11) (charref n) = true.
  Proof.
    intros v11 n. unfold charref. cbn [forallb]. rewrite forallb_app, (digits_ok v11 _ (decimal_digits n)).
    destruct v11; reflexivity.
  Qed.

  Lemma scan_content_pairref : forall v11 hi lo rest f, x_high hi = true -> x_low lo = true ->
    scan_content v11 (S f) false (charref (decode_pair hi lo) ++ rest) =
    option_map (fun t => hi :: lo :: t) (scan_content v11 f false rest).
  Proof.
    intros v11 hi lo rest f Hh Hl. unfold charref. cbn [app scan_content]. change (38 =? 38) with true. cbv iota.
    rewrite <- app_assoc. cbn [app]. rewrite parse_ref_charref by (apply decode_char; assumption).
    rewrite units_of_decode by assumption. destruct (scan_content v11 f false rest); reflexivity.
  Qed.

  Lemma scan_attr_pairref : forall v11 hi lo rest f, x_high hi = true -> x_low lo = true ->
    scan_attr v11 (S f) (charref (decode_pair hi lo) ++ rest) =
    option_map (fun t => hi :: lo :: t) (scan_attr v11 f rest).
  Proof.
    intros v11 hi lo rest f Hh Hl. unfold charref. cbn [app scan_attr]. change (38 =? 38) with true. cbv iota.
    rewrite <- app_assoc. cbn [app]. rewrite parse_ref_charref by (apply decode_char; assumption).
    rewrite units_of_decode by assumption. destruct (scan_attr v11 f rest); reflexivity.
  Qed.

  Definition small (s : list N) : bool := forallb (fun c => c <? 65536) s.

  Lemma cso_pair : forall v11 hi lo r, x_high hi = true -> x_low lo = true ->
    exists its e, content_step F v11 hi (lo :: r) = (its, true) /\ payload its = Ok e /\
                  (e = [hi; lo] \/ e = charref (decode_pair hi lo)).
  Proof.
    intros v11 hi lo r Hh Hl. destruct (sur_high v11 hi (or_introl Hh)) as (A1 & _ & _).
    unfold content_step. rewrite A1. apply big_pair; assumption.
  Qed.

  Lemma content_main_other : forall v11 s, wf_text v11 s = true -> small s = true ->
    exists bs, payload (write_content F v11 s) = Ok bs /\ forallb (okunit v11) bs = true /\
               forall f, (length bs < f)%nat -> scan_content v11 f false bs = Some s.
  Proof.
    intros v11. apply (wf_text_ind' v11 (fun s => small s = true ->
      exists bs, payload (write_content F v11 s) = Ok bs /\ forallb (okunit v11) bs = true /\
                 forall f, (length bs < f)%nat -> scan_content v11 f false bs = Some s)).
    - intros _. exists []. repeat split; try reflexivity. intros [|f] Hf; [cbn in Hf; lia | reflexivity].
    - intros hi lo r Hh Hl Hw IH Hsm. unfold small in Hsm. cbn [forallb] in Hsm.
      apply andb_true_iff in Hsm. destruct Hsm as [_ Hsm]. apply andb_true_iff in Hsm. destruct Hsm as [_ Hsm].
      destruct (IH Hsm) as (bs & Hp & Hok & Hs).
      destruct (cso_pair v11 hi lo r Hh Hl) as (its & e & St & Pl & He).
      assert (W : write_content F v11 (hi :: lo :: r) = its ++ write_content F v11 r).
      { unfold write_content. cbn [char_loop]. rewrite St. reflexivity. }
      exists (e ++ bs). rewrite W, payload_app, Pl, Hp. split; [reflexivity|].
      destruct (sur_high v11 hi (or_introl Hh)) as (_ & _ & A3).
      destruct (sur_high v11 lo (or_intror Hl)) as (_ & _ & B3).
      destruct He as [-> | ->].
      + split; [cbn [app forallb]; rewrite A3, B3, Hok; reflexivity|].
        intros [|f] Hf; cbn [app length] in Hf; [clear -Hf; lia|]. cbn [app].
        rewrite scan_content_pair by assumption. rewrite Hs by (clear -Hf; lia). reflexivity.
      + split; [rewrite forallb_app, charref_okunits, Hok; reflexivity|].
        intros [|f] Hf; [clear -Hf; lia|]. rewrite scan_content_pairref by assumption.
        rewrite Hs; [reflexivity|]. rewrite app_length in Hf. unfold charref in Hf. cbn [length] in Hf.
        clear -Hf. lia.
    - intros c r Hh Hl Hx Hw IH Hsm. unfold small in Hsm. cbn [forallb] in Hsm.
      apply andb_true_iff in Hsm. destruct Hsm as [Hc Hsm].
      destruct (IH Hsm) as (bs & Hp & Hok & Hs).
      destruct (cso_shape v11 c r Hh Hl Hx ltac:(lia)) as (its & e & St & Pl & Hsh).
      assert (W : write_content F v11 (c :: r) = its ++ write_content F v11 r).
      { unfold write_content. cbn [char_loop]. rewrite St. reflexivity. }
      exists (e ++ bs). rewrite W, payload_app, Pl, Hp. repeat split.
      + rewrite forallb_app, Hok, (shape_okunits _ _ _ _ (lit_content_ok v11) Hsh). reflexivity.
      + intros [|f] Hf; [clear -Hf; lia|]. rewrite (scan_content_shape _ _ _ _ _ Hsh Hok).
        rewrite Hs; [reflexivity|]. rewrite app_length in Hf.
        assert (length e <> 0)%nat.
        { apply shape_cases in Hsh. destruct Hsh as [[-> _]|[[_ ->]|[-> _]]]; try discriminate.
          unfold ent_of. destruct (c =? 60), (c =? 62), (c =? 38); discriminate. }
        clear -Hf H. lia.
  Qed.

  Theorem content_roundtrip_other : forall v11 s, wf_text v11 s = true -> small s = true ->
    exists bs, payload (write_content F v11 s) = Ok bs /\ parse_content v11 bs = Some s.
  Proof.
    intros v11 s Hw Hsm. destruct (content_main_other v11 s Hw Hsm) as (bs & Hp & Hok & Hs).
    exists bs. split; [exact Hp|]. unfold parse_content. rewrite (eol_norm_id _ _ Hok). apply Hs. lia.
  Qed.

  Lemma aso_pair : forall v11 hi lo r, x_high hi = true -> x_low lo = true ->
    exists its e, attr_step F v11 hi (lo :: r) = (its, true) /\ payload its = Ok e /\
                  (e = [hi; lo] \/ e = charref (decode_pair hi lo)).
  Proof.
    intros v11 hi lo r Hh Hl. destruct (sur_high v11 hi (or_introl Hh)) as (A1 & _ & _).
    unfold attr_step. rewrite A1. apply big_pair; assumption.
  Qed.

  Lemma attr_main_other : forall v11 s, wf_text v11 s = true -> small s = true ->
    exists bs, payload (write_attr_string F v11 s) = Ok bs /\ forallb (okunit v11) bs = true /\
               forall f, (length bs < f)%nat -> scan_attr v11 f bs = Some s.
  Proof.
    intros v11. apply (wf_text_ind' v11 (fun s => small s = true ->
      exists bs, payload (write_attr_string F v11 s) = Ok bs /\ forallb (okunit v11) bs = true /\
                 forall f, (length bs < f)%nat -> scan_attr v11 f bs = Some s)).
    - intros _. exists []. repeat split; try reflexivity. intros [|f] Hf; [cbn in Hf; lia | reflexivity].
    - intros hi lo r Hh Hl Hw IH Hsm. unfold small in Hsm. cbn [forallb] in Hsm.
      apply andb_true_iff in Hsm. destruct Hsm as [_ Hsm]. apply andb_true_iff in Hsm. destruct Hsm as [_ Hsm].
      destruct (IH Hsm) as (bs & Hp & Hok & Hs).
      destruct (aso_pair v11 hi lo r Hh Hl) as (its & e & St & Pl & He).
      assert (W : write_attr_string F v11 (hi :: lo :: r) = its ++ write_attr_string F v11 r).
      { unfold write_attr_string. cbn [char_loop]. rewrite St. reflexivity. }
      exists (e ++ bs). rewrite W, payload_app, Pl, Hp. split; [reflexivity|].
      destruct (sur_high v11 hi (or_introl Hh)) as (_ & _ & A3).
      destruct (sur_high v11 lo (or_intror Hl)) as (_ & _ & B3).
      destruct He as [-> | ->].
      + split; [cbn [app forallb]; rewrite A3, B3, Hok; reflexivity|].
        intros [|f] Hf; cbn [app length] in Hf; [clear -Hf; lia|]. cbn [app].
        rewrite scan_attr_pair by assumption. rewrite Hs by (clear -Hf; lia). reflexivity.
      + split; [rewrite forallb_app, charref_okunits, Hok; reflexivity|].
        intros [|f] Hf; [clear -Hf; lia|]. rewrite scan_attr_pairref by assumption.
        rewrite Hs; [reflexivity|]. rewrite app_length in Hf. unfold charref in Hf. cbn [length] in Hf.
        clear -Hf. lia.
    - intros c r Hh Hl Hx Hw IH Hsm. unfold small in Hsm. cbn [forallb] in Hsm.
      apply andb_true_iff in Hsm. destruct Hsm as [Hc Hsm].
      destruct (IH Hsm) as (bs & Hp & Hok & Hs).
      destruct (aso_shape v11 c r Hh Hl Hx ltac:(lia)) as (its & e & St & Pl & Hsh).
      assert (W : write_attr_string F v11 (c :: r) = its ++ write_attr_string F v11 r).
      { unfold write_attr_string. cbn [char_loop]. rewrite St. reflexivity. }
      exists (e ++ bs). rewrite W, payload_app, Pl, Hp. repeat split.
      + rewrite forallb_app, Hok, (shape_okunits _ _ _ _ (lit_attr_ok v11) Hsh). reflexivity.
      + intros [|f] Hf; [clear -Hf; lia|]. rewrite (scan_attr_shape _ _ _ _ _ Hsh).
        rewrite Hs; [reflexivity|]. rewrite app_length in Hf.
        assert (length e <> 0)%nat.
        { apply shape_cases in Hsh. destruct Hsh as [[-> _]|[[_ ->]|[-> _]]]; try discriminate.
          unfold ent_of. destruct (c =? 60), (c =? 62), (c =? 38); discriminate. }
        clear -Hf H. lia.
  Qed.

  Theorem attr_roundtrip_other : forall v11 s, wf_text v11 s = true -> small s = true ->
    exists bs, payload (write_attr_string F v11 s) = Ok bs /\ parse_attr v11 bs = Some s.
  Proof.
    intros v11 s Hw Hsm. destruct (attr_main_other v11 s Hw Hsm) as (bs & Hp & Hok & Hs).
    exists bs. split; [exact Hp|]. unfold parse_attr. rewrite (eol_norm_id _ _ Hok). apply Hs. lia.
  Qed.
End OtherFamily.

(* the two "other" encodings the factory selects *)
Lemma rep_ascii_low : forall c, c < 128 -> rep_ascii c = true.
Proof. intros c H. unfold rep_ascii. lia. Qed.
Lemma rep_latin1_low : forall c, c < 128 -> rep_latin1 c = true.
Proof. intros c H. unfold rep_latin1. lia. Qed.

Definition content_roundtrip_ascii := content_roundtrip_other rep_ascii rep_ascii_low.
Definition attr_roundtrip_ascii := attr_roundtrip_other rep_ascii rep_ascii_low.
Definition content_roundtrip_latin1 := content_roundtrip_other rep_latin1 rep_latin1_low.
Definition attr_roundtrip_latin1 := attr_roundtrip_other rep_latin1 rep_latin1_low.

(* [small] is needed: the model does not bound a code unit; a "unit" above 65535 that is a Char is
   accepted by wf_text, written as one reference and read back as a surrogate pair *)
Theorem content_roundtrip_other_big_refuted :
  wf_text false [65536] = true /\
  payload (write_content (fam_other rep_ascii) false [65536]) = Ok (charref 65536) /\
  parse_content false (charref 65536) = Some [55296; 56320].
Proof. vm_compute. repeat split; reflexivity. Qed.

(* ---- 4. CDATA sections -------------------------------------------------------------------------------- *)
(* the output alternates between CDATA sections and character references in plain content; the flag
   [o] = outsideCDATA *)
Definition cdl (v11 : bool) (s : list N) (o : bool) := cdata_loop fam_utf16 v11 s o.

Definition split3 (l : list N) : bool :=
  match l with c :: a :: b :: _ => (c =? 93) && (a =? 93) && (b =? 62) | _ => false end.

(* characters that leave the section and are written as a reference *)
Definition esc (v11 : bool) (c : N) : bool :=
  (c =? 13) || (v11 && ((c =? 133) || (c =? 8232) || p_crforbidden v11 c)).

Definition plain16 (v11 : bool) (c : N) (r : list N) (o : bool) : list item * bool :=
  if c =? 10 then let '(its, o') := cdl v11 r o in (u16_block [10] ++ its, o')
  else if p_forbidden v11 c then ([IThrow err_forbidden], o)
  else if esc v11 c then
    let '(its, o') := cdl v11 r true in
    ((if o then [] else u16_block s_cdata_close) ++ ncr fam_utf16 c ++ its, o')
  else
    let '(its, skip, o1) :=
      (let '(its, skip) := u16_at c r in ((if o then u16_block s_cdata_open else []) ++ its, skip, false)) in
    let '(its2, o2) :=
      if skip then match r with [] => ([], o1) | _ :: r' => cdl v11 r' o1 end else cdl v11 r o1 in
    (its ++ its2, o2).

Lemma cdl_unfold : forall v11 c r o,
  cdl v11 (c :: r) o =
  if split3 (c :: r) then
    match r with
    | _ :: _ :: r'' =>
        let '(its, o') := cdl v11 r'' false in
        ((if o then u16_block s_cdata_open else []) ++ u16_unit 93 ++ u16_unit 93 ++
         u16_block s_cdata_close ++ u16_block s_cdata_open ++ u16_unit 62 ++ its, o')
    | _ => plain16 v11 c r o
    end
  else plain16 v11 c r o.
Proof.
  intros v11 c r o. unfold cdl. cbn [cdata_loop]. destruct r as [|a [|b r'']].
  - cbn [split3]. destruct (c =? 93); [destruct (longer_than cdata_lookahead_gt [c])|]; reflexivity.
  - cbn [split3]. destruct (c =? 93); [destruct (longer_than cdata_lookahead_gt [c; a])|]; reflexivity.
  - cbn [split3]. change (longer_than cdata_lookahead_gt (c :: a :: b :: r'')) with true.
    destruct (c =? 93); cbn [andb]; [|reflexivity].
    destruct ((a =? 93) && (b =? 62)); reflexivity.
Qed.

Definition eolfree (v11 : bool) (b : N) : bool :=
  negb (b =? 13) && negb (v11 && ((b =? 133) || (b =? 8232))).

Lemma eol_norm_free : forall v11 bs, forallb (eolfree v11) bs = true -> eol_norm v11 bs = bs.
Proof.
  induction bs as [|c r IH]; intros H; [reflexivity|].
  cbn [forallb] in H. apply andb_true_iff in H. destruct H as [H1 H2].
  cbn [eol_norm]. unfold eolfree in H1.
  destruct (c =? 13) eqn:E1; [cbn in H1; lia|].
  destruct (v11 && ((c =? 133) || (c =? 8232))) eqn:E2; [rewrite andb_false_r in H1; discriminate|].
  rewrite IH; auto.
Qed.

Lemma okunit_eolfree : forall v11 l, forallb (okunit v11) l = true -> forallb (eolfree v11) l = true.
Proof.
  intros v11 l H. apply forallb_forall. intros x Hx. rewrite forallb_forall in H. specialize (H x Hx).
  unfold okunit in H. unfold eolfree. destruct v11; lia.
Qed.

Lemma not_esc_eolfree : forall v11 c, esc v11 c = false -> eolfree v11 c = true.
Proof. intros v11 c H. unfold esc in H. unfold eolfree. destruct v11; lia. Qed.

(* table sweeps for CDATA *)
Lemma sweep_crf_1_1 :
  forallb (fun c => p_crforbidden true c || negb (restricted_char true c)) (upto (sp_last true)) = true.
Proof. vm_compute. reflexivity. Qed.

Lemma char_not_forbidden : forall v11 c, xml_char v11 c = true -> p_forbidden v11 c = false.
Proof.
  intros [|] c Hx; [apply no_forbidden_1_1|]. destruct (sp_last false <? c) eqn:E.
  - unfold p_forbidden. rewrite E. reflexivity.
  - rewrite forbidden_iff_not_char_1_0', Hx; [reflexivity|]. unfold sp_last, last_special_1_0 in E. lia.
Qed.

Lemma cdata_lit : forall v11 c, xml_char v11 c = true -> esc v11 c = false -> literal_ok v11 c = true.
Proof.
  intros v11 c Hx Hg. unfold literal_ok. rewrite Hx. destruct v11; [|reflexivity].
  destruct (sp_last true <? c) eqn:E.
  - unfold restricted_char, x_in, sp_last, last_special_1_1 in *. lia.
  - pose proof (sweep _ _ sweep_crf_1_1 c ltac:(lia)) as H. cbv beta in H.
    unfold esc in Hg. assert (Hc : p_crforbidden true c = false) by lia. rewrite Hc in H.
    cbn [orb] in H. rewrite H. reflexivity.
Qed.

Lemma esc_small : forall v11 c, esc v11 c = true -> c < 65536 /\ (c =? 93) = false /\ (c =? 10) = false.
Proof.
  intros v11 c H. unfold esc in H. destruct (sp_last v11 <? c) eqn:E.
  - unfold p_crforbidden in H. rewrite E in H. lia.
  - assert (B : c <= 159) by (unfold sp_last, last_special_1_0, last_special_1_1 in E; destruct v11; lia).
    split; [lia|]. destruct (c =? 93) eqn:E93.
    + apply N.eqb_eq in E93. subst c. destruct v11; vm_compute in H; discriminate.
    + destruct (c =? 10) eqn:E10; [|auto]. apply N.eqb_eq in E10. subst c. destruct v11; vm_compute in H; discriminate.
Qed.

Lemma sur_facts : forall v11 c, x_high c = true \/ x_low c = true ->
  (c =? 10) = false /\ (c =? 93) = false /\ p_forbidden v11 c = false /\ esc v11 c = false /\
  eolfree v11 c = true.
Proof.
  intros v11 c H. destruct (sur_high v11 c H) as (A1 & _ & _). unfold p_range in A1.
  unfold esc, eolfree, p_forbidden, p_crforbidden. rewrite A1.
  unfold x_high, x_low, x_in in H. destruct v11; lia.
Qed.

(* payload and final flag of the loop *)
Definition cB (v11 : bool) (s : list N) (o : bool) : res (list N) := payload (fst (cdl v11 s o)).
Definition cO (v11 : bool) (s : list N) (o : bool) : bool := snd (cdl v11 s o).

Definition lift (pre : list N) (r : res (list N)) : res (list N) :=
  match r with Ok y => Ok (pre ++ y) | Oob => Oob | Thrown k => Thrown k end.

Lemma payload_app_ok : forall a b x, payload a = Ok x -> payload (a ++ b) = lift x (payload b).
Proof. intros a b x H. rewrite payload_app, H. unfold lift. destruct (payload b); reflexivity. Qed.

Definition opn (o : bool) : list N := if o then s_cdata_open else [].

Lemma cdl_split : forall v11 r o,
  cB v11 (93 :: 93 :: 62 :: r) o =
    lift (opn o ++ [93; 93] ++ s_cdata_close ++ s_cdata_open ++ [62]) (cB v11 r false) /\
  cO v11 (93 :: 93 :: 62 :: r) o = cO v11 r false.
Proof.
  intros v11 r o. unfold cB, cO. rewrite cdl_unfold. cbn [split3]. change (93 =? 93) with true.
  change (62 =? 62) with true. cbn [andb]. cbv iota. destruct (cdl v11 r false) as [its o']. cbn [fst snd].
  split; [|reflexivity].
  replace ((if o then u16_block s_cdata_open else []) ++ u16_unit 93 ++ u16_unit 93 ++
           u16_block s_cdata_close ++ u16_block s_cdata_open ++ u16_unit 62 ++ its)
    with (((if o then u16_block s_cdata_open else []) ++ u16_unit 93 ++ u16_unit 93 ++
           u16_block s_cdata_close ++ u16_block s_cdata_open ++ u16_unit 62) ++ its)
    by (rewrite <- !app_assoc; reflexivity).
  apply payload_app_ok. rewrite !payload_app, !payload_u16_unit, !payload_u16_block.
  destruct o; cbn [opn]; rewrite ?payload_u16_block; reflexivity.
Qed.

Lemma cdl_newline : forall v11 r o,
  cB v11 (10 :: r) o = lift [10] (cB v11 r o) /\ cO v11 (10 :: r) o = cO v11 r o.
Proof.
  intros v11 r o. unfold cB, cO. rewrite cdl_unfold.
  assert (E : split3 (10 :: r) = false) by (destruct r as [|a [|b r]]; reflexivity).
  rewrite E. unfold plain16. change (10 =? 10) with true. cbv iota.
  destruct (cdl v11 r o) as [its o']. cbn [fst snd]. split; [|reflexivity].
  apply payload_app_ok. apply payload_u16_block.
Qed.

Lemma payload_ncr16 : forall c, payload (ncr fam_utf16 c) = Ok (charref c).
Proof.
  intros c. unfold ncr. cbn [f_unit f_str fam_utf16].
  rewrite !payload_app, !payload_u16_unit, payload_u16_block. reflexivity.
Qed.

Definition cls (o : bool) : list N := if o then [] else s_cdata_close.

Lemma cdl_esc : forall v11 c r o, p_forbidden v11 c = false -> esc v11 c = true ->
  cB v11 (c :: r) o = lift (cls o ++ charref c) (cB v11 r true) /\ cO v11 (c :: r) o = cO v11 r true.
Proof.
  intros v11 c r o Hf He. destruct (esc_small _ _ He) as (_ & E93 & E10). unfold cB, cO. rewrite cdl_unfold.
  assert (E : split3 (c :: r) = false) by (destruct r as [|a [|b r]]; cbn [split3]; rewrite ?E93; reflexivity).
  rewrite E. unfold plain16. rewrite E10, Hf, He.
  destruct (cdl v11 r true) as [its o']. cbn [fst snd]. split; [|reflexivity].
  rewrite app_assoc. apply payload_app_ok. rewrite payload_app, payload_ncr16.
  destruct o; cbn [cls]; rewrite ?payload_u16_block; reflexivity.
Qed.

Lemma cdl_ord : forall v11 c r o, split3 (c :: r) = false -> (c =? 10) = false ->
  p_forbidden v11 c = false -> esc v11 c = false -> x_high c = false -> x_low c = false ->
  cB v11 (c :: r) o = lift (opn o ++ [c]) (cB v11 r false) /\ cO v11 (c :: r) o = cO v11 r false.
Proof.
  intros v11 c r o E E10 Hf He Hh Hl. unfold cB, cO. rewrite cdl_unfold, E. unfold plain16.
  rewrite E10, Hf, He, (u16_at_plain c r Hh Hl). cbv iota beta.
  destruct (cdl v11 r false) as [its o']. cbn [fst snd]. split; [|reflexivity].
  apply payload_app_ok. rewrite payload_app, payload_u16_unit.
  destruct o; cbn [opn]; rewrite ?payload_u16_block; reflexivity.
Qed.

Lemma cdl_pair : forall v11 hi lo r o, x_high hi = true -> x_low lo = true ->
  cB v11 (hi :: lo :: r) o = lift (opn o ++ [hi; lo]) (cB v11 r false) /\
  cO v11 (hi :: lo :: r) o = cO v11 r false.
Proof.
  intros v11 hi lo r o Hh Hl. destruct (sur_facts v11 hi (or_introl Hh)) as (E10 & E93 & Hf & He & _).
  unfold cB, cO. rewrite cdl_unfold.
  assert (E : split3 (hi :: lo :: r) = false) by (destruct r as [|b r]; cbn [split3]; rewrite ?E93; reflexivity).
  rewrite E. unfold plain16. rewrite E10, Hf, He, (u16_at_pair hi lo r Hh Hl). cbv iota beta.
  destruct (cdl v11 r false) as [its o']. cbn [fst snd]. split; [|reflexivity].
  apply payload_app_ok. rewrite payload_app. cbn [u16_unit app payload].
  destruct o; cbn [opn]; rewrite ?payload_u16_block; reflexivity.
Qed.

(* the reader *)
Lemma scan_cdata_lit : forall v11 c rest f, x_high c = false -> x_low c = false ->
  literal_ok v11 c = true -> starts_with [93; 93; 62] (c :: rest) = None ->
  scan_content v11 (S f) true (c :: rest) = option_map (cons c) (scan_content v11 f true rest).
Proof. intros v11 c rest f H1 H2 H3 H4. cbn [scan_content]. rewrite H4, H1, H2, H3. reflexivity. Qed.

Lemma scan_cdata_pair : forall v11 hi lo rest f, x_high hi = true -> x_low lo = true ->
  scan_content v11 (S f) true (hi :: lo :: rest) =
  option_map (fun t => hi :: lo :: t) (scan_content v11 f true rest).
Proof.
  intros v11 hi lo rest f Hh Hl. cbn [scan_content starts_with]. rewrite Hh, Hl.
  unfold x_high, x_in in Hh. destruct (93 =? hi) eqn:E3; [lia|]. reflexivity.
Qed.

Lemma scan_cdata_split : forall v11 rest f,
  scan_content v11 (S (S (S (S (S f))))) true
    ([93; 93] ++ s_cdata_close ++ s_cdata_open ++ 62 :: rest) =
  option_map (fun t => 93 :: 93 :: 62 :: t) (scan_content v11 f true rest).
Proof.
  intros v11 rest f. destruct v11; cbn; destruct (scan_content _ f true rest); reflexivity.
Qed.

Lemma scan_open : forall v11 f rest,
  scan_content v11 (S f) false (s_cdata_open ++ rest) = scan_content v11 f true rest.
Proof. reflexivity. Qed.

Lemma scan_close : forall v11 f rest,
  scan_content v11 (S f) true (s_cdata_close ++ rest) = scan_content v11 f false rest.
Proof. reflexivity. Qed.

Lemma scan_newline : forall v11 f m rest,
  scan_content v11 (S f) m (10 :: rest) = option_map (cons 10) (scan_content v11 f m rest).
Proof. intros [|] f [|] rest; reflexivity. Qed.

Lemma scan_ref : forall v11 c rest f, xml_char v11 c = true -> c < 65536 ->
  scan_content v11 (S f) false (charref c ++ rest) = option_map (cons c) (scan_content v11 f false rest).
Proof.
  intros v11 c rest f H1 H2. unfold charref. cbn [app scan_content]. change (38 =? 38) with true. cbv iota.
  rewrite <- app_assoc. cbn [app]. rewrite parse_ref_charref by exact H1.
  unfold units_of_cp. destruct (c <? 65536) eqn:E; [|lia]. destruct (scan_content v11 f false rest); reflexivity.
Qed.

Lemma charref_eolfree : forall v11 n, forallb (eolfree v11) (charref n) = true.
Proof.
  intros v11 n. apply okunit_eolfree. unfold charref. cbn [forallb].
  rewrite forallb_app, (digits_ok v11 _ (decimal_digits n)). destruct v11; reflexivity.
Qed.

Lemma charref_length : forall n, (2 <= length (charref n))%nat.
Proof. intros n. unfold charref. cbn [length]. lia. Qed.

(* first units of what follows a literal ']' *)
Definition st1 (l : list N) : bool := match l with a :: _ => a =? 62 | [] => false end.
Definition st2 (l : list N) : bool :=
  match l with a :: b :: _ => (a =? 93) && (b =? 62) | _ => false end.

Lemma st2_cons : forall c l, st2 (c :: l) = (c =? 93) && st1 l.
Proof. intros c [|b l]; cbn [st2 st1]; [rewrite andb_false_r|]; reflexivity. Qed.

Lemma bracket_safe : forall c K, ((c =? 93) && st2 K) = false -> starts_with [93; 93; 62] (c :: K) = None.
Proof.
  intros c K H. cbn [starts_with]. rewrite (N.eqb_sym 93 c). destruct (c =? 93); [|reflexivity].
  cbn [andb] in H. destruct K as [|a [|b K]]; [reflexivity| |].
  - destruct (93 =? a); reflexivity.
  - cbn [st2] in H. rewrite (N.eqb_sym 93 a), (N.eqb_sym 62 b). destruct (a =? 93); [|reflexivity].
    cbn [andb] in H. rewrite H. reflexivity.
Qed.

Definition inv (s K : list N) : Prop := (st1 K = true -> st1 s = true) /\ (st2 K = true -> st2 s = true).

Lemma inv_head : forall s c K, (c =? 62) = false -> (c =? 93) = false -> inv s (c :: K).
Proof.
  intros s c K H1 H2. split; intros H; exfalso.
  - cbn [st1] in H. congruence.
  - rewrite st2_cons, H2 in H. discriminate.
Qed.

Lemma cdata_main : forall v11 n s o, (length s <= n)%nat -> wf_text v11 s = true ->
  exists body, cB v11 s o = Ok body /\ forallb (eolfree v11) body = true /\
    (o = false -> inv s (body ++ cls (cO v11 s o))) /\
    forall f, (length body + 1 < f)%nat ->
      scan_content v11 f (negb o) (body ++ cls (cO v11 s o)) = Some s.
Proof.
  intros v11. induction n as [|n IH]; intros s o Hlen Hw.
  { destruct s; [|cbn in Hlen; lia]. exists []. split; [reflexivity|]. split; [reflexivity|].
    split; [intros ->; split; intros H; discriminate H|].
    intros f Hf. destruct o; destruct f as [|[|f]]; cbn in Hf; try lia; reflexivity. }
  destruct s as [|c r].
  { exists []. split; [reflexivity|]. split; [reflexivity|].
    split; [intros ->; split; intros H; discriminate H|].
    intros f Hf. destruct o; destruct f as [|[|f]]; cbn in Hf; try lia; reflexivity. }
  destruct (split3 (c :: r)) eqn:Es.
  - (* "]]>" *)
    destruct r as [|a [|b r]]; try discriminate. cbn [split3] in Es.
    assert (c = 93 /\ a = 93 /\ b = 62) as (-> & -> & ->) by lia.
    assert (Hw' : wf_text v11 r = true).
    { cbn [wf_text] in Hw. change (x_high 93) with false in Hw. change (x_low 93) with false in Hw.
      change (x_high 62) with false in Hw. change (x_low 62) with false in Hw. cbv iota in Hw.
      repeat (apply andb_true_iff in Hw; destruct Hw as [_ Hw]). exact Hw. }
    destruct (IH r false ltac:(cbn [length] in Hlen; lia) Hw') as (body & Hp & He & _ & Hsc).
    destruct (cdl_split v11 r o) as [PB PO]. rewrite PB, PO, Hp. cbn [lift].
    eexists. split; [reflexivity|]. split.
    { rewrite !forallb_app, He. destruct o, v11; reflexivity. }
    split.
    { intros ->. cbn [opn app]. split; intros H; discriminate H. }
    intros f Hf. rewrite !app_length in Hf. unfold s_cdata_close, s_cdata_open in Hf. cbn [length] in Hf.
    rewrite <- !app_assoc.
    destruct o; cbn [opn negb].
    + destruct f as [|f]; [clear -Hf; lia|]. rewrite scan_open.
      do 5 (destruct f as [|f]; [clear -Hf; cbn [length] in Hf; lia|]).
      change ([62] ++ body ++ cls (cO v11 r false)) with (62 :: body ++ cls (cO v11 r false)).
      rewrite scan_cdata_split. rewrite Hsc by (clear -Hf; cbn [length] in Hf; lia). reflexivity.
    + cbn [app]. do 5 (destruct f as [|f]; [clear -Hf; cbn [length] in Hf; lia|]).
      change (93 :: 93 :: s_cdata_close ++ s_cdata_open ++ 62 :: body ++ cls (cO v11 r false))
        with ([93; 93] ++ s_cdata_close ++ s_cdata_open ++ 62 :: (body ++ cls (cO v11 r false))).
      rewrite scan_cdata_split. rewrite Hsc by (clear -Hf; cbn [length] in Hf; lia). reflexivity.
  - cbn [wf_text] in Hw. destruct (x_high c) eqn:Eh.
    + (* surrogate pair *)
      destruct r as [|lo r]; [discriminate|]. apply andb_true_iff in Hw. destruct Hw as [El Hw].
      destruct (IH r false ltac:(cbn [length] in Hlen; lia) Hw) as (body & Hp & He & _ & Hsc).
      destruct (cdl_pair v11 c lo r o Eh El) as [PB PO]. rewrite PB, PO, Hp. cbn [lift].
      destruct (sur_facts v11 c (or_introl Eh)) as (_ & E93 & _ & _ & F1).
      destruct (sur_facts v11 lo (or_intror El)) as (_ & _ & _ & _ & F2).
      eexists. split; [reflexivity|]. split.
      { rewrite !forallb_app. cbn [forallb]. rewrite He, F1, F2. destruct o, v11; reflexivity. }
      split.
      { intros ->. cbn [opn app]. split; intros H; exfalso.
        - cbn [st1] in H. unfold x_high, x_in in Eh. lia.
        - cbn [st2] in H. rewrite E93 in H. discriminate. }
      intros f Hf. rewrite !app_length in Hf. cbn [length] in Hf. rewrite <- !app_assoc.
      destruct o; cbn [opn negb].
      * cbn [opn] in Hf. unfold s_cdata_open in Hf. cbn [length] in Hf.
        destruct f as [|f]; [clear -Hf; lia|]. rewrite scan_open.
        destruct f as [|f]; [clear -Hf; lia|]. cbn [app].
        rewrite scan_cdata_pair by assumption. rewrite Hsc by (clear -Hf; lia). reflexivity.
      * destruct f as [|f]; [clear -Hf; lia|]. cbn [app].
        rewrite scan_cdata_pair by assumption. rewrite Hsc by (clear -Hf; cbn [length] in Hf; lia). reflexivity.
    + destruct (x_low c) eqn:El; [discriminate|]. apply andb_true_iff in Hw. destruct Hw as [Hx Hw].
      pose proof (char_not_forbidden _ _ Hx) as Hnf.
      destruct (c =? 10) eqn:E10.
      { (* line feed: the flag is kept *)
        apply N.eqb_eq in E10. subst c.
        destruct (IH r o ltac:(cbn [length] in Hlen; lia) Hw) as (body & Hp & He & _ & Hsc).
        destruct (cdl_newline v11 r o) as [PB PO]. rewrite PB, PO, Hp. cbn [lift].
        eexists. split; [reflexivity|]. split.
        { cbn [app forallb]. rewrite He. destruct v11; reflexivity. }
        split.
        { intros _. apply (inv_head _ 10 (body ++ cls (cO v11 r o))); reflexivity. }
        intros f Hf. cbn [app length] in Hf. destruct f as [|f]; [clear -Hf; lia|]. cbn [app].
        rewrite scan_newline. rewrite Hsc by (clear -Hf; lia). reflexivity. }
      destruct (esc v11 c) eqn:Ee.
      { (* leave the section, reference *)
        destruct (IH r true ltac:(cbn [length] in Hlen; lia) Hw) as (body & Hp & He & _ & Hsc).
        destruct (cdl_esc v11 c r o Hnf Ee) as [PB PO]. rewrite PB, PO, Hp. cbn [lift].
        destruct (esc_small _ _ Ee) as (Hsm & _ & _).
        eexists. split; [reflexivity|]. split.
        { rewrite !forallb_app, He, charref_eolfree. destruct o, v11; reflexivity. }
        split.
        { intros ->. cbn [cls]. unfold s_cdata_close. cbn [app]. split; intros H; discriminate H. }
        intros f Hf. rewrite !app_length in Hf. pose proof (charref_length c) as Hcl.
        rewrite <- !app_assoc. cbn [negb] in Hsc.
        destruct o; cbn [cls negb].
        * cbn [app]. destruct f as [|f]; [clear -Hf; lia|].
          rewrite scan_ref by assumption. rewrite Hsc by (clear -Hf Hcl; cbn [length] in Hf; lia). reflexivity.
        * destruct f as [|f]; [clear -Hf; lia|]. rewrite scan_close.
          destruct f as [|f]; [clear -Hf Hcl; unfold s_cdata_close in Hf; cbn [length] in Hf; lia|].
          rewrite scan_ref by assumption.
          rewrite Hsc by (clear -Hf Hcl; unfold s_cdata_close in Hf; cbn [length] in Hf; lia). reflexivity. }
      (* an ordinary character, inside a section *)
      destruct (IH r false ltac:(cbn [length] in Hlen; lia) Hw) as (body & Hp & He & Hinv & Hsc).
      destruct (cdl_ord v11 c r o Es E10 Hnf Ee Eh El) as [PB PO]. rewrite PB, PO, Hp. cbn [lift].
      destruct (Hinv eq_refl) as [I1 I2].
      assert (Hsafe : starts_with [93; 93; 62] (c :: body ++ cls (cO v11 r false)) = None).
      { apply bracket_safe. destruct (c =? 93) eqn:E93; [|reflexivity]. cbn [andb].
        destruct (st2 (body ++ cls (cO v11 r false))) eqn:E2; [|reflexivity].
        specialize (I2 eq_refl). apply N.eqb_eq in E93. subst c.
        destruct r as [|a [|b r]]; cbn [st2] in I2; try discriminate.
        cbn [split3] in Es. change (93 =? 93) with true in Es. cbn [andb] in Es. congruence. }
      eexists. split; [reflexivity|]. split.
      { rewrite !forallb_app. cbn [forallb]. rewrite He, (not_esc_eolfree _ _ Ee). destruct o, v11; reflexivity. }
      split.
      { intros ->. cbn [opn app]. split; intros H.
        - exact H.
        - rewrite st2_cons in *. apply andb_true_iff in H. destruct H as [H1 H2].
          rewrite H1, (I1 H2). reflexivity. }
      intros f Hf. rewrite !app_length in Hf. cbn [length] in Hf. rewrite <- !app_assoc.
      destruct o; cbn [opn negb].
      * cbn [opn] in Hf. unfold s_cdata_open in Hf. cbn [length] in Hf.
        destruct f as [|f]; [clear -Hf; lia|]. rewrite scan_open.
        destruct f as [|f]; [clear -Hf; lia|]. cbn [app].
        rewrite scan_cdata_lit; auto using cdata_lit. rewrite Hsc by (clear -Hf; lia). reflexivity.
      * destruct f as [|f]; [clear -Hf; lia|]. cbn [app].
        rewrite scan_cdata_lit; auto using cdata_lit.
        rewrite Hsc by (clear -Hf; cbn [length] in Hf; lia). reflexivity.
Qed.

Theorem cdata_roundtrip : forall v11 s, wf_text v11 s = true ->
  exists bs, payload (write_cdata fam_utf16 v11 s) = Ok bs /\ parse_content v11 bs = Some s.
Proof.
  intros v11 s Hw.
  destruct (cdata_main v11 (length s) s false (le_n _) Hw) as (body & Hp & He & _ & Hsc).
  exists (s_cdata_open ++ body ++ cls (cO v11 s false)). split.
  - unfold write_cdata. unfold cB, cO, cdl in *. destruct (cdata_loop fam_utf16 v11 s false) as [its o].
    cbn [fst snd] in *. cbn [f_const fam_utf16]. rewrite !payload_app, payload_u16_block, Hp.
    destruct o; cbn [cls]; rewrite ?payload_u16_block; reflexivity.
  - unfold parse_content. rewrite eol_norm_free.
    + rewrite scan_open. apply Hsc. rewrite !app_length. unfold s_cdata_open. cbn [length]. lia.
    + rewrite !forallb_app, He. destruct (cO v11 s false), v11; reflexivity.
Qed.

(* XML 1.1, "a" CR "]]>" U+0001 "b":
   <![CDATA[a]]>&#13;<![CDATA[]]]]><![CDATA[>]]>&#1;<![CDATA[b]]> *)
Theorem cdata_mixed_instance :
  payload (write_cdata fam_utf16 true [97; 13; 93; 93; 62; 1; 98]) =
    Ok (s_cdata_open ++ [97] ++ s_cdata_close ++ charref 13 ++
        s_cdata_open ++ [93; 93] ++ s_cdata_close ++ s_cdata_open ++ [62] ++ s_cdata_close ++ charref 1 ++
        s_cdata_open ++ [98] ++ s_cdata_close) /\
  parse_content true
       (s_cdata_open ++ [97] ++ s_cdata_close ++ charref 13 ++
        s_cdata_open ++ [93; 93] ++ s_cdata_close ++ s_cdata_open ++ [62] ++ s_cdata_close ++ charref 1 ++
        s_cdata_open ++ [98] ++ s_cdata_close) = Some [97; 13; 93; 93; 62; 1; 98].
Proof. vm_compute. split; reflexivity. Qed.

(* ---- 6. comments ---------------------------------------------------------------------------------------- *)
(* an unrepresentable character in a comment is an exception, not a reference *)
Theorem comment_unrepresentable_fails :
  payload (write_comment (fam_other rep_ascii) false [120; 8364]) = Thrown err_unrepresentable.
Proof. vm_compute. reflexivity. Qed.

Lemma payload_app_inv : forall a b z, payload (a ++ b) = Ok z ->
  exists x y, payload a = Ok x /\ payload b = Ok y /\ z = x ++ y.
Proof.
  intros a b z H. rewrite payload_app in H. destruct (payload a) as [x| |]; try discriminate.
  destruct (payload b) as [y| |]; try discriminate. exists x, y. repeat split. congruence.
Qed.

Lemma sur_paired_app_cons : forall n a c r, (length a <= n)%nat -> x_high c = false -> x_low c = false ->
  sur_paired (a ++ c :: r) = sur_paired a && sur_paired r.
Proof.
  induction n as [|n IH]; intros a c r Hlen Hh Hl.
  { destruct a; [|cbn in Hlen; lia]. cbn [app sur_paired]. rewrite Hh, Hl. reflexivity. }
  destruct a as [|x a]; [cbn [app sur_paired]; rewrite Hh, Hl; reflexivity|].
  cbn [app sur_paired]. destruct (x_high x).
  - destruct a as [|lo a]; cbn [app]; [rewrite Hl; reflexivity|].
    rewrite IH by (cbn [length] in Hlen; lia || assumption). rewrite andb_assoc. reflexivity.
  - destruct (x_low x); [reflexivity|]. apply IH; auto. cbn [length] in Hlen. lia.
Qed.

Lemma small_app : forall a b, small (a ++ b) = small a && small b.
Proof. intros a b. unfold small. apply forallb_app. Qed.

Lemma u16_chars_paired : forall l, sur_paired l = true -> payload (u16_chars l) = Ok l.
Proof.
  apply sur_paired_ind'.
  - reflexivity.
  - intros hi lo r Hh Hl _ IH. unfold u16_chars in *. cbn [at_loop]. rewrite (u16_at_pair hi lo r Hh Hl).
    rewrite payload_app, IH. reflexivity.
  - intros c r Hh Hl _ IH. unfold u16_chars in *. cbn [at_loop]. rewrite (u16_at_plain c r Hh Hl).
    rewrite payload_app, IH. reflexivity.
Qed.

Lemma normalized_loop_16 : forall v11 l run_rev, sur_paired (rev run_rev ++ l) = true ->
  (forall c, In c l -> p_comment_error v11 c = false) ->
  payload (normalized_loop fam_utf16 v11 l run_rev) = Ok (rev run_rev ++ l).
Proof.
  intros v11. induction l as [|c r IH]; intros run_rev Hp Hc.
  - cbn [normalized_loop f_comment fam_utf16]. rewrite app_nil_r in *. apply u16_chars_paired. exact Hp.
  - cbn [normalized_loop]. destruct (c =? 10) eqn:E10.
    + apply N.eqb_eq in E10. subst c.
      rewrite (sur_paired_app_cons (length (rev run_rev))) in Hp by (reflexivity || apply le_n).
      apply andb_true_iff in Hp. destruct Hp as [P1 P2].
      cbn [f_comment f_newline fam_utf16]. rewrite !payload_app, (u16_chars_paired _ P1), payload_u16_block.
      rewrite (IH [] P2) by (intros x Hx; apply Hc; right; exact Hx). reflexivity.
    + rewrite (Hc c (or_introl eq_refl)). rewrite IH.
      * cbn [rev]. rewrite <- app_assoc. reflexivity.
      * cbn [rev]. rewrite <- app_assoc. exact Hp.
      * intros x Hx. apply Hc. right. exact Hx.
Qed.

Theorem comment_verbatim : forall v11 s, wf_text v11 s = true ->
  (forall c, In c s -> p_comment_error v11 c = false) ->
  payload (write_comment fam_utf16 v11 s) = Ok ([60; 33; 45; 45] ++ s ++ [45; 45; 62]).
Proof.
  intros v11 s Hw Hc. unfold write_comment, write_normalized_data. rewrite !payload_app.
  rewrite (normalized_loop_16 v11 s [] (wf_text_paired _ _ Hw) Hc). reflexivity.
Qed.

Section CommentOther.
  Variable rep : N -> bool.
  Hypothesis rep_low : forall c, c < 128 -> rep c = true.

  Lemma o_name_ok : forall l, sur_paired l = true -> small l = true ->
    forall x, payload (o_name rep l) = Ok x -> x = l.
  Proof.
    apply (sur_paired_ind' (fun l => small l = true -> forall x, payload (o_name rep l) = Ok x -> x = l)).
    - intros _ x H. cbn in H. congruence.
    - intros hi lo r Hh Hl _ IH Hsm x H. unfold small in Hsm. cbn [forallb] in Hsm.
      apply andb_true_iff in Hsm. destruct Hsm as [_ Hsm]. apply andb_true_iff in Hsm. destruct Hsm as [_ Hsm].
      unfold o_name in *. cbn [at_loop] in H. unfold o_at_name at 1, o_at_gen in H.
      change (is_high hi) with (x_high hi) in H. change (is_low lo) with (x_low lo) in H.
      rewrite Hh, Hl in H. destruct (rep (decode_pair hi lo)).
      + apply payload_app_inv in H. destruct H as (a & b & Ha & Hb & ->).
        rewrite (payload_o_code_pair rep rep_low hi lo Hh Hl) in Ha. injection Ha as <-. rewrite (IH Hsm b Hb). reflexivity.
      + cbn in H. discriminate.
    - intros c r Hh Hl _ IH Hsm x H. unfold small in Hsm. cbn [forallb] in Hsm.
      apply andb_true_iff in Hsm. destruct Hsm as [Hc Hsm].
      unfold o_name in *. cbn [at_loop] in H. unfold o_at_name at 1, o_at_gen in H.
      change (is_high c) with (x_high c) in H. change (is_low c) with (x_low c) in H.
      rewrite Hh, Hl in H. destruct (rep c).
      + apply payload_app_inv in H. destruct H as (a & b & Ha & Hb & ->).
        unfold o_code, other_split_gt in Ha. destruct (65535 <? c) eqn:E; [lia|].
        cbn in Ha. injection Ha as <-. rewrite (IH Hsm b Hb). reflexivity.
      + cbn in H. discriminate.
  Qed.

  Lemma normalized_loop_other : forall v11 l run_rev bs,
    sur_paired (rev run_rev ++ l) = true -> small (rev run_rev ++ l) = true ->
    payload (normalized_loop (fam_other rep) v11 l run_rev) = Ok bs -> bs = rev run_rev ++ l.
  Proof.
    intros v11. induction l as [|c r IH]; intros run_rev bs Hp Hs H.
    - cbn [normalized_loop f_comment fam_other] in H. rewrite app_nil_r in *. apply o_name_ok; assumption.
    - cbn [normalized_loop] in H. destruct (c =? 10) eqn:E10.
      + apply N.eqb_eq in E10. subst c.
        rewrite (sur_paired_app_cons (length (rev run_rev))) in Hp by (reflexivity || apply le_n).
        apply andb_true_iff in Hp. destruct Hp as [P1 P2].
        rewrite small_app in Hs. apply andb_true_iff in Hs. destruct Hs as [S1 S2].
        unfold small in S2. cbn [forallb] in S2. apply andb_true_iff in S2. destruct S2 as [_ S2].
        cbn [f_comment f_newline fam_other] in H.
        apply payload_app_inv in H. destruct H as (a & b & Ha & Hb & ->).
        apply payload_app_inv in Hb. destruct Hb as (b1 & b2 & Hb1 & Hb2 & ->).
        rewrite (payload_o_str rep rep_low [10] eq_refl) in Hb1. injection Hb1 as <-.
        rewrite (o_name_ok _ P1 S1 a Ha). rewrite (IH [] b2 P2 S2 Hb2). reflexivity.
      + destruct (p_comment_error v11 c); [cbn in H; discriminate|].
        rewrite (IH (c :: run_rev) bs); cbn [rev]; rewrite <- ?app_assoc; auto.
  Qed.
End CommentOther.

(* whenever the other-encoding writer succeeds on a comment, the output is the data itself *)
Theorem comment_never_writes_a_reference : forall rep v11 s bs, (forall c, c < 128 -> rep c = true) ->
  payload (write_comment (fam_other rep) v11 s) = Ok bs -> wf_text v11 s = true -> small s = true ->
  bs = [60; 33; 45; 45] ++ s ++ [45; 45; 62].
Proof.
  intros rep v11 s bs Hrep H Hw Hs. unfold write_comment, write_normalized_data in H.
  apply payload_app_inv in H. destruct H as (a & b & Ha & Hb & ->).
  apply payload_app_inv in Hb. destruct Hb as (b1 & b2 & Hb1 & Hb2 & ->).
  assert (U : forall l, forallb (fun x => x <? 128) l = true -> payload (units (fam_other rep) l) = Ok l).
  { intros l Hl. exact (payload_o_str rep Hrep l Hl). }
  rewrite U in Ha by reflexivity. rewrite U in Hb2 by reflexivity. injection Ha as <-. injection Hb2 as <-.
  rewrite (normalized_loop_other rep Hrep v11 s [] b1 (wf_text_paired _ _ Hw) Hs Hb1). reflexivity.
Qed.
