(* XpCpTreeModel.v -- the statements of Properties_C02k.v that are assembled from several lemmas
   (conjunctions, the case split on the flags of GenXpCp.v); Properties_C02k.v only cites them. *)
From Coq Require Import ZArith NArith List Bool Arith SpecFloat.
Require Import XV.GenNum XV.NumDefs XV.NumModel XV.XpAst XV.DomDefs XV.XpDefs XV.XpSpecSubstrModel.
Require Import XV.XpCpDefs XV.XpCpModel XV.XpCpTrModel XV.XpCpCountModel XV.XpCpEvalModel XV.XpCpSearchModel XV.GenXpCp XV.XpCpTree.
Import ListNotations.

Lemma substring_is_a_window_of_the_characters_pf : forall s a b,
  exists j k, chars (cp_substring s a b) = firstn k (skipn j (chars s)).
Proof. intros s a b. eexists. eexists. apply cp_substring_chars. Qed.

Lemma translate_maps_characters_of_well_formed_strings_pf : forall s from to,
  forallb is_u16 s = true -> forallb is_u16 from = true -> forallb is_u16 to = true ->
  well_formed s = true -> well_formed to = true ->
  decode (cp_translate s from to) = f_translate (decode s) (decode from) (decode to) /\
  well_formed (cp_translate s from to) = true.
Proof.
  intros s from to Us Uf Ut Ws Wt. split.
  - exact (cp_translate_decode s from to Us Uf Ut Ws Wt).
  - exact (cp_translate_well_formed s from to Us Uf Ut Ws Wt).
Qed.

Lemma no_surrogates_same_as_before_pf : forall s from to a b,
  forallb is_u16 s = true -> forallb is_u16 from = true -> forallb is_u16 to = true ->
  forallb (fun u => negb (is_surrogate u)) s = true ->
  forallb (fun u => negb (is_surrogate u)) from = true ->
  forallb (fun u => negb (is_surrogate u)) to = true ->
  cp_length s = length s /\
  cp_substring s a b = f_substring s a b /\
  cp_translate s from to = f_translate s from to /\
  cp_translate_chars s from to = f_translate s from to.
Proof.
  intros s from to a b Us Uf Ut Ns Nf Nt.
  assert (Cs := not_surrogate_no_pairs s Ns). assert (Cf := not_surrogate_no_pairs from Nf).
  assert (Ct := not_surrogate_no_pairs to Nt).
  destruct (cp_translate_no_pairs s from to Us Uf Ut Cs Cf Ct) as [T1 T2].
  repeat split.
  - exact (cp_length_no_pairs s Cs).
  - exact (cp_substring_no_pairs s a b Cs).
  - exact T2.
  - exact T1.
Qed.

Lemma no_pairs_same_as_before_pf : forall s a b,
  count_pairs s = 0 -> cp_length s = length s /\ cp_substring s a b = f_substring s a b.
Proof. intros s a b C. split; [exact (cp_length_no_pairs s C) | exact (cp_substring_no_pairs s a b C)]. Qed.

Lemma string_length_this_tree_pf : forall s,
  length_this_tree s = if gen_cp_length_repaired then length (decode s) else length s.
Proof.
  intros s. unfold length_this_tree, tree_length. destruct gen_cp_length_repaired;
  [apply cp_length_decode | reflexivity].
Qed.

Lemma string_length_of_events_this_tree_pf : forall chunks,
  length_of_events_this_tree chunks =
  if gen_cp_length_repaired then length (decode (concat chunks)) else length (concat chunks).
Proof.
  intros chunks. unfold length_of_events_this_tree. destruct gen_cp_length_repaired;
  [apply counter_counts_characters | reflexivity].
Qed.

Lemma substring_this_tree_spec_pf : forall (s : str) (a : dbl) (b : option dbl),
  valid_binary prec emax a = true ->
  match b with Some t => valid_binary prec emax t = true | None => True end ->
  (Z.of_nat (length s) < 2 ^ 53)%Z ->
  if gen_cp_substring_repaired
  then decode (substring_this_tree s a b) = substring_spec (decode s) a b
  else substring_this_tree s a b = substring_spec s a b.
Proof.
  intros s a b Va Vb L. unfold substring_this_tree, tree_substring. destruct gen_cp_substring_repaired.
  - apply cp_substring_spec; assumption.
  - apply substring_correct; assumption.
Qed.

Lemma translate_this_tree_spec_pf : forall s from to,
  forallb is_u16 s = true -> forallb is_u16 from = true -> forallb is_u16 to = true ->
  translate_this_tree s from to =
  if gen_cp_translate_repaired then encode (f_translate (decode s) (decode from) (decode to))
  else f_translate s from to.
Proof.
  intros s from to Us Uf Ut. unfold translate_this_tree, tree_translate. destruct gen_cp_translate_repaired;
  [apply cp_translate_encode; assumption | reflexivity].
Qed.
