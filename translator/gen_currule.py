"""translator plugin for C10, part "currule": regenerates coq/GenCurRule.v from /repo on every run.

What is read (non-recursive engine; fail closed - an unknown shape is an AnchorError, i.e. a broken tie):
  * ElemTemplate::startElement: exactly two shapes - `pushCurrentTemplate(this)` (the code before 9c1f5e3) or the
    conditional on getInvoker() (xsl:call-template, or hasDirectTemplate()) that pushes getCurrentTemplate() again
    -> gen_call_keeps; ElemTemplate::endElement pops once and then endExecuteChildren;
  * ElemForEach::startElement pushes a null rule under hasChildren(), before the select is evaluated, and
    endElement pops it under the same guard;
  * ElemTemplateElement::getFirstChildElemToExecute / endExecuteChildren: the direct-template shortcut pushes
    and pops the element as invoker; ElemTemplateElement::execute pushes getParentNodeElem();
  * ElemCallTemplate / ElemApplyTemplates / ElemApplyImport push themselves as invoker and pop; xsl:apply-imports
    tests getCurrentTemplate() == 0 first and raises NoCurrentTemplate;
  * StylesheetExecutionContextDefault::reset / push / pop / getCurrentTemplate on m_currentTemplateStack;
  * VariablesStack::findXObject evaluates a top-level variable with (an RAII helper defined in VariablesStack.cpp: constructor pushCurrentTemplate(0),
    destructor popCurrentTemplate(), declared right before var->getValue()) or without
    (the code now) a null current rule -> gen_global_null;
  * ElemTemplateElement::executeChildren (used by ElemVariable::getValue) runs every child through execute(); the
    shortcut is set up by postConstruction for every element (the code now: the template of a top-level variable's
    shortcut is run by execute() with its parent - null - as invoker) or not for elements without parent
    (top-level variables) -> gen_global_direct;
  * census: no other file of src/xalanc/XSLT touches the current-template stack."""
import re, os, glob
import srcfacts
from srcfacts import AnchorError, need, read, strip_comments, function_body, HEADER

D = "XSLT/"


def toks(text):
    return " ".join(re.findall(r"[A-Za-z_]\w*|\d[\w.]*|==|!=|->|::|&&|\|\||\|=|\S", strip_comments(text)))


def nonrecursive(text, what):
    """the text outside `#if defined(XALAN_RECURSIVE_STYLESHEET_EXECUTION)` blocks"""
    out, keep, stack = [], True, []
    for line in text.split("\n"):
        s = line.strip()
        if s.startswith("#if"):
            if re.match(r"#if\s+defined\s*\(\s*XALAN_RECURSIVE_STYLESHEET_EXECUTION\s*\)", s):
                stack.append("rec")
            elif re.match(r"#if\s+!\s*defined\s*\(\s*XALAN_RECURSIVE_STYLESHEET_EXECUTION\s*\)", s):
                stack.append("nonrec")
            else:
                stack.append("other")
            continue
        if s.startswith("#else"):
            if stack and stack[-1] in ("rec", "nonrec"):
                stack[-1] = "nonrec" if stack[-1] == "rec" else "rec"
            continue
        if s.startswith("#endif"):
            if not stack:
                raise AnchorError("unbalanced #endif in " + what)
            stack.pop()
            continue
        if "rec" not in stack:
            out.append(line)
    return "\n".join(out)


def fn(text, name, what):
    return toks(function_body(text, re.escape(name) + r"\s*\([^;{]*\)\s*(?:const)?\s*\{", what))


def gen_currule():
    facts = {}
    # ---------------------------------------------------------------- ElemTemplate
    et = nonrecursive(read(D + "ElemTemplate.cpp"), "ElemTemplate.cpp")
    st = fn(et, "ElemTemplate::startElement", "ElemTemplate::startElement")
    old = r"\{ ParentType :: startElement \( executionContext \) ; executionContext \. pushCurrentTemplate \( this \) ; return beginExecuteChildren \( executionContext \) ; \}"
    new = (r"\{ ParentType :: startElement \( executionContext \) ; "
           r"const ElemTemplateElement \* const (\w+) = executionContext \. getInvoker \( \) ; "
           r"const ElemTemplate \* const (\w+) = \1 != 0 && "
           r"\( \1 -> getXSLToken \( \) == StylesheetConstructionContext :: ELEMNAME_CALL_TEMPLATE \|\| "
           r"\1 -> hasDirectTemplate \( \) == true \) \? executionContext \. getCurrentTemplate \( \) : this ; "
           r"executionContext \. pushCurrentTemplate \( \2 \) ; return beginExecuteChildren \( executionContext \) ; \}")
    if re.fullmatch(old, st):
        facts["call_keeps"] = False
    elif re.fullmatch(new, st):
        facts["call_keeps"] = True
    else:
        raise AnchorError("ElemTemplate::startElement has neither of the two known shapes (push this / push the caller's rule for call-template and the shortcut)")
    en = fn(et, "ElemTemplate::endElement", "ElemTemplate::endElement")
    if en != "{ executionContext . popCurrentTemplate ( ) ; endExecuteChildren ( executionContext ) ; }":
        raise AnchorError("ElemTemplate::endElement is not { popCurrentTemplate(); endExecuteChildren(); }")
    gi = fn(et, "ElemTemplate::getInvoker", "ElemTemplate::getInvoker")
    if gi != "{ return executionContext . getInvoker ( ) ; }":
        raise AnchorError("ElemTemplate::getInvoker is not the top of the invoker stack")
    # ---------------------------------------------------------------- ElemForEach
    fe = nonrecursive(read(D + "ElemForEach.cpp"), "ElemForEach.cpp")
    fs = fn(fe, "ElemForEach::startElement", "ElemForEach::startElement")
    if not re.fullmatch(r"\{ (?:assert \( [^;]* \) ; )?if \( hasChildren \( \) == true \) \{ executionContext \. pushCurrentTemplate \( 0 \) ; "
                        r"const NodeRefListBase \* (\w+) = createSelectedAndSortedNodeList \( executionContext \) ; .* \} return 0 ; \}", fs) \
            or fs.count("pushCurrentTemplate") != 1 or "popCurrentTemplate" in fs:
        raise AnchorError("ElemForEach::startElement: 'if (hasChildren()) { pushCurrentTemplate(0); createSelectedAndSortedNodeList ...' not recognised")
    fx = fn(fe, "ElemForEach::endElement", "ElemForEach::endElement")
    if not re.fullmatch(r"\{ if \( hasChildren \( \) == true \) \{ .* executionContext \. popCurrentTemplate \( \) ; \} \}", fx) \
            or fx.count("popCurrentTemplate") != 1 or "pushCurrentTemplate" in fx:
        raise AnchorError("ElemForEach::endElement: the pop under hasChildren() not recognised")
    if "return" in fx:
        raise AnchorError("ElemForEach::endElement has an early return")
    # ---------------------------------------------------------------- ElemTemplateElement
    te = nonrecursive(read(D + "ElemTemplateElement.cpp"), "ElemTemplateElement.cpp")
    gf = fn(te, "ElemTemplateElement::getFirstChildElemToExecute", "getFirstChildElemToExecute")
    if not re.match(r"\{ if \( hasDirectTemplate \( \) == true \) \{ (?:assert \( [^;]* \) ; )?executionContext \. pushContextMarker \( \) ; "
                    r"executionContext \. pushInvoker \( this \) ; return m_directTemplate ; \}", gf):
        raise AnchorError("getFirstChildElemToExecute: the direct-template shortcut not recognised")
    ee = fn(te, "ElemTemplateElement::endExecuteChildren", "endExecuteChildren")
    if ee != ("{ if ( hasParams ( ) == true || hasVariables ( ) == true ) { executionContext . popElementFrame ( ) ; } "
              "else if ( hasDirectTemplate ( ) == true ) { executionContext . popInvoker ( ) ; executionContext . popContextMarker ( ) ; } }"):
        raise AnchorError("endExecuteChildren: the pop of the shortcut's invoker not recognised")
    ex = fn(te, "ElemTemplateElement::execute", "ElemTemplateElement::execute")
    if not re.match(r"\{ const ElemTemplateElement \* const invoker = getParentNodeElem \( \) ; ", ex) \
            or ex.count("pushInvoker ( invoker )") != 1 or ex.count("popInvoker") != 1:
        raise AnchorError("ElemTemplateElement::execute: pushInvoker(getParentNodeElem()) .. popInvoker() not recognised")
    ec = fn(te, "ElemTemplateElement::executeChildren", "ElemTemplateElement::executeChildren")
    if ec != ("{ const ElemTemplateElement * element = beginExecuteChildren ( executionContext ) ; while ( element != 0 ) "
              "{ element -> execute ( executionContext ) ; element = getNextChildElemToExecute ( executionContext , element ) ; } "
              "endExecuteChildren ( executionContext ) ; }"):
        raise AnchorError("ElemTemplateElement::executeChildren: begin / execute() of every child / end not recognised")
    pc = toks(function_body(read(D + "ElemTemplateElement.cpp"), r"ElemTemplateElement::postConstruction\s*\(", "postConstruction"))
    m = re.search(r"else if \( theToken == StylesheetConstructionContext :: ELEMNAME_CALL_TEMPLATE && m_firstChild -> getNextSiblingElem \( \) == 0 \) "
                  r"\{ if \( m_firstChild -> hasParams \( \) == false (&& getParentNodeElem \( \) != 0 )?\) \{ m_flags \|= eHasDirectTemplate ;", pc)
    if not m:
        raise AnchorError("postConstruction: the condition of the direct-template shortcut (only child, xsl:call-template, no parameters[, not top-level]) not recognised")
    facts["global_direct"] = bool(m.group(1))
    ev = nonrecursive(read(D + "ElemVariable.cpp"), "ElemVariable.cpp")
    gv = fn(ev, "ElemVariable::getValue", "ElemVariable::getValue")
    if "executeChildren ( executionContext ) ;" not in gv:
        raise AnchorError("ElemVariable::getValue does not instantiate the content through executeChildren()")
    # ---------------------------------------------------------------- invokers
    for f, cls in (("ElemCallTemplate.cpp", "ElemCallTemplate"), ("ElemApplyTemplates.cpp", "ElemApplyTemplates"), ("ElemApplyImport.cpp", "ElemApplyImport")):
        t = nonrecursive(read(D + f), f)
        s1 = fn(t, cls + "::startElement", cls + "::startElement")
        e1 = fn(t, cls + "::endElement", cls + "::endElement")
        if s1.count("pushInvoker ( this )") != 1 or e1.count("popInvoker ( )") != 1 or "CurrentTemplate (" in s1.replace("getCurrentTemplate (", "") or "CurrentTemplate" in e1:
            raise AnchorError(cls + ": pushInvoker(this) in startElement / popInvoker() in endElement not recognised")
    ai = fn(nonrecursive(read(D + "ElemApplyImport.cpp"), "ElemApplyImport.cpp"), "ElemApplyImport::startElement", "ElemApplyImport::startElement")
    if not re.match(r"\{ if \( executionContext \. getCurrentTemplate \( \) == 0 \) \{ error \( executionContext , XalanMessages :: NoCurrentTemplate \) ; \}", ai):
        raise AnchorError("ElemApplyImport::startElement: the test for a null current template is not the first statement")
    # ---------------------------------------------------------------- the stack itself
    ec_ = read(D + "StylesheetExecutionContextDefault.cpp")
    if fn(ec_, "StylesheetExecutionContextDefault::getCurrentTemplate", "getCurrentTemplate") != "{ return m_currentTemplateStack . back ( ) ; }":
        raise AnchorError("getCurrentTemplate is not the top of m_currentTemplateStack")
    if fn(ec_, "StylesheetExecutionContextDefault::popCurrentTemplate", "popCurrentTemplate") != "{ m_currentTemplateStack . pop_back ( ) ; }":
        raise AnchorError("popCurrentTemplate is not pop_back()")
    pu = fn(ec_, "StylesheetExecutionContextDefault::pushCurrentTemplate", "pushCurrentTemplate")
    if not pu.endswith("m_currentTemplateStack . push_back ( theTemplate ) ; }") or pu.count("push_back") != 1:
        raise AnchorError("pushCurrentTemplate does not end with push_back(theTemplate)")
    rs = fn(ec_, "StylesheetExecutionContextDefault::reset", "reset")
    if "m_currentTemplateStack . clear ( ) ; m_currentTemplateStack . push_back ( 0 ) ;" not in rs or "m_elementInvokerStack . clear ( ) ;" not in rs:
        raise AnchorError("reset(): m_currentTemplateStack = [0] / m_elementInvokerStack = [] not recognised")
    # ---------------------------------------------------------------- top-level variables
    vs = read(D + "VariablesStack.cpp")
    fx_ = fn(vs, "VariablesStack::findXObject", "VariablesStack::findXObject")
    if "var -> getValue ( executionContext , doc )" not in fx_:
        raise AnchorError("VariablesStack::findXObject: var->getValue(executionContext, doc) not found")
    tvs = toks(vs)
    n_push = len(re.findall(r"\bpushCurrentTemplate\b", tvs))
    n_pop = len(re.findall(r"\bpopCurrentTemplate\b", tvs))
    n_other = len(re.findall(r"\b(?:getCurrentTemplate|PushAndPopCurrentTemplate|m_currentTemplateStack)\b", tvs))
    if n_push == 0 and n_pop == 0 and n_other == 0:
        facts["global_null"] = False
    else:
        # an RAII helper defined in this file: the constructor pushes a null rule, the destructor pops it (also when the
        # evaluation is left by an exception); used once, in the block of findXObject that calls getValue, right before it
        mc = re.search(r"class (\w+) \{ public : \1 \( StylesheetExecutionContext & executionContext \) : "
                       r"m_executionContext \( executionContext \) \{ m_executionContext \. pushCurrentTemplate \( 0 \) ; \} "
                       r"~ \1 \( \) \{ m_executionContext \. popCurrentTemplate \( \) ; \} "
                       r"private : \1 \( const \1 & \) ; \1 & operator = \( const \1 & \) ; "
                       r"StylesheetExecutionContext & m_executionContext ; \} ;", tvs)
        if not mc or n_push != 1 or n_pop != 1 or n_other != 0:
            raise AnchorError("VariablesStack.cpp touches the current template in a way that is not recognised")
        cls = mc.group(1)
        use = r"const " + cls + r" \w+ \( executionContext \) ; theNewValue = var -> getValue \( executionContext , doc \) ; \}"
        if not re.search(use, fx_) or len(re.findall(r"\b" + cls + r"\b", tvs)) != 8 or len(re.findall(r"\b" + cls + r"\b", fx_)) != 1:
            raise AnchorError("VariablesStack::findXObject: the null-current-template guard is not the statement before var->getValue(), or is used elsewhere")
        facts["global_null"] = True
    # ---------------------------------------------------------------- census
    known = {"ElemTemplate.cpp", "ElemForEach.cpp", "StylesheetExecutionContextDefault.cpp", "ElemApplyImport.cpp",
             "ElemTemplateElement.cpp", "VariablesStack.cpp"}
    for p in sorted(glob.glob(os.path.join(srcfacts.SRC, D, "*.cpp"))):
        b = os.path.basename(p)
        t = toks(nonrecursive(read(D + b), b))
        if re.search(r"\b(pushCurrentTemplate|popCurrentTemplate|PushAndPopCurrentTemplate|m_currentTemplateStack)\b", t):
            if b not in {"ElemTemplate.cpp", "ElemForEach.cpp", "StylesheetExecutionContextDefault.cpp", "VariablesStack.cpp"}:
                raise AnchorError("unknown push/pop site of the current-template stack in " + b)
        elif "getCurrentTemplate" in t and b not in known:
            raise AnchorError("unknown reader of the current template in " + b)
    if toks(nonrecursive(read(D + "ElemTemplate.cpp"), "x")).count("CurrentTemplate (") != (3 if facts["call_keeps"] else 2):
        raise AnchorError("ElemTemplate.cpp: unexpected number of uses of the current-template stack")
    if toks(fe).count("CurrentTemplate (") != 2:
        raise AnchorError("ElemForEach.cpp: unexpected number of uses of the current-template stack")
    b2c = lambda b: "true" if b else "false"
    o = HEADER % "translator/gen_currule.py (ElemTemplate.cpp, ElemForEach.cpp, ElemTemplateElement.cpp, VariablesStack.cpp, ...)" if "%s" in HEADER else HEADER
    o += "Require Import XV.CurRuleDefs.\n\n"
    o += "(* ElemTemplate::startElement pushes the caller's rule again for xsl:call-template and the direct-template\n   shortcut (true, since 9c1f5e3) or `this` in every case (false) *)\n"
    o += "Definition gen_call_keeps : bool := %s.\n\n" % b2c(facts["call_keeps"])
    o += "(* VariablesStack::findXObject evaluates a top-level variable under a null current rule *)\n"
    o += "Definition gen_global_null : bool := %s.\n\n" % b2c(facts["global_null"])
    o += "(* ElemTemplateElement::postConstruction sets up no direct-template shortcut for a top-level variable *)\n"
    o += "Definition gen_global_direct : bool := %s.\n\n" % b2c(facts["global_direct"])
    o += "Definition gen_variant : variant :=\n  {| v_call_keeps := gen_call_keeps; v_global_null := gen_global_null; v_global_direct := gen_global_direct |}.\n"
    return o, facts


GENERATORS = {"GenCurRule": gen_currule}
