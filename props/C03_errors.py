"""C03, part "errors" — erroneous-input streams and the error-path logic inside the Coq model.

Proof leg:   Properties_C03e.v (coq/SafeErr*.v) over GenSafeErr.v: the circular-definition guard of
             VariablesStack::findXObject (and of xsl:attribute-set), the template nesting limit and the
             XPath parser nesting counter, instantiated with the facts translator/gen_safeerr.py reads from
             the source on every run.
Tie:         (1) GenSafeErr.v; (2) correspondence: generated dependency graphs rendered as stylesheets —
             top-level variables/params (ten renderings of a reference), attribute sets, named templates /
             modes — verdict of the extracted model (ocaml/safeErr_driver.ml: ok | circular(variable) |
             infinite-recursion | out-of-fuel) against the library's (status, message class, the line the
             message names); ladders at the template limit and the XPath nesting limit.
Oracle:      independent of the Coq model: the well-founded part of the graph as a least fixed point in
             Python => a stylesheet whose start reaches a cycle must be refused with a non-empty message,
             any other must succeed with the value computed in Python; for every case of the three streams
             (graphs / static / dynamic) in BOTH library builds (ASan+UBSan and plain): no crash, no sanitizer
             report, no CPU-time hang, no escaped exception, non-empty message with a non-zero status, the
             known-good job on the same transformer afterwards, the two builds agree, and `must fail` /
             `must succeed` expectations where XSLT 1.0 leaves no choice."""
import os, re, resource, shutil, subprocess, tempfile
from concurrent.futures import ThreadPoolExecutor
from vlib import core
from vlib import safe_errors as G

PART = "errors"
# classes run one case per process (a non-terminating case then costs one CPU limit, not a batch's)
HEAVY_PREFIXES = ("graphs:templates", "graphs:attribute-sets:cyclic", "dynamic:unbounded", "boundary:", "graphs:import", "graphs:include")
PLAIN_AS_LIMIT_KB = 4 * 1024 * 1024      # 4 GB of address space for one plain-build process (a batch of 40 ordinary cases needs < 300 MB)
DEEP_CHAIN_GUARD = 1000      # K-C03e-1: dependency paths of top-level variables longer than this are not generated
FACTS = {}      # what the translator found in the tree at hand (variant flags, limits)
CIRC_RX = re.compile(r"circular variable definition", re.I)
INF_RX = re.compile(r"infinite recursion", re.I)
LINE_RX = re.compile(r"line (\d+), column (\d+)")


def C03():
    import importlib
    return importlib.import_module("props.C03")


class Item:
    """one generated case: the harness case + what is expected of it"""
    __slots__ = ("case", "cls", "must_fail", "expect_out", "model_line", "model_expect", "oracle", "note")

    def __init__(self, case, cls, must_fail=None, expect_out=None, model_line=None, oracle=None, note=None):
        self.case, self.cls, self.must_fail, self.expect_out, self.model_line, self.oracle, self.note = case, cls, must_fail, expect_out, model_line, oracle, note
        self.model_expect = None


def mk(entry, cls, S, D=G.DOC, X="", **kw):
    c = C03().Case(entry, S, D, X, cls=cls, opts="msg")
    return Item(c, cls, **kw)


# ---------------------------------------------------------------------------------------------
# stream 1: dependency graphs

def gen_graphs(ctx, scale, facts):
    r = ctx.rng
    items = []
    FACTS.clear()
    FACTS.update(facts)
    n_var, n_att, n_tmpl = 110 * scale, 40 * scale, 26 * scale
    # fixed shapes first: cycles of every length 1..5, entered directly and through an acyclic prefix
    shapes = []
    for L in range(1, 6):
        cyc = [[(i + 1) % L] for i in range(L)]
        shapes.append((cyc, 0))
        shapes.append((cyc + [[0]], L))                       # prefix -> cycle
        shapes.append(([[1, 2], []] + [[2 + (i + 1) % L] for i in range(L)], 0))      # evaluated dependency first, then the cycle
        shapes.append((cyc + [[L + 1, 0], []], L))          # a good reference before the bad one
    for deps, start in shapes:
        for f in G.VAR_FORMS:
            items.append(variable_item(ctx, deps, [f] * len(deps), start, "fixed-cycle"))
    # acyclic shapes: forward chain, diamond (a shared dependency is evaluated once), the same reference twice, fan-out
    for deps, start in (([[1], [2], [3], [4], []], 0), ([[1, 2], [3], [3], []], 0), ([[1, 1, 1], []], 0), ([[1, 2, 3, 4], [], [], [4], []], 0), ([[]], 0), ([[2], [0], []], 1)):
        for f in G.VAR_FORMS:
            items.append(variable_item(ctx, deps, [f] * len(deps), start, "fixed-acyclic"))
    for _ in range(n_var):
        n = r.randrange(1, 9)
        cyc = r.choice([None, None, 1, 2, 2, 3, 4, 5])
        deps = G.random_graph(r, n, cyc)
        forms = [r.choice(G.VAR_FORMS) for _ in range(n)]
        items.append(variable_item(ctx, deps, forms, r.randrange(n), "random"))
    limited, L = bool(facts.get("variable_depth_limited")), int(facts.get("variable_nesting_limit") or 0)
    top = min(L, 3000) if limited else DEEP_CHAIN_GUARD
    for depth in sorted({50, 400, top}):                  # long acyclic chains (up to the nesting limit / the K-C03e-1 guard) and long cycles
        chain = [[i + 1] for i in range(depth - 1)] + [[]]
        items.append(variable_item(ctx, chain, ["select"] * depth, 0, "chain", check_value=False))
        ring = [[(i + 1) % depth] for i in range(depth)]
        items.append(variable_item(ctx, ring, [r.choice(["select", "body"]) for _ in range(depth)], r.randrange(depth), "ring", check_value=False))
    if limited and L <= 3000:
        for depth in (L + 1, L + 2, 2 * L + 1):             # one variable too many: the nesting error, never a crash
            chain = [[i + 1] for i in range(depth - 1)] + [[]]
            items.append(variable_item(ctx, chain, [r.choice(["select", "body", "withparam"])] * depth, 0, "chain", check_value=False))
        ring = [[(i + 1) % (L + 7)] for i in range(L + 7)]  # a cycle longer than the limit: refused by the limit before the cycle closes
        items.append(variable_item(ctx, ring, ["select"] * (L + 7), 3, "ring", check_value=False))
    for _ in range(n_att):
        n = r.randrange(1, 8)
        deps = G.random_graph(r, n, r.choice([None, None, 1, 2, 3, 5]))
        start = r.randrange(n)
        wf = G.well_founded(deps)
        ok = start in wf
        exp = None
        if ok:
            exp = ("attrs", sorted("a%d=\"%d\"" % (i, i) for i in G.reachable(deps, start)))
        it = mk(r.choice("TTCA"), "graphs:attribute-sets:" + ("acyclic" if ok else "cyclic"), G.render_attribute_sets(deps, start),
                must_fail=not ok, expect_out=exp, model_line="A %d %d %s" % (n, start, G.table(deps)), oracle=("attset", ok))
        items.append(it)
    for k in range(n_tmpl):
        n = r.randrange(1, 7)
        deps = G.random_graph(r, n, r.choice([None, None, None, 1, 2, 3]) if k % 2 else None)
        forms = [r.choice(G.TMPL_FORMS) for _ in range(n)]
        start = r.randrange(n)
        ok = start in G.well_founded(deps)
        it = mk(r.choice("TTCA"), "graphs:templates:" + ("acyclic" if ok else "cyclic"), G.render_templates(deps, forms, start),
                must_fail=not ok, expect_out=("text", G.template_value(deps, start)) if ok else None,
                model_line="T graph %d %s" % (start, G.table(deps)), oracle=("templates", ok))
        items.append(it)
    return items


def variable_item(ctx, deps, forms, start, kind, check_value=True):
    r = ctx.rng
    wf = G.well_founded(deps)
    ok = start in wf
    limited, L = bool(FACTS.get("variable_depth_limited")), int(FACTS.get("variable_nesting_limit") or 0)
    must_fail = not ok
    if ok and limited and G.longest_path(deps, start, wf) > L:
        # a chain of references longer than the nesting limit: refused for a chain; with shared references the
        # outcome depends on which reference is evaluated first (a stored value is not evaluated again)
        ok = False
        must_fail = True if kind == "chain" else None
    use = r.choice(["value-of", "value-of", "attribute", "sort"])
    if not FACTS.get("nested_sort_own_sorter"):
        forms, use = G.no_nested_sort(deps, forms, use, start)      # K-C03e-4
    s = G.render_variables(deps, forms, start, use)
    exp = ("text", G.var_value(deps, forms, start)) if ok and check_value else None
    cls = "graphs:variables:%s:%s" % (kind, "acyclic" if start in wf else "cyclic")
    it = mk(r.choice("TTTCA"), cls, s, must_fail=must_fail, expect_out=exp,
            model_line="V %d %d %s" % (len(deps), start, G.table(deps)), oracle=("variables", ok),
            note=",".join(sorted(set(forms))))
    return it


def gen_boundaries(ctx, facts):
    """ladders at the template nesting limit and at the XPath nesting limit (values from the translator)"""
    items = []
    lim = facts.get("template_nesting_limit", 100000)
    init = facts.get("template_stack_initial", 1)
    # '/' + (d + 1) instantiations of r: allowed iff d + 2 <= lim - init (one more when the test is '>' instead of '>=')
    d_ok = lim - init - 2 + (1 if facts.get("template_limit_cmp") == "CmpGt" else 0)
    for d in ((d_ok, d_ok + 1) if not ctx.thorough else (d_ok - 1, d_ok, d_ok + 1, d_ok + 2)):
        rec = G.sheet("<xsl:template match='/'><xsl:call-template name='r'><xsl:with-param name='n' select='%d'/></xsl:call-template></xsl:template>"
                      "<xsl:template name='r'><xsl:param name='n'/><xsl:if test='$n &gt; 0'><xsl:call-template name='r'><xsl:with-param name='n' select='$n - 1'/></xsl:call-template></xsl:if>"
                      "<xsl:if test='$n = 0'>B</xsl:if></xsl:template>" % d)
        ok = d <= d_ok
        items.append(mk("T", "boundary:template-limit", rec, must_fail=not ok, expect_out=("text", "B") if ok else None,
                        model_line="T ladder %d" % (d + 1), oracle=("ladder", ok)))
    if facts.get("evaluate_nesting_limited"):
        el = int(facts.get("evaluate_nesting_limit") or 0)
        for fn in ("x:evaluate", "dyn:evaluate"):
            for k in (el - 1, el, el + 1, 10 * el):     # k + 1 nested calls
                vs = "".join("<xsl:variable name='s%d' select=\"'%s($s%d)'\"/>\n" % (i, fn, i + 1) for i in range(k)) + "<xsl:variable name='s%d' select=\"'7'\"/>" % k
                sh = G.HEAD.replace("xmlns:x=", "xmlns:dyn='http://exslt.org/dynamic' xmlns:x=") + "<xsl:output method='text'/>" + vs + \
                    "<xsl:template match='/'><xsl:value-of select='%s($s0)'/></xsl:template>" % fn + G.TAIL
                okk = k + 1 <= el
                # dyn:evaluate turns every error in its argument into an empty node-set (EXSLT)
                items.append(mk("T", "boundary:evaluate-nesting", sh, must_fail=(not okk) if fn == "x:evaluate" else False,
                                expect_out=("text", "7" if okk else "") if (okk or fn == "dyn:evaluate") else None))
        items.append(mk("T", "boundary:evaluate-nesting", G.EVALUATE_SELF, must_fail=True))
    xl = facts.get("xpath_nesting_limit", 1024)
    if facts.get("xpath_nesting_cmp") == "CmpGe":
        xl -= 1
    # flat expressions with many groups one after the other: the counter must come down again after each of them
    for e in ("+".join(["(1)"] * (2 * xl + 7)), " + ".join(["-1"] * (2 * xl + 7)), "+".join(["string(((1)))"] * (xl + 3))):
        items.append(mk(ctx.rng.choice("TX"), "boundary:xpath-nesting:flat", G.tmpl("<xsl:value-of select='%s'/>" % e), X=e, must_fail=False))
    for d in (1, xl - 1, xl, xl + 1, xl + 2, 3 * xl):
        # d nested parenthesised expressions: Expr() is entered d + 1 times (the outermost one for the whole expression)
        e = "(" * d + "1" + ")" * d
        ok = d + 1 <= xl
        items.append(mk(ctx.rng.choice("TX"), "boundary:xpath-nesting:parens", G.tmpl("<xsl:value-of select='%s'/>" % e), X=e, must_fail=not ok,
                        model_line="X %d" % (d + 1), oracle=("nesting", ok)))
        e2 = "-" * d + "1"
        ok2 = d <= xl - 1       # the whole expression is one Expr(); each '-' one more level
        items.append(mk("X", "boundary:xpath-nesting:minus", "", X=e2, must_fail=not ok2, model_line="X %d" % (d + 1), oracle=("nesting", ok2)))
    return items


# ---------------------------------------------------------------------------------------------
# running

def is_heavy(cls):
    return cls.startswith(HEAVY_PREFIXES)


def run_build(ctx, exe, plain, items, batch_size=40):
    m = C03()
    heavy = [it.case for it in items if is_heavy(it.cls)]
    light = [it.case for it in items if not is_heavy(it.cls)]
    batches = [light[i:i + batch_size] for i in range(0, len(light), batch_size)] + [[c] for c in heavy]
    runner = m.Runner(ctx, exe, plain)
    results = {}
    with ThreadPoolExecutor(core.NPROC) as ex:
        for res in ex.map(runner.batch, batches):
            results.update(res)
    if runner.not_judged:
        ctx.notes.setdefault("not_judged", []).extend(runner.not_judged)
    return results, runner.events


def run_model(model, items):
    lines = []
    for it in items:
        if it.model_line:
            lines.append("%s %s" % (it.case.id, it.model_line))
    if not lines or not model:
        return {}

    def pre():
        try:
            resource.setrlimit(resource.RLIMIT_STACK, (resource.RLIM_INFINITY, resource.RLIM_INFINITY))
        except (ValueError, OSError):
            resource.setrlimit(resource.RLIMIT_STACK, (1 << 30, 1 << 30))
    # deep chains / rings need quadratic time in the unary model: they go last, in their own process
    def one(chunk):
        p = subprocess.run([model], input=("\n".join(chunk) + "\n").encode(), stdout=subprocess.PIPE, stderr=subprocess.PIPE, preexec_fn=pre, timeout=900)
        out = {}
        for l in p.stdout.decode().split("\n"):
            if l.strip():
                k, _, v = l.partition(" ")
                out[k] = v.strip()
        return out, p.returncode, p.stderr.decode()[-300:]
    per = max(1, (len(lines) + core.NPROC - 1) // core.NPROC)
    chunks = [lines[i:i + per] for i in range(0, len(lines), per)]
    res, errs = {}, []
    with ThreadPoolExecutor(core.NPROC) as ex:
        for out, rc, err in ex.map(one, chunks):
            res.update(out)
            if rc != 0:
                errs.append("model driver exit %d %s" % (rc, err))
    if errs:
        res["#errors"] = errs
    return res


def fields(f):
    """(rc or 'exc', message non-empty, post, output text, message text)"""
    if f is None:
        return None
    out = bytes.fromhex(f[3]).decode("utf-8", "replace") if len(f) > 3 and f[3] else ""
    msg = bytes.fromhex(f[5]).decode("utf-8", "replace") if len(f) > 5 and f[5] else ""
    return f[0], f[1], f[2], out, msg


def library_verdict(it, f):
    """canonical verdict of the library for a graph / boundary item, in the vocabulary of the model driver"""
    st, m, post, out, msg = fields(f)
    kind = it.oracle[0]
    if st == "exc":
        return "exception"
    if st == "0":
        return "ok" if kind not in ("nesting",) else "accept"
    if kind in ("variables",):
        lm = LINE_RX.search(msg)
        if CIRC_RX.search(msg):
            return "circ %s" % (int(lm.group(1)) - 2 if lm else "?")
        if INF_RX.search(msg) and re.search(r"'xsl:(variable|param)'", msg):
            return "deep %s" % (int(lm.group(1)) - 2 if lm else "?")
        return "error:" + msg[:60]
    if kind == "attset":
        return "circ" if INF_RX.search(msg) and "attribute-set" in msg else "error:" + msg[:60]
    if kind in ("templates", "ladder"):
        return "err" if INF_RX.search(msg) else "error:" + msg[:60]
    if kind == "nesting":
        return "refuse" if (it.case.entry in "X" or re.search(r"nested too deeply|too deep", msg, re.I)) else "error:" + msg[:60]
    return "error"


def model_verdict(it, mv):
    """project the model's answer onto what the library lets us observe"""
    kind = it.oracle[0]
    w = mv.split()
    if not w:
        return "?"
    if kind == "variables":
        return "%s %s" % (w[0], w[1]) if w[0] in ("circ", "deep") else w[0]
    if kind == "attset":
        return w[0]
    if kind in ("templates", "ladder"):
        return w[0]
    return w[0]


def judge_item(it, f, build):
    """oracle on one result; returns list of (kind, text)"""
    m = C03()
    bad = []
    j = m.judge(it.case, f)
    if j:
        bad.append(j)
    st, mm, post, out, msg = fields(f)
    if st == "exc":
        return bad
    rc = int(st)
    if it.must_fail is True and rc == 0:
        bad.append(("error-not-reported", "the %s build returned status 0 (output %r) for an input that cannot succeed (%s)" % (build, out[:60], it.cls)))
    if it.must_fail is False and rc != 0:
        bad.append(("valid-input-refused", "the %s build returned status %d (%s) for a correct input (%s)" % (build, rc, msg[:120].replace("\n", " "), it.cls)))
    if rc == 0 and it.expect_out is not None:
        kind, val = it.expect_out
        n = int(f[4]) if len(f) > 4 and f[4].isdigit() else len(out)
        if kind == "text" and n <= 96 and out != val:
            bad.append(("wrong-output", "status 0 with output %r, expected %r (%s)" % (out[:96], val[:96], it.cls)))
        if kind == "text" and n > 96 and (n != len(val.encode("utf-8")) or out[:60] != val[:60]):
            bad.append(("wrong-output", "status 0 with %d bytes of output starting %r, expected %d bytes starting %r (%s)" % (n, out[:60], len(val.encode("utf-8")), val[:60], it.cls)))
        if kind == "attrs":
            got = sorted(re.findall(r"a\d+=\"\d+\"", out))
            if got != val or not re.fullmatch(r"\s*<r[^<>]*/>\s*", out):
                bad.append(("wrong-output", "status 0 with output %r, expected the attributes %s (%s)" % (out[:96], " ".join(val), it.cls)))
    if rc != 0 and it.oracle and it.oracle[0] in ("variables",) and it.must_fail and not CIRC_RX.search(msg) \
            and not (FACTS.get("variable_depth_limited") and INF_RX.search(msg)):
        bad.append(("wrong-error", "a circular definition is refused with an unrelated message: %r" % msg[:120]))
    return bad


def outcome_class(f):
    if f is None:
        return "no-answer"
    st, mm, post, out, msg = fields(f)
    if st == "exc":
        return "escaped-exception"
    if st == "0":
        return "status-0"
    head = re.sub(r"\(.*", "", msg.split("\n")[0])[:50]
    fam = "XSLT" if msg.startswith("XSLT") else ("XPath" if "XPath" in msg[:30] else ("SAX/XML parse" if st in ("-2", "-3") else "other"))
    return "status%s:%s" % (st, fam)


def known_class(it, kind):
    k = C03().known_class(it.case, kind)
    if k:
        return k
    if it.cls.startswith("graphs:variables:deep-chain"):
        return "K-C03e-1"
    return None


def evaluate(ctx, asan, plain, model, items, tag):
    """runs the items on both builds and the model; returns (failures, correspondence differences)"""
    for i, it in enumerate(items):
        it.case.id = "%s%d" % (tag, i)
    import time
    t0 = time.time()
    with ThreadPoolExecutor(3) as ex:
        fa = ex.submit(run_build, ctx, asan, plain, items)
        fp = ex.submit(run_build, ctx, plain, plain, items)
        fm = ex.submit(run_model, model, items)
        (ra, ea), (rp, ep), rm = fa.result(), fp.result(), fm.result()
    ctx.notes.setdefault("errors_timing", []).append("%s: %d cases, both builds + model in %.1f s" % (tag, len(items), time.time() - t0))
    byid = {it.case.id: it for it in items}
    failures = []      # (kind, item or None, text, replay lines)
    for build, events in (("asan", ea), ("plain", ep)):
        for kind, c, detail, replay in events:
            if kind.endswith("-not-reproduced"):
                ctx.notes.setdefault("not_reproduced", []).append("%s %s %s" % (kind, c.cls if c else "-", detail[:120]))
                continue
            it = byid.get(c.id) if c is not None else None
            failures.append((kind, it, "[%s build] %s" % (build, detail), replay))
    corr = []
    hist = ctx.notes.setdefault("errors_outcomes", {})
    if rm.get("#errors"):
        corr.append("model driver failed: %s" % "; ".join(rm["#errors"])[:300])
    for it in items:
        c = it.case
        ctx.count("errors:" + ":".join(it.cls.split(":")[:2]))
        ctx.count("entry:" + c.entry)
        ctx.cov["evaluations"] += 1
        f_a, f_p = ra.get(c.id), rp.get(c.id)
        if it.model_line and model and rm.get(c.id, "").startswith("fuel"):
            # the model of the code as it is does not terminate on this graph: the library should not either
            corr.append("%s: the extracted model runs out of fuel (= the modelled guard does not stop the recursion) on %s" % (it.cls, it.model_line[:120]))
        if f_a is None and f_p is None:
            continue
        ctx.cov["traces_validated_against_impl"] += 1
        oc = outcome_class(f_a if f_a is not None else f_p)
        key = ":".join(it.cls.split(":")[:2]) + " -> " + oc
        hist[key] = hist.get(key, 0) + 1
        for build, f in (("asan", f_a), ("plain", f_p)):
            if f is None:
                continue
            for kind, text in judge_item(it, f, build):
                failures.append((kind, it, text, [c.line()]))
        if f_a is not None and f_p is not None:
            a, p = fields(f_a), fields(f_p)
            if (a[0], a[3][:96]) != (p[0], p[3][:96]):
                failures.append(("builds-disagree", it, "ASan build: status %s output %r; plain build: status %s output %r" % (a[0], a[3][:60], p[0], p[3][:60]), [c.line()]))
        # correspondence with the extracted model
        if it.model_line and model:
            mv = rm.get(c.id)
            if mv is None:
                corr.append("%s: no answer of the model for '%s'" % (it.cls, it.model_line[:80]))
                continue
            for build, f in (("asan", f_a), ("plain", f_p)):
                if f is None:
                    continue     # the crash is reported by the dynamic leg; nothing to compare
                lv, mo = library_verdict(it, f), model_verdict(it, mv)
                if lv != mo:
                    corr.append("%s [%s build]: model says '%s' (%s), library '%s'; graph %s" % (it.cls, build, mo, mv, lv, it.model_line[:120]))
    return failures, corr


# ---------------------------------------------------------------------------------------------
# corpus / known finding K-C03e-1

def deep_chain_item(depth):
    chain = [[i + 1] for i in range(depth - 1)] + [[]]
    s = G.render_variables(chain, ["select"] * depth, 0)
    return mk("T", "graphs:variables:deep-chain", s, must_fail=False)


def write_corpus():
    d = os.path.join(core.VERIF, "corpus", "C03e")
    os.makedirs(d, exist_ok=True)
    it = deep_chain_item(6000)
    it.case.id = "K-C03e-1"
    txt = ("# C03 K-C03e-1: 6000 top-level variables, each defined by the next one (acyclic).  Feed this line to .build/safe_plain under\n"
           "# 'ulimit -s 1024' (1 MB stack; about 20000 variables are needed for the default 8 MB): SIGSEGV instead of the value or an error.\n%s\n" % it.case.line())
    p = os.path.join(d, "deep_variable_chain.txt")
    if not os.path.exists(p) or open(p).read() != txt:
        with open(p, "w") as f:
            f.write(txt)
    cyc = mk("T", "graphs:variables:corpus", G.render_variables([[1], [0]], ["select", "select"], 0), must_fail=True)
    cyc.case.id = "cycle2"
    p2 = os.path.join(d, "cycle_of_two.txt")
    txt2 = "# C03 errors part: a -> b -> a among top-level variables must be refused with the circular-definition message (seeded/C03_b)\n%s\n" % cyc.case.line()
    if not os.path.exists(p2) or open(p2).read() != txt2:
        with open(p2, "w") as f:
            f.write(txt2)
    return it


def replay_known(ctx, plain, asan, known, tmpdir, facts):
    """the stored replays of this part's known findings, each alone in its own process"""
    m = C03()
    it = write_corpus()
    obs = {}
    repaired = {"K-C03e-1": bool(facts.get("variable_depth_limited")), "K-C03e-2": bool(facts.get("evaluate_nesting_limited")),
                "K-C03e-4": bool(facts.get("nested_sort_own_sorter")), "K-C03e-3": False}

    def crash_or_regression(item, key, builds, what):
        """unrepaired variant: None or the observed crash; repaired variant: the replay is a regression case - it must be
        answered with a reported error (non-zero status, message) in every build, on a 1 MB stack as well"""
        for exe, lim in builds:
            r, s, _, e = m.run_proc(exe, [item.case.line()], m.single_cpu_limit(True), **({"limit_stack": lim} if lim else {}))
            f = r.get(item.case.id)
            if s == "wall-backstop":
                continue
            if f is None:
                return "%s%s %s" % (s, " on a 1 MB stack" if lim else "", m.report_of(e)[:120])
            if repaired[key]:
                bad = judge_item(item, f, os.path.basename(exe))
                if bad:
                    return bad[0][1][:200]
                if s != "ok":
                    return "answered, then %s %s" % (s, m.report_of(e)[:120])
        return None
    it.must_fail = True if repaired["K-C03e-1"] else False
    obs["K-C03e-1"] = crash_or_regression(it, "K-C03e-1", [(plain, 1 << 20), (asan, None)] if repaired["K-C03e-1"] else [(plain, 1 << 20)], "deep chain")
    ev = mk("T", "corpus:evaluate-self", G.EVALUATE_SELF, must_fail=True)
    ev.case.id = "K-C03e-2"
    obs["K-C03e-2"] = crash_or_regression(ev, "K-C03e-2", [(plain, 1 << 20), (asan, None)] if repaired["K-C03e-2"] else [(plain, 1 << 20)], "evaluate")
    dd = mk("T", "corpus:document-of-directory", G.document_of_directory(tmpdir))
    dd.case.id = "K-C03e-3"
    r, s, _, e = m.run_proc(asan, [dd.case.line()], m.single_cpu_limit(True))
    obs["K-C03e-3"] = None if s in ("ok", "wall-backstop") else "%s %s" % (s, m.report_of(e)[:160])
    ns = mk("T", "corpus:nested-sort", G.NESTED_SORT, must_fail=False, expect_out=("text", G.NESTED_SORT_OUT))
    ns.case.id = "K-C03e-4"
    r, s, _, e = m.run_proc(plain, [ns.case.line()], m.single_cpu_limit(True))
    f = r.get(ns.case.id)
    bad = judge_item(ns, f, "plain") if f is not None else [("crash", s)]
    obs["K-C03e-4"] = None if not bad else bad[0][1][:200]
    ctx.notes["errors_known_replay"] = obs
    d = os.path.join(core.VERIF, "corpus", "C03e")
    for name, item, head in (("evaluate_self.txt", ev, "# C03 K-C03e-2: xalan:evaluate() of a string that calls xalan:evaluate() on itself; feed to .build/safe_plain (SIGSEGV) or .build/safe_asan (stack-overflow)"),
                             ("nested_sort.txt", ns, "# C03 K-C03e-4: a sort key that references a not yet evaluated top-level variable whose definition contains an xsl:sort: refused with 'circular variable definition' (expected output 10,1,2,)")):
        txt = "%s\n%s\n" % (head, item.case.line())
        pth = os.path.join(d, name)
        if not os.path.exists(pth) or open(pth).read() != txt:
            with open(pth, "w") as fh:
                fh.write(txt)
    ctx.notes["errors_repaired"] = repaired
    for k, o in sorted(obs.items()):
        if o is None:
            continue
        if repaired.get(k):
            ctx.violation("regression_" + k.replace("-", "_"), "# C03 (errors part) %s is repaired in this tree (translator flag), but its stored replay fails again: %s\n%s"
                          % (k, o, {"K-C03e-1": it, "K-C03e-2": ev, "K-C03e-4": ns}[k].case.line()))
        elif k in known:
            ctx.known_finding("%s %s [observed: %s]" % (k, known[k]["what"], o))
        else:
            ctx.violation("corpus_" + k.replace("-", "_"), "# C03 (errors part) corpus replay %s fails and is not listed as a known finding: %s" % (k, o))


# ---------------------------------------------------------------------------------------------

def run_part(ctx):
    m = C03()
    ctx.assumptions += [
        "errors part: a stylesheet is abstracted to a dependency graph (variable v references deps v, in evaluation order, unconditionally); conditional "
        "references (xsl:if, short-circuit and/or) and data-dependent recursion are outside the guard theorems and only explored dynamically",
        "errors part: XSLTEngineImpl::problem throws for eERROR and VariablesStack::reset() runs after every transformation (anchored textually by gen_safeerr; the reset itself is C06's)",
        "errors part: K-C03e-1 - the native recursion depth of lazily evaluated top-level variables is bounded only by their number (native_recursion_constant_bound_refuted); "
        "dependency paths longer than %d are not generated" % DEEP_CHAIN_GUARD,
    ]
    rule = ("errors part: distinct = distinct (entry, stylesheet, source, expression); non-trivial = the case reached the library in at least one build and "
            "produced a status line; every case runs in the ASan+UBSan build and in the plain build, followed after a failure by the known-good job on the same transformer")
    ctx.notes["rule"] = (ctx.notes.get("rule", "") + " | " + rule) if ctx.notes.get("rule") else rule
    proved = ctx.prove(["Properties_C03e.v"], ["GenSafeErr"])
    facts = {}
    try:
        import srcfacts
        facts = srcfacts.GENERATORS["GenSafeErr"]()[1]
    except Exception as e:       # recorded by prove() already
        facts = {}
    ctx.notes["safeerr_facts"] = facts
    model, ok_m, mlog = core.build_model("safeErr")
    if not ok_m:
        ctx.broken.append("errors: model extraction/build failed: " + mlog[-400:])
        model = None
    plain, ok_p, plog = core.build_harness("safe", "plain")
    asan, ok_a, alog = core.build_harness("safe", "asan")
    if not (ok_p and ok_a):
        ctx.broken.append("errors: harness does not compile against the working tree: " + (plog + alog)[-400:])
        return
    known = {k["key"]: k for k in ctx.known.for_property("C03")}
    tmpdir = tempfile.mkdtemp(prefix="c03e_")
    try:
        # the plain build has no sanitizer run-time to stop a loop that allocates without end (the ASan build has
        # hard_rss_limit_mb): run it under an address-space limit, so that such a loop ends in an allocation failure
        # (reported as a crash / escaped exception of the isolated case) instead of exhausting the machine
        wrapper = os.path.join(tmpdir, "safe_plain_limited")
        with open(wrapper, "w") as fh:
            fh.write("#!/bin/sh\nulimit -v %d\nexec %s \"$@\"\n" % (PLAIN_AS_LIMIT_KB, plain))
        os.chmod(wrapper, 0o755)
        plain_raw, plain = plain, wrapper
        replay_known(ctx, plain_raw, asan, known, tmpdir, facts)
        scale = 1 if not ctx.thorough else 8
        sizes = sorted(set((ctx.notes.get("safe_facts") or {}).get("sizes") or []) | {100, 101, 200, 512, 1024})
        sizes = [s for s in sizes if s <= 4096]

        def build(scale, tag):
            items = gen_graphs(ctx, scale, facts) + gen_boundaries(ctx, facts)
            for cls, s, mf in G.import_cycles(tmpdir):
                items.append(mk("T", cls, s, must_fail=mf))
            for cls, s, d, mf in G.gen_static(ctx.rng, 2 * scale):
                items.append(mk(ctx.rng.choice("TTTCA"), cls, s, d, must_fail=mf))
            for cls, s, d, mf in G.gen_dynamic(ctx.rng, sizes, tmpdir, 60 * scale):
                items.append(mk(ctx.rng.choice("TTTCA"), cls, s, d, must_fail=mf))
            return items
        items = build(scale, "e")
        ctx.cov["samples"] = (ctx.cov.get("samples") or []) + ["%s %s" % (it.cls, (it.model_line or it.case.S[-160:])[:120]) for it in items[:2] + items[len(items) // 2: len(items) // 2 + 2]]
        failures, corr = evaluate(ctx, asan, plain, model, items, "e")
        new = [f for f in failures if not (f[1] is not None and known_class(f[1], f[0]) in known)]
        if (corr or not proved or not model) and not new and not ctx.thorough:
            ctx.escalated = True
            more = gen_graphs(ctx, 6, facts) + gen_boundaries(ctx, facts)
            f2, c2 = evaluate(ctx, asan, plain, model, more, "w")
            failures += f2
            corr += c2
            items += more
        ctx.cov["distinct_nontrivial"] = ctx.cov.get("distinct_nontrivial", 0) + len({(it.case.entry, m.b_(it.case.S), m.b_(it.case.D), m.b_(it.case.X)) for it in items})
        ctx.notes["errors_cases"] = len(items)
        ctx.notes["errors_model_compared"] = sum(1 for it in items if it.model_line)
        if corr:
            ctx.notes["errors_correspondence_differences"] = corr[:20]
            ctx.broken.append("errors: correspondence: %d difference(s) between the extracted guard model and the library, e.g. %s" % (len(corr), corr[0][:400]))
        hits, seen = {}, {}
        for kind, it, text, replay in failures:
            k = known_class(it, kind) if it is not None else None
            if k and k in known:
                hits[k] = hits.get(k, 0) + 1
                continue
            key = (kind, re.sub(r"0x[0-9a-f]+|\d+", "#", text)[:140])
            seen[key] = seen.get(key, 0) + 1
            if seen[key] > 1 or len(seen) > 12:
                continue
            head = "# C03 (errors part) %s: %s\n# class: %s\n# replay: feed the line(s) below to .build/safe_asan or .build/safe_plain (stdin)\n" % (kind, text, it.cls if it else "-")
            ctx.violation("errors_" + kind.replace("-", "_"), head + "\n".join(replay))
        for k in sorted(hits):
            if not any(w.startswith(k + " ") for w in ctx.known_lines):
                ctx.known_finding("%s %s" % (k, known[k]["what"]))
        ctx.notes["errors_known_class_hits"] = hits
        ctx.notes["errors_oracle_failures"] = sum(seen.values())
    finally:
        shutil.rmtree(tmpdir, ignore_errors=True)
