(* MemModel.v — heap lemmas and the XalanVector part of the ledger proofs (C19). *)
From Coq Require Import List Arith Bool Lia Permutation.
Require Import XV.GenCont XV.GenMem XV.MemDefs.
Import ListNotations.

Ltac sp := repeat match goal with |- _ /\ _ => split | |- _ <-> _ => split end.

(* ------------------------------------------------------------------------------------------- *)
(* the manager's table *)

Definition heap_ok (h : heap) : Prop :=
  NoDup (map fst (live h)) /\ (forall p, In p (live h) -> fst p < next h).

(* [linv r h]: the outstanding blocks of the manager are exactly [r] (each with the manager that
   handed it out), and no foreign / double free has happened *)
Definition linv (r : list (nat * mgr)) (h : heap) : Prop :=
  heap_ok h /\ Permutation (live h) r /\ bad h = false.

Lemma alloc_some : forall m t c h h1 id, alloc m t c h = (h1, Some id) ->
  id = next h /\ live h1 = (id, m) :: live h /\ bad h1 = bad h /\ next h1 = S (next h).
Proof.
  intros m t c h h1 id H. unfold alloc in H.
  destruct (fuse h) as [[|k]|]; inversion H; subst; cbn; auto.
Qed.

Lemma alloc_none : forall m t c h h1, alloc m t c h = (h1, None) ->
  live h1 = live h /\ bad h1 = bad h /\ next h1 = next h /\ fuse h = Some 0 /\ fuse h1 = None.
Proof.
  intros m t c h h1 H. unfold alloc in H.
  destruct (fuse h) as [[|k]|]; inversion H; subst; cbn; auto.
Qed.

Lemma alloc_nofuse : forall m t c h, fuse h = None -> exists h1, alloc m t c h = (h1, Some (next h)) /\ fuse h1 = None.
Proof. intros m t c h H. unfold alloc. rewrite H. eexists; split; [reflexivity | reflexivity]. Qed.

(* every call of allocate is visible in (next, fuse) *)
Lemma alloc_visible : forall m t c h h1 r, alloc m t c h = (h1, r) -> next h1 <> next h \/ fuse h1 <> fuse h.
Proof.
  intros m t c h h1 r H. unfold alloc in H.
  destruct (fuse h) as [[|k]|] eqn:E; inversion H; subst; cbn.
  - right; discriminate.
  - left; lia.
  - left; lia.
Qed.

Lemma free_next : forall m id h, next (free m id h) = next h /\ fuse (free m id h) = fuse h.
Proof. intros; split; reflexivity. Qed.

Lemma free_all_next : forall m ids h, next (free_all m ids h) = next h /\ fuse (free_all m ids h) = fuse h.
Proof.
  intros m ids; unfold free_all; induction ids as [|a r IH]; intros h; cbn; auto.
  destruct (IH (free m a h)) as [A B]. rewrite A, B. split; reflexivity.
Qed.

Lemma linv_alloc : forall r m t c h h1 id, linv r h -> alloc m t c h = (h1, Some id) -> linv ((id, m) :: r) h1.
Proof.
  intros r m t c h h1 id [[ND LT] [P B]] H.
  destruct (alloc_some _ _ _ _ _ _ H) as [E [L [Bd N]]]. subst id.
  repeat split.
  - rewrite L. cbn. constructor; auto.
    intro I. apply in_map_iff in I. destruct I as [p [Ep Ip]]. apply LT in Ip. lia.
  - intros p I. rewrite L in I. rewrite N. destruct I as [I|I]; [subst p; cbn; lia | apply LT in I; lia].
  - rewrite L. constructor. exact P.
  - congruence.
Qed.

Lemma linv_throw : forall r m t c h h1, linv r h -> alloc m t c h = (h1, None) -> linv r h1.
Proof.
  intros r m t c h h1 [[ND LT] [P B]] H.
  destruct (alloc_none _ _ _ _ _ H) as [L [Bd [N _]]].
  repeat split; try rewrite L; try rewrite N; auto. congruence.
Qed.

Lemma linv_perm : forall r r' h, Permutation r r' -> linv r h -> linv r' h.
Proof. intros r r' h P [A [Q B]]. split; [exact A|split; [eapply perm_trans; eauto | exact B]]. Qed.

Lemma filter_perm : forall (A : Type) (f : A -> bool) l l', Permutation l l' -> Permutation (filter f l) (filter f l').
Proof.
  intros A f l l' P. induction P; cbn.
  - constructor.
  - destruct (f x); auto.
  - destruct (f x), (f y); auto. constructor.
  - eapply perm_trans; eauto.
Qed.

Lemma filter_all : forall (A : Type) (f : A -> bool) l, (forall x, In x l -> f x = true) -> filter f l = l.
Proof.
  intros A f l; induction l as [|a r IH]; intros H; cbn; auto.
  rewrite (H a (or_introl eq_refl)). f_equal. apply IH. intros x I. apply H. right; exact I.
Qed.

Lemma linv_free : forall r m id h, linv ((id, m) :: r) h -> linv r (free m id h).
Proof.
  intros r m id h [[ND LT] [P B]].
  assert (NDr : NoDup (map fst ((id, m) :: r))).
  { eapply Permutation_NoDup; [apply Permutation_map; exact P | exact ND]. }
  assert (Pf : Permutation (filter (fun p => negb (fst p =? id)) (live h)) r).
  { eapply perm_trans; [apply filter_perm; exact P|]. cbn. rewrite Nat.eqb_refl. cbn.
    rewrite filter_all; [apply Permutation_refl|].
    intros x I. inversion NDr; subst. destruct (fst x =? id) eqn:E; auto.
    apply Nat.eqb_eq in E. exfalso. apply H1. rewrite <- E. apply in_map. exact I. }
  repeat split; cbn.
  - eapply Permutation_NoDup; [apply Permutation_map; apply Permutation_sym; exact Pf|].
    inversion NDr; auto.
  - intros p I. apply filter_In in I. destruct I as [I _]. apply LT; auto.
  - exact Pf.
  - rewrite B. cbn. unfold owns.
    replace (existsb (fun p => (fst p =? id) && (snd p =? m)) (live h)) with true; auto.
    symmetry. apply existsb_exists. exists (id, m). split.
    + eapply Permutation_in; [apply Permutation_sym; exact P | left; reflexivity].
    + cbn. rewrite !Nat.eqb_refl. reflexivity.
Qed.

Definition tagm (m : mgr) (ids : list nat) : list (nat * mgr) := map (fun id => (id, m)) ids.

Lemma linv_free_all : forall m ids r h, linv (tagm m ids ++ r) h -> linv r (free_all m ids h).
Proof.
  intros m ids; induction ids as [|a t IH]; intros r h H; cbn in *; auto.
  apply IH. apply linv_free. exact H.
Qed.

(* ------------------------------------------------------------------------------------------- *)
(* XalanVector *)

Definition vowned (v : vec) : list (nat * mgr) :=
  match vdata v with Some id => [(id, vm v)] | None => [] end.

Definition vwf (v : vec) : Prop := vsize v <= vcap v /\ (vcap v = 0 <-> vdata v = None).

Definition vpost (v : vec) (h : heap) (h1 : heap) (v1 : vec) (ok : bool) (F : list (nat * mgr)) : Prop :=
  linv (vowned v1 ++ F) h1 /\ vwf v1 /\ vm v1 = vm v /\ (ok = false -> v1 = v /\ live h1 = live h).

Ltac spw := unfold vpost, vwf; sp.

Lemma vwf_empty : forall m, vwf (vempty m).
Proof. intro m; split; cbn; [lia | tauto]. Qed.

Lemma vec_new_spec : forall tag m n h h1 r F, linv F h -> vec_new tag m n h = (h1, r) ->
  match r with
  | Some t => vwf t /\ vm t = m /\ vsize t = 0 /\ vcap t = n /\ linv (vowned t ++ F) h1
  | None => linv F h1 /\ n <> 0
  end.
Proof.
  intros tag m n h h1 r F I H. unfold vec_new in H.
  destruct (n =? 0) eqn:E.
  - inversion H; subst. apply Nat.eqb_eq in E. subst. spw; cbn; auto; tauto.
  - apply Nat.eqb_neq in E. destruct (alloc m tag n h) as [h2 [id|]] eqn:A; inversion H; subst.
    + spw; cbn; try lia; try discriminate. eapply linv_alloc; eauto.
    + split; auto. eapply linv_throw; eauto.
Qed.

Lemma vec_new_none : forall tag m n h h1, vec_new tag m n h = (h1, None) -> live h1 = live h.
Proof.
  intros tag m n h h1 N. unfold vec_new in N. destruct (n =? 0); [discriminate|].
  destruct (alloc m tag n h) as [h3 [id|]] eqn:A; inversion N; subst. apply alloc_none in A. tauto.
Qed.

Lemma vec_dtor_spec : forall v h F, vwf v -> linv (vowned v ++ F) h -> linv F (vec_dtor v h).
Proof.
  intros v h F [_ W] I. unfold vec_dtor, vowned in *.
  destruct (vcap v =? 0) eqn:E.
  - apply Nat.eqb_eq in E. apply W in E. rewrite E in I. exact I.
  - destruct (vdata v) as [id|]; auto. cbn. apply linv_free. exact I.
Qed.

Lemma vec_swap_owned : forall a b, let '(a', b') := vec_swap a b in a' = b /\ b' = a.
Proof. intros a b. unfold vec_swap. cbn. auto. Qed.

Lemma vset_size_owned : forall v n, vowned (vset_size v n) = vowned v.
Proof. reflexivity. Qed.

Lemma vec_realloc_spec : forall tag v nc ex h h1 v1 ok F,
  vwf v -> vsize v + ex <= Nat.max (vsize v) nc -> linv (vowned v ++ F) h ->
  vec_realloc tag v nc ex h = (h1, v1, ok) ->
  linv (vowned v1 ++ F) h1 /\
  (if ok then vwf v1 /\ vm v1 = vm v /\ vsize v1 = vsize v + ex /\ vcap v1 = Nat.max (vsize v) nc
   else v1 = v /\ live h1 = live h).
Proof.
  intros tag v nc ex h h1 v1 ok F W LE I H. unfold vec_realloc, vec_copy in H.
  destruct (vec_new tag (vm v) (Nat.max (vsize v) nc) h) as [h2 [t|]] eqn:N.
  - pose proof (vec_new_spec _ _ _ _ _ _ _ I N) as [Wt [Mt [St [Ct It]]]].
    cbn in H. inversion H; subst; clear H. cbn. split.
    + apply vec_dtor_spec; auto. eapply linv_perm; [|exact It].
      rewrite !app_assoc. apply Permutation_app_tail. apply Permutation_app_comm.
    + destruct Wt as [_ Wt]. spw; cbn; try lia; try tauto; try apply Wt.
  - inversion H; subst; clear H. pose proof (vec_new_spec _ _ _ _ _ _ _ I N) as [It _]. split; auto. split; auto.
    eapply vec_new_none; eauto.
Qed.

Lemma grow_gt : forall n, 0 < n -> n + 1 <= vec_grow_size n.
Proof.
  intros n H. unfold vec_grow_size, vec_grow_num, vec_grow_round, vec_grow_den.
  apply Nat.div_le_lower_bound; lia.
Qed.

Lemma vec_push_spec : forall tag v h h1 v1 ok F, vwf v -> linv (vowned v ++ F) h ->
  vec_push tag v h = (h1, v1, ok) -> vpost v h h1 v1 ok F /\ (ok = true -> vsize v1 = S (vsize v)).
Proof.
  intros tag v h h1 v1 ok F W I H. unfold vec_push in H. pose proof W as [W1 W2].
  destruct (vsize v <? vcap v) eqn:E1.
  - apply Nat.ltb_lt in E1. inversion H; subst. spw; cbn; auto; try lia; try tauto; try discriminate; try apply W2.
  - apply Nat.ltb_ge in E1. destruct (vsize v =? 0) eqn:E2.
    + apply Nat.eqb_eq in E2. assert (C : vcap v = 0) by lia. apply W2 in C.
      unfold vowned in I. rewrite C in I.
      destruct (alloc (vm v) tag 1 h) as [h2 [id|]] eqn:A; inversion H; subst.
      * spw; cbn; auto; try lia; try discriminate. eapply linv_alloc; eauto.
      * spw; cbn; auto; try tauto; try lia; try discriminate.
        unfold vowned. rewrite C. eapply linv_throw; eauto. apply alloc_none in A; tauto.
    + apply Nat.eqb_neq in E2. pose proof (grow_gt (vsize v) ltac:(lia)) as G.
      eapply vec_realloc_spec in H; eauto; try lia.
      destruct H as [I1 P]. destruct ok.
      * destruct P as [Wv [M [S C]]]. spw; auto; try apply Wv; try discriminate. lia.
      * destruct P as [-> L]. spw; auto; try tauto; try discriminate.
Qed.

Lemma vec_reserve_spec : forall tag v n h h1 v1 ok F, vwf v -> linv (vowned v ++ F) h ->
  vec_reserve tag v n h = (h1, v1, ok) ->
  vpost v h h1 v1 ok F /\ (ok = true -> vsize v1 = vsize v /\ n <= vcap v1).
Proof.
  intros tag v n h h1 v1 ok F W I H. unfold vec_reserve in H. pose proof W as [W1 W2].
  destruct (vcap v <? n) eqn:E.
  - apply Nat.ltb_lt in E. eapply vec_realloc_spec in H; eauto; try lia.
    destruct H as [I1 P]. destruct ok.
    + destruct P as [Wv [M [S C]]]. spw; auto; try apply Wv; try discriminate; lia.
    + destruct P as [-> L]. spw; auto; try tauto; try discriminate.
  - apply Nat.ltb_ge in E. inversion H; subst. spw; auto; try tauto; try discriminate.
Qed.

Lemma vset_size_wf : forall v n, vwf v -> n <= vcap v -> vwf (vset_size v n).
Proof. intros v n [A B] L. split; cbn; auto. Qed.

Lemma vec_insert_end_spec : forall tag v n h h1 v1 ok F, vwf v -> linv (vowned v ++ F) h ->
  vec_insert_end tag v n h = (h1, v1, ok) -> vpost v h h1 v1 ok F.
Proof.
  intros tag v n h h1 v1 ok F W I H. unfold vec_insert_end in H.
  destruct (vec_reserve tag v (vsize v + n) h) as [[h2 v2] ok2] eqn:R.
  eapply vec_reserve_spec in R; eauto. destruct R as [[I2 [W2 [M2 St]]] C].
  destruct ok2; inversion H; subst.
  - destruct (C eq_refl) as [S L]. spw; cbn; auto; try discriminate.
    + rewrite S. destruct W2; lia.
    + apply W2. + apply W2.
  - spw; auto; try apply W2; intros; apply St; auto.
Qed.

Lemma vec_insert_mid_spec : forall tag v n h h1 v1 ok F, vwf v -> linv (vowned v ++ F) h ->
  vec_insert_mid tag v n h = (h1, v1, ok) -> vpost v h h1 v1 ok F.
Proof.
  intros tag v n h h1 v1 ok F W I H. unfold vec_insert_mid in H. pose proof W as [W1 W2].
  destruct (vcap v <? vsize v + n) eqn:E.
  - apply Nat.ltb_lt in E.
    destruct (vec_new tag (vm v) (vsize v + n) h) as [h2 [t|]] eqn:N.
    + pose proof (vec_new_spec _ _ _ _ _ _ _ I N) as [Wt [Mt [St [Ct It]]]].
      cbn in H. inversion H; subst; clear H. spw; cbn; auto; try lia; try discriminate; try apply Wt.
      apply vec_dtor_spec; auto. eapply linv_perm; [|exact It].
      rewrite !app_assoc. apply Permutation_app_tail. apply Permutation_app_comm.
    + inversion H; subst; clear H. pose proof (vec_new_spec _ _ _ _ _ _ _ I N) as [It _].
      spw; auto; try tauto. intros _; split; auto. eapply vec_new_none; eauto.
  - apply Nat.ltb_ge in E. inversion H; subst. spw; cbn; auto; try tauto; try lia; try discriminate.
Qed.

Lemma vec_resize_spec : forall tag v n h h1 v1 ok F, vwf v -> linv (vowned v ++ F) h ->
  vec_resize tag v n h = (h1, v1, ok) -> vpost v h h1 v1 ok F.
Proof.
  intros tag v n h h1 v1 ok F W I H. unfold vec_resize in H. pose proof W as [W1 W2].
  destruct (n <? vsize v) eqn:E.
  - apply Nat.ltb_lt in E. inversion H; subst. spw; cbn; auto; try tauto; try lia; try discriminate.
  - destruct (vec_reserve tag v n h) as [[h2 v2] ok2] eqn:R.
    eapply vec_reserve_spec in R; eauto. destruct R as [[I2 [Wv [M2 St]]] C].
    destruct ok2; inversion H; subst.
    + destruct (C eq_refl) as [S L]. spw; cbn; auto; try discriminate; apply Wv.
    + spw; auto; try apply Wv; intros; apply St; auto.
Qed.

Lemma vec_assign_spec : forall tag v rhs h h1 v1 ok F, vwf v -> linv (vowned v ++ F) h ->
  vec_assign tag v rhs h = (h1, v1, ok) -> vpost v h h1 v1 ok F.
Proof.
  intros tag v rhs h h1 v1 ok F W I H. unfold vec_assign, vec_copy in H. pose proof W as [W1 W2].
  destruct (vcap v <? vsize rhs) eqn:E.
  - apply Nat.ltb_lt in E.
    destruct (vec_new tag (vm v) (Nat.max (vsize rhs) 0) h) as [h2 [t|]] eqn:N.
    + pose proof (vec_new_spec _ _ _ _ _ _ _ I N) as [Wt [Mt [St [Ct It]]]].
      cbn in H. inversion H; subst; clear H. spw; cbn; auto; try lia; try discriminate; try apply Wt.
      apply vec_dtor_spec; auto. eapply linv_perm; [|exact It].
      rewrite !app_assoc. apply Permutation_app_tail. apply Permutation_app_comm.
    + inversion H; subst; clear H. pose proof (vec_new_spec _ _ _ _ _ _ _ I N) as [It _].
      spw; auto; try tauto. intros _; split; auto. eapply vec_new_none; eauto.
  - apply Nat.ltb_ge in E. inversion H; subst. spw; cbn; auto; try tauto; try lia; try discriminate.
Qed.

(* the world of two vectors (managers 0 and 1 at the start; swap exchanges them) *)
Definition vinv (w : vec * vec) (h : heap) : Prop :=
  vwf (fst w) /\ vwf (snd w) /\ linv (vowned (fst w) ++ vowned (snd w)) h.

Lemma vinv_sel : forall i w h, vinv w h ->
  vwf (sel i w) /\ linv (vowned (sel i w) ++ vowned (sel (negb i) w)) h.
Proof.
  intros i [a b] h [Wa [Wb I]]. destruct i; cbn in *; split; auto.
  eapply linv_perm; [apply Permutation_app_comm | exact I].
Qed.

Lemma vinv_upd : forall i w h v1, vwf v1 -> vwf (sel (negb i) w) ->
  linv (vowned v1 ++ vowned (sel (negb i) w)) h -> vinv (upd i w v1) h.
Proof.
  intros i [a b] h v1 W1 W2 I. unfold vinv. destruct i; cbn in *.
  - split; [exact W2 | split; [exact W1 | eapply linv_perm; [apply Permutation_app_comm | exact I]]].
  - split; [exact W1 | split; [exact W2 | exact I]].
Qed.

Lemma vpost_lift : forall i w h h1 v1 ok, vinv w h ->
  vpost (sel i w) h h1 v1 ok (vowned (sel (negb i) w)) ->
  vinv (upd i w v1) h1 /\ (ok = false -> upd i w v1 = w /\ live h1 = live h).
Proof.
  intros i w h h1 v1 ok V [I [W [M St]]]. split.
  - apply vinv_upd; auto. destruct (vinv_sel (negb i) w h V) as [X _]. exact X.
  - intros E. destruct (St E) as [-> L]. split; auto. destruct w, i; reflexivity.
Qed.

Lemma vstep_inv : forall op w h h1 w1 ok, vinv w h -> vstep op w h = (h1, w1, ok) ->
  vinv w1 h1 /\ (ok = false -> w1 = w /\ live h1 = live h).
Proof.
  intros op w h h1 w1 ok V H.
  assert (SZ : forall i n, n <= vsize (sel i w) -> vinv (upd i w (vset_size (sel i w) n)) h).
  { intros i n L. destruct (vinv_sel i w h V) as [Wi Ii]. destruct (vinv_sel (negb i) w h V) as [Wo _].
    apply vinv_upd; auto. apply vset_size_wf; auto. destruct Wi; lia. }
  destruct op; cbn [vstep] in H.
  - destruct (vec_push TAG_INT (sel i w) h) as [[h2 v2] ok2] eqn:E. inversion H; subst.
    destruct (vinv_sel i w h V) as [Wi Ii]. eapply vec_push_spec in E; eauto. destruct E as [P _].
    eapply vpost_lift; eauto.
  - inversion H; subst. split; [apply SZ; lia | discriminate].
  - inversion H; subst. split; [apply SZ; lia | discriminate].
  - inversion H; subst. split; [apply SZ; lia | discriminate].
  - destruct (vec_reserve TAG_INT (sel i w) n h) as [[h2 v2] ok2] eqn:E. inversion H; subst.
    destruct (vinv_sel i w h V) as [Wi Ii]. eapply vec_reserve_spec in E; eauto. destruct E as [P _].
    eapply vpost_lift; eauto.
  - destruct (vec_insert_end TAG_INT (sel i w) n h) as [[h2 v2] ok2] eqn:E. inversion H; subst.
    destruct (vinv_sel i w h V) as [Wi Ii]. eapply vec_insert_end_spec in E; eauto.
    eapply vpost_lift; eauto.
  - destruct (vinv_sel i w h V) as [Wi Ii]. destruct (vsize (sel i w) =? 0).
    + destruct (vec_insert_end TAG_INT (sel i w) n h) as [[h2 v2] ok2] eqn:E. inversion H; subst.
      eapply vec_insert_end_spec in E; eauto. eapply vpost_lift; eauto.
    + destruct (vec_insert_mid TAG_INT (sel i w) n h) as [[h2 v2] ok2] eqn:E. inversion H; subst.
      eapply vec_insert_mid_spec in E; eauto. eapply vpost_lift; eauto.
  - destruct (vec_resize TAG_INT (sel i w) n h) as [[h2 v2] ok2] eqn:E. inversion H; subst.
    destruct (vinv_sel i w h V) as [Wi Ii]. eapply vec_resize_spec in E; eauto.
    eapply vpost_lift; eauto.
  - destruct (vec_assign TAG_INT (sel i w) (sel (negb i) w) h) as [[h2 v2] ok2] eqn:E. inversion H; subst.
    destruct (vinv_sel i w h V) as [Wi Ii]. eapply vec_assign_spec in E; eauto.
    eapply vpost_lift; eauto.
  - cbn in H. inversion H; subst. split; [|discriminate].
    destruct w as [a b]. destruct V as [Wa [Wb I]]. cbn in *.
    split; [exact Wb | split; [exact Wa | eapply linv_perm; [apply Permutation_app_comm | exact I]]].
Qed.

Lemma vrun_inv : forall ops w h w1 h1, vinv w h -> run _ _ vstep ops w h = (w1, h1) -> vinv w1 h1.
Proof.
  induction ops as [|op r IH]; intros w h w1 h1 V H; cbn in H.
  - inversion H; subst; auto.
  - destruct (vstep op w h) as [[h2 w2] ok] eqn:E. eapply IH; [|exact H].
    eapply vstep_inv in E; eauto. tauto.
Qed.

Lemma vinv0 : forall f, vinv vworld0 (heap0 f).
Proof.
  intro f. unfold vinv, linv, heap_ok, vwf. cbn. repeat split; try lia; try tauto; try constructor.
Qed.

Lemma vdestroy_spec : forall w h, vinv w h -> live (vdestroy w h) = [] /\ bad (vdestroy w h) = false.
Proof.
  intros [a b] h [Wa [Wb I]]. unfold vdestroy. cbn [fst snd] in *.
  assert (I2 : linv [] (vec_dtor b (vec_dtor a h))).
  { apply vec_dtor_spec; auto. rewrite app_nil_r. apply vec_dtor_spec; auto. }
  destruct I2 as [_ [P B]]. split; auto. apply Permutation_nil. apply Permutation_sym. exact P.
Qed.

Lemma vec_ledger_balanced_lemma : forall ops f w h, run _ _ vstep ops vworld0 (heap0 f) = (w, h) ->
  live (vdestroy w h) = [] /\ bad (vdestroy w h) = false.
Proof. intros ops f w h H. apply vdestroy_spec. eapply vrun_inv; [apply vinv0 | exact H]. Qed.

Lemma vdtor_no_alloc : forall v h, next (vec_dtor v h) = next h /\ fuse (vec_dtor v h) = fuse h.
Proof.
  intros v h. unfold vec_dtor. destruct (vcap v =? 0); auto. destruct (vdata v); auto.
Qed.

Lemma vdestroy_no_alloc : forall w h, next (vdestroy w h) = next h /\ fuse (vdestroy w h) = fuse h.
Proof.
  intros w h. unfold vdestroy. destruct (vdtor_no_alloc (snd w) (vec_dtor (fst w) h)) as [A B].
  destruct (vdtor_no_alloc (fst w) h) as [C D]. split; congruence.
Qed.

(* "reserve before create": after a successful reserve(n), the next pushes up to n cannot fail and do not
   touch the manager at all (the heap, log included, is unchanged) *)
Fixpoint push_n (tag j : nat) (v : vec) (h : heap) : heap * vec * bool :=
  match j with
  | 0 => (h, v, true)
  | S j' => match vec_push tag v h with
            | (h1, v1, true) => push_n tag j' v1 h1
            | r => r
            end
  end.

Lemma push_n_within : forall tag j v h, vsize v + j <= vcap v ->
  push_n tag j v h = (h, vset_size v (vsize v + j), true).
Proof.
  induction j as [|j IH]; intros v h L; cbn [push_n].
  - destruct v; unfold vset_size; cbn. rewrite Nat.add_0_r. reflexivity.
  - unfold vec_push. replace (vsize v <? vcap v) with true by (symmetry; apply Nat.ltb_lt; lia).
    rewrite IH; cbn; [|lia]. f_equal. f_equal. unfold vset_size; cbn. f_equal. lia.
Qed.

Lemma reserve_then_push_lemma : forall tag v n h h1 v1 j,
  vwf v -> linv (vowned v) h -> vec_reserve tag v n h = (h1, v1, true) -> vsize v + j <= n ->
  push_n tag j v1 h1 = (h1, vset_size v1 (vsize v + j), true).
Proof.
  intros tag v n h h1 v1 j W I R L.
  rewrite <- (app_nil_r (vowned v)) in I.
  eapply vec_reserve_spec in R; eauto. destruct R as [_ C]. destruct (C eq_refl) as [S Cp].
  rewrite push_n_within; [|lia]. rewrite S. reflexivity.
Qed.
