(* MemDefs.v — allocation LEDGER model of xalanc's XalanVector / XalanList / ArenaAllocator (+ArenaBlock)
   as the code is (Include/XalanVector.hpp, Include/XalanList.hpp, PlatformSupport/ArenaAllocator.hpp,
   ArenaBlock.hpp, ArenaBlockBase.hpp) - with the repairs of K8 (no head node is created by empty() / size() /
   clear(); reset() tests empty() first).  Every operation is a function  state -> heap -> heap * state * ok
   where the heap is the memory manager's view: fresh block ids, the table of outstanding blocks with the
   manager that handed them out, a failure fuse (the allocation after [k] successful ones throws, once), a
   [bad] flag raised by a deallocate of a block that is not outstanding in that manager (foreign / double
   free) and the event log.  Element types are trivially constructible (no allocation in element copy);
   arena objects own exactly one block of the arena's manager (allocated in their constructor, released in
   their destructor).  Structure booleans come from GenMem.v, growth constants from GenCont.v (both
   regenerated from /repo on every run).   Definitions only. *)
From Coq Require Import List Arith Bool.
Require Import XV.GenCont XV.GenMem.
Import ListNotations.

Definition mgr := nat.

Inductive event :=
| EAlloc (m : mgr) (tag cnt id : nat)     (* allocate(cnt * sizeof tag) on manager m returned block id *)
| EFree (m : mgr) (id : nat)              (* deallocate(block id) on manager m *)
| EThrow.                                  (* the manager refused an allocation *)

Record heap := mkheap { next : nat; live : list (nat * mgr); fuse : option nat; bad : bool; log : list event }.

Definition heap0 (f : option nat) : heap := mkheap 0 [] f false [].

Definition alloc (m : mgr) (tag cnt : nat) (h : heap) : heap * option nat :=
  match fuse h with
  | Some O => (mkheap (next h) (live h) None (bad h) (EThrow :: log h), None)
  | f => (mkheap (S (next h)) ((next h, m) :: live h)
                 (match f with Some (S k) => Some k | x => x end) (bad h)
                 (EAlloc m tag cnt (next h) :: log h), Some (next h))
  end.

Definition owns (h : heap) (m : mgr) (id : nat) : bool :=
  existsb (fun p => (fst p =? id) && (snd p =? m)) (live h).

Definition free (m : mgr) (id : nat) (h : heap) : heap :=
  mkheap (next h) (filter (fun p => negb (fst p =? id)) (live h)) (fuse h)
         (bad h || negb (owns h m id)) (EFree m id :: log h).

Definition free_all (m : mgr) (ids : list nat) (h : heap) : heap :=
  fold_left (fun h id => free m id h) ids h.

(* size tags (the harness measures sizeof for each) *)
Definition TAG_INT := 0.        (* XalanVector<int> element *)
Definition TAG_LNODE := 1.      (* XalanList<int>::Node *)
Definition TAG_ABLK := 2.       (* ArenaBlock<Obj> *)
Definition TAG_ASTORE := 3.     (* Obj (storage of an arena block = blockSize objects) *)
Definition TAG_ANODE := 4.      (* XalanList<ArenaBlock<Obj>*>::Node *)
Definition TAG_BYTE := 5.       (* payload owned by an arena object: cnt bytes *)
Definition TAG_BUCKET := 6.     (* XalanMap bucket = XalanVector<EntryListIterator> *)
Definition TAG_BREF := 7.       (* EntryListIterator *)
Definition TAG_MVALUE := 8.     (* std::pair<const Key, Value> *)
Definition TAG_MNODE := 9.      (* XalanList<Entry>::Node *)

(* ------------------------------------------------------------------------------------------- *)
(* XalanVector *)

Record vec := mkvec { vm : mgr; vsize : nat; vcap : nat; vdata : option nat }.

Definition vempty (m : mgr) : vec := mkvec m 0 0 None.
Definition vset_size (v : vec) (n : nat) : vec := mkvec (vm v) n (vcap v) (vdata v).

(* XalanVector(manager, initialAllocation) *)
Definition vec_new (tag : nat) (m : mgr) (n : nat) (h : heap) : heap * option vec :=
  if n =? 0 then (h, Some (vempty m))
  else match alloc m tag n h with
       | (h1, Some id) => (h1, Some (mkvec m 0 n (Some id)))
       | (h1, None) => (h1, None)
       end.

(* XalanVector(source, manager, initialAllocation): allocates max(size, initial) when that is > 0 *)
Definition vec_copy (tag : nat) (src : vec) (m : mgr) (init : nat) (h : heap) : heap * option vec :=
  match vec_new tag m (Nat.max (vsize src) init) h with
  | (h1, Some t) => (h1, Some (vset_size t (vsize src)))
  | (h1, None) => (h1, None)
  end.

Definition vec_dtor (v : vec) (h : heap) : heap :=
  if vcap v =? 0 then h
  else match vdata v with
       | Some id => if vec_dtor_deallocates then free (vm v) id h else h
       | None => h
       end.

Definition vec_swap (a b : vec) : vec * vec :=
  if vec_swap_swaps_manager then (b, a)
  else (mkvec (vm a) (vsize b) (vcap b) (vdata b), mkvec (vm b) (vsize a) (vcap a) (vdata a)).

(* copy into a temporary of the new capacity, swap, destroy the temporary (= the old storage) *)
Definition vec_realloc (tag : nat) (v : vec) (newcap extra : nat) (h : heap) : heap * vec * bool :=
  match vec_copy tag v (vm v) newcap h with
  | (h1, None) => (h1, v, false)
  | (h1, Some t) =>
      let '(v', t') := vec_swap v (vset_size t (vsize t + extra)) in
      (vec_dtor t' h1, v', true)
  end.

Definition vec_grow_size (n : nat) : nat := (n * vec_grow_num + vec_grow_round) / vec_grow_den.

Definition vec_push (tag : nat) (v : vec) (h : heap) : heap * vec * bool :=
  if vsize v <? vcap v then (h, vset_size v (S (vsize v)), true)
  else if vsize v =? 0 then
    match alloc (vm v) tag 1 h with
    | (h1, Some id) => (h1, mkvec (vm v) 1 1 (Some id), true)
    | (h1, None) => (h1, v, false)
    end
  else vec_realloc tag v (vec_grow_size (vsize v)) 1 h.

Definition vec_reserve (tag : nat) (v : vec) (n : nat) (h : heap) : heap * vec * bool :=
  if vcap v <? n then vec_realloc tag v n 0 h else (h, v, true).

(* insert(end(), n, x): ensureCapacity(size + n) reserves exactly *)
Definition vec_insert_end (tag : nat) (v : vec) (n : nat) (h : heap) : heap * vec * bool :=
  match vec_reserve tag v (vsize v + n) h with
  | (h1, v1, true) => (h1, vset_size v1 (vsize v1 + n), true)
  | r => r
  end.

(* insert(pos, n, x) with pos < end(): a fresh vector of exactly size + n when the capacity is short *)
Definition vec_insert_mid (tag : nat) (v : vec) (n : nat) (h : heap) : heap * vec * bool :=
  if vcap v <? vsize v + n then
    match vec_new tag (vm v) (vsize v + n) h with
    | (h1, None) => (h1, v, false)
    | (h1, Some t) =>
        let '(v', t') := vec_swap v (vset_size t (vsize v + n)) in
        (vec_dtor t' h1, v', true)
    end
  else (h, vset_size v (vsize v + n), true).

Definition vec_resize (tag : nat) (v : vec) (n : nat) (h : heap) : heap * vec * bool :=
  if n <? vsize v then (h, vset_size v n, true)
  else match vec_reserve tag v n h with
       | (h1, v1, true) => (h1, vset_size v1 n, true)
       | r => r
       end.

(* operator=(rhs) *)
Definition vec_assign (tag : nat) (v rhs : vec) (h : heap) : heap * vec * bool :=
  if vcap v <? vsize rhs then
    match vec_copy tag rhs (vm v) 0 h with
    | (h1, None) => (h1, v, false)
    | (h1, Some t) => let '(v', t') := vec_swap v t in (vec_dtor t' h1, v', true)
    end
  else (h, vset_size v (vsize rhs), true).

Inductive vop :=
| VPush (i : bool) | VPop (i : bool) | VErase (i : bool) | VClear (i : bool)
| VReserve (i : bool) (n : nat) | VInsEnd (i : bool) (n : nat) | VInsMid (i : bool) (n : nat)
| VResize (i : bool) (n : nat) | VAssign (i : bool) | VSwap.

Definition sel {A} (i : bool) (w : A * A) : A := if i then snd w else fst w.
Definition upd {A} (i : bool) (w : A * A) (x : A) : A * A := if i then (fst w, x) else (x, snd w).

Definition vstep (op : vop) (w : vec * vec) (h : heap) : heap * (vec * vec) * bool :=
  let lift (i : bool) (r : heap * vec * bool) := let '(h1, v1, ok) := r in (h1, upd i w v1, ok) in
  match op with
  | VPush i => lift i (vec_push TAG_INT (sel i w) h)
  | VPop i => (h, upd i w (vset_size (sel i w) (pred (vsize (sel i w)))), true)
  | VErase i => (h, upd i w (vset_size (sel i w) (pred (vsize (sel i w)))), true)
  | VClear i => (h, upd i w (vset_size (sel i w) 0), true)
  | VReserve i n => lift i (vec_reserve TAG_INT (sel i w) n h)
  | VInsEnd i n => lift i (vec_insert_end TAG_INT (sel i w) n h)
  | VInsMid i n => if vsize (sel i w) =? 0 then lift i (vec_insert_end TAG_INT (sel i w) n h)
                   else lift i (vec_insert_mid TAG_INT (sel i w) n h)
  | VResize i n => lift i (vec_resize TAG_INT (sel i w) n h)
  | VAssign i => lift i (vec_assign TAG_INT (sel i w) (sel (negb i) w) h)
  | VSwap => let '(a, b) := vec_swap (fst w) (snd w) in (h, (a, b), true)
  end.

Definition vdestroy (w : vec * vec) (h : heap) : heap := vec_dtor (snd w) (vec_dtor (fst w) h).

Definition vworld0 : vec * vec := (vempty 0, vempty 1).

(* ------------------------------------------------------------------------------------------- *)
(* XalanList *)

Record xlist := mklist { lm : mgr; lhead : option nat; lnodes : list nat; lfree : list nat }.

Definition lempty (m : mgr) : xlist := mklist m None [] [].

(* getListHead(): the sentinel node is allocated on first use — begin(), end(), empty(), size(), ... *)
Definition get_head (tag : nat) (l : xlist) (h : heap) : heap * xlist * bool :=
  match lhead l with
  | Some _ => (h, l, true)
  | None => match alloc (lm l) tag 1 h with
            | (h1, Some id) => (h1, mklist (lm l) (Some id) (lnodes l) (lfree l), true)
            | (h1, None) => (h1, l, false)
            end
  end.

Definition insert_at {A} (pos : nat) (x : A) (l : list A) : list A := firstn pos l ++ x :: skipn pos l.
Definition remove_at {A} (pos : nat) (l : list A) : list A := firstn pos l ++ skipn (S pos) l.

(* constructNode(data, pos): a node from the free list, else a fresh one *)
Definition construct_node (tag : nat) (l : xlist) (pos : nat) (h : heap) : heap * xlist * bool :=
  match lfree l with
  | f :: r => (h, mklist (lm l) (lhead l) (insert_at pos f (lnodes l)) r, true)
  | [] => match alloc (lm l) tag 1 h with
          | (h1, Some id) => (h1, mklist (lm l) (lhead l) (insert_at pos id (lnodes l)) [], true)
          | (h1, None) => (h1, l, false)
          end
  end.

(* insert(pos, x) / push_back / push_front: the iterator argument is evaluated first *)
Definition list_insert (tag : nat) (l : xlist) (pos : nat) (h : heap) : heap * xlist * bool :=
  match get_head tag l h with
  | (h1, l1, true) => construct_node tag l1 pos h1
  | r => r
  end.

(* erase(pos): freeNode puts the node on the free list (never returns it to the manager) *)
Definition list_erase (l : xlist) (pos : nat) : xlist :=
  match nth_error (lnodes l) pos with
  | Some nd => mklist (lm l) (lhead l) (remove_at pos (lnodes l)) (nd :: lfree l)
  | None => l
  end.

(* clear(): nothing to do for a list that has no head node yet (and then no node is created) *)
Definition list_clear (tag : nat) (l : xlist) (h : heap) : heap * xlist * bool :=
  match lhead l with
  | None => if list_clear_guarded then (h, l, true)
            else match get_head tag l h with
                 | (h1, l1, true) => (h1, mklist (lm l1) (lhead l1) [] (rev (lnodes l1) ++ lfree l1), true)
                 | r => r
                 end
  | Some _ => (h, mklist (lm l) (lhead l) [] (rev (lnodes l) ++ lfree l), true)
  end.

Definition list_swap (a b : xlist) : xlist * xlist :=
  if list_swap_swaps_manager then (b, a)
  else (mklist (lm a) (lhead b) (lnodes b) (lfree b), mklist (lm b) (lhead a) (lnodes a) (lfree a)).

(* ~XalanList: returns (heap, ok); ok = false means an allocation was refused inside the destructor *)
Definition list_dtor (tag : nat) (l : xlist) (h : heap) : heap * bool :=
  let body (l1 : xlist) (h1 : heap) :=
    match lhead l1 with
    | Some hd => free (lm l1) hd (free_all (lm l1) (lfree l1) (free_all (lm l1) (lnodes l1) h1))
    | None => h1
    end in
  if list_dtor_guarded then (body l h, true)
  else match get_head tag l h with
       | (h1, l1, true) => (body l1 h1, true)
       | (h1, _, false) => (h1, false)
       end.

Inductive lop :=
| LPushBack (i : bool) | LPushFront (i : bool) | LInsert (i : bool) (pos : nat) | LErase (i : bool) (pos : nat)
| LClear (i : bool) | LEmpty (i : bool) | LSwap.

Definition lstep (op : lop) (w : xlist * xlist) (h : heap) : heap * (xlist * xlist) * bool :=
  let lift (i : bool) (r : heap * xlist * bool) := let '(h1, l1, ok) := r in (h1, upd i w l1, ok) in
  match op with
  | LPushBack i => lift i (list_insert TAG_LNODE (sel i w) (length (lnodes (sel i w))) h)
  | LPushFront i => lift i (list_insert TAG_LNODE (sel i w) 0 h)
  | LInsert i pos => lift i (list_insert TAG_LNODE (sel i w) (Nat.min pos (length (lnodes (sel i w)))) h)
  | LErase i pos => (h, upd i w (list_erase (sel i w) pos), true)
  | LClear i => lift i (list_clear TAG_LNODE (sel i w) h)
  | LEmpty i => if list_empty_nonallocating then (h, w, true) else lift i (get_head TAG_LNODE (sel i w) h)
  | LSwap => let '(a, b) := list_swap (fst w) (snd w) in (h, (a, b), true)
  end.

Definition ldestroy (w : xlist * xlist) (h : heap) : heap * bool :=
  let '(h1, ok1) := list_dtor TAG_LNODE (fst w) h in
  let '(h2, ok2) := list_dtor TAG_LNODE (snd w) h1 in (h2, ok1 && ok2).

Definition lworld0 : xlist * xlist := (lempty 0, lempty 1).

(* ------------------------------------------------------------------------------------------- *)
(* ArenaAllocator<Obj, ArenaBlock<Obj>> : m_blocks is a XalanList<ArenaBlock*>; blocks are aligned with
   the list nodes; [aleak] is a ghost: blocks that no object of the program references any more *)

Record ablock := mkblk { bstruct : nat; bstore : nat; bobjs : list nat }.

Record arena := mkarena { alist : xlist; ablocks : list ablock; absize : nat; aleak : list (nat * mgr) }.

Definition arena0 (m : mgr) (bs : nat) : arena := mkarena (lempty m) [] bs [].

Definition am (a : arena) : mgr := lm (alist a).

Definition last_full (a : arena) : bool :=
  match rev (ablocks a) with
  | [] => true
  | b :: _ => negb (length (bobjs b) <? absize a)
  end.

Definition add_obj (blocks : list ablock) (o : nat) : list ablock :=
  match rev blocks with
  | [] => []
  | b :: r => rev r ++ [mkblk (bstruct b) (bstore b) (bobjs b ++ [o])]
  end.

(* allocateBlock() when there is no block with room: m_blocks.push_back(ArenaBlockType::create(...)).
   The argument is evaluated first (struct, then storage; the allocation guard releases the struct when the
   storage is refused); push_back(x) is constructNode(x, end()), and end() creates the head node of a list
   that was never used (m_blocks.empty() itself no longer does).  When the head node or the list node is
   refused: [g] = false (the code as found, K-new-1) the new block is lost; [g] = true (the repaired code:
   theNewBlock = create(...); try { push_back(theNewBlock); } catch(...) { XalanDestroy(manager, theNewBlock);
   throw; }) the block is destroyed - ~ArenaBlockBase releases the storage, then the struct is released.
   The value of [g] for this tree is GenMem.arena_block_guarded. *)
Definition arena_new_block (g : bool) (a : arena) (h : heap) : heap * arena * bool :=
  match alloc (am a) TAG_ABLK 1 h with
  | (h2, None) => (h2, a, false)
  | (h2, Some bs) =>
      match alloc (am a) TAG_ASTORE (absize a) h2 with
      | (h3, None) => (free (am a) bs h3, a, false)
      | (h3, Some st) =>
          match list_insert TAG_ANODE (alist a) (length (lnodes (alist a))) h3 with
          | (h4, l2, true) => (h4, mkarena l2 (ablocks a ++ [mkblk bs st []]) (absize a) (aleak a), true)
          | (h4, l2, false) =>
              if g then (free (lm l2) bs (free (lm l2) st h4), mkarena l2 (ablocks a) (absize a) (aleak a), false)
              else (h4, mkarena l2 (ablocks a) (absize a) ((bs, lm l2) :: (st, lm l2) :: aleak a), false)
          end
      end
  end.

(* p = allocateBlock(); new (p) Obj(manager, osz); commitAllocation(p) *)
Definition arena_new_obj (g : bool) (a : arena) (osz : nat) (h : heap) : heap * arena * bool :=
  match (if last_full a then arena_new_block g a h else (h, a, true)) with
  | (h5, a2, false) => (h5, a2, false)
  | (h5, a2, true) =>
      match alloc (am a2) TAG_BYTE osz h5 with              (* the object's constructor *)
      | (h6, None) => (h6, a2, false)
      | (h6, Some o) => (h6, mkarena (alist a2) (add_obj (ablocks a2) o) (absize a2) (aleak a2), true)
      end
  end.

Definition block_dtor (m : mgr) (b : ablock) (h : heap) : heap :=
  let objs := if arenablock_dtor_all_objects then bobjs b else removelast (bobjs b) in
  free m (bstruct b) (free m (bstore b) (free_all m objs h)).

(* reset(): if (!m_blocks.empty()) { for_each(begin(), end(), DeleteFunctor); m_blocks.clear(); } *)
Definition arena_reset_body (a : arena) (h : heap) : heap * arena * bool :=
  match get_head TAG_ANODE (alist a) h with
  | (h1, l1, false) => (h1, a, false)
  | (h1, l1, true) =>
      let h2 := fold_left (fun h b => block_dtor (lm l1) b h) (ablocks a) h1 in
      (h2, mkarena (mklist (lm l1) (lhead l1) [] (rev (lnodes l1) ++ lfree l1)) [] (absize a) (aleak a), true)
  end.

Definition arena_reset (a : arena) (h : heap) : heap * arena * bool :=
  if arena_reset_guarded then
    match lhead (alist a), lnodes (alist a) with
    | Some _, _ :: _ => arena_reset_body a h
    | _, _ => (h, a, true)
    end
  else arena_reset_body a h.

(* ~ArenaAllocator: reset(), then ~XalanList.  ok = false: an allocation was refused inside the
   destructor (std::terminate in C++11) *)
Definition arena_dtor (a : arena) (h : heap) : heap * arena * bool :=
  match arena_reset a h with
  | (h1, a1, true) => let '(h2, ok) := list_dtor TAG_ANODE (alist a1) h1 in
                      (h2, mkarena (mklist (am a1) None [] []) [] (absize a1) (aleak a1), ok)
  | (h1, a1, false) => (h1, a1, false)
  end.

Inductive aop := ANew (osz : nat) | AReset.

Definition astep (g : bool) (op : aop) (a : arena) (h : heap) : heap * arena * bool :=
  match op with
  | ANew osz => arena_new_obj g a osz h
  | AReset => arena_reset a h
  end.

(* ------------------------------------------------------------------------------------------- *)
(* traces for the correspondence: per operation (ok, events in program order, observation) *)

Definition clear_log (h : heap) : heap := mkheap (next h) (live h) (fuse h) (bad h) [].

Definition vobs (w : vec * vec) : list nat := [vsize (fst w); vcap (fst w); vsize (snd w); vcap (snd w)].
Definition lobs (w : xlist * xlist) : list nat := [length (lnodes (fst w)); length (lnodes (snd w))].
Definition aobs (a : arena) : list nat := [fold_right (fun b n => length (bobjs b) + n) 0 (ablocks a)].

Section Trace.
Variables (S O : Type) (step : O -> S -> heap -> heap * S * bool) (obs : S -> list nat).
Fixpoint run_trace (ops : list O) (s : S) (h : heap) : list (bool * list event * list nat) * S * heap :=
  match ops with
  | [] => ([], s, h)
  | op :: r =>
      let '(h1, s1, ok) := step op s (clear_log h) in
      let '(t, s2, h2) := run_trace r s1 h1 in
      ((ok, rev (log h1), obs s1) :: t, s2, h2)
  end.

Fixpoint run (ops : list O) (s : S) (h : heap) : S * heap :=
  match ops with
  | [] => (s, h)
  | op :: r => let '(h1, s1, _) := step op s h in run r s1 h1
  end.
End Trace.

Record result := mkresult { r_steps : list (bool * list event * list nat); r_dtor_ok : bool;
                            r_dtor_events : list event; r_outstanding : nat; r_bad : bool }.

Definition vec_case (f : option nat) (ops : list vop) : result :=
  let '(t, w, h) := run_trace _ _ vstep vobs ops vworld0 (heap0 f) in
  let h1 := vdestroy w (clear_log h) in
  mkresult t true (rev (log h1)) (length (live h1)) (bad h1).

Definition list_case (f : option nat) (ops : list lop) : result :=
  let '(t, w, h) := run_trace _ _ lstep lobs ops lworld0 (heap0 f) in
  let '(h1, ok) := ldestroy w (clear_log h) in
  mkresult t ok (rev (log h1)) (length (live h1)) (bad h1).

Definition arena_case_g (g : bool) (f : option nat) (bs : nat) (ops : list aop) : result :=
  let '(t, a, h) := run_trace _ _ (astep g) aobs ops (arena0 0 bs) (heap0 f) in
  let '(h1, _, ok) := arena_dtor a (clear_log h) in
  mkresult t ok (rev (log h1)) (length (live h1)) (bad h1).

(* this tree: the shape of allocateBlock() found by the translator *)
Definition arena_case := arena_case_g arena_block_guarded.
