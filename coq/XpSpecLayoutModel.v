(* XpSpecLayoutModel.v — consequences of the well-formedness of XpSpecDefs.v ([wfd]: the table is
   the document in document order): parent links = the declarative parent relation, parents have
   smaller ids, every subtree is an interval of the table, descendants = the non-attribute nodes
   of that interval; hence the [wf] of DomModel.v and the pre-order hypothesis of DomDescModel.v. *)
From Coq Require Import NArith List Bool Arith Lia Relations Sorted.
Require Import XV.XpAst XV.DomDefs XV.NumDefs XV.XpDefs XV.DomModel XV.DomDescModel XV.XpModel XV.XpSpecDefs.
Import ListNotations.

(** * chains *)
Lemma chain_le sz : forall l start stop, chain sz start l stop -> start <= stop.
Proof.
  induction l as [|c r IH]; cbn [chain]; intros start stop H; [lia|].
  destruct H as [-> H]. apply IH in H. lia.
Qed.

Lemma chain_in sz : forall l start stop c, chain sz start l stop -> In c l -> start <= c /\ c + sz c <= stop.
Proof.
  induction l as [|a r IH]; cbn [chain]; intros start stop c H Hin; [destruct Hin|].
  destruct H as [-> H]. destruct Hin as [<-|Hin].
  - split; [lia|]. apply chain_le in H. exact H.
  - destruct (IH _ _ _ H Hin). lia.
Qed.

Lemma chain_split sz : forall pre start x post stop,
  chain sz start (pre ++ x :: post) stop -> chain sz start pre x /\ chain sz (x + sz x) post stop.
Proof.
  induction pre as [|a pre IH]; cbn [chain app]; intros start x post stop H.
  - destruct H as [-> H]. split; [reflexivity | exact H].
  - destruct H as [-> H]. destruct (IH _ _ _ _ H). split; [split; [reflexivity|assumption] | assumption].
Qed.

Lemma chain_cover sz : forall l start stop y, chain sz start l stop -> start <= y < stop ->
  exists c, In c l /\ c <= y < c + sz c.
Proof.
  induction l as [|a r IH]; cbn [chain]; intros start stop y H Hy; [lia|].
  destruct H as [-> H]. destruct (Nat.lt_ge_cases y (start + sz start)) as [Hlt|Hge].
  - exists start. split; [left; reflexivity | lia].
  - destruct (IH _ _ y H) as [c [Hc Hyc]]; [lia|]. exists c. split; [right; exact Hc | exact Hyc].
Qed.

Lemma chain_seq sz : forall l start stop, chain sz start l stop ->
  seq start (stop - start) = flat_map (fun c => seq c (sz c)) l.
Proof.
  induction l as [|a r IH]; cbn [chain flat_map]; intros start stop H.
  - subst. rewrite Nat.sub_diag. reflexivity.
  - destruct H as [-> H]. pose proof (chain_le _ _ _ _ H) as Hle.
    replace (stop - start) with (sz start + (stop - (start + sz start))) by lia.
    rewrite seq_app. f_equal. apply IH. exact H.
Qed.

Lemma chain_sorted sz : forall l start stop, (forall c, In c l -> 1 <= sz c) -> chain sz start l stop ->
  StronglySorted lt l /\ forall c, In c l -> start <= c.
Proof.
  induction l as [|a r IH]; cbn [chain]; intros start stop Hs H.
  - split; [constructor | intros c []].
  - destruct H as [-> H]. destruct (IH _ _ (fun c Hc => Hs c (or_intror Hc)) H) as [Hsort Hge].
    pose proof (Hs start (or_introl eq_refl)). split.
    + constructor; [exact Hsort|]. apply Forall_forall. intros c Hc. specialize (Hge c Hc). lia.
    + intros c [<-|Hc]; [lia|]. specialize (Hge c Hc). lia.
Qed.

Lemma filter_flat_map {A B} (f : B -> bool) (g : A -> list B) l :
  filter f (flat_map g l) = flat_map (fun x => filter f (g x)) l.
Proof. induction l as [|a l IH]; simpl; [reflexivity|]. rewrite filter_app, IH. reflexivity. Qed.

Lemma filter_none {A} (f : A -> bool) l : (forall x, In x l -> f x = false) -> filter f l = [].
Proof.
  induction l as [|a l IH]; intros H; simpl; [reflexivity|].
  rewrite (H a (or_introl eq_refl)). apply IH. intros x Hx. apply H. right. exact Hx.
Qed.

Definition nonattrb (d : doc) (x : nat) : bool := negb (is_attr_kind (n_kind (get d x))).

Section Layout.
  Variable d : doc.
  Variable sz : nat -> nat.
  Hypothesis Hsz0 : sz 0 = length d.
  Hypothesis HL : forall n, n < length d -> node_layout d sz n.
  Hypothesis Hroot : n_parent (get d 0) = None.

  Let na (n : nat) : nat := length (n_attrs (get d n)).

  Lemma link_in_range x p : n_parent (get d x) = Some p -> x < length d.
  Proof.
    intros H. destruct (Nat.lt_ge_cases x (length d)) as [Hlt|Hge]; [exact Hlt|].
    rewrite (get_out_of_range _ _ Hge) in H. discriminate.
  Qed.

  Lemma lists_in_range p x : In x (n_attrs (get d p)) \/ In x (n_children (get d p)) -> p < length d.
  Proof.
    intros H. destruct (Nat.lt_ge_cases p (length d)) as [Hlt|Hge]; [exact Hlt|].
    rewrite (get_out_of_range _ _ Hge) in H. destruct H as [[]|[]].
  Qed.

  Lemma sz_ge n : n < length d -> S n + na n <= n + sz n.
  Proof. intros Hn. exact (chain_le _ _ _ _ (nl_children _ _ _ (HL n Hn))). Qed.

  Lemma attr_facts p a : In a (n_attrs (get d p)) ->
    p < length d /\ p < a <= p + na p /\ a < length d /\ n_parent (get d a) = Some p /\
    is_attr_kind (n_kind (get d a)) = true /\ sz a = 1 /\ n_children (get d a) = [] /\ n_attrs (get d a) = [].
  Proof.
    intros Hin. assert (Hp : p < length d) by (eapply lists_in_range; left; exact Hin).
    destruct (nl_attr _ _ _ (HL p Hp) a Hin) as [Hpar [Hk [Hc Ha]]].
    assert (Hlt : a < length d) by (eapply link_in_range; exact Hpar).
    split; [exact Hp|]. split.
    - rewrite (nl_attrs _ _ _ (HL p Hp)) in Hin. apply in_seq in Hin. unfold na. lia.
    - split; [exact Hlt|]. split; [exact Hpar|]. split; [exact Hk|]. split; [|split; assumption].
      pose proof (nl_children _ _ _ (HL a Hlt)) as Hch. rewrite Hc, Ha in Hch. cbn [chain length] in Hch. lia.
  Qed.

  Lemma child_facts p c : In c (n_children (get d p)) ->
    p < length d /\ p + na p < c /\ c + sz c <= p + sz p /\ c < length d /\ 1 <= sz c /\
    n_parent (get d c) = Some p /\ is_attr_kind (n_kind (get d c)) = false.
  Proof.
    intros Hin. assert (Hp : p < length d) by (eapply lists_in_range; right; exact Hin).
    destruct (nl_child _ _ _ (HL p Hp) c Hin) as [Hpar Hk].
    assert (Hlt : c < length d) by (eapply link_in_range; exact Hpar).
    destruct (chain_in _ _ _ _ c (nl_children _ _ _ (HL p Hp)) Hin) as [H1 H2].
    pose proof (sz_ge c Hlt). unfold na in *. repeat split; try assumption; lia.
  Qed.

  (* every table entry inside the subtree interval of n, other than n, is in one of the two lists
     of some node of that interval *)
  Lemma cover : forall k n y, sz n <= k -> n < length d -> n < y < n + sz n ->
    exists p, (In y (n_attrs (get d p)) \/ In y (n_children (get d p))) /\ n <= p /\ p + sz p <= n + sz n.
  Proof.
    induction k as [|k IH]; intros n y Hk Hn Hy; [pose proof (sz_ge n Hn); lia|].
    destruct (Nat.le_gt_cases y (n + na n)) as [Hle|Hgt].
    - exists n. split; [|lia]. left. rewrite (nl_attrs _ _ _ (HL n Hn)). apply in_seq. unfold na in Hle. lia.
    - destruct (chain_cover _ _ _ _ y (nl_children _ _ _ (HL n Hn))) as [c [Hc Hyc]]; [unfold na in Hgt; lia|].
      destruct (child_facts n c Hc) as [_ [H1 [H2 [H3 [H4 _]]]]].
      destruct (Nat.eq_dec y c) as [->|Hne].
      + exists n. split; [right; exact Hc | lia].
      + destruct (IH c y) as [p [Hp [Hge Hle]]]; [lia | exact H3 | lia |].
        exists p. split; [exact Hp | lia].
  Qed.

  Lemma has_parent y : 0 < y < length d -> exists p, In y (n_attrs (get d p)) \/ In y (n_children (get d p)).
  Proof.
    intros Hy. destruct (cover (sz 0) 0 y (le_n _)) as [p [Hp _]]; [lia | lia |]. exists p. exact Hp.
  Qed.

  (* the parent link is the declarative parent relation *)
  Lemma parent_iff y p : n_parent (get d y) = Some p <-> parent_rel d y p.
  Proof.
    unfold parent_rel, child_of. split.
    - intros H. pose proof (link_in_range _ _ H) as Hy.
      assert (Hy0 : y <> 0) by (intros ->; rewrite Hroot in H; discriminate).
      destruct (has_parent y) as [q [Hq|Hq]]; [lia| |].
      + destruct (attr_facts q y Hq) as [_ [_ [_ [Hpar _]]]]. rewrite Hpar in H. inversion H; subst. right. exact Hq.
      + destruct (child_facts q y Hq) as [_ [_ [_ [_ [_ [Hpar _]]]]]]. rewrite Hpar in H. inversion H; subst. left. exact Hq.
    - intros [H|H].
      + apply (child_facts p y H).
      + apply (attr_facts p y H).
  Qed.

  Lemma par_lt x p : parent_of d x = Some p -> p < x.
  Proof.
    unfold parent_of. intros H. apply parent_iff in H. destruct H as [H|H].
    - destruct (child_facts p x H) as [_ [H1 _]]. lia.
    - destruct (attr_facts p x H) as [_ [H1 _]]. lia.
  Qed.

  Lemma wf_of_layout : wf d.
  Proof.
    split.
    - intros i c Hin. destruct (child_facts i c Hin) as [_ [_ [_ [_ [_ [H1 H2]]]]]]. split; assumption.
    - intros i. destruct (Nat.lt_ge_cases i (length d)) as [Hlt|Hge].
      + apply sorted_lt_nodup. unfold sorted_lt.
        eapply (chain_sorted sz _ _ _); [|exact (nl_children _ _ _ (HL i Hlt))].
        intros c Hc. apply (child_facts i c Hc).
      + rewrite (get_out_of_range _ _ Hge). constructor.
  Qed.

  Lemma children_sorted i : StronglySorted lt (n_children (get d i)).
  Proof.
    destruct (Nat.lt_ge_cases i (length d)) as [Hlt|Hge].
    - eapply (chain_sorted sz _ _ _); [|exact (nl_children _ _ _ (HL i Hlt))].
      intros c Hc. apply (child_facts i c Hc).
    - rewrite (get_out_of_range _ _ Hge). constructor.
  Qed.

  (* every subtree interval lies inside the table *)
  Lemma inside : forall n, n < length d -> n + sz n <= length d.
  Proof.
    induction n as [n IH] using lt_wf_ind. intros Hn.
    destruct (Nat.eq_dec n 0) as [->|Hne]; [lia|].
    destruct (has_parent n) as [p [Hp|Hp]]; [lia| |].
    - destruct (attr_facts p n Hp) as [Hpl [H1 [_ [_ [_ [H2 _]]]]]].
      pose proof (IH p (proj1 H1) Hpl). pose proof (sz_ge p Hpl). lia.
    - destruct (child_facts p n Hp) as [Hpl [H1 [H2 _]]].
      assert (p < n) by lia. pose proof (IH p H Hpl). lia.
  Qed.

  Lemma kind_of_attr p a : In a (n_attrs (get d p)) -> nonattrb d a = false.
  Proof. intros H. unfold nonattrb. destruct (attr_facts p a H) as [_ [_ [_ [_ [-> _]]]]]. reflexivity. Qed.

  Lemma kind_of_child p c : In c (n_children (get d p)) -> nonattrb d c = true.
  Proof. intros H. unfold nonattrb. destruct (child_facts p c H) as [_ [_ [_ [_ [_ [_ ->]]]]]]. reflexivity. Qed.

  (** * descendants = the non-attribute nodes of the subtree interval *)
  Lemma desc_interval n x : descendant d n x ->
    n < x /\ x + sz x <= n + sz n /\ x < length d /\ 1 <= sz x /\ nonattrb d x = true.
  Proof.
    unfold descendant. induction 1 as [n x H | n y x _ IH1 _ IH2].
    - destruct (child_facts n x H) as [_ [H1 [H2 [H3 [H4 _]]]]].
      repeat split; try assumption; try lia. apply (kind_of_child n x H).
    - destruct IH1 as [A1 [A2 _]]. destruct IH2 as [B1 [B2 [B3 [B4 B5]]]]. repeat split; try assumption; lia.
  Qed.

  Lemma interval_desc : forall k n x, sz n <= k -> n < length d -> n < x < n + sz n -> nonattrb d x = true ->
    descendant d n x.
  Proof.
    induction k as [|k IH]; intros n x Hk Hn Hx Hna; [pose proof (sz_ge n Hn); lia|].
    destruct (Nat.le_gt_cases x (n + na n)) as [Hle|Hgt].
    - exfalso. assert (Hin : In x (n_attrs (get d n))).
      { rewrite (nl_attrs _ _ _ (HL n Hn)). apply in_seq. unfold na in Hle. lia. }
      rewrite (kind_of_attr n x Hin) in Hna. discriminate.
    - destruct (chain_cover _ _ _ _ x (nl_children _ _ _ (HL n Hn))) as [c [Hc Hxc]]; [unfold na in Hgt; lia|].
      destruct (child_facts n c Hc) as [_ [H1 [H2 [H3 [H4 _]]]]].
      destruct (Nat.eq_dec x c) as [->|Hne].
      + apply t_step. exact Hc.
      + eapply t_trans; [apply t_step; exact Hc|]. apply (IH c x); [lia | exact H3 | lia | exact Hna].
  Qed.

  Lemma descendant_iff n x : n < length d ->
    (descendant d n x <-> n < x < n + sz n /\ nonattrb d x = true).
  Proof.
    intros Hn. split.
    - intros H. destruct (desc_interval n x H) as [A [B [C [D E]]]]. split; [lia | exact E].
    - intros [A B]. exact (interval_desc (sz n) n x (le_n _) Hn A B).
  Qed.

  (* the list of the descendants in document order *)
  Definition desc_list (n : nat) : list nat := filter (nonattrb d) (seq (S n) (sz n - 1)).

  Lemma attrs_filtered n k : n < length d -> k <= na n -> filter (nonattrb d) (seq (S n) k) = [].
  Proof.
    intros Hn Hk. apply filter_none. intros x Hx. apply in_seq in Hx.
    apply (kind_of_attr n). rewrite (nl_attrs _ _ _ (HL n Hn)). apply in_seq. unfold na in Hk. lia.
  Qed.

  Lemma dspec_filter : forall k n f, sz n <= k -> n < length d -> length d - n <= f ->
    dspec d f n = desc_list n.
  Proof.
    induction k as [|k IH]; intros n f Hk Hn Hf; [pose proof (sz_ge n Hn); lia|].
    destruct f as [|f]; [lia|]. cbn [dspec]. unfold desc_list.
    pose proof (sz_ge n Hn) as Hge. pose proof (nl_children _ _ _ (HL n Hn)) as Hch.
    replace (sz n - 1) with (na n + (n + sz n - (S n + na n))) by lia.
    rewrite seq_app, filter_app, (attrs_filtered n (na n) Hn (le_n _)). cbn [app].
    unfold na. rewrite (chain_seq _ _ _ _ Hch), filter_flat_map.
    apply flat_map_ext_in. intros c Hc.
    destruct (child_facts n c Hc) as [_ [H1 [H2 [H3 [H4 _]]]]].
    replace (sz c) with (S (sz c - 1)) at 1 by lia. cbn [seq filter].
    rewrite (kind_of_child n c Hc). f_equal. apply IH; lia.
  Qed.

  Lemma subtree_eq n : n < length d -> subtree d n = n :: desc_list n.
  Proof. intros Hn. unfold subtree. f_equal. apply (dspec_filter (sz n)); [lia | exact Hn | lia]. Qed.

  Lemma descendants_or_self_eq n : n < length d -> descendants_or_self d n = n :: desc_list n.
  Proof.
    intros Hn. rewrite (descendants_or_self_is_preorder d wf_of_layout par_lt n Hn). apply subtree_eq. exact Hn.
  Qed.

  Lemma desc_list_In n x : n < length d -> (In x (desc_list n) <-> descendant d n x).
  Proof.
    intros Hn. unfold desc_list. rewrite filter_In, in_seq, (descendant_iff n x Hn).
    pose proof (sz_ge n Hn). split; intros [A B]; (split; [lia | exact B]).
  Qed.
End Layout.
