"""C01, part "cover" (plug-in of props/C01.py: run_part(ctx)): the program generator and the reference interpreter
cover the whole instruction list of the property.

audit  : vlib/xsltgen_cover.audit counts, for every item of the property's quantifier text, how many programs
         contain it, how often, and inside which instructions - on a sample of the base generator (vlib/xsltgen.py) and on
         every program of this part; the table goes to the evidence (input_distribution "cover:item:..." and
         notes["cover_audit"]), an item that no program of the run contains is reported as a broken tie;
oracle : vlib/xsltref_cover.py (reference additions written from the Recommendation: xsl:number counting 7.7,
         apply-imports 5.6, strip-space 3.4, namespace nodes of literal result elements / exclude-result-prefixes /
         namespace-alias 7.1.1, use-attribute-sets on xsl:copy 7.5; keys, attribute sets, imports, modes and
         priorities are those of vlib/xsltref.py) against the re-parsed output of the rebuilt library on programs of
         vlib/xsltgen_cover.py: equality of the result trees (expanded names, attributes, text, comments, PIs in
         order) and, per result element, a two-sided check of the in-scope namespace declarations; disagreements
         outside the known classes of props/C01.py are shrunk and reported with a replay.
No Coq model is involved in this part.

replay : python3 -m props.C01cover <replay file>          (cwd /verif)"""
import ast
import collections
import glob
import hashlib
import os
import sys
import time

from vlib import core, xsltrun, xsltref, xsltgen
from vlib import xsltref_cover as xr
from vlib import xsltgen_cover as xg

N_QUICK = 4000
N_THOROUGH = 20000
N_AUDIT_BASE = 400
BATCH = 2500

# items of the property's list a run must contain at least once (in this part's stream)
MUST_OCCUR = xg.ITEMS + ["number:count", "number:level-single", "number:level-multiple", "number:level-any", "number:count-pattern",
                         "number:from-pattern", "key:call", "key:node-set-argument", "key:same-name-twice", "attribute-set:used-by-copy",
                         "attribute-set:used-by-set", "apply-imports", "preserve-space", "exclude-result-prefixes:on-lre",
                         "template-priority:same-pattern-twice", "template-mode:identity"]
# what must actually have been EXECUTED by the reference (dynamic coverage)
MUST_RUN = ["number-instruction-revisited-out-of-document-order", "number-level-single", "number-level-multiple", "number-level-any",
            "apply-imports->template", "source-stripped", "copy-with-attribute-sets", "lre-with-excluded-namespace",
            "aliased-element-name", "copy-attr", "copy-text", "copy-comment", "copy-pi", "copy-elem"]


# known-finding classes of this part (props/C01cover.findings.txt), decided by the reference run (flags)
FLAG_CLASS = {
    "copy_of_root_with_several_attribute_sets": "K-C01cover-1",
    "alias_not_visible_alike_in_every_module": "K-C01cover-2",
    "included_module_excludes_other_namespaces": "K-C01cover-3",
}


def corpus_dir():
    return os.path.join(core.VERIF, "corpus", "C01cover")


def replay_text(what, sheet, doc, extra=""):
    main, files = xg.print_sheet(sheet)
    head = ["# C01cover oracle: " + what,
            "# replay: cd /verif && python3 -m props.C01cover <this file>   (reference tree vs re-parsed library output)"]
    head += ["#   " + l for l in main.split("\n")]
    for k, v in files.items():
        head.append("#   --- %s" % k)
        head += ["#   " + l for l in v.split("\n")]
    head.append("#   --- source: " + xsltgen.doc_xml(doc).replace("\n", "&#10;"))
    head += ["#   " + l for l in extra.split("\n") if l]
    return "\n".join(head) + "\n" + repr({"kind": "cover", "sheet": sheet, "doc": doc}) + "\n"


def load_replay(path):
    lines = [l for l in open(path, encoding="utf-8") if l.startswith("{")]
    return ast.literal_eval(lines[-1].strip())


def prepare(ctx, cid, sheet, doc):
    try:
        tree, profile, flags = xr.run(sheet, doc)
    except xsltref.XsltError as e:
        if ctx is not None:
            ctx.count("cover:generator:rejected-by-reference(%s)" % str(e)[:28])
        return None
    except RecursionError:
        if ctx is not None:
            ctx.count("cover:generator:too-deep")
        return None
    main, files = xg.print_sheet(sheet)
    return {"id": cid, "kind": "main", "sheet_ast": sheet, "doc": doc, "sheet": main, "files": files,
            "source": xsltgen.doc_xml(doc), "tree": tree, "profile": profile, "flags": flags}


def lib_run(cases, timeout=1200):
    return xsltrun.run([{k: c[k] for k in ("id", "sheet", "source", "files")} for c in cases], timeout=timeout)


def verdict(c, o):
    """None when the library's output is the tree (and namespaces) XSLT 1.0 defines, else a description"""
    if o[0] != "ok":
        return "the library fails on an error-free program: %s" % (o[1:],)
    try:
        got, prof = xr.parse_output_ns(o[1])
    except Exception as e:
        return "output is not well-formed: %s" % e
    if got != c["tree"]:
        return "result tree differs from the tree XSLT 1.0 defines"
    ns = xr.ns_check(c["profile"], prof)
    if ns:
        return "in-scope namespaces of the result differ from the namespace nodes XSLT 1.0 defines: " + ns
    return None


class Part:
    def __init__(self, ctx):
        import importlib
        self.ctx = ctx
        self.base = importlib.import_module("props.C01")
        self.runner = self.base.Runner(ctx, None)
        try:
            sys.path.insert(0, os.path.join(core.VERIF, "translator"))
            import srcfacts
            self.runner.facts = srcfacts.GENERATORS["GenXslt"]()[1]
        except Exception:
            self.runner.facts = {}
        self.fails = []
        self.known_hits = collections.Counter()
        self.seen = set()
        self.n = self.agree = 0
        self.static = []
        self.executed = collections.Counter()
        self.deadline = 0

    def known(self, c):
        """listed known-finding classes the program is in (C01's and this part's)"""
        own = [k for f, k in FLAG_CLASS.items() if c["flags"].get(f) and k in self.runner.listed]
        return self.runner.known_classes(c) + own

    def evaluate(self, cases):
        ctx = self.ctx
        res = lib_run(cases, timeout=150 if not ctx.thorough else 900)
        # a crash or hang takes the rest of its chunk with it: re-run those cases one per process
        lost = [c for c in cases if res.get(c["id"], ("crash",))[0] == "crash"]
        if lost:
            from concurrent.futures import ThreadPoolExecutor
            ctx.count("cover:library:cases-lost-to-a-crashed-chunk", len(lost))
            with ThreadPoolExecutor(core.NPROC) as ex:
                for cid, r in ex.map(lambda c: (c["id"], lib_run([c], timeout=20).get(c["id"], ("crash",))), lost[:300]):
                    res[cid] = r
        for c in cases:
            self.n += 1
            ctx.cov["evaluations"] += 1
            a = xg.audit(c["sheet_ast"])
            self.static.append(a)
            for f in c["flags"].get("#stats", {}):
                self.executed[f] += 1
            for f in c["flags"]:
                if f != "#stats":
                    ctx.count("cover:recovered:" + f)
            o = res.get(c["id"], ("crash",))
            why = verdict(c, o)
            if why is None:
                self.agree += 1
                ctx.count("cover:oracle:agree")
                if any(n[0] == "e" for n in c["tree"]):
                    self.seen.add(hashlib.sha1(repr((c["tree"], c["profile"])).encode()).hexdigest())
                continue
            kn = self.known(c)
            if kn:
                for k in kn:
                    self.known_hits[k] += 1
                ctx.count("cover:oracle:known-class")
            else:
                ctx.count("cover:oracle:FAIL")
                self.fails.append({"case": c, "what": why, "lib": o})

    def still_fails(self, sheet, doc):
        if time.time() > self.deadline:
            return False
        c = prepare(None, "s", sheet, doc)
        if c is None or self.known(c) or self.runner.left_out(c):
            return False
        o = lib_run([c], timeout=20).get("s", ("crash",))
        return verdict(c, o) is not None


def corpus_cases(ctx, part):
    out = []
    for p in sorted(glob.glob(os.path.join(corpus_dir(), "*.txt"))):
        try:
            d = load_replay(p)
        except Exception:
            ctx.broken.append("corpus/C01cover/%s does not load" % os.path.basename(p))
            continue
        c = prepare(ctx, "ccorpus_" + os.path.basename(p)[:-4], d["sheet"], d["doc"])
        if c is None:
            ctx.broken.append("corpus/C01cover/%s: the reference rejects the stored program" % os.path.basename(p))
        elif not part.runner.left_out(c):
            out.append(c)
    return out


def generate(ctx, part, n, tag):
    out = []
    for i in range(n):
        sheet, doc = xg.gen_case(ctx.rng)
        c = prepare(ctx, "%s%d" % (tag, i), sheet, doc)
        if c is None:
            continue
        if part.runner.left_out(c):
            ctx.count("cover:generator:left-out(class reported, not listed yet)")
            continue
        out.append(c)
    return out


def run_part(ctx):
    t0 = time.time()
    ctx.assumptions += [
        "part cover: the additions to the reference (vlib/xsltref_cover.py) read XSLT 1.0 as follows where it is silent or was corrected by errata: level=\"any\" with no counted node gives the empty list, the empty list is formatted as the empty string (programs whose format has leading/trailing punctuation are only generated where the list cannot be empty), the nearest from-ancestor is a PROPER ancestor, level=\"any\" on an attribute node is not generated; conflicting strip/preserve rules and same-priority template rules are resolved by the named recovery (last one)",
        "part cover: namespace nodes are observed through the re-parsed output: per result element the URIs of its own namespace nodes must be in scope, and every URI in scope must be the URI of a namespace node or of a name of the element or one of its ancestors (prefixes are not compared; an unused declaration inherited from an ancestor is indistinguishable from a namespace node after serialization)",
        "part cover: copying of namespace NODES (xsl:copy / xsl:copy-of on the namespace axis), xsl:element/xsl:attribute with a namespace attribute, #default in exclude-result-prefixes / namespace-alias, xsl:number with lang / letter-value / grouping, key() in match patterns, document() are not generated here (C14, C15, C17 have their own checks)",
    ]
    exe, ok_h, hlog = xsltrun.build()
    if not ok_h:
        ctx.broken.append("cover: xslt driver does not compile against the working tree: " + hlog[-300:])
        return
    part = Part(ctx)
    # ---- audit of the base generator (the gap this part closes must stay visible) ----
    base_counters = []
    for _ in range(N_AUDIT_BASE if not ctx.thorough else 3000):
        sheet, _doc = xsltgen.gen_case(ctx.rng)
        base_counters.append(xg.audit(sheet))
    base_rows = xg.audit_table(base_counters, len(base_counters))
    for it, progs, occ, _inside in base_rows:
        ctx.count("cover:basegen-item:%s" % it, progs)
    # ---- oracle run ----
    cases = corpus_cases(ctx, part)
    n = N_QUICK if not ctx.thorough else N_THOROUGH
    done = 0
    first = True
    while done < n:
        m = min(BATCH, n - done)
        cases += generate(ctx, part, m, "c%d_" % done)
        if first:
            ctx.cov["samples"] = ctx.cov.get("samples", []) + [c["sheet"][:500] for c in cases[-2:]]
            first = False
        part.evaluate(cases)
        cases = []
        done += m
        if part.fails and len(part.fails) >= 5:
            break
    rows = xg.audit_table(part.static, part.n)
    for it, progs, occ, _inside in rows:
        ctx.count("cover:item:%s" % it, progs)
    for k, v in sorted(part.executed.items()):
        ctx.count("cover:executed:%s" % k, v)
    ctx.notes["cover_audit"] = {
        "columns": "item: programs containing it / occurrences / most frequent enclosing instructions",
        "base_generator(%d programs)" % len(base_counters): {it: "%d / %d / %s" % (p, o, ins) for it, p, o, ins in base_rows},
        "cover_generator(%d programs)" % part.n: {it: "%d / %d / %s" % (p, o, ins) for it, p, o, ins in rows},
    }
    missing = [it for it, progs, _, _ in rows if it in MUST_OCCUR and progs == 0]
    if missing and part.n >= 1000:
        ctx.broken.append("cover: items of the property's instruction list that no generated program contains: %s" % ", ".join(missing))
    notrun = [k for k in MUST_RUN if not part.executed.get(k)]
    if notrun and part.n >= 1000:
        ctx.broken.append("cover: constructs that no reference run executed: %s" % ", ".join(notrun))
    ctx.cov["distinct_nontrivial"] += len(part.seen)
    listed = {k["key"]: k for k in ctx.known.for_property("C01")}
    for k in sorted(part.known_hits):
        if k in part.base.FOREIGN:
            ctx.known_finding("%s (%d programs of part cover in the class disagree)" % (part.base.FOREIGN[k], part.known_hits[k]))
        elif k in listed:
            ctx.known_finding("%s %s (%d programs of part cover in the class disagree)" % (k, listed[k]["what"], part.known_hits[k]))
    new = sorted(part.fails, key=lambda o: len(o["case"]["sheet"]) + sum(len(v) for v in o["case"]["files"].values()))
    for o in new[:3]:
        c = o["case"]
        sheet, doc = c["sheet_ast"], c["doc"]
        part.deadline = time.time() + (40 if not ctx.thorough else 120)
        try:
            sheet, doc = xsltgen.shrink(sheet, doc, part.still_fails, max_steps=250 if not ctx.thorough else 600)
        except Exception:
            pass
        c2 = prepare(None, "r", sheet, doc) or c
        o2 = lib_run([c2]).get(c2["id"], ("crash",))
        why = verdict(c2, o2) or o["what"]
        extra = "library: %s\nreference tree:\n%s" % (
            (o2[1][:700].decode("utf-8", "replace") if o2[0] == "ok" else str(o2[1:])), xsltref.show(c2["tree"])[:900])
        ctx.violation("cover_oracle", replay_text(why, c2["sheet_ast"], c2["doc"], extra))
    ctx.notes["cover"] = {"programs": part.n, "agree": part.agree, "oracle_failures": len(part.fails),
                          "known_class_hits": dict(part.known_hits), "distinct_results": len(part.seen),
                          "wall_s": round(time.time() - t0, 1)}


def replay(path):
    core.build_lib("plain")
    d = load_replay(path)
    c = prepare(None, "replay", d["sheet"], d["doc"])
    if c is None:
        print("the reference rejects the program")
        return 2
    o = lib_run([c])["replay"]
    print("library:", o[1].decode("utf-8", "replace") if o[0] == "ok" else o)
    print("reference tree:")
    print(xsltref.show(c["tree"]))
    print("flags:", {k: v for k, v in c["flags"].items() if k != "#stats"})
    why = verdict(c, o)
    print("AGREE" if why is None else "DIFFER: " + why)
    return 0 if why is None else 1


if __name__ == "__main__":
    sys.exit(replay(sys.argv[1]))
