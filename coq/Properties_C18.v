(* Properties_C18.v — property theorems for C18 (number/string conversions). Nothing but
   statements closed by [exact] and their assumptions. *)
From Coq Require Import ZArith NArith List Bool Lia SpecFloat.
Require Import XV.GenNum XV.NumDefs XV.NumModel.
Import ListNotations.
Local Open Scope Z_scope.

(* sprintf output (with its NUL) fits the smallest stack buffer of the double conversions, for
   every double and every precision the code tries; sizes and precisions come from GenNum.v,
   regenerated from DOMStringHelper.cpp on every run *)
Theorem printf_fits : forall x p,
  valid_binary prec emax x = true -> In p printf_precisions ->
  (printf_bytes p x <= printf_buffer_bytes)%nat.
Proof. exact printf_fits_lemma. Qed.
Print Assumptions printf_fits.

(* the hypothesis above holds for every 64-bit pattern *)
Theorem every_pattern_valid : forall b, valid_binary prec emax (of_bits b) = true.
Proof. exact of_bits_valid. Qed.
Print Assumptions every_pattern_valid.

Example printf_fits_is_tight :
  printf_bytes 35 (of_bits 0xFFEFFFFFFFFFFFFF) = 347%nat /\
  valid_binary prec emax (of_bits 0xFFEFFFFFFFFFFFFF) = true.
Proof. exact printf_fits_tight. Qed.
Print Assumptions printf_fits_is_tight.

(* doValidate accepts exactly  S? '-'? (Digits ('.' Digits?)? | '.' Digits) S?  and reports the
   decimal point correctly on accepted strings *)
Theorem str2num_grammar : forall s,
  fst (do_validate s) = fst (ref_validate s) /\
  (fst (do_validate s) = true -> snd (do_validate s) = snd (ref_validate s)).
Proof. exact do_validate_eq_ref. Qed.
Print Assumptions str2num_grammar.

Theorem str2num_invalid_is_nan : forall s,
  fst (ref_validate (c_str s)) = false -> string_to_number s = S754_nan.
Proof. exact invalid_is_nan. Qed.
Print Assumptions str2num_invalid_is_nan.

Example str2num_grammar_instances :
  fst (ref_validate [32; 45; 49; 50; 46; 53; 10]%N) = true /\      (* " -12.5\n" *)
  fst (ref_validate [46; 53]%N) = true /\                           (* ".5" *)
  fst (ref_validate [49; 46]%N) = true /\                           (* "1." *)
  fst (ref_validate [43; 49]%N) = false /\                          (* "+1" *)
  fst (ref_validate [49; 101; 51]%N) = false /\                     (* "1e3" *)
  fst (ref_validate [45; 32; 49]%N) = false /\                      (* "- 1" *)
  fst (ref_validate [46]%N) = false.                                (* "." *)
Proof. vm_compute. repeat split. Qed.
Print Assumptions str2num_grammar_instances.

(* floor / ceiling / round are the integers XPath 4.4 prescribes, computed on the exact rational
   value sm / 2^(-e) of the double; the sign of a zero result is the sign of the argument
   (round(-0.2) = -0) *)
Theorem floor_spec : forall s m e, e < 0 ->
  d_floor (S754_finite s m e) = of_Z s (signed s m / 2 ^ (- e)).
Proof. exact d_floor_spec. Qed.
Print Assumptions floor_spec.

Theorem ceiling_spec : forall s m e, e < 0 ->
  d_ceiling (S754_finite s m e) = of_Z s (- ((- signed s m) / 2 ^ (- e))).
Proof. exact d_ceiling_spec. Qed.
Print Assumptions ceiling_spec.

Theorem round_spec : forall s m e, e < 0 ->
  d_round (S754_finite s m e) = of_Z s ((2 * signed s m + 2 ^ (- e)) / (2 * 2 ^ (- e))).
Proof. exact d_round_spec. Qed.
Print Assumptions round_spec.

Theorem rounding_fixes_integers_and_specials : forall x,
  (match x with S754_finite _ _ e => 0 <= e | _ => True end) ->
  d_floor x = x /\ d_ceiling x = x /\ d_round x = x.
Proof. exact rounding_fixed_points. Qed.
Print Assumptions rounding_fixes_integers_and_specials.

Example round_instances :
  to_bits (d_round (of_bits 0x3FDFFFFFFFFFFFFF)) = 0 /\                       (* round(0.49999999999999994) = 0 *)
  to_bits (d_round (of_bits 0x4330000000000001)) = 0x4330000000000001 /\     (* round(2^52+1) = 2^52+1 *)
  to_bits (d_round (of_bits 0xBFC999999999999A)) = 0x8000000000000000 /\     (* round(-0.2) = -0 *)
  to_bits (d_round (of_bits 0xBFE0000000000000)) = 0x8000000000000000 /\     (* round(-0.5) = -0 *)
  to_bits (d_round (of_bits 0x4004000000000000)) = 0x4008000000000000 /\     (* round(2.5) = 3 *)
  to_bits (d_round (of_bits 0xC004000000000000)) = 0xC000000000000000.       (* round(-2.5) = -2 *)
Proof. vm_compute. repeat split. Qed.
Print Assumptions round_instances.

(* FULL round-trip statement of the property (kept visible):
     forall x, finite x -> string_to_number (number_to_string x) == x.
   It is FALSE of the faithful model (and of the library): below ~1e-35 the 35-digit limit of the
   printf loop loses the value.  Witness: 1e-40. *)
Definition num2str_roundtrip_statement : Prop :=
  forall b, 0 <= b < 2 ^ 64 -> d_is_nan (of_bits b) = false ->
    d_eqb (string_to_number (number_to_string (of_bits b))) (of_bits b) = true.

Theorem num2str_roundtrip_refuted : ~ num2str_roundtrip_statement.
Proof.
  intros H. specialize (H 0x37A16C262777579C ltac:(lia) ltac:(reflexivity)).
  vm_compute in H. discriminate H.
Qed.
Print Assumptions num2str_roundtrip_refuted.

(* number('-0') is -0 on both paths (the short-string path goes through a long, which has no negative
   zero; repaired in the library by the coordinator's fix commit, the model follows the code) *)
Theorem str2num_negzero :
  to_bits (string_to_number [45; 48]%N) = 0x8000000000000000 /\ to_bits (atof [45; 48]%N) = 0x8000000000000000 /\
  to_bits (string_to_number [32; 45; 48; 48; 32]%N) = 0x8000000000000000 /\ to_bits (string_to_number [48]%N) = 0.
Proof. vm_compute. repeat split; reflexivity. Qed.
Print Assumptions str2num_negzero.
