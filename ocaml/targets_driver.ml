(* model side of the C05 "targets" correspondence: the line protocol of harness/targets.cpp
     <id> <x|s> <d|f> <-|r|prefix|uri|...> <event> ...
   events  O  Z  S|qname|an|av|...  E|qname  C|chars  R|raw  D|cdata  M|comment  P|target|data  I|ws  N|name
   strings "u:" + comma separated hex code units.
   Output: <id> ok <nodes>  |  <id> err       nodes: e|qname|ns|aq|ans|av|... children )   t|..  c|..  m|..  p|t|d  n|..
   (TText and TIws are both text nodes: 't').
   With target letter X or S the line is a list of ITEMS in the same syntax (S..E nested) and the output is the
   specification's tree: <id> ok <den_t nodes> when top_ok holds, <id> none otherwise. *)
let s_of = u16_of_token
let tok = token_of_u16

let rec attrs_of = function
  | a :: v :: r -> (s_of a, s_of v) :: attrs_of r
  | [] -> []
  | _ -> failwith "odd attribute fields"

let event_of_token (t : string) : ev =
  match String.split_on_char '|' t with
  | ["O"] -> EvStartDoc
  | ["Z"] -> EvEndDoc
  | "S" :: q :: r -> EvStart (s_of q, attrs_of r)
  | ["E"; q] -> EvEnd (s_of q)
  | ["C"; s] -> EvChars (s_of s)
  | ["R"; s] -> EvRaw (s_of s)
  | ["D"; s] -> EvCdata (s_of s)
  | ["M"; s] -> EvComment (s_of s)
  | ["P"; a; b] -> EvPI (s_of a, s_of b)
  | ["I"; s] -> EvIws (s_of s)
  | ["N"; s] -> EvEntRef (s_of s)
  | _ -> failwith ("bad event " ^ t)

(* events -> items (only for well-nested lists without O / Z) *)
let rec items_of (evs : ev list) : item list * ev list =
  match evs with
  | [] -> ([], [])
  | EvEnd _ :: _ -> ([], evs)
  | EvStart (n, a) :: r ->
      let (body, r1) = items_of r in
      (match r1 with
       | EvEnd _ :: r2 -> let (rest, r3) = items_of r2 in (IElem (n, a, body) :: rest, r3)
       | _ -> failwith "unclosed element")
  | e :: r ->
      let (rest, r1) = items_of r in
      let i = (match e with
        | EvChars s -> IChars s | EvRaw s -> IRaw s | EvCdata s -> ICdata s | EvComment s -> IComment s
        | EvPI (a, b) -> IPI (a, b) | EvIws s -> IIws s | EvEntRef n -> IEntRef n
        | _ -> failwith "O / Z inside an item list") in
      (i :: rest, r1)

let rec dump (b : Buffer.t) (n : tnode) : unit =
  match n with
  | TElem (q, ns, a, ch) ->
      Buffer.add_string b (" e|" ^ tok q ^ "|" ^ tok ns);
      List.iter (fun ((aq, ans), av) -> Buffer.add_string b ("|" ^ tok aq ^ "|" ^ tok ans ^ "|" ^ tok av)) a;
      List.iter (dump b) ch;
      Buffer.add_string b " )"
  | TText s | TIws s -> Buffer.add_string b (" t|" ^ tok s)
  | TCdata s -> Buffer.add_string b (" c|" ^ tok s)
  | TComment s -> Buffer.add_string b (" m|" ^ tok s)
  | TPI (t, d) -> Buffer.add_string b (" p|" ^ tok t ^ "|" ^ tok d)
  | TEntRef s -> Buffer.add_string b (" n|" ^ tok s)

let show (l : tnode list) : string =
  let b = Buffer.create 256 in List.iter (dump b) l; Buffer.contents b

let rec dump_ix (b : Buffer.t) (n : ixn) : unit =
  match n with
  | IxN (i, na, ch) ->
      let k = int_of_n i and a = int_of_nat na in
      if a = 0 && ch = [] then Buffer.add_string b (Printf.sprintf " %d" k)
      else begin
        Buffer.add_string b (Printf.sprintf " (%d:" k);
        for j = 1 to a do Buffer.add_string b (Printf.sprintf (if j = 1 then "%d" else ",%d") (k + j)) done;
        List.iter (dump_ix b) ch;
        Buffer.add_string b " )"
      end

let resolver_of (t : string) : (n list * n list) list option =
  if t = "-" then None else
  match String.split_on_char '|' t with
  | "r" :: r -> Some (attrs_of r)
  | _ -> failwith "bad resolver"

let () =
  let ic = if Array.length Sys.argv > 1 then open_in Sys.argv.(1) else stdin in
  iter_lines ic (fun line ->
    match split_ws line with
    | id :: tg :: md :: rs :: toks when String.length id > 0 && id.[0] <> '#' ->
        (try
          let m = (match md with "d" -> MDoc | "f" -> MFrag | _ -> failwith "mode") in
          let res = resolver_of rs in
          let evs = List.map event_of_token toks in
          (match tg with
           | "x" | "s" ->
               let t = if tg = "x" then XDOM else STREE in
               (match run_target t m res evs with
                | Some l -> print_string (id ^ " ok" ^ show l ^ "\n")
                | None -> print_string (id ^ " err\n"))
           | "i" ->
               (match run_indexes m res (fresh_start m) evs with
                | Some (tr, ix) ->
                    let b = Buffer.create 256 in
                    (* elements print as "(i:" even without attributes and children: use the tree for the node kinds *)
                    let rec go (ts : tnode list) (xs : ixn list) =
                      match ts, xs with
                      | TElem (_, _, _, tch) :: tr', IxN (i, na, xch) :: xr' ->
                          let k = int_of_n i and a = int_of_nat na in
                          Buffer.add_string b (Printf.sprintf " (%d:" k);
                          for j = 1 to a do Buffer.add_string b (Printf.sprintf (if j = 1 then "%d" else ",%d") (k + j)) done;
                          go tch xch; Buffer.add_string b " )"; go tr' xr'
                      | _ :: tr', IxN (i, _, _) :: xr' -> Buffer.add_string b (Printf.sprintf " %d" (int_of_n i)); go tr' xr'
                      | [], [] -> ()
                      | _ -> Buffer.add_string b " SHAPE-MISMATCH" in
                    go tr ix;
                    print_string (id ^ " ok" ^ Buffer.contents b ^ "\n")
                | None -> print_string (id ^ " err\n"))
           | "J" ->
               (* the specification's indexes: pre-order numbering of the denoted tree *)
               let (items, rest) = items_of evs in
               if rest <> [] then failwith "not well nested";
               if top_ok STREE m items then begin
                 let tr = den_t STREE m res items in
                 let (ix, _) = number_list (fresh_start m) tr in
                 let b = Buffer.create 256 in
                 let rec go (ts : tnode list) (xs : ixn list) =
                   match ts, xs with
                   | TElem (_, _, _, tch) :: tr', IxN (i, na, xch) :: xr' ->
                       let k = int_of_n i and a = int_of_nat na in
                       Buffer.add_string b (Printf.sprintf " (%d:" k);
                       for j = 1 to a do Buffer.add_string b (Printf.sprintf (if j = 1 then "%d" else ",%d") (k + j)) done;
                       go tch xch; Buffer.add_string b " )"; go tr' xr'
                   | _ :: tr', IxN (i, _, _) :: xr' -> Buffer.add_string b (Printf.sprintf " %d" (int_of_n i)); go tr' xr'
                   | [], [] -> ()
                   | _ -> Buffer.add_string b " SHAPE-MISMATCH" in
                 go tr ix;
                 print_string (id ^ " ok" ^ Buffer.contents b ^ "\n")
               end else print_string (id ^ " none\n")
           | "X" | "S" ->
               let t = if tg = "X" then XDOM else STREE in
               let (items, rest) = items_of evs in
               if rest <> [] then failwith "not well nested";
               if top_ok t m items then print_string (id ^ " ok" ^ show (den_t t m res items) ^ "\n")
               else print_string (id ^ " none\n")
           | "I" ->
               let (items, rest) = items_of evs in
               if rest <> [] then failwith "not well nested";
               print_string (id ^ " ok" ^ show (den m res items) ^ "\n")
           | _ -> failwith "target")
        with Failure msg -> print_string (id ^ " badscript " ^ msg ^ "\n"))
    | _ -> ())
