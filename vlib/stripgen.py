"""C13 — generators, the Python reference (XSLT 1.0 section 3.4) and the stylesheet observation blocks.

Documents are Python trees (never parsed back): an element is a dict
   {"k": "e", "ns": 0|2|3, "local": str, "id": str, "xs": None|"preserve"|"default", "kids": [...]}
a text node {"k": "t", "data": str, "ws": bool, "form": "plain"|"ref"|"cdata"}, a comment {"k": "c", "data": str},
a processing instruction {"k": "p", "target": str, "data": str}.
Namespace ids: 0 none, 2 urn:u1, 3 urn:u2 (1 is the xml namespace, as in coq/StripDefs.v).

A stylesheet module is {"name": str, "items": [("decl", strip:bool, [token]) | ("include", module)], "imports": [module]};
a token is ("any",) | ("ns", nsid) | ("q", nsid, local)."""

XSL = "http://www.w3.org/1999/XSL/Transform"
URI = {2: "urn:u1", 3: "urn:u2"}
LOCALS = ["a", "b", "c", "d"]
LOCAL_ID = {"a": 1, "b": 2, "c": 3, "d": 4}
WS_SYMS = " \t\n\r"
WS_LETTERS = "stnr"
CODE_W = 4


def ws_code(i):
    """the i-th whitespace-only string: i in base 4 over space, tab, LF, CR, fixed width"""
    s = ""
    for _ in range(CODE_W):
        s = WS_SYMS[i % 4] + s
        i //= 4
    return s


# ------------------------------------------------------------------------------------------------
# documents

def gen_doc(r, size, nsmode, xmlspace=False, exotic=True):
    """nsmode: "none" (no namespaces), "prefixed" (p:/q: and unprefixed), "default" (u1 is the default namespace,
    u2 is q:, no element without a namespace)"""
    state = {"n": 0, "ws": 0}

    def new_elem(depth):
        state["n"] += 1
        if nsmode == "none":
            ns = 0
        elif nsmode == "prefixed":
            ns = r.choice([0, 0, 2, 2, 3])
        else:
            ns = r.choice([2, 2, 3])
        e = {"k": "e", "ns": ns, "local": r.choice(LOCALS), "id": "e%d" % state["n"], "xs": None, "kids": []}
        if xmlspace and r.random() < 0.3:
            e["xs"] = r.choice(["preserve", "preserve", "default", "default", "other"])
        e["kids"] = gen_kids(depth)
        return e

    def ws_text():
        i = state["ws"]
        state["ws"] += 1
        data = ws_code(i % 256)
        form = r.choice(["plain", "plain", "plain", "ref", "cdata"]) if exotic else "plain"
        return {"k": "t", "data": data, "ws": True, "form": form, "idx": i}

    def other_text():
        c = r.random()
        if c < 0.5 or not exotic:
            data = r.choice(["x", "y", "w z", "xx", " x", "y ", " w ", "x\ny", "1", "2", "7", "1", " 3"])
        elif c < 0.8:
            # not XML whitespace: never stripped (NBSP, EM SPACE, NEL, LINE SEPARATOR, ZERO WIDTH SPACE, IDEOGRAPHIC SPACE)
            data = r.choice(["\u00a0", "\u2003", "\u0085", "\u2028", "\u200b", "\u3000", " \u00a0 ", "\u00a0\u00a0"])
        else:
            data = r.choice(["x", "z"]) + r.choice(["", " ", "\t"])
        return {"k": "t", "data": data, "ws": False, "form": "plain"}

    def gen_kids(depth):
        if state["n"] >= size or depth > 4:
            n = r.choice([0, 0, 1])
        else:
            n = r.choice([0, 1, 1, 2, 3, 4, 5])
        kids = []
        shape = r.random()
        for j in range(n):
            c = r.random()
            last_text = bool(kids) and kids[-1]["k"] == "t"
            if shape < 0.15 and n == 1:
                kids.append(ws_text())          # whitespace as the only child
                continue
            if c < 0.38 and not last_text and state["ws"] < 250:
                kids.append(ws_text())
            elif c < 0.48 and not last_text:
                kids.append(other_text())
            elif c < 0.56:
                kids.append({"k": "c", "data": r.choice(["k", " ", "cm"])})
            elif c < 0.62:
                kids.append({"k": "p", "target": r.choice(["pi", "a"]), "data": r.choice(["", " ", "v"])})
            elif state["n"] < size and depth <= 4:
                kids.append(new_elem(depth + 1))
            elif not last_text:
                kids.append(ws_text())
        if kids and kids[-1]["k"] != "t" and r.random() < 0.35 and state["ws"] < 250:
            kids.append(ws_text())              # whitespace as the last child
        if kids and kids[0]["k"] != "t" and r.random() < 0.35 and state["ws"] < 250:
            kids.insert(0, ws_text())           # whitespace as the first child
        return kids

    root = new_elem(0)
    while state["ws"] == 0 and state["n"] < size + 5:
        root["kids"].append(new_elem(1))
        if root["kids"] and (len(root["kids"]) < 2 or root["kids"][-2]["k"] != "t"):
            root["kids"].insert(len(root["kids"]) - 1, ws_text())
    prolog = r.choice(["", "", "<!--top-->", "<?top x?>\n", "\n<!--t-->\n"])
    epilog = r.choice(["", "", "\n<!--end-->", "<?e?>"])
    return {"root": root, "nsmode": nsmode, "prolog": prolog, "epilog": epilog}


def walk(node, parent=None, xs=False):
    """yield (node, parent element, inherited xml:space=preserve state at the node)"""
    yield node, parent, xs
    if node["k"] == "e":
        x2 = xs
        if node["xs"] == "preserve":
            x2 = True
        elif node["xs"] == "default":
            x2 = False
        for k in node["kids"]:
            for t in walk(k, node, x2):
                yield t


def esc(s, attr=False):
    out = ""
    for ch in s:
        if ch == "&":
            out += "&amp;"
        elif ch == "<":
            out += "&lt;"
        elif ch == ">":
            out += "&gt;"
        elif ch == "\r":
            out += "&#13;"
        elif ord(ch) > 126 or (ord(ch) < 32 and ch not in "\t\n"):
            out += "&#%d;" % ord(ch)
        else:
            out += ch
    return out


def ser_text(t):
    d = t["data"]
    if t.get("form") == "ref":
        return "".join("&#%d;" % ord(ch) for ch in d)
    if t.get("form") == "cdata":
        # CR cannot be written literally (line-end normalisation): keep it as a reference outside the section
        out, run = "", ""
        for ch in d:
            if ch == "\r":
                if run:
                    out += "<![CDATA[%s]]>" % run
                    run = ""
                out += "&#13;"
            else:
                run += ch
        if run:
            out += "<![CDATA[%s]]>" % run
        return out
    return esc(d)


def qn(doc, e):
    if e["ns"] == 0:
        return e["local"]
    if e["ns"] == 2:
        return e["local"] if doc["nsmode"] == "default" else "p:" + e["local"]
    return "q:" + e["local"]


def ser_node(doc, n, drop, top=False):
    if n["k"] == "t":
        return "" if id(n) in drop else ser_text(n)
    if n["k"] == "c":
        return "<!--%s-->" % n["data"]
    if n["k"] == "p":
        return "<?%s%s?>" % (n["target"], (" " + n["data"]) if n["data"] else "")
    name = qn(doc, n)
    a = ' id="%s"' % n["id"]
    if n["xs"]:
        a += ' xml:space="%s"' % n["xs"]
    if top:
        if doc["nsmode"] == "prefixed":
            a += ' xmlns:p="urn:u1" xmlns:q="urn:u2"'
        elif doc["nsmode"] == "default":
            a += ' xmlns="urn:u1" xmlns:q="urn:u2"'
    inner = "".join(ser_node(doc, k, drop) for k in n["kids"])
    if not inner:
        return "<%s%s/>" % (name, a)
    return "<%s%s>%s</%s>" % (name, a, inner, name)


def serialize(doc, drop=()):
    return doc["prolog"] + ser_node(doc, doc["root"], set(drop), top=True) + doc["epilog"]


# ------------------------------------------------------------------------------------------------
# stylesheet modules with declarations

def gen_token(r, nsmode):
    c = r.random()
    nss = [0] if nsmode == "none" else ([0, 2, 3] if nsmode == "prefixed" else [0, 2, 2, 3])
    if c < 0.22:
        return ("any",)
    if c < 0.45 and nsmode != "none":
        return ("ns", r.choice([2, 3]))
    return ("q", r.choice(nss), r.choice(LOCALS))


def gen_decl(r, nsmode):
    return ("decl", r.random() < 0.6, [gen_token(r, nsmode) for _ in range(r.choice([1, 1, 1, 2, 3]))])


def gen_module(r, nsmode, depth, counter, allow_imports=True):
    counter[0] += 1
    m = {"name": "m%d.xsl" % counter[0], "items": [], "imports": []}
    if allow_imports and depth < 2:
        for _ in range(r.choice([0, 0, 1, 1, 2]) if depth == 0 else r.choice([0, 0, 1])):
            m["imports"].append(gen_module(r, nsmode, depth + 1, counter))
    for _ in range(r.choice([0, 1, 1, 2, 3]) if depth else r.choice([1, 1, 2, 3, 4])):
        if r.random() < 0.12 and depth < 2:
            inc = gen_module(r, nsmode, 2, counter, allow_imports=False)
            inc["items"] = [gen_decl(r, nsmode) for _ in range(r.choice([1, 2]))]
            m["items"].append(("include", inc))
        else:
            m["items"].append(gen_decl(r, nsmode))
    return m


def own_decls(m):
    """the declarations of a module with the included modules' inlined, in document order"""
    out = []
    for it in m["items"]:
        if it[0] == "decl":
            out.append(it)
        else:
            out += own_decls(it[1])
    return out


def token_text(m, tok):
    pa, pb = m["pfx"]
    if tok[0] == "any":
        return "*"
    pfx = {0: "", 2: pa + ":", 3: pb + ":"}[tok[1]]
    return pfx + ("*" if tok[0] == "ns" else tok[2])


def assign_prefixes(m, r, n=[0]):
    n[0] += 1
    m["pfx"] = (r.choice(["ma", "x", "p", "n%d" % n[0]]), r.choice(["mb", "y", "q", "k%d" % n[0]]))
    for i in m["imports"]:
        assign_prefixes(i, r)
    for it in m["items"]:
        if it[0] == "include":
            assign_prefixes(it[1], r)


def module_text(m, with_decls, top_level="", seps=None):
    """the text of one module; top_level: extra top-level elements (main module only)"""
    pa, pb = m["pfx"]
    out = '<xsl:stylesheet version="1.0" xmlns:xsl="%s" xmlns:%s="urn:u1" xmlns:%s="urn:u2" xmlns:exsl="http://exslt.org/common">' % (XSL, pa, pb)
    for i in m["imports"]:
        out += '<xsl:import href="%s"/>' % i["name"]
    for k, it in enumerate(m["items"]):
        if it[0] == "include":
            out += '<xsl:include href="%s"/>' % it[1]["name"]
        elif with_decls:
            sep = (seps or {}).get((m["name"], k), " ")
            out += '<xsl:%s elements="%s"/>' % ("strip-space" if it[1] else "preserve-space",
                                                  sep.join(token_text(m, t) for t in it[2]))
    return out + top_level + "</xsl:stylesheet>"


def all_modules(m):
    yield m
    for i in m["imports"]:
        for x in all_modules(i):
            yield x
    for it in m["items"]:
        if it[0] == "include":
            for x in all_modules(it[1]):
                yield x


# ------------------------------------------------------------------------------------------------
# the Python reference: XSLT 1.0 sections 2.6.2 and 3.4 (independent of the Coq model and of the library)

PRIORITY = {"any": -0.5, "ns": -0.25, "q": 0.0}


def rec_entries(main):
    """[(import precedence, default priority, document order, strip, token)]"""
    entries = []
    counter = [0]

    def visit(m):
        for i in m["imports"]:
            visit(i)                    # post-order: a module is visited after its imports
        prec = counter[0]
        counter[0] += 1
        for seq, (_, strip, toks) in enumerate(own_decls(m)):
            for j, t in enumerate(toks):
                entries.append((prec, PRIORITY[t[0]], (seq, j), strip, t))
    visit(main)
    return entries


def tok_matches(t, e):
    if t[0] == "any":
        return True
    if t[0] == "ns":
        return e["ns"] == t[1]
    return e["ns"] == t[1] and e["local"] == t[2]


def rec_strips_children_of(entries, e):
    cands = [x for x in entries if tok_matches(x[4], e)]
    if not cands:
        return False
    best = max(cands, key=lambda x: (x[0], x[1], x[2]))
    return best[3]


def rec_dropped(doc, main, honour_xml_space=True):
    """the whitespace-only text nodes the Recommendation removes: [text node dict]; and those whose fate
    depends on xml:space (the class of the known finding K-C13-1)"""
    entries = rec_entries(main)
    drop, xs_class = [], []
    for n, parent, xs in walk(doc["root"]):
        if n["k"] == "t" and n["ws"] and parent is not None:
            if rec_strips_children_of(entries, parent):
                if xs and honour_xml_space:
                    xs_class.append(n)
                else:
                    drop.append(n)
    return drop, xs_class


# ------------------------------------------------------------------------------------------------
# observation blocks: (name, top-level elements, body inside the main template)

TR = "translate(%s, ' &#9;&#10;&#13;', 'stnr')"

BLOCKS = [
    ("counts", "",
     '<xsl:value-of select="count(//text())"/>/<xsl:value-of select="count(//node())"/>/<xsl:value-of select="count(/*/node())"/>/'
     '<xsl:value-of select="count(//*[not(node())])"/>/<xsl:value-of select="count(//*[text()])"/>/<xsl:value-of select="count(//text()|//comment())"/>/'
     '<xsl:value-of select="count(//text()/..)"/>/<xsl:value-of select="count(//*[count(node())=0])"/>/<xsl:value-of select="count(/descendant::text()[1])"/>'),
    ("per-element", "",
     '<xsl:for-each select="//*"><xsl:value-of select="@id"/>:<xsl:value-of select="count(node())"/>,<xsl:value-of select="count(text())"/>,'
     '<xsl:value-of select="count(node()[1][self::text()])"/>,<xsl:value-of select="count(node()[last()][self::text()])"/>,<xsl:value-of select="string-length(.)"/>,'
     '<xsl:value-of select="count(*[1]/preceding-sibling::node())"/>,<xsl:value-of select="name(node()[2])"/>,<xsl:value-of select="string-length()"/>;</xsl:for-each>'),
    ("axes", "",
     '<xsl:for-each select="//*"><xsl:value-of select="@id"/>:<xsl:value-of select="count(following::text())"/>,<xsl:value-of select="count(preceding::node())"/>,'
     '<xsl:value-of select="count(following-sibling::node())"/>,<xsl:value-of select="count(preceding-sibling::text())"/>,<xsl:value-of select="name(following-sibling::node()[1])"/>,'
     '<xsl:value-of select="name(preceding-sibling::node()[1])"/>,<xsl:value-of select="count(ancestor::*/text())"/>,<xsl:value-of select="count(descendant::text())"/>,'
     '<xsl:value-of select="count(descendant-or-self::node())"/>,<xsl:value-of select="count(following::node()[1][self::text()])"/>,'
     '<xsl:value-of select="count(preceding::node()[1][self::text()])"/>,<xsl:value-of select="count(preceding-sibling::node()[1][self::text()])"/>;</xsl:for-each>'),
    ("position-last",
     '<xsl:template match="text()" mode="pl">t<xsl:value-of select="position()"/>/<xsl:value-of select="last()"/>;</xsl:template>'
     '<xsl:template match="*|comment()|processing-instruction()" mode="pl"><xsl:value-of select="name()"/><xsl:value-of select="position()"/>/<xsl:value-of select="last()"/>;</xsl:template>',
     '<xsl:for-each select="/*/node() | /*/*/node()"><xsl:value-of select="position()"/>/<xsl:value-of select="last()"/>;</xsl:for-each>|'
     '<xsl:apply-templates select="//node()" mode="pl"/>|<xsl:for-each select="//*"><xsl:apply-templates mode="pl"/>!</xsl:for-each>'),
    ("strings", "",
     '<xsl:value-of select="%s"/>|<xsl:for-each select="//*"><xsl:value-of select="%s"/>~<xsl:value-of select="normalize-space(.)"/>~<xsl:value-of select="string-length(.)"/>~<xsl:value-of select="normalize-space()"/>~<xsl:value-of select="."/>;</xsl:for-each>|'
     '<xsl:value-of select="count(//*[.=\'\'])"/>/<xsl:value-of select="count(//*[contains(.,\' \')])"/>/<xsl:value-of select="count(//*[starts-with(., \' \')])"/>/'
     '<xsl:value-of select="count(//*[string-length() = %d])"/>/<xsl:value-of select="boolean(string(/*/*[1]))"/>|[<xsl:value-of select="/*"/>]<xsl:value-of select="concat(\'[\', /*/*[1], \']\')"/>'
     '|<xsl:value-of select="count(//*[. = //*[1]])"/>|<xsl:value-of select="count(//*[normalize-space() = \'\'])"/>|<xsl:value-of select="sum(//*[number(.) = number(.)])"/>'
     '|<xsl:value-of select="count(//*[number(.) = number(.)])"/>|<xsl:value-of select="count(//*[. &gt; 0])"/>'
     % (TR % "string(/)", TR % ".", CODE_W)),
    ("keys",
     '<xsl:key name="kt" match="text()" use="string-length(.)"/><xsl:key name="ke" match="*" use="."/><xsl:key name="kn" match="node()" use="name(..)"/>'
     '<xsl:key name="kv" match="*" use="text()"/><xsl:key name="kc" match="*" use="count(node())"/>',
     '<xsl:value-of select="count(key(\'kt\',%d))"/>,<xsl:value-of select="count(key(\'kt\',1))"/>,<xsl:value-of select="count(key(\'ke\',\'\'))"/>,'
     '<xsl:value-of select="count(key(\'kn\',\'a\'))"/>,<xsl:value-of select="count(key(\'kn\',\'b\'))"/>,<xsl:value-of select="count(key(\'kc\',0))"/>,<xsl:value-of select="count(key(\'kc\',1))"/>,'
     '<xsl:value-of select="count(key(\'kc\',2))"/>|<xsl:for-each select="//*"><xsl:value-of select="count(key(\'ke\', string(.)))"/>,<xsl:value-of select="count(key(\'kv\', text()))"/>;</xsl:for-each>'
     '|<xsl:for-each select="key(\'kt\',%d)"><xsl:value-of select="%s"/>,</xsl:for-each>' % (CODE_W, CODE_W, TR % ".")),
    ("number", "",
     '<xsl:for-each select="//text() | //*"><xsl:number level="any" count="text()"/>.<xsl:number level="single" count="node()"/>.'
     '<xsl:number level="multiple" count="node()" format="1.1"/>.<xsl:number/>.<xsl:number level="any" count="*"/>.<xsl:number level="single" count="node()" from="b"/>.<xsl:number level="multiple" count="text()|c" from="a"/>;</xsl:for-each>'),
    # level="any" with from patterns (was the class of K-C13-2, repaired in /repo by d323070)
    ("number-any-from", "",
     '<xsl:for-each select="//text() | //*"><xsl:number level="any" count="node()" from="b"/>.<xsl:number level="any" count="text()" from="a|c"/>.<xsl:number level="any" from="*"/>;</xsl:for-each>'),
    ("copy",
     '<xsl:template match="@*|node()" mode="id"><xsl:copy><xsl:apply-templates select="@*|node()" mode="id"/></xsl:copy></xsl:template>',
     '<c1><xsl:copy-of select="/"/></c1><c2><xsl:copy-of select="//b"/></c2><c3><xsl:copy-of select="//text()"/></c3><c4><xsl:copy-of select="//a/node()[1]"/></c4>'
     '<c5><xsl:apply-templates select="/*" mode="id"/></c5><xsl:variable name="v" select="//node()"/><c6><xsl:copy-of select="$v[self::text()]"/></c6>'
     '<xsl:variable name="r"><xsl:copy-of select="/*"/></xsl:variable><c7><xsl:value-of select="string-length($r)"/><xsl:copy-of select="$r"/></c7>'
     '<c8><xsl:for-each select="//c"><xsl:copy><xsl:copy-of select="node()"/></xsl:copy></xsl:for-each></c8>'),
    ("builtin", "", '[<xsl:apply-templates mode="none"/>][<xsl:apply-templates select="//c" mode="none"/>][<xsl:apply-templates select="//text()" mode="none"/>]'),
    ("sort", "",
     '<xsl:for-each select="//*"><xsl:sort select="."/><xsl:sort select="@id"/><xsl:value-of select="@id"/>,</xsl:for-each>|'
     '<xsl:for-each select="//*"><xsl:sort select="count(node())" data-type="number"/><xsl:sort select="string-length(.)" data-type="number" order="descending"/>'
     '<xsl:sort select="@id"/><xsl:value-of select="@id"/>,</xsl:for-each>|<xsl:for-each select="//*"><xsl:sort/><xsl:sort select="@id"/><xsl:value-of select="@id"/>,</xsl:for-each>|'
     '<xsl:for-each select="//*"><xsl:sort data-type="number"/><xsl:sort select="@id"/><xsl:value-of select="@id"/>,</xsl:for-each>|'
     '<xsl:for-each select="//*"><xsl:sort select="number(.)" data-type="number"/><xsl:sort select="@id"/><xsl:value-of select="@id"/>,</xsl:for-each>|<xsl:for-each select="//text()"><xsl:sort select="." order="descending"/><xsl:value-of select="%s"/>,</xsl:for-each>' % (TR % ".")),
    # string(node-set) delivered into a string BUFFER (attribute value templates, concat() arguments, sort keys) and
    # key values taken from a node-set valued use expression: other overloads than xsl:value-of uses (seeds C13_e, C15_e)
    ("string-buffers",
     '<xsl:key name="kuse" match="*" use="*"/><xsl:key name="kuse2" match="*" use="node()"/>',
     '<xsl:for-each select="//*"><e v="{string(.)}" w="[{%s}]" x="{concat(string(.), \'|\', string(*[1]), \'|\', string(text()[1]))}" y="{string-length(string(.))}"/></xsl:for-each>'
     '<s><xsl:for-each select="//*"><xsl:sort select="string(.)"/><xsl:sort select="concat(string(*[1]), @id)"/><xsl:value-of select="@id"/>,</xsl:for-each></s>'
     '<k><xsl:for-each select="//*"><xsl:value-of select="count(key(\'kuse\', string(.)))"/>.<xsl:value-of select="count(key(\'kuse\', string(*[1])))"/>.'
     '<xsl:value-of select="count(key(\'kuse2\', string(node()[1])))"/>.<xsl:value-of select="count(key(\'kuse\', *))"/>;</xsl:for-each></k>' % (TR % "string(.)")),
    ("document",
     '<xsl:key name="dkt" match="text()" use="string-length(.)"/>',
     '<xsl:value-of select="count(document(\'d2.xml\')//text())"/>/<xsl:value-of select="count(document(\'d2.xml\')//node())"/>|<xsl:copy-of select="document(\'d2.xml\')"/>|'
     '<xsl:value-of select="%s"/>|<xsl:for-each select="document(\'d2.xml\')"><xsl:value-of select="count(key(\'dkt\',%d))"/>;<xsl:for-each select="//*"><xsl:value-of select="count(node())"/>,</xsl:for-each></xsl:for-each>'
     % (TR % "string(document('d2.xml'))", CODE_W)),
    ("patterns",
     '<xsl:template match="*/node()[1]" mode="p" priority="5">F<xsl:value-of select="name()"/>;</xsl:template>'
     '<xsl:template match="*/node()[last()]" mode="p" priority="4">L;</xsl:template>'
     '<xsl:template match="text()[2]" mode="p" priority="3">T2;</xsl:template>'
     '<xsl:template match="*[text()]" mode="p" priority="2">HT;</xsl:template>'
     '<xsl:template match="node()" mode="p" priority="1">-;</xsl:template>',
     '<xsl:apply-templates select="//node()" mode="p"/>'),
    ("tests", "",
     '<xsl:if test="/*/text()">Y</xsl:if><xsl:if test="//c/node()">C</xsl:if><xsl:choose><xsl:when test="//a/text()[2]">2</xsl:when><xsl:otherwise>o</xsl:otherwise></xsl:choose>'
     '|<xsl:for-each select="//text()[1]"><xsl:value-of select="%s"/>,</xsl:for-each>|<xsl:for-each select="//text()[last()]"><xsl:value-of select="%s"/>,</xsl:for-each>'
     '|<xsl:value-of select="name((//node())[3])"/>|<xsl:for-each select="//*[count(node())=0]"><xsl:value-of select="@id"/>,</xsl:for-each>'
     '|<xsl:value-of select="count(//text()[generate-id(.) = generate-id(../node()[1])])"/>|<xsl:value-of select="count(//text()/parent::*[last()])"/>'
     % (TR % ".", TR % ".")),
    # result tree fragments are not source documents: their own whitespace text is never stripped (was K-C13-3)
    ("rtf-node-set", "",
     '<xsl:variable name="f"><a><xsl:text> </xsl:text><b><xsl:text>&#10;</xsl:text><c><xsl:text>&#9; </xsl:text></c></b><xsl:text>  </xsl:text></a><d>x<xsl:text> </xsl:text></d>'
     '<xsl:copy-of select="/*"/></xsl:variable><xsl:value-of select="count(exsl:node-set($f)//text())"/>/<xsl:value-of select="count(exsl:node-set($f)/a/node())"/>/'
     '<xsl:value-of select="string-length(exsl:node-set($f)/a)"/>/<xsl:value-of select="string-length($f)"/>|<xsl:for-each select="exsl:node-set($f)//*"><xsl:value-of select="count(node())"/>,'
     '<xsl:value-of select="string-length(.)"/>;</xsl:for-each>|<xsl:copy-of select="exsl:node-set($f)/a"/>|<xsl:copy-of select="exsl:node-set($f)/*[3]"/>'),
    ("value-of-text", "",
     '<xsl:for-each select="//text()">[<xsl:value-of select="%s"/>]</xsl:for-each>|<xsl:variable name="t" select="//a/text()"/><xsl:value-of select="string-length($t)"/>'
     '<xsl:value-of select="count($t)"/>[<xsl:value-of select="$t"/>]|<xsl:for-each select="//*"><xsl:value-of select="%s"/>,</xsl:for-each>'
     % (TR % ".", TR % "text()")),
]
KNOWN_CLASS_BLOCKS = {}
BLOCK_NAMES = [b[0] for b in BLOCKS if b[0] not in KNOWN_CLASS_BLOCKS]


def main_top_level(block_names, method="xml"):
    tops = "".join(b[1] for b in BLOCKS if b[0] in block_names)
    body = "".join('<o n="%s">%s</o>' % (b[0], b[2]) for b in BLOCKS if b[0] in block_names)
    return ('<xsl:output method="%s" omit-xml-declaration="yes"/>%s<xsl:template match="/"><out>%s</out></xsl:template>' % (method, tops, body))


PROBE_TOP = ('<xsl:output method="text"/><xsl:template match="/">'
             'D=<xsl:for-each select="//text()"><xsl:value-of select="%s"/>,</xsl:for-each>\n'
             'SV=<xsl:value-of select="%s"/>\n'
             'NN=<xsl:value-of select="count(/*/descendant-or-self::node())"/>\n'
             'NT=<xsl:value-of select="count(/*/descendant::text())"/>\n'
             'KC=<xsl:for-each select="//*"><xsl:value-of select="count(node())"/>,</xsl:for-each>\n'
             'CP=<xsl:for-each select="/*"><xsl:variable name="c"><xsl:copy-of select="."/></xsl:variable><xsl:value-of select="%s"/></xsl:for-each>\n'
             '</xsl:template>' % (TR % ".", TR % "string(/)", TR % "string($c)"))


# ------------------------------------------------------------------------------------------------
# the model line (ocaml/strip_driver.ml)

def tok_model(t):
    if t[0] == "any":
        return "a"
    if t[0] == "ns":
        return "n%d" % t[1]
    return "q%d.%d" % (t[1], LOCAL_ID[t[2]])


def sheet_model(m):
    own = []
    for (_, strip, toks) in own_decls(m):
        for t in toks:
            own.append(tok_model(t) + ("+" if strip else "-"))
    return "S %d %s %d %s" % (len(own), " ".join(own), len(m["imports"]), " ".join(sheet_model(i) for i in m["imports"]))


def node_model(n):
    if n["k"] == "t":
        return "T" + ".".join("%x" % ord(ch) for ch in n["data"])
    if n["k"] == "c":
        return "C"
    if n["k"] == "p":
        return "P"
    xs = {"preserve": "p", "default": "d"}.get(n["xs"], "o" if n["xs"] else "")
    return "E%d.%d:%d%s %s" % (n["ns"], LOCAL_ID[n["local"]], len(n["kids"]), xs, " ".join(node_model(k) for k in n["kids"]))


def model_line(cid, main, doc):
    return " ".join(("%s %s ; %s" % (cid, sheet_model(main), node_model(doc["root"]))).split())
