"""C01 part core2, deliverable (b) (coq/XsltCore3Defs.v): top-level xsl:variable / xsl:param (select or empty; external
params) on top of vlib/xsltgen_core2.py: translation to the tokens of ocaml/xsltCore3_driver.ml, the recording reference
run, and the generator.

Restrictions of the generated programs (stated in the model as well): a top-level binding has a select expression or is
empty (no result tree fragment); the names g1.. of top-level bindings are never bound locally (shadowing of a top-level
name by a local one is the subject of C01's varstack_refines_lexical_env, not of this part); no circular definitions
behind an operand that may stay unevaluated (the reference rejects every circular program it meets: skipped).
External params: the library gets the original stylesheet + the parameter; the reference (which has no notion of an
external parameter) gets the stylesheet with the param's default replaced by the passed string literal (XSLT 1.0 11.4:
the passed value is used in place of the default); the model gets the definition and the external value separately."""
from vlib import xpgen, xpref, xsltref, xsltgen, xsltcore
from vlib import xsltgen_core2 as g2
from vlib.xsltgen import P, N, num, lit, fn
from vlib.xsltcore import enc, NotInLanguage, TableConflict

FUEL_MACHINE = xsltcore.FUEL_MACHINE
FUEL_SEM = xsltcore.FUEL_SEM
MAX_TABLE = xsltcore.MAX_TABLE
NEW = g2.NEW
norm_tree = g2.norm_tree
source_flags = g2.source_flags


class Translator3(g2.Translator2):
    def __init__(self, sheet, ext):
        if sheet.get("imports"):
            raise NotInLanguage("imports")
        self.gtops = [t for t in sheet["tops"] if t[0] in ("variable", "param")]
        self.gnames = [t[1] for t in self.gtops]
        if len(set(self.gnames)) != len(self.gnames):
            raise NotInLanguage("duplicate top-level name")
        for t in self.gtops:
            if t[2][0] == "body" and t[2][1]:
                raise NotInLanguage("top-level binding with a body")
        self.gment = {}
        # attribute sets (deliverable c): entries of the program behind the templates and the two built-in rules; a name
        # stands for its definitions in document order (one module: equal import precedence, the later one wins)
        ntmpl = len([t for t in sheet["tops"] if t[0] == "template"])
        self.asets = [t for t in sheet["tops"] if t[0] == "attribute-set"]
        self.aset_ids = {}
        for j, t in enumerate(self.asets):
            self.aset_ids.setdefault(t[1], []).append(ntmpl + 2 + j)
        self.ext = dict(ext)
        for n in self.ext:
            if n not in self.gnames or [t for t in self.gtops if t[1] == n][0][0] != "param":
                raise NotInLanguage("external value for something that is not a top-level param")
        xsltcore.Translator.__init__(self, {"imports": [], "tops": [t for t in sheet["tops"] if t[0] not in ("variable", "param", "attribute-set")]})
        for kind, nme, uses, attrs in self.asets:
            out = ["AS"] + self.use_ids(uses) + [str(len(attrs))]
            for an, body in attrs:
                self.attr_parts(an, body, out)
            self.tokens += out
        self.tokens[0] = str(int(self.tokens[0]) + len(self.asets))
        g = ["G", str(len(self.gtops))]
        for kind, nme, vd in self.gtops:
            g += [str(self.name(nme)), "1" if kind == "param" else "0"]
            if vd[0] == "select":
                # a top-level expression: its xvars ARE top-level names (gval / force resolve them in the global frame)
                i, loc = self.register(vd[1], xsltcore.expr_vars(vd[1]))
                if loc:
                    raise xsltref.XsltError("unbound variable in a top-level expression")
                g.append("x%d%s" % (i, "".join(":%d" % self.name(v) for v in self.gment[i])))
                self.gment[i] = []
            else:
                g.append("-")
        g += ["E", str(len(self.ext))]
        for nme, s in self.ext.items():
            g += [str(self.name(nme)), "A%s/%s" % (enc("s:" + s), enc(s))]
        self.gtokens = g

    def use_ids(self, names):
        ids = []
        for n in names:
            if n not in self.aset_ids:
                raise NotInLanguage("no such attribute-set")
            ids += self.aset_ids[n]
        return [str(len(ids))] + [str(i) for i in ids]

    def attr_parts(self, an, body, out):
        """xsl:attribute with a literal name whose content is literal text / xsl:value-of: name + value template"""
        if len(an) != 1 or not isinstance(an[0], str):
            raise NotInLanguage("computed attribute name")
        parts = []
        for b in body:
            if b[0] in ("text", "lit"):
                parts.append(b[1])
            elif b[0] == "value-of":
                parts.append(("x", b[1]))
            else:
                raise NotInLanguage("xsl:attribute content")
        out.append(self.qn(an[0]))
        self.avt(parts, out)

    def instr(self, i, out):
        k = i[0]
        if k == "lre" and len(i) > 4 and i[4]:
            self.ninstr += 1
            out += ["LU", self.qn(i[1])] + self.use_ids(i[4]) + [str(len(i[2]))]
            for a, parts in i[2]:
                out.append(self.qn(a))
                self.avt(parts, out)
            self.body(i[3], out)
        elif k == "element" and len(i) > 3 and i[3]:
            self.ninstr += 1
            out.append("EU")
            self.avt(i[1], out)
            out += self.use_ids(i[3])
            self.body(i[2], out)
        else:
            g2.Translator2.instr(self, i, out)

    def split(self, vs):
        loc = [v for v in vs if v not in self.gnames]
        glo = [v for v in vs if v in self.gnames]
        return loc, glo

    def register(self, obj, vs):
        loc, glo = self.split(vs)
        i = self.eid_of(obj, loc + glo)
        self.xvars[i] = loc + glo           # the order of the values inside a table key: locals, then top-level bindings
        self.gment[i] = glo
        return i, loc

    def expr(self, e):
        i, loc = self.register(e, xsltcore.expr_vars(e))
        return "x%d%s" % (i, "".join(":%d" % self.name(v) for v in loc))

    def sorts(self, sorts):
        if not sorts:
            return "-"
        vs = []
        for e, _, _ in sorts:
            for v in xsltcore.expr_vars(e):
                if v not in vs:
                    vs.append(v)
        i, loc = self.register(sorts, vs)
        return "x%d%s" % (i, "".join(":%d" % self.name(v) for v in loc))

    def mention_tokens(self):
        ms = [(i, g) for i, g in self.gment.items() if g]
        out = ["M", str(len(ms))]
        for i, g in ms:
            out += [str(i), str(len(g))] + [str(self.name(v)) for v in g]
        return out


class Rec3(g2.Rec2):
    def __init__(self, sheet, doc, tr, unrecorded):
        self.unrecorded = unrecorded        # ids of the literal expressions that stand for external values
        self.first_refs = []
        g2.Rec2.__init__(self, sheet, doc, tr)

    def gvalue(self, name):
        if name in self.tr.gnames and name not in self.first_refs:
            self.first_refs.append(name)
        return self.gv(name)

    def gv(self, name):
        # a binding first referenced from a sort key: its definition is evaluated (and must be recorded) like any other
        saved, self.in_sort = self.in_sort, 0
        saved_cx = self.last_cx
        try:
            return g2.Rec2.gvalue(self, name)
        finally:
            self.in_sort = saved
            self.last_cx = saved_cx

    def key(self, eid, env, cx):
        vals = []
        for n in self.tr.xvars[eid]:
            if n in env:
                vals.append(self.ser(env[n]))
            elif n in self.tr.gnames:
                saved = list(self.first_refs)
                vals.append(self.ser(self.gv(n)))     # an operand the evaluation skipped: forced for the key only
                self.first_refs = saved
            else:
                raise xsltref.XsltError("unbound variable " + n)
        return "%d|%s|%d|%d|%d" % (eid, ";".join(vals), cx[0], cx[1], cx[2])

    def xp(self, e, cx, env):
        if id(e) in self.unrecorded:
            return xsltref.Interp.xp(self, e, cx, env)
        return g2.Rec2.xp(self, e, cx, env)


def prepare(cid, sheet, doc, flags=(True, True), ext=()):
    """ext: ((name, string), ...) external values of top-level params"""
    ext = dict(ext)
    tr = Translator3(sheet, ext)
    keep = []
    ref_tops = []
    for t in sheet["tops"]:
        if t[0] == "param" and t[1] in ext:
            e = lit(ext[t[1]])
            keep.append(e)
            ref_tops.append(("param", t[1], ("select", e)))
        else:
            ref_tops.append(t)
    it = Rec3({"imports": [], "tops": ref_tops}, doc, tr, set(id(e) for e in keep))
    tree = it.transform()
    if len(it.evtab) > MAX_TABLE:
        raise xsltref.XsltError("table too large")
    refs = ["R", str(len(it.first_refs))] + [str(tr.name(n)) for n in it.first_refs]
    line = " ".join([cid, str(FUEL_MACHINE), str(FUEL_SEM), "0", "1" if flags[0] else "0", "1" if flags[1] else "0"] +
                    tr.gtokens + tr.mention_tokens() + refs + ["P"] + tr.tokens + it.table_tokens())
    return {"id": cid, "line": line, "tree": norm_tree(tree), "flags": it.flags, "stats": it.stats, "n_ev": len(it.evtab), "n_evals": it.nev,
            "n_sort": len(it.sorttab), "n_tmpl": len(it.tmpltab), "n_instr": tr.ninstr, "n_expr": len(tr.xvars) - 2,
            "n_globals": len(tr.gtops), "n_forced": len(it.first_refs), "params": {n: "'%s'" % s for n, s in ext.items()}}


def build_driver():
    from vlib import core
    return core.build_model("xsltCore3")


# ---------------------------------------------------------------------------------------------------
# generator

GTYPES = ["str", "num", "nodes", "bool", "str", "num"]


class CoreGen3(g2.CoreGen2):
    def __init__(self, r, count=None):
        g2.CoreGen2.__init__(self, r, count)
        self.genv = {}

    def instr(self, cx, env, d):
        ins = g2.CoreGen2.instr(self, cx, env, d)
        r = self.r
        if getattr(self, "setnames", None) and ins[0] in ("lre", "element") and r.random() < 0.4:
            use = [r.choice(self.setnames) for _ in range(r.choice([1, 1, 2]))]
            if ins[0] == "lre":
                return ("lre", ins[1], ins[2], ins[3], use)
            return ("element", ins[1], ins[2], use)
        return ins

    def body(self, cx, env, d, in_elem=False):
        for n, t in self.genv.items():
            env.setdefault(n, t)
        return g2.CoreGen2.body(self, cx, env, d, in_elem)

    def tbody1(self, cx, env, d):
        for n, t in self.genv.items():
            env.setdefault(n, t)
        return g2.CoreGen2.tbody1(self, cx, env, d)

    def params(self, names, env):
        for n, t in self.genv.items():
            env.setdefault(n, t)
        return g2.CoreGen2.params(self, names, env)

    def sheet(self):
        r = self.r
        ng = r.choice([0, 0, 1, 2, 3, 4, 5])
        names = ["g%d" % (i + 1) for i in range(ng)]
        kinds = [r.choice(["variable", "variable", "param"]) for _ in names]
        defs = [r.choice(GTYPES) for _ in names]
        empty = [r.random() < 0.12 for _ in names]
        # the type under which the templates may use the binding: a param may be set from outside (a string), an empty
        # definition is the empty string
        types = ["anyparam" if k == "param" else ("str" if e else t) for k, t, e in zip(kinds, defs, empty)]
        self.genv = dict(zip(names, types))
        # attribute sets: s0.. ; a set may use earlier ones; sometimes two definitions of one name (merged: both apply, the
        # later one last); only top-level bindings are visible in them
        self.set_tops, self.setnames = [], []
        for j in range(r.choice([0, 0, 1, 2, 3])):
            nm = "s%d" % (j if r.random() < 0.8 or j == 0 else j - 1)
            uses = r.sample(sorted(set(self.setnames) - {nm}), r.choice([0, 0, 1])) if set(self.setnames) - {nm} else []
            attrs = []
            for _ in range(r.choice([1, 1, 2, 3])):
                attrs.append(([r.choice(["k", "m", "x", "w", "sa"])], self.text_body(dict(self.genv))))
            self.set_tops.append(("attribute-set", nm, uses, attrs))
            self.setnames.append(nm)
        sheet = g2.CoreGen2.sheet(self)
        if not names:
            alltops = list(sheet["tops"])
            for t in self.set_tops:
                alltops.insert(r.randrange(len(alltops) + 1), t)
            return {"imports": [], "tops": alltops}, ()
        # definitions: a random permutation decides who may mention whom (acyclic), so that declarations mention later
        # bindings as often as earlier ones
        rank = list(range(ng))
        r.shuffle(rank)
        tops, ext = [], []
        for i, n in enumerate(names):
            allowed = {names[j]: types[j] for j in range(ng) if rank[j] < rank[i]}
            t = defs[i]
            if empty[i]:
                vd = ("empty",)
            else:
                if allowed and r.random() < 0.7:
                    m = r.choice(sorted(allowed))
                    if t == "str":
                        e = fn("concat", fn("string", ("var", m)), lit("|"), self.ex("str", allowed, 1))
                    elif t == "num":
                        e = fn("string-length", fn("concat", fn("string", ("var", m)), fn("local-name")))
                    elif t == "bool":
                        e = fn("boolean", fn("string", ("var", m)))
                    else:
                        e = self.sel(allowed, True)
                else:
                    e = self.ex(t, allowed, 2) if t != "nodes" else self.sel(allowed, True)
                vd = ("select", xpgen.fix_bare_root(e))
            tops.append((kinds[i], n, vd))
            if kinds[i] == "param" and r.random() < 0.5:
                ext.append((n, r.choice(["E", "ext v", "", "7"])))
        alltops = list(sheet["tops"])
        for t in tops + self.set_tops:
            alltops.insert(r.randrange(len(alltops) + 1), t)
        return {"imports": [], "tops": alltops}, tuple(ext)


def gen_case(r, count=None):
    doc = xsltcore.gen_doc(r)
    sheet, ext = CoreGen3(r, count).sheet()
    return sheet, doc, ext


def features(sheet):
    out = set(g2.features({"imports": [], "tops": [t for t in sheet["tops"] if t[0] == "template"]}))
    sets = [t for t in sheet["tops"] if t[0] == "attribute-set"]
    if sets:
        out.add("attribute-set:%d" % min(len(sets), 3))
        if len(set(t[1] for t in sets)) < len(sets):
            out.add("attribute-set:same-name-merged")
        if any(t[2] for t in sets):
            out.add("attribute-set:uses-set")

        def walk(b):
            for i in b:
                if i[0] == "lre" and len(i) > 4 and i[4]:
                    out.add("attribute-set:on-lre" + ("+own-attributes" if i[2] else ""))
                if i[0] == "element" and len(i) > 3 and i[3]:
                    out.add("attribute-set:on-xsl:element")
                for x in i[1:]:
                    if isinstance(x, list) and x and isinstance(x[0], tuple):
                        walk([y for y in x if isinstance(y, tuple) and y and isinstance(y[0], str)])
        for t in sheet["tops"]:
            if t[0] == "template":
                walk(t[1].get("body", []))
    gn = [t[1] for t in sheet["tops"] if t[0] in ("variable", "param")]
    if gn:
        out.add("toplevel:%d" % min(len(gn), 3))
        order = {n: i for i, n in enumerate(gn)}
        for t in sheet["tops"]:
            if t[0] in ("variable", "param") and t[2][0] == "select":
                for v in xsltcore.expr_vars(t[2][1]):
                    if v in order:
                        out.add("toplevel:mentions-" + ("later" if order[v] > order[t[1]] else "earlier"))
                if t[0] == "param":
                    out.add("toplevel:param")
    return out
