"""C02, part "spec" - the dynamic leg of "the interpreter = a declarative reading of the Recommendation
for location paths" (proof leg: coq/XpSpecDefs.v, coq/XpSpec*Model.v, coq/Properties_C02s.v).

run_part(ctx) is called by props/C02.py after the library, the `xp` model and the `xp` harness are built.

 * proves coq/Properties_C02s.v and coq/Properties_C02t.v when the files exist (ctx.prove records failures in ctx.broken itself);
 * the axis-focused stream: for generated documents (vlib/xpgen.py) and EVERY node of the XPath data model as
   context node (elements, attributes, text, comments, processing instructions, the root; not the xmlns
   declaration items, which are not XPath nodes: DESIGN.md 12.3) and every one of the twelve axes other than
   `namespace` (known finding K21: excluded by name) the LIBRARY evaluates, through harness/xp.cpp,
        ax::node()   ax::*   ax::node()[k]   ax::node()[position()=k]   (k = 1 .. len+1)   ax::node()[last()]
        ax::*[k]     ax::*[last()]
        ax1::node()/ax2::node()      ax1::*[j]/ax2::node()[last()]
   and the node-set it returns is compared with vlib/xpspec_axes.py - the axes as SETS defined from child /
   attribute / parent and the document order (XPath 1.0 2.2, 5), put in axis order, the predicate applied to the
   proximity position (2.4), paths as relational composition (2).  For the positional forms the expected set
   has at most one member, so the comparison checks the ORDER in which the library walks the axis.
   Any difference is a VIOLATION with a replay file in the format of `check.py C02 --replay`.
 * corpus/C02s/axes_fixed.txt first, on every tier: hand-written documents (swept exhaustively: every node,
   axis, k, and all 144 axis pairs) and hand-computed `#expect` lines.
 * optional tie: the same case lines through the extracted interpreter model (coq/XpDefs.v), so that the
   theorems' subject, the library and the declarative oracle are compared pairwise on this stream.
"""
import os, re, random, time
from vlib import core, xpgen, xpspec_axes

AXES = list(xpspec_axes.AXES)              # the namespace axis is not generated (K21)
VFIELD = "n1=n:3ff0000000000000;s1=s:u:61;b1=b:1;ns1=ns:;e1=ns:"
NFIELD = "p=%s;q=%s" % (xpgen.tok("urn:p"), xpgen.tok("urn:q"))
CORPUS = os.path.join(core.VERIF, "corpus", "C02s")

# line budgets of the generated stream (each line = one expression evaluated by the library through all six
# entry points); the fixed corpus comes on top
LINES_QUICK, LINES_THOROUGH, LINES_WIDENED = 150000, 2500000, 1000000
CHUNK = 250000
MODEL_SAMPLE_QUICK, MODEL_SAMPLE_THOROUGH = 4000, 60000


# ---------------------------------------------------------------------------------------------------------
# expressions: (axis, test, pred) steps;  test in 'node' '*';  pred None | ('num',k) | ('poseq',k) | ('last',)

def ast_of(steps):
    def test(t):
        return "node" if t == "node" else ("name", None, None)

    def preds(p):
        if p is None:
            return []
        if p[0] == "num":
            return [(False, ("num", str(p[1])))]
        if p[0] == "poseq":
            return [(True, ("eq", ("fn", "position", []), ("num", str(p[1]))))]
        return [(True, ("fn", "last", []))]
    return ("path", None, [], [(a, test(t), preds(p)) for a, t, p in steps])


def text_of(steps, abbreviate=False):
    out = []
    for a, t, p in steps:
        ts = "node()" if t == "node" else "*"
        ps = "" if p is None else "[%d]" % p[1] if p[0] == "num" else "[position() = %d]" % p[1] if p[0] == "poseq" else "[last()]"
        if abbreviate and a == "child":
            s = ts
        elif abbreviate and a == "attribute":
            s = "@" + ts
        elif abbreviate and a == "self" and t == "node" and p is None:
            s = "."
        elif abbreviate and a == "parent" and t == "node" and p is None:
            s = ".."
        else:
            s = a + "::" + ts
        out.append(s + ps)
    return "/".join(out)


def form_of(steps):
    def one(s):
        return ("star" if s[1] == "*" else "node") + ("" if s[2] is None else "-" + s[2][0])
    return one(steps[0]) if len(steps) == 1 else "path2-" + one(steps[0]) + "/" + one(steps[1])


class Stream:
    def __init__(self, prefix, start=0):
        self.prefix, self.start, self.cases = prefix, start, []

    def add(self, table, dtoks, n, steps, abbreviate=False):
        exp = table.path(steps, n)
        cid = "%s%d" % (self.prefix, self.start + len(self.cases))
        s = text_of(steps, abbreviate)
        line = "%s|eval|D:%s|C:%d;%d|V:%s|N:%s|X:%s|A:%s" % (cid, dtoks, n, n, VFIELD, NFIELD, xpgen.tok(s), xpgen.sx_expr(ast_of(steps)))
        self.cases.append({"id": cid, "line": line, "str": s, "ctx": n, "kind": table.kind[n], "exp": exp,
                           "cls": "spec:%s:%s" % (steps[0][0], form_of(steps)), "nonempty": bool(exp)})


def ks_for(length, r, exhaustive):
    """the positions tried against an axis of `length` nodes: 1 .. length+1 (all of them in the exhaustive
    sweep; first, second, a middle one, last, one past the end otherwise)"""
    if exhaustive or length <= 3:
        return list(range(1, length + 2))
    return sorted({1, 2, r.randrange(3, length), length, length + 1})


def doc_cases(stream, top, r, exhaustive=False, pairs=6, pospairs=4):
    table = xpspec_axes.Table(top)
    dtoks = xpgen.doc_tokens(top)
    for n in table.xpath_nodes():
        for ax in AXES:
            ab = (not exhaustive) and r.random() < 0.12
            full = table.select(ax, "node", n)
            stars = table.select(ax, "*", n)
            stream.add(table, dtoks, n, [(ax, "node", None)], ab)
            stream.add(table, dtoks, n, [(ax, "*", None)], ab)
            # an empty axis: the positional forms say nothing new most of the time
            if full or exhaustive or r.random() < 0.15:
                for k in ks_for(len(full), r, exhaustive):
                    stream.add(table, dtoks, n, [(ax, "node", ("num", k))], ab)
                    stream.add(table, dtoks, n, [(ax, "node", ("poseq", k))], ab)
                stream.add(table, dtoks, n, [(ax, "node", ("last",))], ab)
            if stars and stars != full:
                for k in ks_for(len(stars), r, exhaustive):
                    stream.add(table, dtoks, n, [(ax, "*", ("num", k))], ab)
                stream.add(table, dtoks, n, [(ax, "*", ("last",))], ab)
        # two steps
        if exhaustive:
            ps = [(a, b) for a in AXES for b in AXES]
            qs = [(a, b, j) for a in AXES for b in AXES for j in (1, 2) if len(table.select(a, "*", n)) >= j]
        else:
            ps = [(r.choice(AXES), r.choice(AXES)) for _ in range(pairs)]
            rich = [a for a in AXES if len(table.select(a, "*", n)) >= 2] or [a for a in AXES if table.select(a, "*", n)] or AXES
            qs = [(r.choice(rich), r.choice(AXES), r.choice([1, 2, 2])) for _ in range(pospairs)]
        for a, b in ps:
            stream.add(table, dtoks, n, [(a, "node", None), (b, "node", None)])
        for a, b, j in qs:
            stream.add(table, dtoks, n, [(a, "*", ("num", j)), (b, "node", ("last",))])
    return table


# ---------------------------------------------------------------------------------------------------------

def judge(ctx, C02, cases, impl, model, model_sample, r):
    """-> (oracle failures, correspondence mismatches)"""
    lines = [c["line"] for c in cases]
    rc, res, raw = core.run_lines_parallel(impl, lines, sep="|")
    bad, corr = [], []
    if rc != 0:
        bad.append({"case": "(process)", "what": "xp driver exited with status %d: %s" % (rc, raw[-300:]), "expect": "?"})
    for c in cases:
        ctx.cov["evaluations"] += 1
        ctx.count(c["cls"])
        ctx.count("spec-ctx:" + c["kind"])
        ctx.count("spec-result:" + ("nonempty" if c["nonempty"] else "empty"))
        ri = res.get(c["id"])
        if ri is None:
            bad.append({"case": c["line"], "what": "no result from the library (crash?) for %s" % c["str"], "expect": C02.fmt_value(c["exp"])})
            continue
        f0 = ri.split("|")[0]
        got = C02.parse_value(f0[2:] if f0.startswith("G:") else f0)
        if not (isinstance(got, list) and "?" not in f0 and C02.same_value(got, c["exp"])):
            bad.append({"case": c["line"], "expect": C02.fmt_value(c["exp"]),
                        "what": "%s with the %s node %d as context: library %s, XPath 1.0 sections 2.2/2.4/5 (vlib/xpspec_axes.py) %r" % (
                            c["str"], c["kind"], c["ctx"], f0[:160], c["exp"])})
    if model and model_sample:
        picked = cases if len(cases) <= model_sample else r.sample(cases, model_sample)
        rc_m, res_m, raw_m = core.run_lines_parallel(model, [c["line"] for c in picked], sep="|")
        for c in picked:
            ri, rm = res.get(c["id"]), res_m.get(c["id"])
            if ri is None:
                continue
            ctx.cov["traces_validated_against_impl"] += 1
            if C02.canon_line(rm) != C02.canon_line(ri):
                corr.append({"expr": c["str"], "ctx": c["ctx"], "case": c["line"], "impl": ri[:200], "model": (rm or "")[:200]})
    return bad, corr


STEP_RX = re.compile(r"^([a-z-]+)::(node\(\)|\*)(?:\[(\d+|last\(\)|position\(\) = \d+)\])?$")


def parse_steps(text):
    """the inverse of text_of (unabbreviated form); None when the text is outside the little language"""
    steps = []
    for part in text.split("/"):
        m = STEP_RX.match(part.strip())
        if not m or m.group(1) not in AXES:
            return None
        p = m.group(3)
        pred = None if p is None else ("last",) if p == "last()" else ("poseq", int(p.split("=")[1])) if p.startswith("position") else ("num", int(p))
        steps.append((m.group(1), "node" if m.group(2) == "node()" else "*", pred))
    return steps


def read_corpus():
    """corpus/C02s/*.txt -> ([(file, tuple tree)], [(file, expected G field, comment, case line)])"""
    docs, fixed = [], []
    for fn in sorted(os.listdir(CORPUS)) if os.path.isdir(CORPUS) else []:
        if not fn.endswith(".txt"):
            continue
        lines = open(os.path.join(CORPUS, fn)).read().split("\n")
        for i, l in enumerate(lines):
            if l.startswith("D:"):
                docs.append((fn, xpspec_axes.parse_doc_tokens(l[2:])))
            elif l.startswith("#expect ") and i + 1 < len(lines) and "|" in lines[i + 1]:
                fixed.append((fn, l.split()[1], l.partition("# ")[2], lines[i + 1]))
    return docs, fixed


def run_fixed(ctx, C02, impl, fixed):
    """the hand-computed expectations: the library must give them, and so must the oracle (a disagreement
    between the stored value and vlib/xpspec_axes.py is a defect of this check, reported as broken)"""
    bad = []
    if not fixed:
        return bad
    rc, res, raw = core.run_lines(impl, "\n".join(f[3] for f in fixed) + "\n", sep="|")
    for fn, exp, what, line in fixed:
        cid = line.split("|")[0]
        ctx.cov["evaluations"] += 1
        ctx.count("spec-corpus:" + fn)
        got = (res.get(cid) or "crash").split("|")[0]
        e = C02.parse_value(exp[2:] if exp.startswith("G:") else exp)
        g = C02.parse_value(got[2:] if got.startswith("G:") else got)
        if not (isinstance(g, list) and isinstance(e, list) and C02.same_value(g, e)):
            bad.append({"case": line, "expect": exp[2:] if exp.startswith("G:") else exp,
                        "what": "corpus %s: %s: library %s, hand-computed %s" % (fn, what, got[:160], exp)})
    return bad


def run_part(ctx):
    t0 = time.time()
    from props import C02          # lazily: props/C02.py imports this module inside run()
    broken_before = bool(ctx.broken)
    ctx.assumptions.append(
        "spec-axes stream: the document text handed to the parser is printed from the generated tree by xpgen.doc_tokens / "
        "harness/xp.cpp, and the node numbers the harness prints follow the pre-order numbering of coq/DomDefs.v (xmlns items "
        "numbered, the document element's implicit xmlns:xml first) - vlib/xpspec_axes.py numbers its own table the same way; "
        "Xerces parsing is trusted; expressions on the namespace axis are not generated (K21)")
    rule = ("spec-axes: every XPath node of generated documents x the 12 axes (namespace excluded) x node()/* x [k] / "
            "[position()=k] / [last()] (k up to len+1) + two-step paths; distinct = distinct (document, context, expression) "
            "triples (all generated cases are); non-trivial = the expected node-set is not empty (spec-result:nonempty)")
    ctx.notes["rule"] = (ctx.notes.get("rule", "") + " | " + rule) if ctx.notes.get("rule") else rule

    proved = True
    # Properties_C02s.v: axes / steps / paths / substring / arithmetic; Properties_C02t.v: node tests, the
    # relational semantics den of whole expressions, eval_sound / eval_complete / den_deterministic
    pfiles = [f for f in ("Properties_C02s.v", "Properties_C02t.v") if os.path.exists(os.path.join(core.COQ, f))]
    if pfiles:
        proved = ctx.prove(pfiles, ["GenNum"])
    impl, ok_h, hlog = core.build_harness("xp", "plain")
    if not ok_h:
        ctx.broken.append("spec: harness xp does not compile against the working tree: " + hlog[-300:])
        return
    model, ok_m, mlog = core.build_model("xp")
    if not ok_m:
        model = None            # props/C02.py reports the failed model build itself

    widen = (broken_before or not proved) and not ctx.thorough
    if widen:
        ctx.escalated = True
    # the private generator: ctx.rng is not touched, the main streams of C02 stay what they are
    r = random.Random("C02s-%s-%s" % (ctx.seed, "w" if widen else ctx.tier))
    rsample = random.Random("C02s-model-%s" % ctx.seed)      # which cases also go through the extracted model
    budget = LINES_WIDENED if widen else LINES_THOROUGH if ctx.thorough else LINES_QUICK
    msample = MODEL_SAMPLE_THOROUGH if (ctx.thorough or widen) else MODEL_SAMPLE_QUICK

    # --- corpus first
    docs, fixed = read_corpus()
    if not docs or not fixed:
        ctx.broken.append("spec: corpus/C02s/axes_fixed.txt (hand-written documents and hand-computed values) is missing or empty")
    bad = run_fixed(ctx, C02, impl, fixed)
    cstream = Stream("sc")
    for fn, top in docs:
        doc_cases(cstream, top, r, exhaustive=True)
        ctx.count("spec-corpus:" + fn + ":document")
    # the oracle against the hand-computed values: a check of this check
    tables = {}
    for fn, exp, what, line in fixed:
        fs = line.split("|")
        steps = parse_steps(C02.u16_to_str(fs[6][2:]))
        if steps is None:
            continue
        if fs[2] not in tables:
            tables[fs[2]] = xpspec_axes.Table(xpspec_axes.parse_doc_tokens(fs[2][2:]))
        mine = C02.fmt_value(tables[fs[2]].path(steps, int(fs[3][2:].split(";")[0])))
        ctx.count("spec-corpus:oracle-vs-hand")
        if mine != (exp[2:] if exp.startswith("G:") else exp):
            ctx.broken.append("spec: corpus %s: the hand-computed value %s (%s) differs from vlib/xpspec_axes.py's %s" % (fn, exp, what[:80], mine))
    b1, corr = judge(ctx, C02, cstream.cases, impl, model, min(msample, 1500), rsample)
    bad += b1

    # --- the generated stream, in chunks (the thorough tier does not keep millions of case lines in memory)
    st = {"docs": 0, "gen": 0, "nontrivial": sum(1 for c in cstream.cases if c["nonempty"]), "samples": []}

    def sweep(budget, msample):
        upto = st["gen"] + budget
        while st["gen"] < upto:
            gstream = Stream("s", st["gen"])
            while len(gstream.cases) < min(CHUNK, upto - st["gen"]):
                top = xpgen.gen_doc(r, "small" if r.random() < 0.7 else "big")
                doc_cases(gstream, top, r)
                st["docs"] += 1
            share = max(1, int(msample * len(gstream.cases) / float(budget)))
            b2, c2 = judge(ctx, C02, gstream.cases, impl, model, share, rsample)
            bad.extend(b2)
            corr.extend(c2)
            st["nontrivial"] += sum(1 for c in gstream.cases if c["nonempty"])
            if not st["samples"]:
                st["samples"] = [c["str"] for c in gstream.cases[40:400:45]]
            st["gen"] += len(gstream.cases)

    sweep(budget, msample)
    if corr and not bad and not widen and not ctx.thorough:
        # the model of the interpreter and the library differ on this stream but the oracle saw nothing: widened search
        ctx.escalated = True
        sweep(LINES_WIDENED, MODEL_SAMPLE_THOROUGH)
    n_docs, n_gen, nontrivial, samples = st["docs"], st["gen"], st["nontrivial"], st["samples"]
    total = len(cstream.cases) + n_gen + len(fixed)
    ctx.cov["distinct_nontrivial"] = ctx.cov.get("distinct_nontrivial", 0) + nontrivial
    ctx.cov["samples"] = (ctx.cov.get("samples") or []) + samples
    ctx.notes["spec_axis_cases"] = total
    ctx.notes["spec_axis_documents"] = n_docs + len(docs)
    ctx.notes["spec_axis_failures"] = len(bad)
    if corr:
        ctx.broken.append("correspondence xp (spec-axes stream): %d cases differ between the interpreter model and the library, e.g. %s" % (
            len(corr), {k: corr[0][k] for k in ("expr", "ctx", "impl", "model")}))
        ctx.notes["spec_correspondence_mismatches"] = [{k: c[k] for k in ("expr", "ctx", "impl", "model")} for c in corr[:20]]
    if bad:
        bad.sort(key=lambda o: len(o["case"]))
        txt = "\n".join("#expect G:%s   # %s\n%s" % (o["expect"], C02.oneline(o["what"]), o["case"]) for o in bad[:40])
        ctx.violation("spec-axes", "# C02 (spec part): %d location paths whose value in the library differs from the axes / proximity positions "
                      "of XPath 1.0 sections 2.2, 2.4, 5 computed from the tree (vlib/xpspec_axes.py)\n"
                      "# replay: python3 check.py C02 --replay <this file>  (each case line is preceded by '#expect <the node-set the Recommendation prescribes>')\n" % len(bad) + txt)
    ctx.notes["spec_part_seconds"] = round(time.time() - t0, 1)
