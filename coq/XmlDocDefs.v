(* XmlDocDefs.v — C04: a model reader for whole documents (UTF-16 code units), on top of the
   character-data reader of XmlParseDefs.v: XML declaration, start tags with attributes, empty-element
   tags, end tags, comments, processing instructions, text runs with CDATA sections; then a
   nesting check.  Written from the XML recommendations; it accepts a SUBSET of the well-formed
   documents (attribute values in double quotes, no white space around '=', no DOCTYPE) and returns
   None otherwise.  Definitions only. *)
From Coq Require Import NArith List Bool.
Require Import XV.XmlParseDefs.
Import ListNotations.
Local Open Scope N_scope.

(* what a parser reports *)
Inductive pev : Type :=
| PS (name : list N) (attrs : list (list N * list N))
| PE (name : list N)
| PT (s : list N)
| PM (s : list N)
| PP (target data : list N).

(* Name characters (XML 1.0 5th ed. [4], [4a]) on UTF-16 units; a supplementary NameChar
   (#x10000-#xEFFFF) is a high surrogate D800..DB7F followed by a low surrogate: both kinds of unit
   are accepted here, pairing is checked by [name_units_ok] *)
Definition is_name_start_unit (c : N) : bool :=
  (c =? 58) || x_in 65 90 c || (c =? 95) || x_in 97 122 c || x_in 192 214 c || x_in 216 246 c
  || x_in 248 767 c || x_in 880 893 c || x_in 895 8191 c || x_in 8204 8205 c || x_in 8304 8591 c
  || x_in 11264 12271 c || x_in 12289 55295 c || x_in 63744 64975 c || x_in 65008 65533 c
  || x_in 55296 56191 c.
Definition is_name_unit (c : N) : bool :=
  is_name_start_unit c || (c =? 45) || (c =? 46) || x_in 48 57 c || (c =? 183) || x_in 768 879 c
  || x_in 8255 8256 c || x_low c.

Fixpoint take_name (l : list N) : list N * list N :=
  match l with
  | c :: r => if is_name_unit c then let '(n, r') := take_name r in (c :: n, r') else ([], l)
  | [] => ([], [])
  end.

Fixpoint name_units_ok (n : list N) : bool :=
  match n with
  | [] => true
  | c :: r =>
      if x_high c then match r with lo :: r' => x_low lo && name_units_ok r' | [] => false end
      else if x_low c then false else name_units_ok r
  end.

Definition valid_name (n : list N) : bool :=
  match n with c :: _ => is_name_start_unit c && name_units_ok n | [] => false end.

Definition is_space (c : N) : bool := (c =? 32) || (c =? 9) || (c =? 10) || (c =? 13).

Fixpoint skip_space (l : list N) : list N :=
  match l with c :: r => if is_space c then skip_space r else l | [] => [] end.

(* up to (not including) the first unit d; the rest after d *)
Fixpoint take_until (d : N) (l : list N) : option (list N * list N) :=
  match l with
  | [] => None
  | c :: r =>
      if c =? d then Some ([], r)
      else match take_until d r with Some (a, b) => Some (c :: a, b) | None => None end
  end.

(* literal characters of a comment or of PI data: Chars, not restricted, surrogates in pairs *)
Fixpoint lit_run_ok (v11 : bool) (s : list N) : bool :=
  match s with
  | [] => true
  | c :: r =>
      if x_high c then match r with lo :: r' => x_low lo && lit_run_ok v11 r' | [] => false end
      else if x_low c then false else literal_ok v11 c && lit_run_ok v11 r
  end.

(* (S Name '="' AttValue '"')* S?   — fuel: one unit per attribute *)
Fixpoint take_attrs (v11 : bool) (fuel : nat) (l : list N) : option (list (list N * list N) * list N) :=
  match fuel with
  | O => None
  | S f =>
      match l with
      | [] => Some ([], [])
      | c :: _ =>
          if is_space c then
            let r1 := skip_space l in
            match r1 with
            | [] => Some ([], [])
            | d :: _ =>
                if is_name_start_unit d then
                  let '(n, r2) := take_name r1 in
                  if valid_name n then
                    match starts_with [61; 34] r2 with
                    | Some r3 =>
                        match take_until 34 r3 with
                        | Some (raw, r4) =>
                            match parse_attr v11 raw with
                            | Some v =>
                                match take_attrs v11 f r4 with
                                | Some (al, r5) => Some ((n, v) :: al, r5)
                                | None => None
                                end
                            | None => None
                            end
                        | None => None
                        end
                    | None => None
                    end
                  else None
                else Some ([], r1)
            end
          else Some ([], l)
      end
  end.

(* after "<!--": the data up to the first "--", which must be followed by '>' *)
Fixpoint take_comment (l : list N) : option (list N * list N) :=
  match l with
  | [] => None
  | c :: r =>
      match starts_with [45; 45] l with
      | Some r2 => match r2 with d :: r3 => if d =? 62 then Some ([], r3) else None | [] => None end
      | None => match take_comment r with Some (a, b) => Some (c :: a, b) | None => None end
      end
  end.

(* PI data up to the first "?>" *)
Fixpoint take_pi_data (l : list N) : option (list N * list N) :=
  match l with
  | [] => None
  | c :: r =>
      match starts_with [63; 62] l with
      | Some r2 => Some ([], r2)
      | None => match take_pi_data r with Some (a, b) => Some (c :: a, b) | None => None end
      end
  end.

Definition s_cdata_start : list N := [33; 91; 67; 68; 65; 84; 65; 91].   (* ![CDATA[  (after '<') *)

(* a text run: character data, references and CDATA sections up to the next markup *)
Fixpoint split_run (fuel : nat) (incdata : bool) (l : list N) : list N * list N :=
  match fuel with
  | O => ([], l)
  | S f =>
      match l with
      | [] => ([], [])
      | c :: r =>
          if incdata then
            match starts_with [93; 93; 62] l with
            | Some _ => let '(a, b) := split_run f false r in (c :: a, b)     (* the two following units are plain *)
            | None => let '(a, b) := split_run f true r in (c :: a, b)
            end
          else if c =? 60 then
            match starts_with s_cdata_start r with
            | Some _ => let '(a, b) := split_run f true r in (c :: a, b)
            | None => ([], l)
            end
          else let '(a, b) := split_run f false r in (c :: a, b)
      end
  end.

Definition is_xml_target (t : list N) : bool :=
  match t with
  | [a; b; c] => ((a =? 120) || (a =? 88)) && ((b =? 109) || (b =? 77)) && ((c =? 108) || (c =? 76))
  | _ => false
  end.

Fixpoint tokens (v11 : bool) (fuel : nat) (l : list N) : option (list pev) :=
  match fuel with
  | O => None
  | S f =>
      match l with
      | [] => Some []
      | c :: r =>
          let text_run (_ : unit) :=
            let '(run, rest) := split_run (length l) false l in
            match run with
            | [] => None
            | _ => match parse_content v11 run with
                   | Some s => option_map (cons (PT s)) (tokens v11 f rest)
                   | None => None
                   end
            end in
          if c =? 60 then
            match r with
            | [] => None
            | d :: r1 =>
                if d =? 33 then
                  match starts_with [45; 45] r1 with
                  | Some r2 =>
                      match take_comment r2 with
                      | Some (raw, r3) =>
                          if lit_run_ok v11 raw
                          then option_map (cons (PM (eol_norm v11 raw))) (tokens v11 f r3) else None
                      | None => None
                      end
                  | None => text_run tt          (* "<![CDATA[" or an error found by the text reader *)
                  end
                else if d =? 63 then
                  let '(t, r2) := take_name r1 in
                  if valid_name t && negb (is_xml_target t) then
                    match starts_with [63; 62] r2 with
                    | Some r3 => option_map (cons (PP t [])) (tokens v11 f r3)
                    | None =>
                        match r2 with
                        | sp :: _ =>
                            if is_space sp then
                              match take_pi_data (skip_space r2) with
                              | Some (raw, r3) =>
                                  if lit_run_ok v11 raw
                                  then option_map (cons (PP t (eol_norm v11 raw))) (tokens v11 f r3) else None
                              | None => None
                              end
                            else None
                        | [] => None
                        end
                    end
                  else None
                else if d =? 47 then
                  let '(n, r2) := take_name r1 in
                  if valid_name n then
                    match skip_space r2 with
                    | e :: r3 => if e =? 62 then option_map (cons (PE n)) (tokens v11 f r3) else None
                    | [] => None
                    end
                  else None
                else
                  let '(n, r2) := take_name r in
                  if valid_name n then
                    match take_attrs v11 (length r2) r2 with
                    | Some (al, r3) =>
                        match r3 with
                        | e :: r4 =>
                            if e =? 62 then option_map (cons (PS n al)) (tokens v11 f r4)
                            else if e =? 47 then
                              match r4 with
                              | g :: r5 => if g =? 62 then option_map (fun t => PS n al :: PE n :: t) (tokens v11 f r5) else None
                              | [] => None
                              end
                            else None
                        | [] => None
                        end
                    | None => None
                    end
                  else None
            end
          else text_run tt
      end
  end.

(* XMLDecl: "<?xml" S ... "?>" is dropped (its pseudo-attributes are not interpreted here) *)
Definition strip_decl (l : list N) : option (list N) :=
  match starts_with [60; 63; 120; 109; 108; 32] l with
  | Some r => match take_pi_data r with Some (_, r') => Some r' | None => None end
  | None => Some l
  end.

(* element nesting: end tags match, exactly one root element, no character data outside it *)
Fixpoint list_eqb (a b : list N) : bool :=
  match a, b with
  | [], [] => true
  | x :: a', y :: b' => (x =? y) && list_eqb a' b'
  | _, _ => false
  end.

Fixpoint well_nested (evs : list pev) (stack : list (list N)) (roots : nat) : bool :=
  match evs with
  | [] => match stack with [] => Nat.eqb roots 1 | _ => false end
  | PS n _ :: r =>
      (match stack with [] => Nat.eqb roots 0 | _ => true end) &&
      well_nested r (n :: stack) (match stack with [] => S roots | _ => roots end)
  | PE n :: r =>
      match stack with
      | m :: st => list_eqb n m && well_nested r st roots
      | [] => false
      end
  | PT _ :: r => match stack with [] => false | _ => well_nested r stack roots end
  | PM _ :: r | PP _ _ :: r => well_nested r stack roots
  end.

Definition parse_doc (v11 : bool) (l : list N) : option (list pev) :=
  match strip_decl l with
  | Some l' =>
      match tokens v11 (S (length l')) l' with
      | Some evs => if well_nested evs [] 0 then Some evs else None
      | None => None
      end
  | None => None
  end.
