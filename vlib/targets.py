"""C05 part "targets": event-script generator, token syntax and tree views for props/C05_targets.py.

An item is a tuple: ('e', qname, [(an, av), ...], [items]) | ('c', chars) | ('r', raw) | ('d', cdata) | ('m', comment)
| ('p', target, data) | ('i', ws) | ('n', name).  Scripts are lists of items (well nested by construction) or raw
event lists for the unbalanced stream."""

XMLNS_URI = "http://www.w3.org/2000/xmlns/"
XML_URI = "http://www.w3.org/XML/1998/namespace"
MARKER = ("Xalan", "raw")

ELEMS = ["a", "b", "c", "d", "p:e", "q:f", "a", "b"]
ATTRS = ["k", "id", "y", "z", "p:m", "q:n", "xml:lang"]
NSDECLS = [("xmlns", "urn:d"), ("xmlns:p", "urn:p"), ("xmlns:q", "urn:q"), ("xmlns", "")]
SAFE = "abxyz  \n\t<&>]\"'-é€中"          # survives serialisation + parsing unchanged
WIDE = SAFE + "\r\U0001F600\ufffd"                         # tree targets only
WS = " \n\t\r"


def u(s):
    """string -> token; surrogate pairs are written as two code units"""
    units = []
    for ch in s:
        o = ord(ch)
        if o >= 0x10000:
            o -= 0x10000
            units += [0xD800 + (o >> 10), 0xDC00 + (o & 0x3FF)]
        else:
            units.append(o)
    return "u:" + ",".join("%x" % x for x in units)


def un(tok):
    body = tok[2:]
    if not body:
        return ""
    units = [int(x, 16) for x in body.split(",")]
    out, i = [], 0
    while i < len(units):
        c = units[i]
        if 0xD800 <= c < 0xDC00 and i + 1 < len(units) and 0xDC00 <= units[i + 1] < 0xE000:
            out.append(chr(0x10000 + ((c - 0xD800) << 10) + (units[i + 1] - 0xDC00)))
            i += 2
        else:
            out.append(chr(c))
            i += 1
    return "".join(out)


def ev_tokens(items):
    out = []
    for it in items:
        k = it[0]
        if k == 'e':
            out.append("|".join(["S", u(it[1])] + [u(x) for p in it[2] for x in p]))
            out += ev_tokens(it[3])
            out.append("E|" + u(it[1]))
        elif k == 'c':
            out.append("C|" + u(it[1]))
        elif k == 'r':
            out.append("R|" + u(it[1]))
        elif k == 'd':
            out.append("D|" + u(it[1]))
        elif k == 'm':
            out.append("M|" + u(it[1]))
        elif k == 'p':
            out.append("P|" + u(it[1]) + "|" + u(it[2]))
        elif k == 'i':
            out.append("I|" + u(it[1]))
        elif k == 'n':
            out.append("N|" + u(it[1]))
    return out


def res_token(res):
    if res is None:
        return "-"
    return "|".join(["r"] + [u(x) for p in res for x in p])


def line(cid, target, mode, res, items=None, events=None, bare=False):
    toks = events if events is not None else ev_tokens(items)
    if not bare:
        toks = ["O"] + toks + ["Z"]
    return "%s %s %s %s %s" % (cid, target, mode, res_token(res), " ".join(toks))


# ------------------------------------------------------------------------------------------------ generator
def rand_text(r, alpha, lo=0, hi=6):
    n = r.randint(lo, hi)
    return "".join(r.choice(alpha) for _ in range(n))


def chunked(r, s):
    """the items of one text run: random chunks, empty chunks included"""
    out = []
    if r.random() < 0.2:
        out.append(('c', ""))
    i = 0
    while i < len(s):
        j = min(len(s), i + r.randint(1, 4))
        out.append(('c', s[i:j]))
        if r.random() < 0.15:
            out.append(('c', ""))
        i = j
    return out


def rand_comment(r, alpha):
    s = rand_text(r, alpha.replace("-", ""), 0, 5)
    return s


def rand_pi_data(r, alpha):
    return rand_text(r, alpha.replace(">", "").replace("?", ""), 0, 5).lstrip(" \n\t\r")


def gen_attrs(r, ns):
    out, seen = [], set()
    pool = ATTRS if ns else ATTRS[:4]
    for _ in range(r.choice([0, 0, 1, 2, 3])):
        n = r.choice(pool)
        if n in seen:
            continue
        seen.add(n)
        out.append((n, rand_text(r, SAFE, 0, 4) if n != "xml:lang" else "en"))
    if ns and r.random() < 0.5:
        for d in r.sample(NSDECLS, r.randint(1, 2)):
            if d[0] not in seen:
                seen.add(d[0])
                out.append(d)
    r.shuffle(out)
    return out


def gen_kids(r, depth, kinds, alpha, ns):
    """kinds: string of item kinds allowed besides elements / chars"""
    out = []
    for _ in range(r.randint(0, 5)):
        x = r.random()
        if x < 0.30:
            out += chunked(r, rand_text(r, alpha, 1, 7))
        elif x < 0.50 and depth < 3:
            out.append(gen_elem(r, depth + 1, kinds, alpha, ns))
        else:
            k = r.choice(kinds) if kinds else 'c'
            if k == 'm':
                out.append(('m', rand_comment(r, alpha)))
            elif k == 'p':
                out.append(('p', r.choice(["t", "pi", "x-y"]), rand_pi_data(r, alpha)))
            elif k == 'd':
                out.append(('d', rand_text(r, alpha, 0, 4)))
            elif k == 'r':
                out.append(('r', rand_text(r, "abxyz \n", 0, 4)))
            elif k == 'i':
                out.append(('i', rand_text(r, WS[:3], 0, 3)))
            elif k == 'n':
                out.append(('n', r.choice(["amp", "ent"])))
            else:
                out += chunked(r, rand_text(r, alpha, 0, 3))
    return out


def gen_elem(r, depth, kinds, alpha, ns):
    return ('e', r.choice(ELEMS if ns else ELEMS[:4]), gen_attrs(r, ns), gen_kids(r, depth, kinds, alpha, ns))


def gen_doc(r, kinds, alpha, ns=False):
    """one document element with comments / processing instructions / white space around it"""
    def misc():
        out = []
        for _ in range(r.choice([0, 0, 1, 2])):
            x = r.random()
            if x < 0.4:
                out.append(('m', rand_comment(r, alpha)))
            elif x < 0.7:
                out.append(('p', "t", rand_pi_data(r, alpha)))
            else:
                out += chunked(r, rand_text(r, WS[:3], 0, 3))
        return out
    return misc() + [gen_elem(r, 0, kinds, alpha, ns)] + misc()


def gen_frag(r, kinds, alpha, ns=False):
    return gen_kids(r, 0, kinds, alpha, ns)


def gen_resolver(r):
    res = []
    if r.random() < 0.5:
        res.append(("", "urn:d"))
    if r.random() < 0.8:
        res.append(("p", "urn:p"))
    if r.random() < 0.5:
        res.append(("q", r.choice(["urn:q", ""])))
    if r.random() < 0.6:
        res.append(("xmlns", XMLNS_URI))
    if r.random() < 0.7:
        res.append(("xml", XML_URI))
    r.shuffle(res)
    return res


# boundary scripts aimed at every flush site and at the top-level rules
def boundary_scripts():
    T = lambda s: ('c', s)
    out = []
    structural = [('m', "c"), ('p', "t", "d"), ('d', "cd"), ('r', "raw"), ('i', " "), ('n', "amp"), ('e', "b", [], []),
                  ('e', "b", [("k", "v")], [T("in")])]
    for sv in structural:
        out.append(("flush-before", [('e', "a", [], [T("x"), sv, T("y")])]))
        out.append(("flush-before-chunked", [('e', "a", [], [T("x"), T(""), T("x2"), sv, T(""), T("y"), T("z")])]))
        out.append(("flush-before-top", [T("x"), sv, T("y")]))
        out.append(("flush-before-top-ws", [T(" "), sv, T("\n"), ('e', "a", [], []), T(" ")]))
    out.append(("text-before-end", [('e', "a", [], [('e', "b", [], [T("x"), T("y")]), T("z")])]))
    out.append(("empty-only", [('e', "a", [], [T(""), T("")])]))
    out.append(("cdata-adjacent", [('e', "a", [], [T("x"), ('d', "c1"), ('d', "c2"), T("y"), ('d', ""), T("z")])]))
    out.append(("raw-adjacent", [('e', "a", [], [T("x"), ('r', "r1"), T("y"), ('r', ""), T("z")])]))
    out.append(("iws-adjacent", [('e', "a", [], [T("x"), ('i', " "), ('i', ""), T("y")])]))
    out.append(("top-nonws", [T("x"), ('e', "a", [], [])]))
    out.append(("top-nonws-after", [('e', "a", [], []), T("x")]))
    out.append(("top-ws-nonws-chunks", [T(" "), T("x"), ('e', "a", [], [])]))
    out.append(("two-elements", [('e', "a", [], []), ('e', "b", [], [])]))
    out.append(("top-cdata", [('d', " "), ('e', "a", [], [])]))
    out.append(("top-raw-ws", [('r', " "), ('e', "a", [], [])]))
    out.append(("top-raw", [('r', "x"), ('e', "a", [], [])]))
    out.append(("top-iws", [('i', " "), ('e', "a", [], []), ('i', "\n")]))
    out.append(("top-entref", [('n', "amp"), ('e', "a", [], [])]))
    out.append(("no-element", [('m', "c"), T(" ")]))
    out.append(("empty", []))
    out.append(("nsdecl-order", [('e', "a", [("z", "1"), ("xmlns:p", "urn:p"), ("b", "2"), ("xmlns", "urn:d"), ("p:m", "3")], [])]))
    return out


# ------------------------------------------------------------------------------------------------ dumps and views
def parse_dump(text):
    """'ok <tokens>' -> list of nodes; node = ('e', qname, ns, [(aq, ans, av)], [children]) | ('t', s) | ('c', s) | ('m', s)
    | ('p', t, d) | ('n', name); None for an error line"""
    parts = text.split()
    if not parts or parts[0] != "ok":
        return None
    stack = [[]]
    heads = []
    for tk in parts[1:]:
        if tk == ")":
            kids = stack.pop()
            q, ns, at = heads.pop()
            stack[-1].append(('e', q, ns, at, kids))
            continue
        f = tk.split("|")
        k = f[0]
        if k == 'e':
            at = [(un(f[i]), un(f[i + 1]), un(f[i + 2])) for i in range(3, len(f) - 2, 3)]
            heads.append((un(f[1]), un(f[2]), at))
            stack.append([])
        elif k == 'p':
            stack[-1].append(('p', un(f[1]), un(f[2])))
        else:
            stack[-1].append((k, un(f[1])))
    return stack[0]


def canon(nodes):
    """exact comparison form: attributes in a fixed order (stable by qualified name)"""
    out = []
    for n in nodes:
        if n[0] == 'e':
            out.append(('e', n[1], n[2], sorted(n[3], key=lambda a: a[0]), canon(n[4])))
        else:
            out.append(n)
    return out


def view(nodes, top_doc=False, keep_ns=False, skip_xmlns_ns=True):
    """XPath data model view: CDATA sections are text, adjacent text is one node, empty text is none, the marker
    processing instruction of charactersRaw is dropped, white-space-only text outside the document element (document
    mode) is dropped; attributes sorted by qualified name; namespace URIs kept only on request (and never for an
    attribute called xmlns)"""
    out = []
    for n in nodes:
        k = n[0]
        if k in ('t', 'c'):
            if out and out[-1][0] == 't':
                out[-1] = ('t', out[-1][1] + n[1])
            else:
                out.append(('t', n[1]))
        elif k == 'p' and (n[1], n[2]) == MARKER:
            continue
        elif k == 'e':
            at = []
            for (aq, ans, av) in sorted(n[3], key=lambda a: a[0]):
                at.append((aq, (ans if keep_ns and not (skip_xmlns_ns and aq == "xmlns") else ""), av))
            out.append(('e', n[1], n[2] if keep_ns else "", at, view(n[4], False, keep_ns, skip_xmlns_ns)))
        else:
            out.append(n)
    res = []
    for n in out:
        if n[0] == 't':
            if n[1] == "":
                continue
            if top_doc and all(c in WS for c in n[1]):
                continue
            if res and res[-1][0] == 't':
                res[-1] = ('t', res[-1][1] + n[1])
                continue
        res.append(n)
    return res


def has_kind(items, kinds, top_only=False):
    for it in items:
        if it[0] in kinds:
            return True
        if it[0] == 'e' and not top_only and has_kind(it[3], kinds):
            return True
    return False


def doc_shape_ok(items):
    """document mode: exactly the shapes every target accepts - at most one element, otherwise comments, processing
    instructions and white-space-only characters at the top"""
    n_el = 0
    for it in items:
        if it[0] == 'e':
            n_el += 1
        elif it[0] == 'c':
            if any(c not in WS for c in it[1]):
                return False
        elif it[0] not in ('m', 'p'):
            return False
    return n_el <= 1


def show(nodes, depth=0):
    out = []
    for n in nodes:
        if n[0] == 'e':
            out.append("%s<%s ns=%r %s>" % ("  " * depth, n[1], n[2], " ".join("%s{%s}=%r" % (a[0], a[1], a[2]) for a in n[3])))
            out += show(n[4], depth + 1)
        else:
            out.append("%s%s %r" % ("  " * depth, n[0], n[1:]))
    return out
