(* SerLegacyAgree.v — C04, part "legacy": the two XML serializers of the library agree.
   On every string XML can represent both succeed and a parser reads the same text from both outputs
   (the bytes may differ: where the section is opened again after a reference, the quotation mark
   and the apostrophe in text, supplementary characters as a pair or as one reference); on the error side: a character XML 1.0
   forbids and (with the repair 11-K-new-4) an unpaired surrogate make the legacy serializer fail
   wherever they stand behind a representable prefix, as FormatterToXMLUnicode does. *)
From Coq Require Import NArith List Bool Lia ZifyBool ZifyNat ZifyN.
Require Import XV.GenSerLegacy XV.SerDefs XV.XmlParseDefs XV.SerEscModel XV.SerLegacyDefs XV.SerLegacyModel
               XV.SerLegacyModel2 XV.SerLegacyCdata.
Import ListNotations.
Local Open Scope N_scope.

Theorem legacy_agrees_with_unicode_content : forall g s, lg_max_ok (lc_max g) = true ->
  wf_text (lc_v11 g) s = true -> small s = true ->
  exists a b, lg_write_content g s = Ok a /\ payload (write_content fam_utf16 (lc_v11 g) s) = Ok b /\
              parse_content (lc_v11 g) a = parse_content (lc_v11 g) b /\ parse_content (lc_v11 g) a = Some s.
Proof.
  intros g s Hm Hw Hs. destruct (legacy_content_roundtrip g s Hm Hw Hs) as (a & Ha & Pa).
  destruct (content_roundtrip (lc_v11 g) s Hw) as (b & Hb & Pb).
  exists a, b. repeat split; try assumption. congruence.
Qed.

Theorem legacy_agrees_with_unicode_attr : forall g s, lg_max_ok (lc_max g) = true ->
  wf_text (lc_v11 g) s = true -> small s = true ->
  exists a b, lg_write_attr g s = Ok a /\ payload (write_attr_string fam_utf16 (lc_v11 g) s) = Ok b /\
              parse_attr (lc_v11 g) a = parse_attr (lc_v11 g) b /\ parse_attr (lc_v11 g) a = Some s.
Proof.
  intros g s Hm Hw Hs. destruct (legacy_attr_roundtrip g s Hm Hw Hs) as (a & Ha & Pa).
  destruct (attr_roundtrip (lc_v11 g) s Hw) as (b & Hb & Pb).
  exists a, b. repeat split; try assumption. congruence.
Qed.

Theorem legacy_agrees_with_unicode_cdata : forall g s, lg_max_ok (lc_max g) = true ->
  wf_text (lc_v11 g) s = true -> small s = true -> lg_cd_guard g s = true ->
  exists a b, lg_write_cdata g s = Ok a /\ payload (write_cdata fam_utf16 (lc_v11 g) s) = Ok b /\
              parse_content (lc_v11 g) a = parse_content (lc_v11 g) b /\ parse_content (lc_v11 g) a = Some s.
Proof.
  intros g s Hm Hw Hs Hg. destruct (legacy_cdata_roundtrip_guarded g Hm s Hw Hs Hg) as (a & Ha & Pa).
  destruct (cdata_roundtrip (lc_v11 g) s Hw) as (b & Hb & Pb).
  exists a, b. repeat split; try assumption. congruence.
Qed.

(* the same against the transcoder-backed writer of FormatterToXMLUnicode with any representability
   predicate that accepts ASCII *)
Theorem legacy_agrees_with_unicode_any_encoding : forall g rep s, lg_max_ok (lc_max g) = true ->
  (forall c, c < 128 -> rep c = true) -> wf_text (lc_v11 g) s = true -> small s = true ->
  exists a b, lg_write_content g s = Ok a /\ payload (write_content (fam_other rep) (lc_v11 g) s) = Ok b /\
              parse_content (lc_v11 g) a = parse_content (lc_v11 g) b.
Proof.
  intros g rep s Hm Hr Hw Hs. destruct (legacy_content_roundtrip g s Hm Hw Hs) as (a & Ha & Pa).
  destruct (content_roundtrip_other rep Hr (lc_v11 g) s Hw Hs) as (b & Hb & Pb).
  exists a, b. repeat split; try assumption. congruence.
Qed.

(* ---- errors ----------------------------------------------------------------------------------- *)
Definition pair_out (g : lcfg) (hi lo : N) : list N :=
  if lc_max g <? hi then charref (decode_pair hi lo) else [hi; lo].

Lemma lg_loop_pair_out : forall g attr hi lo r, lg_max_ok (lc_max g) = true ->
  x_high hi = true -> x_low lo = true ->
  lg_loop g attr (hi :: lo :: r) = lg_lift (pair_out g hi lo) (lg_loop g attr r).
Proof.
  intros g attr hi lo r Hm Hh Hl. unfold lg_max_ok in Hm. unfold pair_out.
  assert (Hh' := Hh). assert (Hl' := Hl). unfold x_high, x_low, x_in in Hh', Hl'.
  assert (Ee : forall c, 55296 <= c -> lg_default_entity attr c = None).
  { intros c Hc. unfold lg_default_entity. destruct (c =? 10) eqn:E10; [lia|]. rewrite andb_false_r.
    apply assoc_none; [reflexivity|lia]. }
  cbn [lg_loop]. rewrite (special_sur g attr hi), (special_sur g attr lo) by lia.
  destruct ((lc_max g <? hi) || lc_surfix g) eqn:Esp.
  - unfold lg_default_escape. rewrite (Ee hi) by lia. rewrite lg_high_x, Hh, lg_low_x, Hl.
    rewrite (lg_decode_pair _ _ Hh Hl).
    destruct (lc_surfix g).
    + destruct (lc_max g <? hi) eqn:E1; [reflexivity|].
      unfold lg_put. rewrite E1. assert (E2 : (lc_max g <? lo) = false) by lia. rewrite E2. reflexivity.
    + cbn [orb] in Esp. rewrite orb_false_r in Esp. rewrite Esp. reflexivity.
  - assert (E1 : (lc_max g <? hi) = false) by lia. assert (Esf : lc_surfix g = false) by lia.
    assert (E2 : (lc_max g <? lo) = false) by lia.
    rewrite E2, Esf, E1. cbn [orb]. unfold lg_put. rewrite E1, E2.
    destruct (lg_loop g attr r); reflexivity.
Qed.

(* a representable prefix is written, then the loop goes on with the rest *)
Lemma lg_loop_prefix : forall g attr p, lg_max_ok (lc_max g) = true ->
  wf_text (lc_v11 g) p = true -> small p = true ->
  exists bs, forall t, lg_loop g attr (p ++ t) = lg_lift bs (lg_loop g attr t).
Proof.
  intros g attr p Hm Hw. revert p Hw. apply (wf_text_ind' (lc_v11 g)
    (fun p => small p = true -> exists bs, forall t, lg_loop g attr (p ++ t) = lg_lift bs (lg_loop g attr t))).
  - intros _. exists []. intros t. cbn [app]. destruct (lg_loop g attr t); reflexivity.
  - intros hi lo r Hh Hl Hw IH Hs. unfold small in Hs. cbn [forallb] in Hs.
    apply andb_true_iff in Hs. destruct Hs as [_ Hs]. apply andb_true_iff in Hs. destruct Hs as [_ Hs].
    destruct (IH Hs) as (bs & Hb). exists (pair_out g hi lo ++ bs). intros t. cbn [app].
    rewrite lg_loop_pair_out, Hb by assumption.
    destruct (lg_loop g attr t); cbn [lg_lift]; rewrite ?app_assoc; reflexivity.
  - intros c r Hh Hl Hx Hw IH Hs. unfold small in Hs. cbn [forallb] in Hs.
    apply andb_true_iff in Hs. destruct Hs as [Hc Hs]. destruct (IH Hs) as (bs & Hb).
    destruct (step_shape g attr c Hm Hx Hh Hl ltac:(lia)) as (e & He & _).
    exists (e ++ bs). intros t. cbn [app]. rewrite lg_loop_cons by (rewrite lg_high_x; exact Hh). rewrite He, Hb.
    destruct (lg_loop g attr t); cbn [lg_lift]; rewrite ?app_assoc; reflexivity.
Qed.

(* XML 1.0: a control character other than TAB, LF, CR *)
Definition ctl10 (c : N) : bool := (1 <=? c) && (c <? 32) && negb (c =? 9) && negb (c =? 10) && negb (c =? 13).

Definition chk_ctl (attr sf : bool) (maxc c : N) : bool :=
  if ctl10 c then
    match lg_step (mklcfg maxc false false sf) attr c with Thrown k => k =? err_forbidden | _ => false end
  else true.

Lemma sweep_ctl : forall attr sf,
  forallb (fun m => forallb (chk_ctl attr sf m) (upto 31)) maxes = true.
Proof. intros [|] [|]; vm_compute; reflexivity. Qed.

Lemma ctl_step : forall g attr c, lg_max_ok (lc_max g) = true -> lc_v11 g = false -> ctl10 c = true ->
  lg_step g attr c = Thrown err_forbidden.
Proof.
  intros [maxc v11 cf sf] attr c Hm Hv Hc. cbn [lc_max lc_v11] in *. subst v11. rewrite lg_step_cdfix.
  unfold lg_max_ok in Hm. assert (Hc' := Hc). unfold ctl10 in Hc'.
  assert (G : forall m, 127 <= m -> m <= 256 -> lg_step (mklcfg m false false sf) attr c = Thrown err_forbidden).
  { intros m H1 H2. pose proof (sweep_ctl attr sf) as S. rewrite forallb_forall in S.
    specialize (S m (maxes_in m H1 H2)). pose proof (sweep _ _ S c ltac:(lia)) as T. unfold chk_ctl in T.
    rewrite Hc in T. destruct (lg_step (mklcfg m false false sf) attr c) as [e| |k]; try discriminate.
    apply N.eqb_eq in T. subst k. reflexivity. }
  destruct (maxc <=? 256) eqn:E256.
  - apply G; lia.
  - rewrite lg_step_bigmax by lia. apply G; lia.
Qed.

Theorem legacy_forbidden_char_fails : forall g attr p c r, lg_max_ok (lc_max g) = true -> lc_v11 g = false ->
  wf_text false p = true -> small p = true -> ctl10 c = true ->
  lg_loop g attr (p ++ c :: r) = Thrown err_forbidden.
Proof.
  intros g attr p c r Hm Hv Hw Hs Hc. rewrite <- Hv in Hw.
  destruct (lg_loop_prefix g attr p Hm Hw Hs) as (bs & Hb). rewrite Hb.
  rewrite lg_loop_cons by (unfold ctl10 in Hc; unfold lg_high; lia).
  rewrite (ctl_step g attr c Hm Hv Hc). reflexivity.
Qed.

(* an unpaired surrogate behind a representable prefix *)
Definition lone_head (l : list N) : bool :=
  match l with
  | c :: r => x_low c || (x_high c && match r with n :: _ => negb (x_low n) | [] => true end)
  | [] => false
  end.

Theorem legacy_unpaired_surrogate_fails : forall g attr p t, lg_max_ok (lc_max g) = true ->
  lc_surfix g = true -> wf_text (lc_v11 g) p = true -> small p = true -> lone_head t = true ->
  lg_loop g attr (p ++ t) = Thrown err_surrogate.
Proof.
  intros g attr p t Hm Hf Hw Hs Ht. destruct (lg_loop_prefix g attr p Hm Hw Hs) as (bs & Hb). rewrite Hb.
  destruct t as [|c r]; [discriminate|]. cbn [lone_head] in Ht.
  assert (Hsur : 55296 <= c /\ c < 57344) by (unfold x_low, x_high, x_in in Ht; lia).
  assert (Ee : lg_default_entity attr c = None).
  { unfold lg_default_entity. destruct (c =? 10) eqn:E10; [lia|]. rewrite andb_false_r.
    apply assoc_none; [reflexivity|lia]. }
  cbn [lg_loop]. rewrite (special_sur g attr c) by lia. rewrite Hf, orb_true_r.
  unfold lg_default_escape. rewrite Ee, lg_high_x, lg_low_x, Hf.
  destruct (x_high c) eqn:Eh.
  - assert (El : x_low c = false) by (unfold x_low, x_high, x_in in *; lia). rewrite El in Ht. cbn [orb andb] in Ht.
    destruct r as [|n r]; [reflexivity|]. rewrite lg_low_x. destruct (x_low n); [discriminate|reflexivity].
  - cbn [andb orb] in Ht. rewrite orb_false_r in Ht. rewrite Ht. reflexivity.
Qed.

(* without the repair: a lone low surrogate is written as it is (UTF encodings) or as a reference to
   itself, and the output is not well-formed *)
Theorem legacy_unpaired_surrogate_fails_refuted :
  lg_write_content (mklcfg 65535 false false false) [97; 56832; 98] = Ok [97; 56832; 98] /\
  parse_content false [97; 56832; 98] = None /\
  lg_write_content (mklcfg 255 false false false) [97; 56832; 98] = Ok ([97] ++ charref 56832 ++ [98]) /\
  parse_content false ([97] ++ charref 56832 ++ [98]) = None.
Proof. vm_compute. repeat split; reflexivity. Qed.

(* without the repair a lone HIGH surrogate is still detected when the encoding does not have it *)
Theorem legacy_unpaired_high_fails_partial : forall g attr p c r, lg_max_ok (lc_max g) = true ->
  wf_text (lc_v11 g) p = true -> small p = true -> x_high c = true -> (lc_max g <? c) = true ->
  match r with n :: _ => x_low n = false | [] => True end ->
  lg_loop g attr (p ++ c :: r) = Thrown err_surrogate.
Proof.
  intros g attr p c r Hm Hw Hs Hh Hmax Hr. destruct (lg_loop_prefix g attr p Hm Hw Hs) as (bs & Hb). rewrite Hb.
  assert (Hsur : 55296 <= c /\ c < 57344) by (unfold x_high, x_in in Hh; lia).
  assert (Ee : lg_default_entity attr c = None).
  { unfold lg_default_entity. destruct (c =? 10) eqn:E10; [lia|]. rewrite andb_false_r.
    apply assoc_none; [reflexivity|lia]. }
  cbn [lg_loop]. rewrite (special_sur g attr c) by lia. rewrite Hmax. cbn [orb].
  unfold lg_default_escape. rewrite Ee, lg_high_x, Hh.
  destruct r as [|n r]; [reflexivity|]. rewrite lg_low_x, Hr. reflexivity.
Qed.

(* the CDATA finding K-new-7 (no repair): CR is written literally and read back as LF; with the repair
   the same string is read back as it is *)
Theorem legacy_cdata_roundtrip_refuted :
  lg_write_cdata (mklcfg 65535 false false false) [120; 13; 121] = Ok (lg_cdata_open ++ [120; 13; 121] ++ lg_cdata_close) /\
  parse_content false (lg_cdata_open ++ [120; 13; 121] ++ lg_cdata_close) = Some [120; 10; 121] /\
  wf_text false [120; 13; 121] = true /\
  lg_cd_guard (mklcfg 65535 false false false) [120; 13; 121] = false /\
  (exists bs, lg_write_cdata (mklcfg 65535 false true false) [120; 13; 121] = Ok bs /\
              parse_content false bs = Some [120; 13; 121]).
Proof.
  split; [vm_compute; reflexivity|]. split; [vm_compute; reflexivity|]. split; [reflexivity|]. split; [reflexivity|].
  exists (lg_cdata_open ++ [120] ++ lg_cdata_close ++ charref 13 ++ lg_cdata_open ++ [121] ++ lg_cdata_close).
  split; vm_compute; reflexivity.
Qed.

(* both serializers refuse a character XML 1.0 forbids *)
Theorem legacy_fails_iff_unicode_fails_forbidden : forall g p c r, lg_max_ok (lc_max g) = true -> lc_v11 g = false ->
  wf_text false p = true -> small p = true -> ctl10 c = true -> sur_paired (p ++ c :: r) = true ->
  lg_write_content g (p ++ c :: r) = Thrown err_forbidden /\
  payload (write_content fam_utf16 false (p ++ c :: r)) = Thrown err_forbidden.
Proof.
  intros g p c r Hm Hv Hw Hs Hc Hp. split.
  - apply legacy_forbidden_char_fails; assumption.
  - apply forbidden_char_fails; [exact Hp|]. exists c. split; [apply in_or_app; right; left; reflexivity|].
    unfold ctl10 in Hc. rewrite forbidden_iff_not_char_1_0' by lia. unfold xml_char, x_in. lia.
Qed.

(* ---- the CDATA round trip by variant ---------------------------------------------------------- *)
Theorem legacy_cdata_roundtrip_fixed : forall g s, lg_max_ok (lc_max g) = true -> lc_cdfix g = true ->
  wf_text (lc_v11 g) s = true -> small s = true ->
  exists bs, lg_write_cdata g s = Ok bs /\ parse_content (lc_v11 g) bs = Some s.
Proof.
  intros g s Hm Hc Hw Hs. apply legacy_cdata_roundtrip_guarded; try assumption.
  unfold lg_cd_guard. rewrite Hc. reflexivity.
Qed.

Theorem legacy_cdata_roundtrip_unfixed : forall g s, lg_max_ok (lc_max g) = true ->
  wf_text (lc_v11 g) s = true -> small s = true ->
  forallb (fun c => negb (lg_cd_esc (lc_v11 g) c)) s = true ->
  exists bs, lg_write_cdata g s = Ok bs /\ parse_content (lc_v11 g) bs = Some s.
Proof.
  intros g s Hm Hw Hs Hg. apply legacy_cdata_roundtrip_guarded; try assumption.
  unfold lg_cd_guard. rewrite Hg. apply orb_true_r.
Qed.

Theorem legacy_cdata_roundtrip_tree : forall maxc v11 s, lg_max_ok maxc = true ->
  wf_text v11 s = true -> small s = true -> lg_cd_guard (lg_this_tree maxc v11) s = true ->
  exists bs, lg_write_cdata (lg_this_tree maxc v11) s = Ok bs /\ parse_content v11 bs = Some s.
Proof. intros maxc v11 s Hm. exact (legacy_cdata_roundtrip_guarded (lg_this_tree maxc v11) Hm s). Qed.

Theorem legacy_content_roundtrip_tree : forall maxc v11 s, lg_max_ok maxc = true ->
  wf_text v11 s = true -> small s = true ->
  exists bs, lg_write_content (lg_this_tree maxc v11) s = Ok bs /\ parse_content v11 bs = Some s.
Proof. intros maxc v11. exact (legacy_content_roundtrip (lg_this_tree maxc v11)). Qed.
