(* XpcPrintDefs.v — C02 part "compiler": the printer (tree -> token queue), the canonical form of compiled trees
   (what precedence, associativity and the shape rules of the op map allow WITHOUT an explicit eOP_GROUP node), and the
   follow sets used by the round-trip theorem.  Definitions only.

   Parentheses are nodes of the op-map-shaped tree (EGroup), so the printer never invents one: an operand that would
   need parentheses is not canonical unless it is wrapped in EGroup.  `paren` inserts exactly the EGroup nodes that
   precedence and associativity require (and `strip` erases all of them). *)
From Coq Require Import List NArith Bool Arith.
Import ListNotations.
Require Import XV.XpAst XV.GenXpc XV.XpcLexDefs XV.XpcParseDefs.

Definition optoks (o : binop) : list tok :=
  match o with
  | BOr => [gen_xpc_kw_or] | BAnd => [gen_xpc_kw_and]
  | BNe => [[ch_excl]; [ch_equals]] | BEq => [[ch_equals]]
  | BLte => [[ch_lt]; [ch_equals]] | BLt => [[ch_lt]] | BGte => [[ch_gt]; [ch_equals]] | BGt => [[ch_gt]]
  | BPlus => [[ch_plus]] | BMinus => [[ch_hyphen]]
  | BMult => [[ch_asterisk]] | BDiv => [gen_xpc_kw_div] | BMod => [gen_xpc_kw_mod]
  end.

Definition as_bin (e : expr) : option (binop * expr * expr) :=
  match e with
  | EOr a b => Some (BOr, a, b) | EAnd a b => Some (BAnd, a, b) | ENe a b => Some (BNe, a, b) | EEq a b => Some (BEq, a, b)
  | ELte a b => Some (BLte, a, b) | ELt a b => Some (BLt, a, b) | EGte a b => Some (BGte, a, b) | EGt a b => Some (BGt, a, b)
  | EPlus a b => Some (BPlus, a, b) | EMinus a b => Some (BMinus, a, b)
  | EMult a b => Some (BMult, a, b) | EDiv a b => Some (BDiv, a, b) | EMod a b => Some (BMod, a, b)
  | _ => None
  end.

(* 0 = UnaryExpr level or tighter; 1 .. 6 as op_level *)
Definition elvl (e : expr) : nat :=
  match as_bin e with Some (o, _, _) => op_level o | None => 0 end.

(* kinds below the binary operators *)
Definition is_neg (e : expr) : bool := match e with ENeg _ => true | _ => false end.
Definition is_union (e : expr) : bool := match e with EUnion _ => true | _ => false end.
Definition is_path (e : expr) : bool := match e with EPath _ _ _ => true | _ => false end.
(* a PrimaryExpr that is not a location path: may be the head of a filter expression *)
Definition is_prim (e : expr) : bool :=
  match e with ELiteral _ | EVar _ _ | EGroup _ | ENumLit _ | EFunc _ _ | EExtFunc _ _ _ => true | _ => false end.
(* what PathExpr() can return: a location path, a filter path, or a primary expression *)
Definition is_pathlevel (e : expr) : bool := (is_path e || is_prim e)%bool.

Definition axis_name (a : axis) : str :=
  match find (fun r => match axis_of_op (snd r) with
                       | Some b => match a, b with
                                   | AxAncestor, AxAncestor | AxAncestorOrSelf, AxAncestorOrSelf | AxAttribute, AxAttribute
                                   | AxChild, AxChild | AxDescendant, AxDescendant | AxDescendantOrSelf, AxDescendantOrSelf
                                   | AxFollowing, AxFollowing | AxFollowingSibling, AxFollowingSibling | AxParent, AxParent
                                   | AxPreceding, AxPreceding | AxPrecedingSibling, AxPrecedingSibling | AxSelf, AxSelf
                                   | AxNamespace, AxNamespace => true
                                   | _, _ => false
                                   end
                       | None => false
                       end) gen_xpc_axis_table with
  | Some r => fst r
  | None => []
  end.
Definition ntype_name (k : ntype) : str :=
  match find (fun r => match ntype_of_op (snd r), k with
                       | Some NtComment, NtComment | Some NtText, NtText | Some NtPi, NtPi | Some NtNode, NtNode => true
                       | _, _ => false
                       end) gen_xpc_nodetype_table with
  | Some r => fst r
  | None => []
  end.

Definition has (c : N) (s : str) : bool := existsb (N.eqb c) s.
Definition quote_tok (s : str) : tok :=
  let q := if has ch_quote s then ch_apos else ch_quote in q :: s ++ [q].

Definition lp : tok := [ch_lparen].
Definition rp : tok := [ch_rparen].

Definition pr_ntest (t : ntest) : list tok :=
  match t with
  | TComment => [ntype_name NtComment; lp; rp]
  | TText => [ntype_name NtText; lp; rp]
  | TNode => [ntype_name NtNode; lp; rp]
  | TPi None => [ntype_name NtPi; lp; rp]
  | TPi (Some s) => [ntype_name NtPi; lp; quote_tok s; rp]
  | TName _ None => [[ch_asterisk]]
  | TName _ (Some n) => [n]
  | TRoot => []
  end.

Fixpoint pr (e : expr) : list tok :=
  let prs := fix prs (l : list pred) : list tok :=
    match l with [] => [] | (_, p) :: r => [ch_lbrack] :: pr p ++ [ch_rbrack] :: prs r end in
  let args := fix args (l : list expr) : list tok :=
    match l with [] => [] | [x] => pr x | x :: r => pr x ++ [ch_comma] :: args r end in
  let steps := fix steps (l : list step) : list tok :=
    match l with
    | [] => []
    | (a, t, ps) :: r =>
        axis_name a :: gen_xpc_kw_axis_sep :: pr_ntest t ++ prs ps ++ match r with [] => [] | _ => [ch_solidus] :: steps r end
    end in
  match e with
  | EOr a b => pr a ++ optoks BOr ++ pr b | EAnd a b => pr a ++ optoks BAnd ++ pr b
  | ENe a b => pr a ++ optoks BNe ++ pr b | EEq a b => pr a ++ optoks BEq ++ pr b
  | ELte a b => pr a ++ optoks BLte ++ pr b | ELt a b => pr a ++ optoks BLt ++ pr b
  | EGte a b => pr a ++ optoks BGte ++ pr b | EGt a b => pr a ++ optoks BGt ++ pr b
  | EPlus a b => pr a ++ optoks BPlus ++ pr b | EMinus a b => pr a ++ optoks BMinus ++ pr b
  | EMult a b => pr a ++ optoks BMult ++ pr b | EDiv a b => pr a ++ optoks BDiv ++ pr b
  | EMod a b => pr a ++ optoks BMod ++ pr b
  | ENeg a => [ch_hyphen] :: pr a
  | EUnion l => (fix un (l : list expr) : list tok :=
                   match l with [] => [] | [x] => pr x | x :: r => pr x ++ [ch_bar] :: un r end) l
  | ELiteral s => [quote_tok s]
  | EVar _ l => [[ch_dollar]; l]
  | EGroup a => lp :: pr a ++ [rp]
  | ENumLit t => [t]
  | EFunc name l => name :: lp :: args l ++ [rp]
  | EExtFunc _ name l => name :: lp :: args l ++ [rp]
  | EPath h hp st =>
      match h with
      | Some x => pr x ++ prs hp ++ match st with [] => [] | _ => [ch_solidus] :: steps st end
      | None =>
          match st with
          | (AxRoot, _, _) :: r => [ch_solidus] :: steps r
          | _ => steps st
          end
      end
  end.

(* nesting depth a tree needs INSIDE an Expr() call: '-' and every re-entry of Expr() cost one level *)
Fixpoint idepth (e : expr) : nat :=
  let prs := fix prs (l : list pred) : nat := match l with [] => 0 | (_, p) :: r => Nat.max (S (idepth p)) (prs r) end in
  let lst := fix lst (l : list expr) : nat := match l with [] => 0 | x :: r => Nat.max (idepth x) (lst r) end in
  let args := fix args (l : list expr) : nat := match l with [] => 0 | x :: r => Nat.max (S (idepth x)) (args r) end in
  match e with
  | EOr a b | EAnd a b | ENe a b | EEq a b | ELte a b | ELt a b | EGte a b | EGt a b
  | EPlus a b | EMinus a b | EMult a b | EDiv a b | EMod a b => Nat.max (idepth a) (idepth b)
  | ENeg a => S (idepth a)
  | EGroup a => S (idepth a)
  | EUnion l => lst l
  | ELiteral _ | EVar _ _ | ENumLit _ => 0
  | EFunc _ l | EExtFunc _ _ l => args l
  | EPath h hp st =>
      Nat.max (match h with Some x => idepth x | None => 0 end)
        (Nat.max (prs hp)
           ((fix ss (l : list step) : nat := match l with [] => 0 | (_, _, ps) :: r => Nat.max (prs ps) (ss r) end) st))
  end.

(* the printed tokens end with the '/' of a root-only location path *)
Fixpoint ends_root (e : expr) : bool :=
  match e with
  | EOr _ b | EAnd _ b | ENe _ b | EEq _ b | ELte _ b | ELt _ b | EGte _ b | EGt _ b
  | EPlus _ b | EMinus _ b | EMult _ b | EDiv _ b | EMod _ b => ends_root b
  | ENeg a => ends_root a
  | EUnion l => (fix lastr (l : list expr) : bool := match l with [] => false | [x] => ends_root x | _ :: r => lastr r end) l
  | EPath None _ [(AxRoot, _, _)] => true
  | _ => false
  end.
(* operators whose first token is NOT in LocationPath()'s list of tokens that may follow a lone '/' *)
Definition name_like_op (o : binop) : bool :=
  match o with BOr | BAnd | BMult | BDiv | BMod => true | _ => false end.

Definition num_tok_ok (t : tok) : bool :=
  match t with
  | c :: r => (is_ascii_digit c || (N.eqb c ch_fullstop && match r with c1 :: _ => is_ascii_digit c1 | [] => false end))%bool
  | [] => false
  end.
Definition first_name_start (t : tok) : bool := match t with c :: _ => is_name_start c | [] => false end.

Definition ntest_ok (t : ntest) : bool :=
  match t with
  | TComment | TText | TNode | TPi None => true
  | TPi (Some s) => negb (has ch_quote s && has ch_apos s)
  | TName NsEmpty None => true
  | TName NsEmpty (Some n) => valid_ncname n
  | TName _ _ => false               (* prefixed tests: outside the round-trip theorem (they need a prefix for the URI) *)
  | TRoot => false
  end.
Definition axis_ok (a : axis) : bool := match a with AxRoot => false | _ => true end.

Definition func_ok (name : str) (n : nat) : bool :=
  (first_name_start name &&
   match func_kind name with
   | FkArity lo hi => Nat.leb lo n && Nat.leb n hi
   | FkGeneric => true
   | _ => false
   end)%bool.

(* canonical form: what the compiler can produce for prefix-free expressions *)
Fixpoint canon (e : expr) : bool :=
  let prs := fix prs (l : list pred) : bool :=
    match l with [] => true | (f, p) :: r => (Bool.eqb f (uses_pos p) && canon p && prs r)%bool end in
  let lst := fix lst (l : list expr) : bool := match l with [] => true | x :: r => (canon x && lst r)%bool end in
  let steps := fix steps (l : list step) : bool :=
    match l with [] => true | (a, t, ps) :: r => (axis_ok a && ntest_ok t && prs ps && steps r)%bool end in
  match e with
  | EOr a b | EAnd a b =>
      (* right-nested: the LEFT operand must bind tighter *)
      (canon a && canon b && Nat.ltb (elvl a) (elvl e) && Nat.leb (elvl b) (elvl e) && negb (ends_root a))%bool
  | ENe a b | EEq a b | ELte a b | ELt a b | EGte a b | EGt a b | EPlus a b | EMinus a b =>
      (* left-nested: the RIGHT operand must bind tighter *)
      (canon a && canon b && Nat.leb (elvl a) (elvl e) && Nat.ltb (elvl b) (elvl e))%bool
  | EMult a b | EDiv a b | EMod a b =>
      (canon a && canon b && Nat.leb (elvl a) (elvl e) && Nat.ltb (elvl b) (elvl e) && negb (ends_root a))%bool
  | ENeg a => (canon a && Nat.eqb (elvl a) 0)%bool
  | EUnion l =>
      (lst l && Nat.leb 2 (length l) && forallb is_pathlevel l)%bool
  | ELiteral s => negb (has ch_quote s && has ch_apos s)
  | EVar u l => (isnil u && valid_ncname l)%bool
  | EGroup a => canon a
  | ENumLit t => num_tok_ok t
  | EFunc name l => (lst l && func_ok name (length l))%bool
  | EExtFunc _ _ _ => false          (* prefixed names: outside the round-trip theorem *)
  | EPath None hp st =>
      (isnil hp &&
       match st with
       | [] => false
       | (AxRoot, TRoot, []) :: r => steps r
       | _ => steps st
       end)%bool
  | EPath (Some x) hp st =>
      (is_prim x && canon x && prs hp && steps st && negb (isnil hp && isnil st))%bool
  end.

(* ---- follow sets ------------------------------------------------------------------------------- *)
Definition closer (t : tok) : bool :=
  (str_eqb t [ch_rparen] || str_eqb t [ch_rbrack] || str_eqb t [ch_comma])%bool.
(* operator tokens and the level of the function that consumes them (0: the '|' of UnionExpr) *)
Definition optab : list (tok * nat) :=
  [(gen_xpc_kw_or, 6); (gen_xpc_kw_and, 5); ([ch_equals], 4); ([ch_excl], 4); ([ch_lt], 3); ([ch_gt], 3);
   ([ch_plus], 2); ([ch_hyphen], 2); ([ch_asterisk], 1); (gen_xpc_kw_div, 1); (gen_xpc_kw_mod, 1); ([ch_bar], 0)].
Fixpoint opcls (tb : list (tok * nat)) (t : tok) : option nat :=
  match tb with [] => None | (k, v) :: r => if str_eqb t k then Some v else opcls r t end.
(* after a level-l construct: end of queue, a closer, or an operator of a looser level *)
Definition stopb (l : nat) (rest : list tok) : bool :=
  match rest with
  | [] => true
  | t :: _ => (closer t || match opcls optab t with Some k => Nat.ltb l k | None => false end)%bool
  end.
(* after a PathExpr: additionally '|' *)
Definition stop_path (rest : list tok) : bool :=
  match rest with
  | [] => true
  | t :: _ => (closer t || match opcls optab t with Some _ => true | None => false end)%bool
  end.
(* after Expr(): end of queue or a closer *)
Definition follow (rest : list tok) : bool :=
  match rest with [] => true | t :: _ => closer t end.
Definition root_ok (rest : list tok) : bool := (isnil rest || root_alone rest)%bool.

(* ---- inserting / erasing parentheses ----------------------------------------------------------- *)
Fixpoint strip (e : expr) : expr :=
  let prs := fix prs (l : list pred) : list pred := match l with [] => [] | (f, p) :: r => (f, strip p) :: prs r end in
  match e with
  | EOr a b => EOr (strip a) (strip b) | EAnd a b => EAnd (strip a) (strip b)
  | ENe a b => ENe (strip a) (strip b) | EEq a b => EEq (strip a) (strip b)
  | ELte a b => ELte (strip a) (strip b) | ELt a b => ELt (strip a) (strip b)
  | EGte a b => EGte (strip a) (strip b) | EGt a b => EGt (strip a) (strip b)
  | EPlus a b => EPlus (strip a) (strip b) | EMinus a b => EMinus (strip a) (strip b)
  | EMult a b => EMult (strip a) (strip b) | EDiv a b => EDiv (strip a) (strip b) | EMod a b => EMod (strip a) (strip b)
  | ENeg a => ENeg (strip a)
  | EGroup a => strip a
  | EUnion l => EUnion (map strip l)
  | EFunc n l => EFunc n (map strip l)
  | EExtFunc u n l => EExtFunc u n (map strip l)
  | ELiteral _ | EVar _ _ | ENumLit _ => e
  | EPath h hp st =>
      EPath (match h with Some x => Some (strip x) | None => None end) (prs hp)
            (map (fun s : step => match s with (a, t, ps) => (a, t, prs ps) end) st)
  end.
