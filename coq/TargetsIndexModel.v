(* C05 part "targets": the document-order indexes the source-tree target hands out are the pre-order numbering of
   the tree it builds - for every event sequence (well nested or not), every chunking. *)
From Coq Require Import List NArith Bool Lia Sorted.
Import ListNotations.
Require Import XV.GenTargets XV.TargetsDefs.

Lemma nseq_app : forall n k a, nseq a (n + k) = nseq a n ++ nseq (a + N.of_nat n) k.
Proof.
  induction n as [|n IH]; intros k a.
  - cbn. rewrite N.add_0_r. reflexivity.
  - cbn [Nat.add nseq app]. rewrite IH. do 3 f_equal. lia.
Qed.

Lemma nseq_sorted : forall n a, StronglySorted N.lt (nseq a n).
Proof.
  induction n as [|n IH]; intro a; [constructor|]. cbn [nseq]. constructor; [apply IH|].
  assert (H : forall k b, (a < b)%N -> Forall (N.lt a) (nseq b k)).
  { induction k as [|k IHk]; intros b Hb; [constructor|]. cbn [nseq]. constructor; [exact Hb|]. apply IHk. lia. }
  apply H. lia.
Qed.

(* the pre-order index sequence of the forest a zipper stands for *)
Fixpoint zpre (k : list ixframe) (c : list ixn) : list N :=
  match k with
  | [] => flat_map ix_pre (rev c)
  | (i, na, pc) :: r => zpre r pc ++ (i :: nseq (i + 1) na) ++ flat_map ix_pre (rev c)
  end.

Lemma zpre_cons : forall k n c, zpre k (n :: c) = zpre k c ++ ix_pre n.
Proof.
  intros k n c. destruct k as [|[[i na] pc] r]; cbn [zpre rev]; rewrite flat_map_app; cbn [flat_map]; rewrite app_nil_r.
  - reflexivity.
  - rewrite <- !app_assoc. reflexivity.
Qed.

Lemma zpre_unwind : forall k c, flat_map ix_pre (rev (fold_left ix_close k c)) = zpre k c.
Proof.
  induction k as [|[[i na] pc] r IH]; intro c; [reflexivity|].
  cbn [fold_left ix_close]. rewrite IH, zpre_cons. cbn [zpre ix_pre]. reflexivity.
Qed.

Section Start.
Variable a0 : N.

Definition ix_inv (x : ixst) : Prop :=
  exists n, zpre (ictx x) (icur x) = nseq a0 n /\ nxt x = (a0 + N.of_nat n)%N.

Lemma inv0 : ix_inv (ix0 a0).
Proof. exists 0%nat. split; [reflexivity|]. cbn. lia. Qed.

Lemma inv_leaf : forall x, ix_inv x -> ix_inv (ix_leaf x).
Proof.
  intros x [n [H1 H2]]. exists (n + 1)%nat. unfold ix_leaf. cbn [icur ictx nxt]. split.
  - rewrite zpre_cons, H1, nseq_app. cbn [ix_pre nseq flat_map app]. rewrite H2. reflexivity.
  - lia.
Qed.

Lemma inv_flush_if : forall f b x, ix_inv x -> ix_inv (ix_flush_if f b x).
Proof.
  intros f b x H. unfold ix_flush_if, ix_flush. destruct f; [|exact H]. destruct (is_empty (buf b)); [exact H|apply inv_leaf; exact H].
Qed.

Lemma inv_pop : forall x, ix_inv x -> ix_inv (ix_pop x).
Proof.
  intros x [n [H1 H2]]. unfold ix_pop. destruct (ictx x) as [|[[i na] pc] r] eqn:E.
  - exists n. rewrite E. split; assumption.
  - exists n. cbn [icur ictx nxt ix_close]. split; [|exact H2].
    rewrite zpre_cons. cbn [ix_pre]. cbn [zpre] in H1. rewrite <- H1. reflexivity.
Qed.

Lemma inv_push : forall na x, ix_inv x ->
  ix_inv (mkIx [] ((nxt x, na, icur x) :: ictx x) (nxt x + 1 + N.of_nat na)).
Proof.
  intros na x [n [H1 H2]]. exists (n + (1 + na))%nat. cbn [icur ictx nxt zpre rev flat_map]. split.
  - rewrite app_nil_r, H1, nseq_app, H2. reflexivity.
  - lia.
Qed.

Lemma inv_reset : forall x, ix_inv x -> ix_inv (mkIx (fold_left ix_close (ictx x) (icur x)) [] (nxt x)).
Proof.
  intros x [n [H1 H2]]. exists n. cbn [icur ictx nxt zpre]. split; [|exact H2]. rewrite zpre_unwind. exact H1.
Qed.

(* the one place where creation and linking are apart: the element must be created after the flush *)
Lemma inv_start : forall na b x, ix_inv x -> ix_inv (ix_start na b x).
Proof.
  intros na b x H. unfold ix_start, s_element_created_after_flush. apply inv_push. apply inv_flush_if. exact H.
Qed.

Lemma inv_step : forall m e b x, ix_inv x -> ix_inv (ix_step m e b x).
Proof.
  intros m e b x H. destruct e; cbn [ix_step].
  - apply inv_reset. apply inv_flush_if. exact H.
  - apply inv_flush_if. exact H.
  - apply inv_start. exact H.
  - apply inv_pop. apply inv_flush_if. exact H.
  - apply inv_flush_if. exact H.
  - apply inv_leaf. apply inv_flush_if. exact H.
  - apply inv_flush_if. exact H.
  - apply inv_leaf. apply inv_flush_if. exact H.
  - apply inv_leaf. apply inv_flush_if. exact H.
  - destruct m, (ctx b); try exact H; apply inv_leaf; apply inv_flush_if; exact H.
  - apply inv_flush_if. exact H.
Qed.

Lemma inv_run : forall m res evs b x b' x', ix_inv x -> ix_run m res evs b x = Some (b', x') -> ix_inv x'.
Proof.
  intros m res evs. induction evs as [|e r IH]; intros b x b' x' H E.
  - inversion E; subst. exact H.
  - cbn [ix_run] in E. destruct (s_step m res e b) as [b1|]; [|discriminate]. eapply IH; [|exact E]. apply inv_step. exact H.
Qed.

Theorem indexes_preorder_a : forall m res evs t ix,
  run_indexes m res a0 evs = Some (t, ix) ->
  exists n, flat_map ix_pre ix = nseq a0 n.
Proof.
  intros m res evs t ix H. unfold run_indexes in H.
  destruct (ix_run m res evs st0 (ix0 a0)) as [[b x]|] eqn:E; [|discriminate]. inversion H; subst.
  destruct (inv_run _ _ _ _ _ _ _ inv0 E) as [n [H1 _]]. exists n. unfold ix_result. rewrite zpre_unwind. exact H1.
Qed.
End Start.

Theorem indexes_preorder : forall m res a evs t ix,
  run_indexes m res a evs = Some (t, ix) ->
  exists n, flat_map ix_pre ix = nseq a n.
Proof. intros m res a evs t ix H. exact (indexes_preorder_a a m res evs t ix H). Qed.

Theorem indexes_increasing : forall m res a evs t ix,
  run_indexes m res a evs = Some (t, ix) -> StronglySorted N.lt (flat_map ix_pre ix).
Proof.
  intros m res a evs t ix H. destruct (indexes_preorder _ _ _ _ _ _ H) as [n E]. rewrite E. apply nseq_sorted.
Qed.

(* the index layer follows the builder: same machine, the tree component is the one of run_target *)
Lemma ix_run_base : forall m res evs b x,
  match ix_run m res evs b x with Some (b', _) => run_from STREE m res evs b = Some b' | None => run_from STREE m res evs b = None end.
Proof.
  intros m res evs. induction evs as [|e r IH]; intros b x; [reflexivity|].
  cbn [ix_run run_from step]. destruct (s_step m res e b) as [b1|]; [|reflexivity]. cbn [bind]. apply IH.
Qed.

Theorem indexes_tree_is_target_tree : forall m res a evs t ix,
  run_indexes m res a evs = Some (t, ix) -> run_target STREE m res evs = Some t.
Proof.
  intros m res a evs t ix H. unfold run_indexes in H. unfold run_target.
  pose proof (ix_run_base m res evs st0 (ix0 a)) as B. destruct (ix_run m res evs st0 (ix0 a)) as [[b x]|]; [|discriminate].
  inversion H; subst. rewrite B. reflexivity.
Qed.

Theorem indexes_all : forall m res a evs t ix,
  run_indexes m res a evs = Some (t, ix) ->
  run_target STREE m res evs = Some t /\
  (exists n, flat_map ix_pre ix = nseq a n) /\
  StronglySorted N.lt (flat_map ix_pre ix).
Proof.
  intros m res a evs t ix H. split; [exact (indexes_tree_is_target_tree _ _ _ _ _ _ H)|].
  split; [exact (indexes_preorder _ _ _ _ _ _ H)|exact (indexes_increasing _ _ _ _ _ _ H)].
Qed.

(* <a k="x">x<b/>y</a> on a fresh document: a = 2, its attribute 3, the text 4, b 5, the text 6 *)
Definition w_ix : list item := [IElem [97%N] [([107%N], [120%N])] [IChars [120%N]; IElem [98%N] [] []; IChars [121%N]]].

Lemma ex_ix :
  match run_indexes MDoc None st_first_index (script w_ix) with Some (_, ix) => Some ix | None => None end =
  Some [IxN 2 1 [IxN 4 0 []; IxN 5 0 []; IxN 6 0 []]].
Proof. reflexivity. Qed.
