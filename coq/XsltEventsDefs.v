(* C01, mechanism (a): the pending-start-tag event machine of XSLTEngineImpl
   (src/xalanc/XSLT/XSLTEngineImpl.cpp, XSLTEngineImpl.hpp), modelled as coded, the instruction
   layer's guard (ElemAttribute.cpp, cloneToResultTree ATTRIBUTE_NODE), the formatter-side tree
   builder, and the independent specification: direct construction of the result tree from an
   instruction-generated item tree (XSLT 1.0 sections 7.1.3, 7.2, 7.6.1).

   Outside the model: names starting with "xmlns" (the namespace special cases of addResultAttribute,
   lines 1257-1342, belong to C14), the HTML switch and cdata-section-elements in flushPending,
   trace listeners, the pending startDocument (the document is taken as started).

   Definitions only (extracted by ExtractXslt.v). Strings are lists of N (opaque code units). *)
From Coq Require Import List NArith Bool.
Import ListNotations.

Definition str := list N.

Fixpoint str_eqb (a b : str) : bool :=
  match a, b with
  | [], [] => true
  | x :: a', y :: b' => N.eqb x y && str_eqb a' b'
  | _, _ => false
  end.

Definition nonempty (s : str) : bool := match s with [] => false | _ => true end.

Definition attrs := list (str * str).

(* AttributeListImpl::addAttribute (PlatformSupport/AttributeListImpl.cpp:324): the value of an
   existing entry with the same qualified name is replaced in place, otherwise the entry is appended *)
Fixpoint add_attr (n v : str) (l : attrs) : attrs :=
  match l with
  | [] => [(n, v)]
  | (n', v') :: r => if str_eqb n' n then (n', v) :: r else (n', v') :: add_attr n v r
  end.

(* what reaches the FormatterListener *)
Inductive sax :=
| SaxStart (n : str) (a : attrs)
| SaxEnd (n : str)
| SaxChars (s : str)
| SaxComment (s : str)
| SaxPI (t d : str).

(* engine state: pending element name ("" = none, as XSLTEngineImpl::isElementPending, hpp:1177),
   pending attribute list, events delivered so far (most recent first) *)
Record est := mkE { pname : str; pattrs : attrs; out : list sax }.

Definition e_init : est := mkE [] [] [].

Definition pending (s : est) : bool := nonempty (pname s).

(* flushPending, cpp:1485-1519 *)
Definition eng_flush (s : est) : est :=
  if pending s then mkE [] [] (SaxStart (pname s) (pattrs s) :: out s) else s.

(* startElement(name), cpp:1525-1537: the pending attribute list is NOT cleared here *)
Definition eng_start (n : str) (s : est) : est :=
  let s' := eng_flush s in mkE n (pattrs s') (out s').

(* addResultAttribute(aname, value), hpp:556-600 -> cpp:1246: unconditional add to the pending list *)
Definition eng_add_attr (n v : str) (s : est) : est :=
  mkE (pname s) (add_attr n v (pattrs s)) (out s).

(* characters, cpp:1621/1656/1694: doFlushPending() whatever the length *)
Definition eng_chars (t : str) (s : est) : est :=
  let s' := eng_flush s in mkE (pname s') (pattrs s') (SaxChars t :: out s').

Definition eng_comment (t : str) (s : est) : est :=
  let s' := eng_flush s in mkE (pname s') (pattrs s') (SaxComment t :: out s').

Definition eng_pi (t d : str) (s : est) : est :=
  let s' := eng_flush s in mkE (pname s') (pattrs s') (SaxPI t d :: out s').

(* endElement, cpp:1576-1603 *)
Definition eng_end (n : str) (s : est) : est :=
  let s' := eng_flush s in mkE (pname s') (pattrs s') (SaxEnd n :: out s').

(* endDocument flushes *)
Definition eng_finish (s : est) : est := eng_flush s.

(* instruction layer: what stylesheet instructions issue *)
Inductive iop :=
| IStart (n : str)               (* literal result element, xsl:element, xsl:copy / copy-of of an element *)
| IAttr (n v : str)              (* xsl:attribute: ElemAttribute.cpp:294/389 adds only if isElementPending() *)
| ICopyAttr (n v : str)          (* cloneToResultTree ATTRIBUTE_NODE, cpp:2207: same guard *)
| IRawAttr (n v : str)           (* the engine call without the guard: not issued by the unchanged instruction set *)
| IChars (s : str)
| IComment (s : str)
| IPI (t d : str)
| IEnd (n : str).

Definition step (o : iop) (s : est) : est :=
  match o with
  | IStart n => eng_start n s
  | IAttr n v | ICopyAttr n v => if pending s then eng_add_attr n v s else s
  | IRawAttr n v => eng_add_attr n v s
  | IChars t => eng_chars t s
  | IComment t => eng_comment t s
  | IPI t d => eng_pi t d s
  | IEnd n => eng_end n s
  end.

Definition run_ops (ops : list iop) (s : est) : est := fold_left (fun s o => step o s) ops s.

Definition events_of (ops : list iop) : list sax := rev (out (eng_finish (run_ops ops e_init))).

(* formatter side: a SAX stream parsed into trees *)
Inductive rnode :=
| RElem (n : str) (a : attrs) (ch : list rnode)
| RText (s : str)
| RComment (s : str)
| RPI (t d : str).

Definition frame := (str * attrs * list rnode)%type.   (* name, attributes, the parent's children so far (reversed) *)

Fixpoint build_go (evs : list sax) (stk : list frame) (cur : list rnode) : option (list rnode) :=
  match evs with
  | [] => match stk with [] => Some (rev cur) | _ => None end
  | SaxStart n a :: r => build_go r ((n, a, cur) :: stk) []
  | SaxEnd n :: r =>
      match stk with
      | (n', a, pcur) :: stk' => if str_eqb n' n then build_go r stk' (RElem n' a (rev cur) :: pcur) else None
      | [] => None
      end
  | SaxChars t :: r => build_go r stk (RText t :: cur)
  | SaxComment t :: r => build_go r stk (RComment t :: cur)
  | SaxPI t d :: r => build_go r stk (RPI t d :: cur)
  end.

Definition build (evs : list sax) : option (list rnode) := build_go evs [] [].

Definition machine_tree (ops : list iop) : option (list rnode) := build (events_of ops).

(* canonical form (XSLT 1.0 7.2: adjacent text nodes merge; 7.6.1: an empty string makes no node) *)
Fixpoint merge_text (l : list rnode) : list rnode :=
  match l with
  | [] => []
  | RText s :: r =>
      match s with
      | [] => merge_text r
      | _ => match merge_text r with
             | RText s' :: r' => RText (s ++ s') :: r'
             | r' => RText s :: r'
             end
      end
  | x :: r => x :: merge_text r
  end.

Fixpoint canon (n : rnode) : rnode :=
  match n with
  | RElem nm a ch => RElem nm a (merge_text (map canon ch))
  | x => x
  end.

Definition canon_list (l : list rnode) : list rnode := merge_text (map canon l).

(* ---- the independent side: instruction-generated item trees and direct construction ---- *)
Inductive item :=
| GElem (n : str) (pre : attrs) (body : list item)   (* element with its own literal attributes and a body *)
| GAttr (n v : str)
| GCopyAttr (n v : str)
| GText (s : str)
| GComment (s : str)
| GPI (t d : str).

Fixpoint ops_of_item (i : item) : list iop :=
  match i with
  | GElem n pre body =>
      IStart n :: map (fun p => IAttr (fst p) (snd p)) pre ++ flat_map ops_of_item body ++ [IEnd n]
  | GAttr n v => [IAttr n v]
  | GCopyAttr n v => [ICopyAttr n v]
  | GText s => [IChars s]
  | GComment s => [IComment s]
  | GPI t d => [IPI t d]
  end.

Definition ops_of (l : list item) : list iop := flat_map ops_of_item l.

(* direct construction. Accumulator: (start tag still open?, attributes so far, children so far reversed).
   [strict] = true: the Recommendation's reading (an empty string is no child, 7.6.1);
   [strict] = false: the library's reading (any characters event closes the start tag). *)
Definition acc := (bool * attrs * list rnode)%type.

Fixpoint spec_item (strict : bool) (i : item) (st : acc) : acc :=
  match st with
  | (o, at_, ch) =>
    match i with
    | GElem n pre body =>
        match fold_left (fun a j => spec_item strict j a) body
                        (true, fold_left (fun a p => add_attr (fst p) (snd p) a) pre [], []) with
        | (_, at', ch') => (false, at_, RElem n at' (rev ch') :: ch)
        end
    | GAttr n v | GCopyAttr n v => if o then (o, add_attr n v at_, ch) else st
    | GText s => if strict && negb (nonempty s) then st else (false, at_, RText s :: ch)
    | GComment s => (false, at_, RComment s :: ch)
    | GPI t d => (false, at_, RPI t d :: ch)
    end
  end.

Definition spec_fold (strict : bool) (l : list item) (st : acc) : acc :=
  fold_left (fun a j => spec_item strict j a) l st.

(* at top level there is no element: attributes are ignored (7.1.3) *)
Definition spec_tree (strict : bool) (l : list item) : list rnode :=
  match spec_fold strict l (false, [], []) with (_, _, ch) => rev ch end.

(* guards *)
Fixpoint names_ok (i : item) : bool :=
  match i with
  | GElem n _ body => nonempty n && forallb names_ok body
  | _ => true
  end.

Fixpoint no_empty_text (i : item) : bool :=
  match i with
  | GElem _ _ body => forallb no_empty_text body
  | GText s => nonempty s
  | _ => true
  end.

Definition no_raw (o : iop) : bool := match o with IRawAttr _ _ => false | _ => true end.

(* state invariant kept by the guarded instruction set *)
Definition inv (s : est) : Prop := pname s = [] -> pattrs s = [].

(* duplicate attributes, defined independently of add_attr: names in order of first occurrence, each
   with the value of its last occurrence *)
Fixpoint last_val (n : str) (l : attrs) (d : str) : str :=
  match l with
  | [] => d
  | (n', v') :: r => last_val n r (if str_eqb n' n then v' else d)
  end.

Fixpoint mem_name (n : str) (l : list str) : bool :=
  match l with [] => false | x :: r => str_eqb x n || mem_name n r end.

Fixpoint first_names (l : attrs) (seen : list str) : list str :=
  match l with
  | [] => []
  | (n, _) :: r => if mem_name n seen then first_names r seen else n :: first_names r (n :: seen)
  end.

Definition dedup_last_keep_pos (l : attrs) : attrs :=
  map (fun n => (n, last_val n l [])) (first_names l []).

(* characters payloads *)
Fixpoint chars_of_sax (l : list sax) : str :=
  match l with [] => [] | SaxChars t :: r => t ++ chars_of_sax r | _ :: r => chars_of_sax r end.

Fixpoint chars_of_ops (l : list iop) : str :=
  match l with [] => [] | IChars t :: r => t ++ chars_of_ops r | _ :: r => chars_of_ops r end.

(* ---- printing for the driver: serialisation of a tree to tokens is done in OCaml ---- *)
