(* Properties_C10.v — property theorems for C10 (template conflict resolution: import
   precedence, then priority, then last).  Model: TmplDefs.v (Stylesheet::addTemplate /
   addToList / addToTable / findTemplate / findTemplateInImports as they are); generated facts:
   GenTmpl.v (XPath::getTargetData, getMatchScoreValue, the dispatch of addTemplate), rebuilt
   from /repo on every run.  Pattern matching is abstract: [pmatch alt n]. *)
From Coq Require Import List Bool ZArith NArith Lia Sorting.Sorted.
Require Import XV.TmplDefs XV.GenTmpl XV.TmplModel XV.TmplSelect XV.TmplNq XV.TmplTree XV.TmplShape XV.TmplBest.
Import ListNotations.
Local Open Scope Z_scope.

(* ---------------------------------------------------------------------------------------- *)
(* 1. the lists *)

(* every insertion history (any entries, any order, starting from any sorted list) leaves a
   list sorted by (priority-or-default, position), descending *)
Theorem list_sorted_inv : forall es l,
  StronglySorted ge_entry l -> StronglySorted ge_entry (fold_left add_to_list es l).
Proof. exact insertions_sorted. Qed.
Print Assumptions list_sorted_inv.

(* after addTemplate* and postConstruction: the list a node is looked up in is sorted and holds
   exactly the entries (one per union alternative, numbered in document order) whose target
   covers the node's type/local name *)
Theorem node_list_sorted : forall ts k, StronglySorted ge_entry (locate (build_tables ts) k).
Proof. exact locate_sorted. Qed.
Print Assumptions node_list_sorted.

Theorem node_list_contents : forall ts k x,
  In x (locate (build_tables ts) k) <->
  In x (entries ts 0) /\ covers (a_target (e_alt x)) k = true.
Proof. exact locate_contents. Qed.
Print Assumptions node_list_contents.

(* so the quiet path's "first hit" is the maximum of the list *)
Theorem first_match_is_maximum : forall (node : Type) (pmatch : N -> node -> bool) l mode n t,
  StronglySorted ge_entry l -> find_in_list node pmatch l mode n = Some t ->
  exists e, In e l /\ e_tmpl e = t /\ ok node pmatch mode n e = true /\
            forall e', In e' l -> ok node pmatch mode n e' = true -> ge_entry e e'.
Proof. exact find_in_list_some. Qed.
Print Assumptions first_match_is_maximum.

(* ---------------------------------------------------------------------------------------- *)
(* 2. the choice against XSLT 1.0 section 5.5 *)

(* Under the two guards left by the refutations below — (K1) a template without priority
   attribute has alternatives of one default priority; (K2) every alternative that matches the
   node is filed in a list the node is looked up in — findTemplate over the compiled import tree
   returns a template iff some rule of the mode matches, and then the template of a rule that is
   maximal in (import precedence [post-order number of its stylesheet], priority [explicit or
   default of the alternative], position). *)
Theorem find_template_spec_partial :
  forall (node : Type) (key_of : node -> nkey) (pmatch : N -> node -> bool) s mode n,
  uniform_union_priorities s = true ->
  filed_where_matching node key_of pmatch s n = true ->
  spec_choice node pmatch (rules_of s) mode n
              (find_template node key_of pmatch true (compile s) mode n false).
Proof. exact find_template_spec_lemma. Qed.
Print Assumptions find_template_spec_partial.

(* the same as an equation: [best_5_5] is the executable maximum of (precedence, priority,
   position) over the applicable rules; it satisfies [spec_choice], and [spec_choice] has a single
   answer because (precedence, position) identifies the template *)
Theorem best_5_5_is_the_specified_choice :
  forall (node : Type) (pmatch : N -> node -> bool) rules mode n,
  spec_choice node pmatch rules mode n (option_map r_tmpl (best_5_5 node pmatch rules mode n)).
Proof. exact best_5_5_spec. Qed.
Print Assumptions best_5_5_is_the_specified_choice.

Theorem find_template_eq_best_partial :
  forall (node : Type) (key_of : node -> nkey) (pmatch : N -> node -> bool) s mode n,
  uniform_union_priorities s = true ->
  filed_where_matching node key_of pmatch s n = true ->
  find_template node key_of pmatch true (compile s) mode n false =
  option_map r_tmpl (best_5_5 node pmatch (rules_of s) mode n) /\
  find_template node key_of pmatch true (compile s) mode n true =
  option_map r_tmpl (best_5_5 node pmatch (imported_rules s) mode n).
Proof.
  intros node key_of pmatch s mode n Hu Hf. split.
  - apply (spec_choice_unique node pmatch (postorder s) 0%nat mode n).
    + apply find_template_spec_lemma; assumption.
    + apply best_5_5_spec.
  - apply (spec_choice_unique node pmatch (removelast (postorder s)) 0%nat mode n).
    + apply apply_imports_lemma; assumption.
    + apply best_5_5_spec.
Qed.
Print Assumptions find_template_eq_best_partial.

(* a stylesheet used by the witnesses: match="a" then match="a[b]|*"; local name a = 5 *)
Definition alt_a : alt := {| a_pat := 0; a_target := {| tg_name := TNName 5; tg_type := TTElement |}; a_score := ScQName; a_rscore := ScQName |}.
Definition alt_ab : alt := {| a_pat := 1; a_target := {| tg_name := TNName 5; tg_type := TTElement |}; a_score := ScOther; a_rscore := ScOther |}.
Definition alt_star : alt := {| a_pat := 2; a_target := {| tg_name := TNAny; tg_type := TTElement |}; a_score := ScNodeTest; a_rscore := ScNodeTest |}.
Definition k1_t1 : template := {| t_id := 1; t_mode := None; t_prio := None; t_text := 0; t_alts := [alt_a] |}.
Definition k1_t2 : template := {| t_id := 2; t_mode := None; t_prio := None; t_text := 1; t_alts := [alt_ab; alt_star] |}.
Definition k1_sheet : sheet := Sheet [ITmpl k1_t1; ITmpl k1_t2] [].
(* the only node: an element a without a child b *)
Definition k1_key (_ : N) : nkey := KElem 5.
Definition k1_match (p : N) (_ : N) : bool := negb (p =? 1)%N.

(* K1: the entry of alternative a[b] (0.5) is tested with the whole union, which matches through
   '*' (-0.5); the union's template beats match="a" (0) *)
Theorem find_template_spec_refuted : exists s mode (n : N),
  filed_where_matching N k1_key k1_match s n = true /\
  ~ spec_choice N k1_match (rules_of s) mode n
                (find_template N k1_key k1_match true (compile s) mode n false).
Proof.
  exists k1_sheet, None, 0%N. split; [reflexivity|].
  replace (find_template N k1_key k1_match true (compile k1_sheet) None 0%N false) with (Some k1_t2) by reflexivity.
  intros (r & Hin & Happ & Ht & Hmax).
  cbn in Hin. destruct Hin as [<-|[<-|[<-|[]]]].
  - discriminate Ht.
  - discriminate Happ.
  - specialize (Hmax {| r_prec := 0; r_prio := 0; r_pos := 0; r_tmpl := k1_t1; r_alt := alt_a |}).
    assert (H : rule_le {| r_prec := 0; r_prio := 0; r_pos := 0; r_tmpl := k1_t1; r_alt := alt_a |}
                        {| r_prec := 0; r_prio := -500; r_pos := 1; r_tmpl := k1_t2; r_alt := alt_star |}).
    { apply Hmax; [left; reflexivity | reflexivity]. }
    unfold rule_le in H; cbn in H. lia.
Qed.
Print Assumptions find_template_spec_refuted.

(* K2: match="key(..)" (or id(..)) is filed under the element and attribute wildcards only; a
   text node it matches gets no template *)
Definition alt_key : alt := {| a_pat := 0; a_target := {| tg_name := TNAny; tg_type := TTAny |}; a_score := ScOther; a_rscore := ScOther |}.
Definition k2_t : template := {| t_id := 1; t_mode := None; t_prio := None; t_text := 0; t_alts := [alt_key] |}.
Definition k2_sheet : sheet := Sheet [ITmpl k2_t] [].

Theorem find_template_spec_refuted_function_pattern : exists s mode (n : N),
  uniform_union_priorities s = true /\
  ~ spec_choice N (fun _ _ => true) (rules_of s) mode n
                (find_template N (fun _ => KText) (fun _ _ => true) true (compile s) mode n false).
Proof.
  exists k2_sheet, None, 0%N. split; [reflexivity|].
  replace (find_template N (fun _ => KText) (fun _ _ => true) true (compile k2_sheet) None 0%N false) with (@None template) by reflexivity.
  intro H. cbn in H.
  specialize (H {| r_prec := 0; r_prio := 500; r_pos := 0; r_tmpl := k2_t; r_alt := alt_key |} (or_introl eq_refl)).
  discriminate H.
Qed.
Print Assumptions find_template_spec_refuted_function_pattern.

(* the hypotheses of the partial theorem are satisfiable on a non-trivial instance: an import
   tree (main imports A then B; A imports C), an include, ties, a union with explicit priority *)
Definition alt_b : alt := {| a_pat := 3; a_target := {| tg_name := TNName 6; tg_type := TTElement |}; a_score := ScQName; a_rscore := ScQName |}.
Definition ex_t (id : N) (p : option Z) (alts : list alt) : template :=
  {| t_id := id; t_mode := None; t_prio := p; t_text := id; t_alts := alts |}.
Definition ex_sheet : sheet :=
  Sheet [ITmpl (ex_t 10 None [alt_star]); IIncl [ITmpl (ex_t 11 (Some 0) [alt_ab; alt_star])]]
        [Sheet [ITmpl (ex_t 20 (Some 2000) [alt_b])] [Sheet [ITmpl (ex_t 30 None [alt_a]); ITmpl (ex_t 31 None [alt_a])] []];
         Sheet [ITmpl (ex_t 40 None [alt_b]); ITmpl (ex_t 41 (Some 0) [alt_b])] []].
(* nodes: 0 = <a> without b, 1 = <b> *)
Definition ex_key (n : N) : nkey := if (n =? 0)%N then KElem 5 else KElem 6.
Definition ex_match (p n : N) : bool :=
  match p, n with
  | 0%N, 0%N => true | 2%N, _ => true | 3%N, 1%N => true | _, _ => false
  end.

Example partial_theorem_applies :
  uniform_union_priorities ex_sheet = true /\
  filed_where_matching N ex_key ex_match ex_sheet 0%N = true /\
  filed_where_matching N ex_key ex_match ex_sheet 1%N = true /\
  (* main wins over its imports: the later of two rules of priority 0 / -0.5 ... *)
  option_map t_id (find_template N ex_key ex_match true (compile ex_sheet) None 0%N false) = Some 11%N /\
  option_map t_id (find_template N ex_key ex_match true (compile ex_sheet) None 1%N false) = Some 11%N /\
  (* apply-imports from main: B (imported later) before A; inside B the later of equal priorities;
     for <a> only C (imported by A) has rules: the later of the two *)
  option_map t_id (find_template N ex_key ex_match true (compile ex_sheet) None 1%N true) = Some 41%N /\
  option_map t_id (find_template N ex_key ex_match true (compile ex_sheet) None 0%N true) = Some 31%N /\
  option_map (fun r => t_id (r_tmpl r)) (best_5_5 N ex_match (rules_of ex_sheet) None 1%N) = Some 11%N /\
  option_map (fun r => t_id (r_tmpl r)) (best_5_5 N ex_match (imported_rules ex_sheet) None 1%N) = Some 41%N.
Proof. vm_compute. repeat split. Qed.
Print Assumptions partial_theorem_applies.

(* ---------------------------------------------------------------------------------------- *)
(* 3. apply-imports *)

(* apply-imports in a template of the stylesheet at path p searches csubsheet(p) with
   onlyUseImports; that is the compiled sub-tree, and the choice is the section 5.5 maximum over
   the rules imported into that stylesheet (its own rules excluded), or none of them matches *)
Theorem apply_imports_scope :
  forall (node : Type) (key_of : node -> nkey) (pmatch : N -> node -> bool) s p sub mode n,
  subsheet s p = Some sub ->
  uniform_union_priorities sub = true ->
  filed_where_matching node key_of pmatch sub n = true ->
  csubsheet (compile s) p = Some (compile sub) /\
  spec_choice node pmatch (imported_rules sub) mode n
              (find_template node key_of pmatch true (compile sub) mode n true).
Proof.
  intros node key_of pmatch s p sub mode n Hs Hu Hf. split.
  - rewrite csubsheet_compile, Hs. reflexivity.
  - apply apply_imports_lemma; assumption.
Qed.
Print Assumptions apply_imports_scope.

(* ---------------------------------------------------------------------------------------- *)
(* 4. default priorities and filing, over the table regenerated from XPath.cpp *)

(* for every shape of union alternative, the eMatchScore getTargetData assigns has, by
   getMatchScoreValue, the default priority of section 5.5 (-0.5 / -0.25 / 0 / 0.5) *)
Theorem default_priority_correct : forall sh,
  gen_score_value (snd (target_data sh)) = Some (spec_default_priority sh).
Proof. exact default_priority_lemma. Qed.
Print Assumptions default_priority_correct.

(* the numbers and the dispatch used by the model are the generated ones *)
Theorem model_tables_are_the_generated_ones :
  (forall s, gen_score_value s = match s with ScNone => None | _ => Some (score_value s) end) /\
  (forall tg, gen_slots tg = slots_of_target tg).
Proof. split; [exact score_values_agree | exact gen_slots_agree]. Qed.
Print Assumptions model_tables_are_the_generated_ones.

(* the K2 guard holds by construction for every alternative whose last step is not a function
   call ... *)
Theorem filing_complete_by_shape : forall sh k,
  sh_last sh <> LFunction -> step_may_match (sh_last sh) k = true ->
  covers (fst (target_data sh)) k = true.
Proof. exact filing_by_shape. Qed.
Print Assumptions filing_complete_by_shape.

(* hence guard K2 holds for every stylesheet without function-headed alternatives whose matcher
   respects the node kinds of the last step *)
Theorem guard_K2_from_shapes :
  forall (node : Type) (key_of : node -> nkey) (pmatch : N -> node -> bool) s n (shape_of : alt -> shape),
  (forall t a, In t (all_templates s) -> In a (t_alts t) ->
     a_target a = fst (target_data (shape_of a)) /\
     sh_last (shape_of a) <> LFunction /\
     (pmatch (a_pat a) n = true -> step_may_match (sh_last (shape_of a)) (key_of n) = true)) ->
  filed_where_matching node key_of pmatch s n = true.
Proof. exact filed_from_shapes. Qed.
Print Assumptions guard_K2_from_shapes.

(* ... and fails for id()/key() on text, comment, processing-instruction and root nodes *)
Theorem filing_complete_refuted_function_pattern : forall m k,
  In k [KText; KComment; KPI; KRoot] ->
  step_may_match LFunction k = true /\
  covers (fst (target_data {| sh_last := LFunction; sh_multi := m |})) k = false.
Proof. exact function_filing_incomplete. Qed.
Print Assumptions filing_complete_refuted_function_pattern.

(* ---------------------------------------------------------------------------------------- *)
(* 5. "conflict warnings never change the choice" *)

(* refuted on the K1 stylesheet: the non-quiet path ranks by the run-time score of the first
   matching alternative (here '*', -0.5) and picks match="a"; the quiet path picks the union *)
Theorem quiet_eq_nonquiet_refuted : exists s mode (n : N),
  find_template N k1_key k1_match false (compile s) mode n false <>
  find_template N k1_key k1_match true (compile s) mode n false.
Proof. exists k1_sheet, None, 0%N. vm_compute. discriminate. Qed.
Print Assumptions quiet_eq_nonquiet_refuted.

(* second refutation: two templates with the same match string and priority attribute that are
   different patterns (namespace bindings differ): the non-quiet path skips the second without
   testing it *)
Definition st_t1 : template := {| t_id := 1; t_mode := None; t_prio := None; t_text := 7; t_alts := [alt_a] |}.
Definition st_t2 : template := {| t_id := 2; t_mode := None; t_prio := None; t_text := 7;
                                  t_alts := [{| a_pat := 9; a_target := a_target alt_a; a_score := ScQName; a_rscore := ScQName |}] |}.
Theorem quiet_eq_nonquiet_refuted_same_text : exists s mode (n : N),
  uniform_union_priorities s = true /\
  find_template N k1_key (fun p _ => (p =? 0)%N) false (compile s) mode n false <>
  find_template N k1_key (fun p _ => (p =? 0)%N) true (compile s) mode n false.
Proof. exists (Sheet [ITmpl st_t1; ITmpl st_t2] []), None, 0%N. split; [reflexivity|]. vm_compute. discriminate. Qed.
Print Assumptions quiet_eq_nonquiet_refuted_same_text.

(* third refutation: match="a[@x]" (default priority 0.5, but run-time score 0: stepPattern keeps
   the node test's score under a non-positional predicate) against match="a" priority="0.25" *)
Definition alt_ax : alt := {| a_pat := 1; a_target := a_target alt_a; a_score := ScOther; a_rscore := ScQName |}.
Definition rt_t1 : template := {| t_id := 1; t_mode := None; t_prio := Some 250; t_text := 0; t_alts := [alt_a] |}.
Definition rt_t2 : template := {| t_id := 2; t_mode := None; t_prio := None; t_text := 1; t_alts := [alt_ax] |}.
Theorem quiet_eq_nonquiet_refuted_runtime_score : exists s mode (n : N),
  uniform_union_priorities s = true /\ same_text_same_match N (fun _ _ => true) s n = true /\
  find_template N k1_key (fun _ _ => true) false (compile s) mode n false <>
  find_template N k1_key (fun _ _ => true) true (compile s) mode n false.
Proof. exists (Sheet [ITmpl rt_t1; ITmpl rt_t2] []), None, 0%N. split; [reflexivity|]. split; [reflexivity|]. vm_compute. discriminate. Qed.
Print Assumptions quiet_eq_nonquiet_refuted_runtime_score.

(* under the K1 guard, "run-time score = default priority" and "same match string and priority
   => same behaviour on the node" the two paths agree, for apply-templates and apply-imports alike *)
Theorem quiet_eq_nonquiet_partial :
  forall (node : Type) (key_of : node -> nkey) (pmatch : N -> node -> bool) s mode n only,
  uniform_union_priorities s = true ->
  runtime_scores_agree s = true ->
  same_text_same_match node pmatch s n = true ->
  find_template node key_of pmatch false (compile s) mode n only =
  find_template node key_of pmatch true (compile s) mode n only.
Proof. exact quiet_eq_nonquiet_lemma. Qed.
Print Assumptions quiet_eq_nonquiet_partial.

Example nonquiet_guards_satisfiable :
  runtime_scores_agree ex_sheet = true /\
  same_text_same_match N ex_match ex_sheet 0%N = true /\
  same_text_same_match N ex_match ex_sheet 1%N = true /\
  option_map t_id (find_template N ex_key ex_match false (compile ex_sheet) None 1%N false) = Some 11%N.
Proof. vm_compute. repeat split. Qed.
Print Assumptions nonquiet_guards_satisfiable.
