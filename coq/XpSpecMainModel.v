(* XpSpecMainModel.v — the results of XpSpec*Model.v restated over [wfd d] (every well-formed
   node table), with the fuel the interpreter passes, for Properties_C02s.v. *)
From Coq Require Import ZArith NArith List Bool Arith Lia Sorted.
Require Import XV.XpAst XV.DomDefs XV.NumDefs XV.XpDefs XV.DomModel XV.DomDescModel XV.XpModel
               XV.XpSpecDefs XV.XpSpecLayoutModel XV.XpSpecAxesModel XV.XpSpecFollowModel
               XV.XpSpecIndexModel XV.XpSpecStepModel.
Import ListNotations.

Section Main.
  Variable d : doc.
  Hypothesis Hw : wfd d.

  Ltac unpack := destruct (wfd_unpack d Hw) as [sz [H0 [HL [Hr [Hk Hdoc]]]]].

  Lemma ax_self n : walk_correct d AxSelf n [n].
  Proof. apply self_walk. Qed.

  Lemma ax_parent n : walk_correct d AxParent n (match parent_of d n with Some p => [p] | None => [] end).
  Proof. unpack. apply (parent_walk d sz H0 HL Hr). Qed.

  Lemma ax_child n fuel : length d <= fuel -> walk_correct d AxChild n (siblings_after d fuel (first_child d n)).
  Proof. unpack. intros Hf. apply (child_walk_correct d sz H0 HL). pose proof (children_length d sz H0 HL n). lia. Qed.

  Lemma ax_attribute n : n < length d ->
    walk_correct d AxAttribute n
      (filter (is_kattr d) (if nkind_eqb (n_kind (get d n)) KElem then n_attrs (get d n) else [])).
  Proof. unpack. apply (attribute_walk_correct d sz HL). Qed.

  Lemma ax_ancestor n fuel : n < fuel -> walk_correct d AxAncestor n (ancestors_from d fuel (parent_of d n)).
  Proof. unpack. apply (ancestor_walk_correct d sz H0 HL Hr). Qed.

  Lemma ax_ancestor_or_self n fuel : n < fuel -> walk_correct d AxAncestorOrSelf n (ancestors_from d (S fuel) (Some n)).
  Proof. unpack. apply (ancestor_or_self_walk_correct d sz H0 HL Hr). Qed.

  Lemma ax_descendant_or_self n : n < length d -> walk_correct d AxDescendantOrSelf n (descendants_or_self d n).
  Proof. unpack. apply (descendant_or_self_walk_correct d sz H0 HL Hr). Qed.

  (* any fuel that covers the subtree: the number of table entries suffices *)
  Lemma ax_descendant_or_self_fuel n fuel : n < length d -> length d <= fuel ->
    descend d fuel n n = descendants_or_self d n.
  Proof.
    unpack. intros Hn Hf.
    pose proof (wf_of_layout d sz H0 HL) as Hwf. pose proof (par_lt d sz H0 HL Hr) as Hpar.
    rewrite (descendants_or_self_is_preorder d Hwf Hpar n Hn).
    apply (descend_is_preorder d Hwf Hpar n fuel Hn).
    pose proof (subtree_bound d Hwf Hpar n Hn). lia.
  Qed.

  Lemma ax_descendant n : n < length d -> walk_correct d AxDescendant n (tl (descendants_or_self d n)).
  Proof. unpack. apply (descendant_walk_correct d sz H0 HL Hr). Qed.

  Lemma ax_following_sibling n fuel : length d <= fuel ->
    walk_correct d AxFollowingSibling n (siblings_after d fuel (next_sibling d n)).
  Proof. unpack. apply (following_sibling_walk_correct d sz H0 HL Hr). Qed.

  Lemma ax_preceding_sibling n fuel : length d <= fuel ->
    walk_correct d AxPrecedingSibling n (siblings_before d fuel (prev_sibling d n)).
  Proof. unpack. apply (preceding_sibling_walk_correct d sz H0 HL Hr). Qed.

  Lemma ax_following n : n < length d -> walk_correct d AxFollowing n (following d n).
  Proof. unpack. apply (following_walk_correct d sz H0 HL Hr Hk Hdoc). Qed.

  Lemma ax_preceding n : n < length d -> walk_correct d AxPreceding n (preceding d n).
  Proof. unpack. apply (preceding_walk_correct d sz H0 HL Hr Hk Hdoc). Qed.

  Lemma ax_root n : n < length d -> walk_correct d AxRoot n [0].
  Proof. unpack. apply (root_walk_correct d sz H0 HL Hr). Qed.

  (* the consequences of [walk_correct] spelled out: no duplicates, and list index + 1 = proximity position *)
  Lemma walk_correct_positions ax n l : walk_correct d ax n l ->
    NoDup l /\ set_size (axis_rel d ax n) (length l) /\
    forall i x, nth_error l i = Some x -> proximity_position ax (axis_rel d ax n) x (S i).
  Proof.
    intros [Ho Hm]. split; [apply (axis_ordered_nodup ax); exact Ho|].
    split; [apply (size_of_list ax); assumption | apply (prox_of_list ax); assumption].
  Qed.
End Main.

(* position() and last() as coded, in the context a predicate is evaluated in, are the proximity
   position and the size of the set being filtered *)
Lemma position_is_proximity c ax (S : nat -> Prop) l i n :
  axis_ordered ax l -> (forall y, In y l <-> S y) -> nth_error l i = Some n ->
  proximity_position ax S n (position_of (with_node c n l)) /\
  set_size S (length (cx_list (with_node c n l))).
Proof.
  intros Ho Hm Hn. rewrite (position_of_nth c n l i (axis_ordered_nodup ax l Ho) Hn). cbn [with_node cx_list].
  split; [apply (prox_of_list ax S l Ho Hm i n Hn) | apply (size_of_list ax S l Ho Hm)].
Qed.

(** * the hypotheses of the step / path theorems are satisfiable *)
(* a small evaluator: number literals, everything else reads position() *)
Definition ev_demo (c : ctx) (e : expr) : res value :=
  match e with
  | ENumLit t => Ok (VNum (string_to_number t))
  | _ => Ok (VNum (d_of_nat (position_of c)))
  end.
Definition pv_demo (e : expr) (x k m : nat) : res value :=
  match e with
  | ENumLit t => Ok (VNum (string_to_number t))
  | _ => Ok (VNum (d_of_nat k))
  end.

Lemma ev_demo_ok c : forall pe l i n, NoDup l -> nth_error l i = Some n ->
  ev_demo (with_node c n l) pe = pv_demo pe n (S i) (length l).
Proof.
  intros pe l i n Hnd Hn. unfold ev_demo, pv_demo. rewrite (position_of_nth c n l i Hnd Hn).
  destruct pe; reflexivity.
Qed.

(* a concrete well-formed table: <a x="1"><b/>t</a> as Xalan's source tree holds it
   (0 document, 1 a, 2 xmlns:xml, 3 x, 4 b, 5 text) *)
Definition demo_doc : doc := build_doc [TElem [97%N] [([120%N], [49%N])] [TElem [98%N] [] []; TTextN [116%N]]].

Lemma demo_doc_wfd : wfd demo_doc.
Proof.
  split.
  - split; reflexivity.
  - intros n Hn. change (length demo_doc) with 6 in Hn.
    do 6 (destruct n as [|n]; [cbn; split; intros H; try reflexivity; try discriminate|]). lia.
  - exists (fun n => match n with 0 => 6 | 1 => 5 | _ => 1 end). split; [reflexivity|].
    intros n Hn. change (length demo_doc) with 6 in Hn.
    do 6 (destruct n as [|n]; [split; cbn; try reflexivity; try (repeat split; reflexivity);
                               try (intros x Hx; repeat (destruct Hx as [<-|Hx]; [repeat split; reflexivity|]); destruct Hx) |]).
    lia.
Qed.
