# KN9 repaired by a fix: commit - regression case, must pass (apply to the source below)
#source: <e0 xmlns:p="u4"><e2 p:b="u5"/></e0>
<xsl:stylesheet version="1.0" xmlns:xsl="http://www.w3.org/1999/XSL/Transform"><xsl:template match="/"><o><xsl:copy-of select="//*[local-name()='e2']/@*"/></o></xsl:template></xsl:stylesheet>
