(* C01, mechanism (b): VariablesStack (src/xalanc/XSLT/VariablesStack.cpp/.hpp) as coded, the call-site
   protocol of the iterative interpreter that drives it (ElemTemplateElement::beginExecuteChildren /
   endExecuteChildren, ElemVariable, ElemParam, ElemCallTemplate, ElemApplyTemplates, ElemForEach,
   StylesheetRoot::process), and the independent specification: lexical scoping (XSLT 1.0 11.4-11.6).

   A program is a DYNAMIC execution tree (what was instantiated, in order), so that every terminating
   execution is covered without fuel:
     Var n b          xsl:variable binding name n to the binding identity b
     Use n            a reference $n (observation: which binding is seen)
     Block e body     any element e whose template body was instantiated (literal result element, xsl:if,
                      xsl:when, xsl:element, xsl:copy, the body of an RTF variable, ONE ITERATION of
                      xsl:for-each: ElemForEach::getNextChildElemToExecute calls endExecuteChildren +
                      beginExecuteChildren between nodes)
     Invoke wp ts     xsl:call-template / xsl:apply-templates with with-params wp: one context marker, the
                      params, then the template instances ts (one per selected node), ElemCallTemplate.cpp
                      159-185, ElemApplyTemplates.cpp 138-240
     Tmpl e ps body   a template instance: element e, its xsl:param children (name, default binding), body

   Outside the model: lazy evaluation of top-level variables (VariablesStack::findXObject 373-432: value
   computed at first use under a temporary context marker; the binding FOUND is the same), the guard
   stack for circular definitions, external setCurrentStackFrameIndex (only ElemAttributeSet in the
   default build), XALAN_RECURSIVE_STYLESHEET_EXECUTION. m_globalStackFrameIndex = ~0u is represented
   by 0 (never read before markGlobalStackFrame).

   Definitions only (extracted by ExtractXslt.v). *)
From Coq Require Import List NArith Bool Arith.
Import ListNotations.

Inductive entry :=
| ECtx                      (* eContextMarker *)
| EFrame (e : N)            (* eElementFrameMarker *)
| EVar (n b : N)            (* eVariable *)
| EParam (n b : N)          (* eParam (inactive) *)
| EActive (n b : N).        (* eActiveParam *)

(* stk: top first; index i of the code = position (length - 1 - i) here *)
Record vs := mkV { stk : list entry; csfi : nat; gsfi : nat; gmarked : bool }.

Definition vs_init : vs := mkV [] 0 0 false.

Definition is_var (e : entry) : bool := match e with EVar _ _ => true | _ => false end.

(* VariablesStack::push, cpp:152-171 *)
Definition push (e : entry) (s : vs) : vs :=
  let c := if Nat.eqb (csfi s) (length (stk s)) then S (csfi s) else csfi s in
  mkV (e :: stk s) c (if negb (gmarked s) && is_var e then c else gsfi s) (gmarked s).

(* VariablesStack::pop, cpp:176-186 *)
Definition pop (s : vs) : vs :=
  match stk s with
  | [] => s
  | _ :: r => mkV r (if Nat.eqb (csfi s) (length (stk s)) then pred (csfi s) else csfi s) (gsfi s) (gmarked s)
  end.

(* popContextMarker, cpp:116-147 *)
Fixpoint pop_ctx_n (k : nat) (s : vs) : vs :=
  match k with
  | O => s
  | S k' => match stk s with
            | [] => s
            | ECtx :: _ => pop s
            | _ :: _ => pop_ctx_n k' (pop s)
            end
  end.
Definition pop_ctx (s : vs) : vs := pop_ctx_n (length (stk s)) s.

(* popElementFrame, cpp:555-604: pops from the top; a context marker met first is popped and the
   InvalidStackContextException thrown (None); index 0 is never examined *)
Fixpoint pop_frame_n (k : nat) (s : vs) : option vs :=
  match k with
  | O => Some s
  | S k' => match stk s with
            | [] => Some s
            | [_] => Some s
            | ECtx :: _ => None
            | EFrame _ :: _ => Some (pop s)
            | _ :: _ => pop_frame_n k' (pop s)
            end
  end.
Definition pop_frame (s : vs) : option vs := pop_frame_n (length (stk s)) s.

(* elementFrameAlreadyPushed, cpp:81-103: the whole stack except index 0 *)
Fixpoint frame_pushed_l (e : N) (l : list entry) : bool :=
  match l with
  | [] => false
  | x :: r => match r with
              | [] => false
              | _ => match x with
                     | EFrame e' => if N.eqb e' e then true else frame_pushed_l e r
                     | _ => frame_pushed_l e r
                     end
              end
  end.
Definition frame_pushed (e : N) (s : vs) : bool := frame_pushed_l e (stk s).

(* pushVariable(name, value, e), cpp:265-278 *)
Definition push_variable (n b e : N) (s : vs) : option vs :=
  if frame_pushed e s then Some (push (EVar n b) s) else None.

(* pushVariable(name, ElemVariable*, e), cpp:249-260 (top-level variables) *)
Definition push_variable_lazy (n b e : N) (s : vs) : vs :=
  let s' := if frame_pushed e s then s else push (EFrame e) s in push (EVar n b) s'.

(* pushParams, cpp:231-244 *)
Definition push_params (wp : list (N * N)) (s : vs) : vs :=
  fold_left (fun s p => push (EParam (fst p) (snd p)) s) wp s.

(* resetParams, cpp:289-311: from index getCurrentStackFrameIndex()-1 down to 1, stop at a context marker,
   eActiveParam -> eParam. Never called in the unchanged tree (finding K-C01-1); the proposed repair calls
   it when the element frame of a template instance is popped. *)
Fixpoint deact (l : list entry) : list entry :=
  match l with
  | [] => []
  | x :: r =>
      match r with
      | [] => l
      | _ => match x with
             | ECtx => l
             | EActive n b => EParam n b :: deact r
             | _ => x :: deact r
             end
      end
  end.

Definition reset_params (s : vs) : vs :=
  let k := length (stk s) - csfi s in
  mkV (firstn k (stk s) ++ deact (skipn k (stk s))) (csfi s) (gsfi s) (gmarked s).

(* markGlobalStackFrame, cpp:316-323 *)
Definition mark_global (s : vs) : vs :=
  push ECtx (mkV (stk s) (csfi s) (length (stk s)) true).

(* findEntry, cpp:439-521 (the global search also requires m_globalStackFrameIndex <= size: ~0u before the
   global frame exists). Local loop over indices nElems-1 .. 1 of the list l (top first): returns the
   binding found and the list with the entry activated (eParam -> eActiveParam when fIsParam) *)
Fixpoint find_local (n : N) (isParam : bool) (l : list entry) : option N * list entry :=
  match l with
  | [] => (None, [])
  | x :: r =>
      match r with
      | [] => (None, l)
      | _ =>
        match x with
        | EVar n' b | EActive n' b =>
            if N.eqb n' n then (Some b, l)
            else match find_local n isParam r with (res, r') => (res, x :: r') end
        | EParam n' b =>
            if isParam && N.eqb n' n then (Some b, EActive n' b :: r)
            else match find_local n isParam r with (res, r') => (res, x :: r') end
        | ECtx => (None, l)
        | EFrame _ => match find_local n isParam r with (res, r') => (res, x :: r') end
        end
      end
  end.

Fixpoint find_global (n : N) (l : list entry) : option N :=
  match l with
  | [] => None
  | x :: r =>
      match r with
      | [] => None
      | _ =>
        match x with
        | EVar n' b => if N.eqb n' n then Some b else find_global n r
        | ECtx => None
        | _ => find_global n r
        end
      end
  end.

Definition find_entry (n : N) (isParam searchGlobal : bool) (s : vs) : option N * vs :=
  let k := length (stk s) - csfi s in
  match find_local n isParam (skipn k (stk s)) with
  | (Some b, l') => (Some b, mkV (firstn k (stk s) ++ l') (csfi s) (gsfi s) (gmarked s))
  | (None, l') =>
      let s' := mkV (firstn k (stk s) ++ l') (csfi s) (gsfi s) (gmarked s) in
      if negb isParam && searchGlobal && Nat.ltb 1 (gsfi s) && Nat.leb (gsfi s) (length (stk s))
      then (find_global n (skipn (length (stk s) - gsfi s) (stk s)), s')
      else (None, s')
  end.

(* getVariable / getParamVariable, hpp:170-196 *)
Definition get_variable (n : N) (s : vs) : option N * vs := find_entry n false true s.
Definition get_param_variable (n : N) (s : vs) : option N * vs := find_entry n true false s.

(* ---- programs ---- *)
Inductive ins :=
| Var (n b : N)
| Use (n : N)
| Block (e : N) (body : list ins)
| Invoke (wp : list (N * N)) (ts : list ins)
| Tmpl (e : N) (ps : list (N * N)) (body : list ins).

Definition obs := (N * option N)%type.

Definition is_decl (i : ins) : bool := match i with Var _ _ => true | _ => false end.

(* ---- the library's execution: the call-site protocol over the stack ---- *)
(* ElemParam::startElement (ElemParam.cpp:66-88): getParamVariable; if absent the default is pushed
   as a variable (ElemVariable::startElement, 267-274) *)
Definition exec_param (e : N) (p : N * N) (s : vs) : option vs :=
  match get_param_variable (fst p) s with
  | (Some _, s') => Some s'
  | (None, s') => push_variable (fst p) (snd p) e s'
  end.

Fixpoint exec_params (e : N) (ps : list (N * N)) (s : vs) : option vs :=
  match ps with
  | [] => Some s
  | p :: r => match exec_param e p s with Some s' => exec_params e r s' | None => None end
  end.

Definition exec_seq (f : ins -> vs -> option (vs * list obs)) : list ins -> vs -> option (vs * list obs) :=
  fix exec_seq (l : list ins) (s : vs) : option (vs * list obs) :=
  match l with
  | [] => Some (s, [])
  | x :: r => match f x s with
              | Some (s', o1) => match exec_seq r s' with Some (s'', o2) => Some (s'', o1 ++ o2) | None => None end
              | None => None
              end
  end.

Definition has_decl (ps : list (N * N)) (body : list ins) : bool :=
  negb (match ps with [] => true | _ => false end) || existsb is_decl body.

Definition end_children (hv : bool) (r : option (vs * list obs)) : option (vs * list obs) :=
  match r with
  | Some (s1, o) => if hv then match pop_frame s1 with Some s2 => Some (s2, o) | None => None end else Some (s1, o)
  | None => None
  end.

(* beginExecuteChildren / endExecuteChildren (ElemTemplateElement.cpp:303-334): an element frame iff the
   element has xsl:variable / xsl:param children (eHasVariables, postConstruction 1382-1393) *)
(* rs = true: the variant with the repair of K-C01-1 (params deactivated when a template's frame is popped) *)
Definition end_template (rs hv : bool) (r : option (vs * list obs)) : option (vs * list obs) :=
  match end_children hv r with
  | Some (s2, o) => Some (if rs && hv then reset_params s2 else s2, o)
  | None => None
  end.

Fixpoint exec_ins (rs : bool) (parent : N) (i : ins) (s : vs) {struct i} : option (vs * list obs) :=
  match i with
  | Var n b => match push_variable n b parent s with Some s' => Some (s', []) | None => None end
  | Use n => match get_variable n s with (r, s') => Some (s', [(n, r)]) end
  | Block e body =>
      let hv := has_decl [] body in
      end_children hv (exec_seq (fun x => exec_ins rs e x) body (if hv then push (EFrame e) s else s))
  | Invoke wp ts =>
      match exec_seq (fun x => exec_ins rs parent x) ts (push_params wp (push ECtx s)) with
      | Some (s1, o) => Some (pop_ctx s1, o)
      | None => None
      end
  | Tmpl e ps body =>
      let hv := has_decl ps body in
      end_template rs hv
        (match exec_params e ps (if hv then push (EFrame e) s else s) with
         | None => None
         | Some s0 => exec_seq (fun x => exec_ins rs e x) body s0
         end)
  end.

(* StylesheetRoot::process (StylesheetRoot.cpp:249-281) + Stylesheet::pushTopLevelVariables
   (Stylesheet.cpp:1430-1485): marker, frame 0, the top-level variables in import order (lowest
   precedence first), markGlobalStackFrame, the root rule, unmark (pop marker), pop frame, pop marker *)
Definition impl_start (globals : list (N * N)) : vs :=
  mark_global (fold_left (fun s p => push_variable_lazy (fst p) (snd p) 0%N s) globals
                         (push (EFrame 0%N) (push ECtx vs_init))).

Definition impl_run (rs : bool) (globals : list (N * N)) (root : ins) : option (list obs) :=
  match exec_ins rs 0%N root (impl_start globals) with
  | Some (_, o) => Some o
  | None => None
  end.

(* ---- the specification: lexical scoping ---- *)
Fixpoint lookup (n : N) (env : list (N * N)) : option N :=
  match env with
  | [] => None
  | (n', b) :: r => if N.eqb n' n then Some b else lookup n r
  end.

(* env: local bindings, innermost first; genv: top-level bindings, highest precedence first;
   wp: the with-params of the nearest enclosing invocation (later duplicates win) *)
Definition bind_params (wp ps : list (N * N)) (env : list (N * N)) : list (N * N) :=
  fold_left (fun env p => match lookup (fst p) (rev wp) with
                          | Some b => (fst p, b) :: env
                          | None => (fst p, snd p) :: env
                          end) ps env.

Definition spec_seq (f : ins -> list (N * N) -> list (N * N) * list obs)
  : list ins -> list (N * N) -> list (N * N) * list obs :=
  fix spec_seq (l : list ins) (env : list (N * N)) : list (N * N) * list obs :=
  match l with
  | [] => (env, [])
  | x :: r => match f x env with
              | (env', o1) => match spec_seq r env' with (env'', o2) => (env'', o1 ++ o2) end
              end
  end.

Fixpoint spec_ins (genv wp : list (N * N)) (i : ins) (env : list (N * N)) {struct i} : list (N * N) * list obs :=
  match i with
  | Var n b => ((n, b) :: env, [])
  | Use n => (env, [(n, match lookup n env with Some b => Some b | None => lookup n genv end)])
  | Block e body => (env, snd (spec_seq (fun x => spec_ins genv wp x) body env))
  | Invoke wp' ts => (env, flat_map (fun x => snd (spec_ins genv wp' x [])) ts)
  | Tmpl e ps body => (env, snd (spec_seq (fun x => spec_ins genv wp x) body (bind_params wp ps env)))
  end.

Definition spec_run (globals : list (N * N)) (root : ins) : list obs :=
  snd (spec_ins (rev globals) [] root []).

(* ---- guards ---- *)
Fixpoint mem (n : N) (l : list N) : bool := match l with [] => false | x :: r => N.eqb x n || mem n r end.

(* well-formed dynamic trees and the static rules of XSLT 1.0 that make lookups by name unambiguous:
   - template instances occur exactly as the children of an invocation (wf),
   - a local binding never shadows another local binding of the same template (11.5) (names distinct),
   - [strict] = true: the exact guard of the _partial theorem: a reference that is not bound locally is
     not to a name passed by a with-param of the enclosing invocation (class of finding K-C01-1).
   dn: names bound locally at this point; pn: names passed by the enclosing invocation *)
Definition ok_seq (f : ins -> list N -> option (list N)) : list ins -> list N -> option (list N) :=
  fix ok_seq (l : list ins) (dn : list N) : option (list N) :=
  match l with
  | [] => Some dn
  | x :: r => match f x dn with Some dn' => ok_seq r dn' | None => None end
  end.

Fixpoint ok_params (ps : list (N * N)) (dn : list N) : option (list N) :=
  match ps with
  | [] => Some dn
  | p :: r => if mem (fst p) dn then None else ok_params r (fst p :: dn)
  end.

Definition is_some {A} (o : option A) : bool := match o with Some _ => true | None => false end.

Fixpoint ok_ins (strict : bool) (pn : list N) (i : ins) (dn : list N) {struct i} : option (list N) :=
  match i with
  | Var n _ => if mem n dn then None else Some (n :: dn)
  | Use n => if strict && negb (mem n dn) && mem n pn then None else Some dn
  | Block _ body => if is_some (ok_seq (fun x => ok_ins strict pn x) body dn) then Some dn else None
  | Invoke wp ts =>
      if forallb (fun x => match x with
                           | Tmpl e ps body =>
                               match ok_params ps [] with
                               | Some dn0 => is_some (ok_seq (fun x => ok_ins strict (map fst wp) x) body dn0)
                               | None => false
                               end
                           | _ => false
                           end) ts
      then Some dn else None
  | Tmpl _ _ _ => None
  end.

(* the root rule: one template instance with no with-params *)
Definition ok_root (strict : bool) (root : ins) : bool := is_some (ok_ins strict [] (Invoke [] [root]) []).
