(* XpCpTree.v -- the three string functions and the expression evaluator OF THIS TREE: the flags of
   GenXpCp.v (regenerated from /repo by translator/gen_xpcp.py) choose between the code-unit
   functions of XpDefs.v (known finding K6) and the character functions of XpCpDefs.v.
   Definitions only. *)
From Coq Require Import NArith List Bool.
Require Import XV.NumDefs XV.XpAst XV.DomDefs XV.XpDefs XV.XpCpDefs XV.GenXpCp.
Import ListNotations.

Definition this_flags : cpflags :=
  mkCpFlags gen_cp_length_repaired gen_cp_substring_repaired gen_cp_translate_repaired.

Definition length_this_tree (s : str) : nat := tree_length gen_cp_length_repaired s.
Definition substring_this_tree (s : str) (a2 : dbl) (a3 : option dbl) : str :=
  tree_substring gen_cp_substring_repaired s a2 a3.
Definition translate_this_tree (s from to : str) : str := tree_translate gen_cp_translate_repaired s from to.

(* string-length() of a string-value delivered in several characters() events *)
Definition length_of_events_this_tree (chunks : list (list N)) : nat :=
  if gen_cp_length_repaired then counter_count (counter_run chunks) else length (concat chunks).

Definition eval_this_tree (c : ctx) (e : expr) : res value := cp_eval_top this_flags c e.

(* the bounds XPathCharacters.hpp uses are the ones of the model *)
Definition bounds_of_model : N * N * N * N := (55296, 56319, 56320, 57343)%N.
Definition bounds_agree : bool :=
  match gen_cp_surrogate_bounds with
  | None => negb (gen_cp_length_repaired || gen_cp_substring_repaired || gen_cp_translate_repaired)
  | Some (a, b, c, d) =>
      let '(a', b', c', d') := bounds_of_model in
      N.eqb a a' && N.eqb b b' && N.eqb c c' && N.eqb d d'
  end.
