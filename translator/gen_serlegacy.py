"""gen_serlegacy — translator plugin for C04, part "legacy": regenerates coq/GenSerLegacy.v from the current
source of the second XML serializer, /repo/src/xalanc/XMLSupport/FormatterToXML.cpp (+ .hpp,
PlatformSupport/XalanUnicode.hpp, PlatformSupport/XalanTranscodingServices.cpp).  Consumed by
coq/SerLegacyDefs.v (the model), coq/SerLegacyModel*.v (the theorems) and the extracted model.

  * theDefaultAttrSpecialChars, SPECIALSSIZE, the statements of initAttrCharsMap()/initCharsMap() (single
    entries, the two loops, the cleared TAB entry, the loop from m_maxCharacter) with their order
  * the entity table of accumDefaultEntity() and its line-feed rule
  * the structure and constants of accumDefaultEscape() (surrogate bounds, the m_maxCharacter / LSEP test,
    the XML 1.0 control-character exception list)
  * the conditions of the loops of characters() and writeAttrString()
  * writeNormalizedChars()/cdata(): the index tests (i != 0, i < end - 1, i < end - 2), the strings written
  * the values XalanTranscodingServices::getMaximumCharacterValue() can return
  * the raw marker (m_nextIsRaw): the processing instruction FormatterListener::s_piTarget / s_piData sets it,
    characters() and cdata() consume AND CLEAR it before charactersRaw(); both places where it is cleared are
    anchored, in FormatterToXML and in XalanXMLSerializerBase (fail closed if either is missing)
  * variant flags, each recognising exactly one of two shapes at every site it covers (fail closed):
      legacy_cdata_cr_referenced          (fixes/C04/10-K-new-7)
      legacy_detects_lone_low_surrogate   (fixes/C04/11-K-new-4)
      legacy_checks_comment_pi_names      (fixes/C04/12-K-new-8)
Anything not recognised raises AnchorError.
"""
import re
import srcfacts as sf
from srcfacts import AnchorError, need, strip_comments, function_body, HEADER


def num(s):
    s = s.strip().rstrip("uUlL")
    return int(s, 16) if s.lower().startswith("0x") else int(s)


def nlist(xs):
    return "[" + "; ".join(str(x) for x in xs) + "]"


def unicode_consts():
    t = strip_comments(sf.read("PlatformSupport/XalanUnicode.hpp"))
    d = {}
    for m in re.finditer(r"static\s+const\s+XalanDOMChar\s+(char\w+)\s*=\s*(0x[0-9A-Fa-f]+|\d+)\s*;", t):
        d.setdefault(m.group(1), num(m.group(2)))
    if len(d) < 100:
        raise AnchorError("XalanUnicode.hpp: constants not recognised")
    return d


def val(tok, U):
    tok = tok.strip()
    m = re.fullmatch(r"XalanUnicode::(char\w+)", tok)
    if m:
        if m.group(1) not in U:
            raise AnchorError("unknown XalanUnicode constant " + tok)
        return U[m.group(1)]
    if re.fullmatch(r"(0x[0-9A-Fa-f]+|\d+)[uUlL]*", tok):
        return num(tok)
    if re.fullmatch(r"'\\0'", tok):
        return 0
    raise AnchorError("not a constant: " + tok)


def one_of(text, shapes, what):
    """index of the single shape (regex) that occurs in text; fail closed"""
    hit = [i for i, rx in enumerate(shapes) if re.search(rx, text, re.S)]
    if len(hit) != 1:
        raise AnchorError("%s: %d of the %d known shapes match" % (what, len(hit), len(shapes)))
    return hit[0]


def parse_map_init(body, arr, U, what):
    """statements of initAttrCharsMap / initCharsMap on array `arr`, in source order"""
    ops = []
    pos_rx = [
        (r"%s\s*\[\s*([\w:]+)\s*\]\s*=\s*'S'\s*;" % arr, "set"),
        (r"%s\s*\[\s*([\w:]+)\s*\]\s*=\s*'\\0'\s*;" % arr, "clear"),
        (r"for\s*\(\s*size_t\s+(\w+)\s*=\s*(\w+)\s*;\s*\1\s*(<=|<)\s*(\w+)\s*;\s*\1\+\+\s*\)\s*\{\s*%s\s*\[\s*\1\s*\]\s*=\s*'S'\s*;\s*\}" % arr, "range"),
        (r"for\s*\(\s*XalanDOMChar\s+(\w+)\s*=\s*m_maxCharacter\s*;\s*\1\s*<\s*SPECIALSSIZE\s*;\s*\+\+\1\s*\)\s*\{\s*%s\s*\[\s*\1\s*\]\s*=\s*'S'\s*;\s*\}" % arr, "frommax"),
    ]
    found = []
    for rx, kind in pos_rx:
        for m in re.finditer(rx, body, re.S):
            found.append((m.start(), m.end(), kind, m))
    found.sort(key=lambda x: x[0])
    # drop single-entry matches that lie inside a loop match
    loops = [(s, e) for s, e, k, m in found if k in ("range", "frommax")]
    for s, e, kind, m in found:
        if kind in ("set", "clear") and any(ls <= s and e <= le for ls, le in loops):
            continue
        if kind == "set":
            ops.append(("set", val(m.group(1), U)))
        elif kind == "clear":
            ops.append(("clear", val(m.group(1), U)))
        elif kind == "range":
            lo, cmp_, hi = num(m.group(2)), m.group(3), num(m.group(4))
            ops.append(("range", lo, hi if cmp_ == "<=" else hi - 1))
        else:
            ops.append(("frommax",))
    # every assignment to the array must have been recognised
    n_assign = len(re.findall(r"%s\s*\[[^\]]*\]\s*=" % arr, body))
    n_seen = sum(1 for o in ops)
    if n_assign != n_seen:
        raise AnchorError("%s: %d assignments to %s, %d recognised" % (what, n_assign, arr, n_seen))
    return ops


def gen_serlegacy():
    U = unicode_consts()
    cpp = strip_comments(sf.read("XMLSupport/FormatterToXML.cpp"))
    hpp = strip_comments(sf.read("XMLSupport/FormatterToXML.hpp"))
    tsv = strip_comments(sf.read("PlatformSupport/XalanTranscodingServices.cpp"))

    size = num(need(r"enum\s+\w+\s*\{\s*SPECIALSSIZE\s*=\s*(\w+)\s*\}", hpp, "SPECIALSSIZE").group(1))
    need(r"XalanDOMChar\s+m_maxCharacter\s*;", hpp, "m_maxCharacter is a XalanDOMChar")

    m = need(r"theDefaultAttrSpecialChars\s*\[\s*\]\s*=\s*\{(.*?)\}\s*;", cpp, "theDefaultAttrSpecialChars")
    ents = [val(e, U) for e in m.group(1).split(",") if e.strip()]
    if not ents or ents[-1] != 0 or 0 in ents[:-1]:
        raise AnchorError("theDefaultAttrSpecialChars is not a NUL-terminated list")
    attr_special = ents[:-1]
    need(r"m_attrSpecialChars\s*\(\s*theDefaultAttrSpecialChars\s*,", cpp, "m_attrSpecialChars(theDefaultAttrSpecialChars)")

    ia = function_body(cpp, r"FormatterToXML::initAttrCharsMap\s*\(\s*\)\s*\{", "initAttrCharsMap")
    need(r"memset\s*\(\s*m_attrCharsMap\s*,\s*0\s*,\s*sizeof\s*\(\s*m_attrCharsMap\s*\)\s*\)", ia, "initAttrCharsMap memset")
    need(r"for\s*\(\s*XalanDOMString::size_type\s+i\s*=\s*0\s*;\s*i\s*<\s*nSpecials\s*;\s*\+\+i\s*\)\s*\{\s*m_attrCharsMap\s*\[\s*m_attrSpecialChars\s*\[\s*i\s*\]\s*\]\s*=\s*'S'\s*;\s*\}",
         ia, "initAttrCharsMap specials loop")
    ia2 = re.sub(r"m_attrCharsMap\s*\[\s*m_attrSpecialChars\s*\[\s*i\s*\]\s*\]\s*=\s*'S'\s*;", " ", ia)
    attr_ops = parse_map_init(ia2, "m_attrCharsMap", U, "initAttrCharsMap")
    if any(o[0] in ("clear", "frommax") for o in attr_ops):
        raise AnchorError("initAttrCharsMap: unexpected statement kind")

    ic = function_body(cpp, r"FormatterToXML::initCharsMap\s*\(\s*\)\s*\{", "initCharsMap")
    need(r"initAttrCharsMap\s*\(\s*\)\s*;", ic, "initCharsMap calls initAttrCharsMap")
    need(r"memset\s*\(\s*m_charsMap\s*,\s*0\s*,\s*sizeof\s*\(\s*m_charsMap\s*\)\s*\)", ic, "initCharsMap memset")
    chars_ops = parse_map_init(ic, "m_charsMap", U, "initCharsMap")
    kinds = [o[0] for o in chars_ops]
    # the model evaluates: (sets and ranges), then the cleared entries, then the loop from m_maxCharacter
    if kinds.count("frommax") != 1 or kinds[-1] != "frommax":
        raise AnchorError("initCharsMap: the loop from m_maxCharacter is not the last statement")
    first_clear = kinds.index("clear") if "clear" in kinds else len(kinds) - 1
    if any(k in ("set", "range") for k in kinds[first_clear:]):
        raise AnchorError("initCharsMap: an entry is set after an entry was cleared")

    # ---- accumDefaultEntity
    ade = function_body(cpp, r"FormatterToXML::accumDefaultEntity\s*\([^)]*\)\s*\{", "accumDefaultEntity")
    need(r"^\{\s*if\s*\(\s*escLF\s*==\s*false\s*&&\s*XalanUnicode::charLF\s*==\s*ch\s*\)\s*\{\s*outputLineSep\s*\(\s*\)\s*;\s*\}", ade, "accumDefaultEntity line-feed rule")
    entities = []
    for m in re.finditer(r"else\s+if\s*\(\s*(XalanUnicode::char\w+)\s*==\s*ch\s*\)\s*\{((?:\s*accumContent\s*\(\s*XalanUnicode::char\w+\s*\)\s*;)+)\s*\}", ade):
        units = [val(x, U) for x in re.findall(r"accumContent\s*\(\s*(XalanUnicode::char\w+)\s*\)", m.group(2))]
        entities.append((val(m.group(1), U), units))
    if len(entities) != len(re.findall(r"else\s+if", ade)):
        raise AnchorError("accumDefaultEntity: a branch was not recognised")
    need(r"else\s*\{\s*return\s+false\s*;\s*\}\s*return\s+true\s*;\s*\}$", ade, "accumDefaultEntity tail")

    # ---- writeNumberedEntityReference / accumContent / accumName
    wner = function_body(cpp, r"FormatterToXML::writeNumberedEntityReference\s*\([^)]*\)\s*\{", "writeNumberedEntityReference")
    mm = need(r"accumContent\s*\(\s*(XalanUnicode::char\w+)\s*\)\s*;\s*accumContent\s*\(\s*(XalanUnicode::char\w+)\s*\)\s*;\s*accumContent\s*\(\s*NumberToDOMString\s*\(\s*theNumber\s*,\s*m_stringBuffer\s*\)\s*\)\s*;\s*m_stringBuffer\.clear\s*\(\s*\)\s*;\s*accumContent\s*\(\s*(XalanUnicode::char\w+)\s*\)\s*;",
              wner, "writeNumberedEntityReference body")
    ncr = [val(mm.group(i), U) for i in (1, 2, 3)]
    if ncr != [38, 35, 59]:
        raise AnchorError("writeNumberedEntityReference does not write '&#' n ';'")
    for fn in ("accumContentAsChar", "accumContentAsCharDirect"):
        b = function_body(cpp, r"FormatterToXML::%s\s*\(\s*XalanDOMChar\s+ch\s*\)\s*\{" % fn, fn)
        need(r"if\s*\(\s*ch\s*>\s*m_maxCharacter\s*\)\s*\{\s*writeNumberedEntityReference\s*\(\s*ch\s*\)\s*;\s*\}\s*else\s*\{\s*(m_charBuf\s*\[\s*m_pos\+\+\s*\]\s*=\s*ch|m_stream->write\s*\(\s*ch\s*\))\s*;\s*\}", b, fn + " body")
    THROW_NAME = r"(?:if\s*\(\s*getOutputFormat\s*\(\s*\)\s*==\s*OUTPUT_METHOD_XML\s*\)\s*\{\s*throwUnrepresentableCharacterException\s*\(\s*ch\s*\)\s*;\s*\}\s*)"
    b = function_body(cpp, r"FormatterToXML::accumNameAsChar\s*\(\s*XalanDOMChar\s+ch\s*\)\s*\{", "accumNameAsChar")
    mm = need(r"if\s*\(\s*ch\s*>\s*m_maxCharacter\s*\)\s*\{\s*(" + THROW_NAME + r"?)m_charBuf\s*\[\s*m_pos\+\+\s*\]\s*=\s*(XalanUnicode::char\w+)\s*;\s*\}\s*else\s*\{\s*m_charBuf\s*\[\s*m_pos\+\+\s*\]\s*=\s*ch\s*;\s*\}", b, "accumNameAsChar body")
    name_subst = val(mm.group(2), U)
    chk_name = 1 if mm.group(1) else 0
    b = function_body(cpp, r"FormatterToXML::accumNameAsCharDirect\s*\(\s*XalanDOMChar\s+ch\s*\)\s*\{", "accumNameAsCharDirect")
    mm = need(r"if\s*\(\s*ch\s*>\s*m_maxCharacter\s*\)\s*\{\s*(" + THROW_NAME + r"?)m_stream->write\s*\(\s*XalanDOMChar\s*\(\s*XalanUnicode::charQuestionMark\s*\)\s*\)\s*;\s*\}\s*else\s*\{\s*m_stream->write\s*\(\s*ch\s*\)\s*;\s*\}", b, "accumNameAsCharDirect body")
    chk_name_direct = 1 if mm.group(1) else 0
    b = function_body(cpp, r"FormatterToXML::accumCharUTF\s*\(\s*XalanDOMChar\s+ch\s*\)\s*\{", "accumCharUTF")
    need(r"m_charBuf\s*\[\s*m_pos\+\+\s*\]\s*=\s*ch\s*;", b, "accumCharUTF body")
    need(r"m_encodingIsUTF\s*=\s*canOmitXMLDeclaration\s*\|\|\s*XalanTranscodingServices::encodingIsUTF32\s*\(\s*m_encoding\s*\)", cpp, "m_encodingIsUTF")

    # ---- getMaximumCharacterValue
    gm = function_body(tsv, r"XalanTranscodingServices::getMaximumCharacterValue\s*\(\s*const\s+XalanDOMString\s*&\s*theEncoding\s*\)\s*\{", "getMaximumCharacterValue")
    maxvals = [num(x) for x in re.findall(r"return\s+static_cast<XalanDOMChar>\s*\(\s*(0x[0-9A-Fa-f]+)u?\s*\)\s*;", gm)]
    if len(maxvals) != len(re.findall(r"\breturn\b", gm)) or not maxvals:
        raise AnchorError("getMaximumCharacterValue: a return statement was not recognised")
    maxvals = sorted(set(maxvals), reverse=True)

    # ---- accumDefaultEscape
    esc = function_body(cpp, r"FormatterToXML::accumDefaultEscape\s*\([^)]*\)\s*\{", "accumDefaultEscape")
    need(r"^\{\s*if\s*\(\s*!\s*accumDefaultEntity\s*\(\s*ch\s*,\s*escLF\s*\)\s*\)", esc, "accumDefaultEscape head")
    mm = need(r"if\s*\(\s*(\w+)\s*<=\s*ch\s*&&\s*ch\s*<\s*(\w+)\s*\)\s*\{\s*unsigned\s+long\s+next\s*=\s*0\s*;\s*if\s*\(\s*i\s*\+\s*1\s*>=\s*len\s*\)\s*\{\s*throwInvalidUTF16SurrogateException\s*\(\s*ch\s*,\s*getMemoryManager\s*\(\s*\)\s*\)\s*;\s*\}"
              r"\s*else\s*\{\s*next\s*=\s*chars\s*\[\s*\+\+i\s*\]\s*;\s*if\s*\(\s*!\s*\(\s*(\w+)\s*<=\s*next\s*&&\s*next\s*<\s*(\w+)\s*\)\s*\)\s*\{\s*throwInvalidUTF16SurrogateException\s*\(\s*ch\s*,\s*XalanDOMChar\s*\(\s*next\s*\)\s*,\s*getMemoryManager\s*\(\s*\)\s*\)\s*;\s*\}"
              r"\s*next\s*=\s*\(\s*\(\s*ch\s*-\s*(\w+)\s*\)\s*<<\s*(\d+)\s*\)\s*\+\s*next\s*-\s*(\w+)\s*\+\s*(\w+)\s*;\s*\}", esc, "accumDefaultEscape surrogate branch")
    hi_lo, hi_end, lo_lo, lo_end, sub_hi, shift, sub_lo, add = [num(x) for x in mm.groups()]
    if (hi_lo, hi_end, lo_lo, lo_end, sub_hi, shift, sub_lo, add) != (0xD800, 0xDC00, 0xDC00, 0xE000, 0xD800, 10, 0xDC00, 0x10000):
        raise AnchorError("accumDefaultEscape: surrogate constants changed")
    after = esc[mm.end():]
    sur_escape = one_of(after, [
        r"^\s*writeNumberedEntityReference\s*\(\s*next\s*\)\s*;\s*\}\s*else\s*\{\s*if\s*\(\s*ch\s*>\s*m_maxCharacter",
        r"^\s*if\s*\(\s*ch\s*>\s*m_maxCharacter\s*\)\s*\{\s*writeNumberedEntityReference\s*\(\s*next\s*\)\s*;\s*\}\s*else\s*\{\s*accumContent\s*\(\s*ch\s*\)\s*;\s*accumContent\s*\(\s*chars\s*\[\s*i\s*\]\s*\)\s*;\s*\}\s*\}"
        r"\s*else\s+if\s*\(\s*0xdc00\s*<=\s*ch\s*&&\s*ch\s*<\s*0xe000\s*\)\s*\{\s*throwInvalidUTF16SurrogateException\s*\(\s*ch\s*,\s*getMemoryManager\s*\(\s*\)\s*\)\s*;\s*\}\s*else\s*\{\s*if\s*\(\s*ch\s*>\s*m_maxCharacter",
    ], "accumDefaultEscape: what follows the surrogate pair")
    mm = need(r"if\s*\(\s*ch\s*>\s*m_maxCharacter\s*\|\|\s*\(\s*m_isXML1_1\s*==\s*true\s*&&\s*(XalanUnicode::char\w+)\s*==\s*ch\s*\)\s*\)\s*\{\s*writeNumberedEntityReference\s*\(\s*ch\s*\)\s*;\s*\}"
              r"\s*else\s+if\s*\(\s*ch\s*<\s*SPECIALSSIZE\s*&&\s*m_attrCharsMap\s*\[\s*ch\s*\]\s*==\s*'S'\s*\)\s*\{\s*if\s*\(\s*ch\s*<\s*(\w+)\s*&&\s*m_isXML1_1\s*==\s*false\s*&&((?:\s*ch\s*!=\s*XalanUnicode::char\w+\s*&&)*\s*ch\s*!=\s*XalanUnicode::char\w+)\s*\)"
              r"\s*\{\s*throwInvalidCharacterException\s*\(\s*ch\s*,\s*getMemoryManager\s*\(\s*\)\s*\)\s*;\s*\}\s*else\s*\{\s*writeNumberedEntityReference\s*\(\s*ch\s*\)\s*;\s*\}\s*\}\s*else\s*\{\s*accumContent\s*\(\s*ch\s*\)\s*;\s*\}", esc, "accumDefaultEscape ordinary branch")
    lsep = val(mm.group(1), U)
    ctl_below = num(mm.group(2))
    ctl_except = [val(x, U) for x in re.findall(r"ch\s*!=\s*(XalanUnicode::char\w+)", mm.group(3))]

    # ---- loops of characters() and writeAttrString()
    chb = function_body(cpp, r"FormatterToXML::characters\s*\([^)]*\)\s*\{", "characters")
    wab = function_body(cpp, r"FormatterToXML::writeAttrString\s*\([^)]*\)\s*\{", "writeAttrString")

    def loop_shape(body, arr, esclf, what):
        k = one_of(body, [
            r"if\s*\(\s*\(\s*ch\s*<\s*SPECIALSSIZE\s*&&\s*%s\s*\[\s*ch\s*\]\s*==\s*'S'\s*\)\s*\|\|\s*ch\s*>\s*m_maxCharacter\s*\|\|\s*\(\s*m_isXML1_1\s*==\s*true\s*&&\s*XalanUnicode::charLSEP\s*==\s*ch\s*\)\s*\)" % arr,
            r"if\s*\(\s*\(\s*ch\s*<\s*SPECIALSSIZE\s*&&\s*%s\s*\[\s*ch\s*\]\s*==\s*'S'\s*\)\s*\|\|\s*ch\s*>\s*m_maxCharacter\s*\|\|\s*\(\s*0xd800\s*<=\s*ch\s*&&\s*ch\s*<\s*0xe000\s*\)\s*\|\|\s*\(\s*m_isXML1_1\s*==\s*true\s*&&\s*XalanUnicode::charLSEP\s*==\s*ch\s*\)\s*\)" % arr,
        ], what + ": loop condition")
        need(r"accumContent\s*\(\s*\w+\s*,\s*firstIndex\s*,\s*i\s*-\s*firstIndex\s*\)\s*;\s*i\s*=\s*accumDefaultEscape\s*\(\s*ch\s*,\s*i\s*,\s*\w+\s*,\s*\w+\s*,\s*%s\s*\)\s*;\s*\+\+i\s*;\s*firstIndex\s*=\s*i\s*;" % esclf,
             body, what + ": escape call")
        return k
    sur_chars = loop_shape(chb, "m_charsMap", "false", "characters")
    sur_attr = loop_shape(wab, "m_attrCharsMap", "true", "writeAttrString")

    # ---- writeNormalizedChars / cdata
    wnc = function_body(cpp, r"FormatterToXML::writeNormalizedChars\s*\([^)]*\)\s*\{", "writeNormalizedChars")
    cdb = function_body(cpp, r"FormatterToXML::cdata\s*\([^)]*\)\s*\{", "cdata")
    cd_a = one_of(wnc, [
        r"if\s*\(\s*XalanUnicode::charCR\s*==\s*c\s*&&\s*i\s*\+\s*1\s*<\s*end\s*&&\s*XalanUnicode::charLF\s*==\s*ch\s*\[\s*i\s*\+\s*1\s*\]\s*\)\s*\{\s*outputLineSep\s*\(\s*\)\s*;\s*i\+\+\s*;\s*\}",
        r"if\s*\(\s*XalanUnicode::charCR\s*==\s*c\s*&&\s*i\s*\+\s*1\s*<\s*end\s*&&\s*XalanUnicode::charLF\s*==\s*ch\s*\[\s*i\s*\+\s*1\s*\]\s*&&\s*\(\s*isCData\s*==\s*false\s*\|\|\s*isReferenceInCDATA\s*\(\s*c\s*\)\s*==\s*false\s*\)\s*\)\s*\{\s*outputLineSep\s*\(\s*\)\s*;\s*i\+\+\s*;\s*\}",
    ], "writeNormalizedChars: CR LF branch")
    need(r"else\s+if\s*\(\s*XalanUnicode::charLF\s*==\s*c\s*\)\s*\{\s*outputLineSep\s*\(\s*\)\s*;\s*\}", wnc, "writeNormalizedChars: LF branch")
    cd_c = one_of(wnc, [
        r"else\s+if\s*\(\s*isCData\s*==\s*true\s*&&\s*c\s*>\s*m_maxCharacter\s*\)\s*\{\s*if\s*\(\s*i\s*!=\s*0\s*\)\s*\{\s*accumContent\s*\(\s*s_dtdCDATACloseString\s*,\s*0\s*,\s*s_dtdCDATACloseStringLength\s*\)\s*;\s*\}",
        r"else\s+if\s*\(\s*isCData\s*==\s*true\s*&&\s*isReferenceInCDATA\s*\(\s*c\s*\)\s*==\s*true\s*\)\s*\{\s*if\s*\(\s*c\s*<\s*0x20\s*&&\s*c\s*!=\s*XalanUnicode::charCR\s*&&\s*m_isXML1_1\s*==\s*false\s*\)\s*\{\s*throwInvalidCharacterException\s*\(\s*c\s*,\s*getMemoryManager\s*\(\s*\)\s*\)\s*;\s*\}"
        r"\s*if\s*\(\s*i\s*!=\s*0\s*\)\s*\{\s*accumContent\s*\(\s*s_dtdCDATACloseString\s*,\s*0\s*,\s*s_dtdCDATACloseStringLength\s*\)\s*;\s*\}",
    ], "writeNormalizedChars: reference branch")
    need(r"if\s*\(\s*i\s*<\s*end\s*-\s*1\s*\)\s*\{\s*accumContent\s*\(\s*XalanUnicode::charLessThanSign\s*\)\s*;", wnc, "writeNormalizedChars: the section is opened again when i < end - 1")
    if re.search(r"i\s*!=\s*0\s*&&\s*i\s*<\s*end\s*-\s*1", wnc):
        raise AnchorError("writeNormalizedChars: pre-116f035 shape (not modelled)")
    need(r"else\s+if\s*\(\s*isCData\s*==\s*true\s*&&\s*i\s*<\s*end\s*-\s*2\s*&&\s*XalanUnicode::charRightSquareBracket\s*==\s*c\s*&&\s*XalanUnicode::charRightSquareBracket\s*==\s*ch\s*\[\s*i\s*\+\s*1\s*\]\s*&&\s*XalanUnicode::charGreaterThanSign\s*==\s*ch\s*\[\s*i\s*\+\s*2\s*\]\s*\)",
         wnc, "writeNormalizedChars: ']]>' branch")
    mm = need(r"XalanUnicode::charGreaterThanSign\s*==\s*ch\s*\[\s*i\s*\+\s*2\s*\]\s*\)\s*\{((?:\s*accumContent\s*\(\s*XalanUnicode::char\w+\s*\)\s*;)+)\s*i\s*\+=\s*2\s*;\s*\}", wnc, "writeNormalizedChars: ']]>' output")
    split_out = [val(x, U) for x in re.findall(r"accumContent\s*\(\s*(XalanUnicode::char\w+)\s*\)", mm.group(1))]
    mm = need(r"if\s*\(\s*i\s*<\s*end\s*-\s*1\s*\)\s*\{((?:\s*accumContent\s*\(\s*XalanUnicode::char\w+\s*\)\s*;)+)\s*\}", wnc, "writeNormalizedChars: reopen output")
    cd_open = [val(x, U) for x in re.findall(r"accumContent\s*\(\s*(XalanUnicode::char\w+)\s*\)", mm.group(1))]
    mm = need(r"s_dtdCDATACloseString\s*\[\s*\]\s*=\s*\{(.*?)\}\s*;", cpp, "s_dtdCDATACloseString")
    cd_close = [val(e, U) for e in mm.group(1).split(",") if e.strip()]
    if cd_close[-1] != 0:
        raise AnchorError("s_dtdCDATACloseString not NUL-terminated")
    cd_close = cd_close[:-1]
    # surrogates inside writeNormalizedChars
    sur_c = one_of(wnc, [
        r"0xdc00u\s*\+\s*0x00010000u\s*\)\s*;\s*\}\s*else\s*\{\s*writeNumberedEntityReference\s*\(\s*c\s*\)\s*;\s*\}\s*if\s*\(\s*i\s*<\s*end\s*-\s*1\s*\)",
        r"0xdc00u\s*\+\s*0x00010000u\s*\)\s*;\s*\}\s*else\s+if\s*\(\s*0xdc00u\s*<=\s*unsigned\s*\(\s*c\s*\)\s*&&\s*unsigned\s*\(\s*c\s*\)\s*<\s*0xe000u\s*\)\s*\{\s*throwInvalidUTF16SurrogateException\s*\(\s*c\s*,\s*getMemoryManager\s*\(\s*\)\s*\)\s*;\s*\}\s*else\s*\{\s*writeNumberedEntityReference\s*\(\s*c\s*\)\s*;\s*\}\s*if\s*\(\s*i\s*<\s*end\s*-\s*1\s*\)",
    ], "writeNormalizedChars: reference branch, low surrogate")
    sur_e = one_of(wnc, [
        r"else\s*\{\s*if\s*\(\s*c\s*<=\s*m_maxCharacter\s*\)\s*\{\s*accumContent\s*\(\s*c\s*\)\s*;\s*\}\s*else\s+if\s*\(\s*0xd800\s*<=\s*c\s*&&\s*c\s*<\s*0xdc00\s*\)",
        r"else\s*\{\s*if\s*\(\s*c\s*<=\s*m_maxCharacter\s*\)\s*\{\s*if\s*\(\s*0xd800\s*<=\s*c\s*&&\s*c\s*<\s*0xe000\s*\)\s*\{\s*if\s*\(\s*c\s*>=\s*0xdc00\s*\|\|\s*i\s*\+\s*1\s*>=\s*end\s*\|\|\s*!\s*\(\s*0xdc00\s*<=\s*ch\s*\[\s*i\s*\+\s*1\s*\]\s*&&\s*ch\s*\[\s*i\s*\+\s*1\s*\]\s*<\s*0xe000\s*\)\s*\)"
        r"\s*\{\s*throwInvalidUTF16SurrogateException\s*\(\s*c\s*,\s*getMemoryManager\s*\(\s*\)\s*\)\s*;\s*\}\s*accumContent\s*\(\s*c\s*\)\s*;\s*accumContent\s*\(\s*ch\s*\[\s*\+\+i\s*\]\s*\)\s*;\s*\}\s*else\s*\{\s*accumContent\s*\(\s*c\s*\)\s*;\s*\}\s*\}"
        r"\s*else\s+if\s*\(\s*0xdc00\s*<=\s*c\s*&&\s*c\s*<\s*0xe000\s*\)\s*\{\s*throwInvalidUTF16SurrogateException\s*\(\s*c\s*,\s*getMemoryManager\s*\(\s*\)\s*\)\s*;\s*\}\s*else\s+if\s*\(\s*0xd800\s*<=\s*c\s*&&\s*c\s*<\s*0xdc00\s*\)",
    ], "writeNormalizedChars: ordinary branch, surrogates")
    need(r"if\s*\(\s*0xd800u\s*<=\s*unsigned\s*\(\s*c\s*\)\s*&&\s*unsigned\s*\(\s*c\s*\)\s*<\s*0xdc00\s*\)\s*\{\s*XalanDOMChar\s+next\s*=\s*0\s*;\s*if\s*\(\s*i\s*\+\s*1\s*>=\s*end\s*\)\s*\{\s*throwInvalidUTF16SurrogateException\s*\(\s*c\s*,\s*getMemoryManager\s*\(\s*\)\s*\)\s*;\s*\}"
         r"\s*else\s*\{\s*next\s*=\s*ch\s*\[\s*\+\+i\s*\]\s*;\s*if\s*\(\s*!\s*\(\s*0xdc00\s*<=\s*next\s*&&\s*next\s*<\s*0xe000\s*\)\s*\)\s*\{\s*throwInvalidUTF16SurrogateException\s*\(\s*c\s*,\s*next\s*,\s*getMemoryManager\s*\(\s*\)\s*\)\s*;\s*\}\s*\}"
         r"\s*writeNumberedEntityReference\s*\(\s*\(\s*\(\s*XalanUnicodeChar\s*\(\s*c\s*\)\s*-\s*0xd800u\s*\)\s*<<\s*10\s*\)\s*\+\s*next\s*-\s*0xdc00u\s*\+\s*0x00010000u\s*\)\s*;", wnc, "writeNormalizedChars: reference branch, high surrogate")
    # cdata(): opening / closing tests
    need(r"writeNormalizedChars\s*\(\s*ch\s*,\s*0\s*,\s*length\s*,\s*!\s*m_stripCData\s*\)\s*;", cdb, "cdata calls writeNormalizedChars")
    cd_first = one_of(cdb, [r"if\s*\(\s*length\s*>=\s*1\s*&&\s*ch\s*\[\s*0\s*\]\s*<=\s*m_maxCharacter\s*\)",
                            r"if\s*\(\s*length\s*>=\s*1\s*&&\s*isReferenceInCDATA\s*\(\s*ch\s*\[\s*0\s*\]\s*\)\s*==\s*false\s*\)"], "cdata: opening test")
    cd_last = one_of(cdb, [r"if\s*\(\s*length\s*>=\s*1\s*&&\s*ch\s*\[\s*length\s*-\s*1\s*\]\s*<=\s*m_maxCharacter\s*\)",
                           r"if\s*\(\s*length\s*>=\s*1\s*&&\s*isReferenceInCDATA\s*\(\s*ch\s*\[\s*length\s*-\s*1\s*\]\s*\)\s*==\s*false\s*\)"], "cdata: closing test")
    mm = need(r"isReferenceInCDATA\s*\(\s*ch\s*\[\s*0\s*\]\s*\)\s*==\s*false\s*\)\s*\{((?:\s*accumContent\s*\(\s*XalanUnicode::char\w+\s*\)\s*;)+)\s*\}|ch\s*\[\s*0\s*\]\s*<=\s*m_maxCharacter\s*\)\s*\{((?:\s*accumContent\s*\(\s*XalanUnicode::char\w+\s*\)\s*;)+)\s*\}", cdb, "cdata: opening string")
    cd_open2 = [val(x, U) for x in re.findall(r"accumContent\s*\(\s*(XalanUnicode::char\w+)\s*\)", mm.group(1) or mm.group(2))]
    if cd_open2 != cd_open:
        raise AnchorError("cdata() and writeNormalizedChars() open the section with different strings")
    cd_sites = [cd_a, cd_c, cd_first, cd_last]
    has_fn = re.search(r"FormatterToXML::isReferenceInCDATA\s*\(", cpp) is not None
    ref_consts = (0, 0, 0)
    ref_only_fn = 0
    if has_fn:
        fb = function_body(cpp, r"FormatterToXML::isReferenceInCDATA\s*\(\s*XalanDOMChar\s+ch\s*\)\s*const\s*\{", "isReferenceInCDATA")
        REFONLY = (r"\s*return\s+ch\s*==\s*XalanUnicode::charCR\s*\|\|\s*\(\s*ch\s*<\s*(\w+)\s*&&\s*ch\s*!=\s*XalanUnicode::charHTab\s*&&\s*ch\s*!=\s*XalanUnicode::charLF\s*\)\s*\|\|"
                   r"\s*\(\s*m_isXML1_1\s*==\s*true\s*&&\s*\(\s*ch\s*==\s*XalanUnicode::charLSEP\s*\|\|\s*\(\s*(\w+)\s*<=\s*ch\s*&&\s*ch\s*<=\s*(\w+)\s*\)\s*\)\s*\)\s*;")
        if re.search(r"return\s+isReferenceOnly\s*\(\s*ch\s*\)\s*;", fb):
            need(r"^\{\s*if\s*\(\s*ch\s*>\s*m_maxCharacter\s*\)\s*\{\s*return\s+true\s*;\s*\}\s*else\s+if\s*\(\s*getOutputFormat\s*\(\s*\)\s*!=\s*OUTPUT_METHOD_XML\s*\)\s*\{\s*return\s+false\s*;\s*\}\s*else\s*\{\s*return\s+isReferenceOnly\s*\(\s*ch\s*\)\s*;\s*\}\s*\}$", fb, "isReferenceInCDATA body (calls isReferenceOnly)")
            fb = "{ if(ch > m_maxCharacter) { return true; } else if(getOutputFormat() != OUTPUT_METHOD_XML) { return false; } else {" + \
                 need(r"^\{(" + REFONLY + r")\s*\}$", function_body(cpp, r"FormatterToXML::isReferenceOnly\s*\(\s*XalanDOMChar\s+ch\s*\)\s*const\s*\{", "isReferenceOnly"), "isReferenceOnly body").group(1) + " } }"
            ref_only_fn = 1
        else:
            ref_only_fn = 0
        mm = need(r"^\{\s*if\s*\(\s*ch\s*>\s*m_maxCharacter\s*\)\s*\{\s*return\s+true\s*;\s*\}\s*else\s+if\s*\(\s*getOutputFormat\s*\(\s*\)\s*!=\s*OUTPUT_METHOD_XML\s*\)\s*\{\s*return\s+false\s*;\s*\}\s*else\s*\{"
                  r"\s*return\s+ch\s*==\s*XalanUnicode::charCR\s*\|\|\s*\(\s*ch\s*<\s*(\w+)\s*&&\s*ch\s*!=\s*XalanUnicode::charHTab\s*&&\s*ch\s*!=\s*XalanUnicode::charLF\s*\)\s*\|\|"
                  r"\s*\(\s*m_isXML1_1\s*==\s*true\s*&&\s*\(\s*ch\s*==\s*XalanUnicode::charLSEP\s*\|\|\s*\(\s*(\w+)\s*<=\s*ch\s*&&\s*ch\s*<=\s*(\w+)\s*\)\s*\)\s*\)\s*;\s*\}\s*\}$", fb, "isReferenceInCDATA body")
        ref_consts = tuple(num(x) for x in mm.groups())
        if ref_consts != (0x20, 0x7F, 0x9F):
            raise AnchorError("isReferenceInCDATA: constants changed")
    if not (all(x == 0 for x in cd_sites) and not has_fn) and not (all(x == 1 for x in cd_sites) and has_fn):
        raise AnchorError("CDATA sites are in different variants: %r, isReferenceInCDATA %s" % (cd_sites, has_fn))
    sur_sites = [sur_escape, sur_chars, sur_attr, sur_c, sur_e]
    if len(set(sur_sites)) != 1:
        raise AnchorError("surrogate sites are in different variants: %r" % (sur_sites,))

    # ---- comment / PI / element markup
    def name_seq(body, what):
        return [val(x, U) for x in re.findall(r"accumName\s*\(\s*(XalanUnicode::char\w+)\s*\)", body)]
    cmt = function_body(cpp, r"FormatterToXML::comment\s*\(\s*const\s+XMLCh\s*\*\s*const\s+data\s*\)\s*\{", "comment")
    mm = need(r"((?:accumName\s*\(\s*XalanUnicode::char\w+\s*\)\s*;\s*)+)accumCommentData\s*\(\s*data\s*\)\s*;\s*((?:accumName\s*\(\s*XalanUnicode::char\w+\s*\)\s*;\s*)+)m_startNewLine\s*=\s*true\s*;", cmt, "comment body")
    c_open, c_close = name_seq(mm.group(1), "comment"), name_seq(mm.group(2), "comment")
    b = function_body(cpp, r"FormatterToXML::accumCommentData\s*\([^)]*\)\s*\{", "accumCommentData")
    chk_comment = one_of(b, [r"^\{\s*accumContent\s*\(\s*data\s*\)\s*;\s*\}$",
                             r"^\{\s*accumMarkupData\s*\(\s*data\s*,\s*length\s*\(\s*data\s*\)\s*\)\s*;\s*\}$"], "accumCommentData body")
    pib = function_body(cpp, r"FormatterToXML::processingInstruction\s*\([^)]*\)\s*\{", "processingInstruction")
    mm = need(r"((?:accumName\s*\(\s*XalanUnicode::char\w+\s*\)\s*;\s*)+)accumName\s*\(\s*target\s*\)\s*;\s*const\s+XalanDOMString::size_type\s+len\s*=\s*length\s*\(\s*data\s*\)\s*;\s*if\s*\(\s*len\s*>\s*0\s*&&\s*!\s*isXMLWhitespace\s*\(\s*data\s*\[\s*0\s*\]\s*\)\s*\)"
              r"\s*\{\s*accumName\s*\(\s*(XalanUnicode::char\w+)\s*\)\s*;\s*\}\s*accumNormalizedPIData\s*\(\s*data\s*,\s*len\s*\)\s*;\s*((?:accumName\s*\(\s*XalanUnicode::char\w+\s*\)\s*;\s*)+)m_startNewLine\s*=\s*true\s*;", pib, "processingInstruction body")
    p_open, p_sep, p_close = name_seq(mm.group(1), "pi"), val(mm.group(2), U), name_seq(mm.group(3), "pi")
    b = function_body(cpp, r"FormatterToXML::accumNormalizedPIData\s*\([^)]*\)\s*\{", "accumNormalizedPIData")
    chk_pi = one_of(b, [r"^\{\s*for\s*\(\s*size_type\s+i\s*=\s*0\s*;\s*i\s*<\s*theLength\s*;\s*\+\+i\s*\)\s*\{\s*accumContent\s*\(\s*theData\s*\[\s*i\s*\]\s*\)\s*;\s*\}\s*\}$",
                        r"^\{\s*accumMarkupData\s*\(\s*theData\s*,\s*theLength\s*\)\s*;\s*\}$"], "accumNormalizedPIData body")
    chk_sites = [chk_name, chk_name_direct, chk_comment, chk_pi, ref_only_fn]
    if len(set(chk_sites)) != 1:
        raise AnchorError("comment / PI / name sites are in different variants: %r" % (chk_sites,))
    if chk_sites[0] == 1:
        if cd_sites[0] != 1 or sur_sites[0] != 1:
            raise AnchorError("12-K-new-8 shape without 10-K-new-7 / 11-K-new-4")
        b = function_body(cpp, r"FormatterToXML::accumMarkupData\s*\([^)]*\)\s*\{", "accumMarkupData")
        need(r"^\{\s*size_type\s+firstIndex\s*=\s*0\s*;\s*for\s*\(\s*size_type\s+i\s*=\s*0\s*;\s*i\s*<=\s*theLength\s*;\s*\+\+i\s*\)\s*\{\s*if\s*\(\s*i\s*==\s*theLength\s*\|\|\s*XalanUnicode::charLF\s*==\s*theData\s*\[\s*i\s*\]\s*\)"
             r"\s*\{\s*accumMarkupRun\s*\(\s*theData\s*\+\s*firstIndex\s*,\s*i\s*-\s*firstIndex\s*\)\s*;\s*if\s*\(\s*i\s*<\s*theLength\s*\)\s*\{\s*accumContent\s*\(\s*theData\s*\[\s*i\s*\]\s*\)\s*;\s*\}\s*firstIndex\s*=\s*i\s*\+\s*1\s*;\s*\}"
             r"\s*else\s+if\s*\(\s*isReferenceOnly\s*\(\s*theData\s*\[\s*i\s*\]\s*\)\s*==\s*true\s*\)\s*\{\s*throwInvalidCharacterException\s*\(\s*theData\s*\[\s*i\s*\]\s*,\s*getMemoryManager\s*\(\s*\)\s*\)\s*;\s*\}\s*\}\s*\}$", b, "accumMarkupData body")
        b = function_body(cpp, r"FormatterToXML::accumMarkupRun\s*\([^)]*\)\s*\{", "accumMarkupRun")
        need(r"^\{\s*for\s*\(\s*size_type\s+i\s*=\s*0\s*;\s*i\s*<\s*theLength\s*;\s*\+\+i\s*\)\s*\{\s*const\s+XalanDOMChar\s+ch\s*=\s*theData\s*\[\s*i\s*\]\s*;\s*if\s*\(\s*0xd800\s*<=\s*ch\s*&&\s*ch\s*<\s*0xe000\s*\)\s*\{"
             r"\s*if\s*\(\s*ch\s*>=\s*0xdc00\s*\|\|\s*i\s*\+\s*1\s*>=\s*theLength\s*\)\s*\{\s*throwInvalidUTF16SurrogateException\s*\(\s*ch\s*,\s*getMemoryManager\s*\(\s*\)\s*\)\s*;\s*\}"
             r"\s*else\s+if\s*\(\s*!\s*\(\s*0xdc00\s*<=\s*theData\s*\[\s*i\s*\+\s*1\s*\]\s*&&\s*theData\s*\[\s*i\s*\+\s*1\s*\]\s*<\s*0xe000\s*\)\s*\)\s*\{\s*throwInvalidUTF16SurrogateException\s*\(\s*ch\s*,\s*theData\s*\[\s*i\s*\+\s*1\s*\]\s*,\s*getMemoryManager\s*\(\s*\)\s*\)\s*;\s*\}"
             r"\s*else\s+if\s*\(\s*ch\s*>\s*m_maxCharacter\s*\)\s*\{\s*throwUnrepresentableCharacterException\s*\([^;]*\)\s*;\s*\}\s*accumContent\s*\(\s*ch\s*\)\s*;\s*accumContent\s*\(\s*theData\s*\[\s*\+\+i\s*\]\s*\)\s*;\s*\}"
             r"\s*else\s+if\s*\(\s*ch\s*>\s*m_maxCharacter\s*\)\s*\{\s*throwUnrepresentableCharacterException\s*\(\s*ch\s*\)\s*;\s*\}\s*else\s*\{\s*accumContent\s*\(\s*ch\s*\)\s*;\s*\}\s*\}\s*\}$", b, "accumMarkupRun body")
        b = function_body(cpp, r"FormatterToXML::throwUnrepresentableCharacterException\s*\([^)]*\)\s*\{", "throwUnrepresentableCharacterException")
        need(r"throw\s+XalanTranscodingServices::UnrepresentableCharacterException\s*\(\s*ch\s*,\s*m_encoding\s*,\s*theBuffer\s*\)\s*;", b, "throwUnrepresentableCharacterException body")

    # ---- the raw marker
    flc = strip_comments(sf.read("PlatformSupport/FormatterListener.cpp"))

    def c_array(name):
        m = need(r"FormatterListener::%s\s*\[\s*\]\s*=\s*\{(.*?)\}\s*;" % name, flc, "FormatterListener::" + name)
        v = [val(e, U) for e in m.group(1).split(",") if e.strip()]
        if not v or v[-1] != 0 or 0 in v[:-1]:
            raise AnchorError("FormatterListener::%s is not a NUL-terminated string" % name)
        return v[:-1]
    raw_target, raw_data = c_array("s_piTarget"), c_array("s_piData")
    if num(need(r"FormatterListener::s_piTargetLength\s*=\s*(\w+)\s*;", flc, "s_piTargetLength").group(1)) != len(raw_target) or \
       num(need(r"FormatterListener::s_piDataLength\s*=\s*(\w+)\s*;", flc, "s_piDataLength").group(1)) != len(raw_data):
        raise AnchorError("s_piTargetLength / s_piDataLength do not match the strings")
    MARK = (r"if\s*\(\s*equals\s*\(\s*target\s*,\s*length\s*\(\s*target\s*\)\s*,\s*s_piTarget\s*,\s*s_piTargetLength\s*\)\s*==\s*true\s*&&"
            r"\s*equals\s*\(\s*data\s*,\s*length\s*\(\s*data\s*\)\s*,\s*s_piData\s*,\s*s_piDataLength\s*\)\s*==\s*true\s*\)\s*\{\s*m_nextIsRaw\s*=\s*true\s*;\s*\}\s*else\s*\{")
    need(MARK, pib, "FormatterToXML::processingInstruction: the marker sets m_nextIsRaw")
    # characters(): if(m_inCData) cdata(); else if(m_nextIsRaw) { m_nextIsRaw = false; charactersRaw(); } else ...
    need(r"^\{\s*if\s*\(\s*length\s*!=\s*0\s*\)\s*\{\s*if\s*\(\s*m_inCData\s*==\s*true\s*\)\s*\{\s*cdata\s*\(\s*chars\s*,\s*length\s*\)\s*;\s*\}"
         r"\s*else\s+if\s*\(\s*m_nextIsRaw\s*\)\s*\{\s*m_nextIsRaw\s*=\s*false\s*;\s*charactersRaw\s*\(\s*chars\s*,\s*length\s*\)\s*;\s*\}\s*else\s*\{\s*writeParentTagEnd\s*\(\s*\)\s*;",
         chb, "FormatterToXML::characters: the raw branch clears m_nextIsRaw")
    need(r"^\{\s*if\s*\(\s*m_nextIsRaw\s*==\s*true\s*\)\s*\{\s*m_nextIsRaw\s*=\s*false\s*;\s*charactersRaw\s*\(\s*ch\s*,\s*length\s*\)\s*;\s*\}\s*else\s*\{\s*if\s*\(\s*m_escapeCData\s*\)",
         cdb, "FormatterToXML::cdata: the raw branch clears m_nextIsRaw")
    crb = function_body(cpp, r"FormatterToXML::charactersRaw\s*\([^)]*\)\s*\{", "FormatterToXML::charactersRaw")
    need(r"^\{\s*writeParentTagEnd\s*\(\s*\)\s*;\s*m_ispreserve\s*=\s*true\s*;\s*accumContent\s*\(\s*chars\s*,\s*0\s*,\s*length\s*\)\s*;", crb, "FormatterToXML::charactersRaw body")
    if len(re.findall(r"m_nextIsRaw\s*=\s*true", cpp)) != 1:
        raise AnchorError("FormatterToXML: m_nextIsRaw is set in more than one place")
    # the same protocol in the new serializer (XalanXMLSerializerBase)
    xsb = strip_comments(sf.read("XMLSupport/XalanXMLSerializerBase.cpp"))
    b = function_body(xsb, r"XalanXMLSerializerBase::characters\s*\([^)]*\)\s*\{", "XalanXMLSerializerBase::characters")
    need(r"^\{\s*if\s*\(\s*length\s*!=\s*0\s*\)\s*\{\s*if\s*\(\s*m_nextIsRaw\s*\)\s*\{\s*m_nextIsRaw\s*=\s*false\s*;\s*charactersRaw\s*\(\s*chars\s*,\s*length\s*\)\s*;\s*\}\s*else\s*\{\s*writeCharacters\s*\(\s*chars\s*,\s*length\s*\)\s*;\s*\}\s*\}\s*\}$",
         b, "XalanXMLSerializerBase::characters: the raw branch clears m_nextIsRaw")
    b = function_body(xsb, r"XalanXMLSerializerBase::cdata\s*\([^)]*\)\s*\{", "XalanXMLSerializerBase::cdata")
    need(r"^\{\s*if\s*\(\s*length\s*!=\s*0\s*\)\s*\{\s*if\s*\(\s*m_nextIsRaw\s*==\s*true\s*\)\s*\{\s*m_nextIsRaw\s*=\s*false\s*;\s*charactersRaw\s*\(\s*ch\s*,\s*length\s*\)\s*;\s*\}\s*else\s*\{\s*writeCDATA\s*\(\s*ch\s*,\s*length\s*\)\s*;\s*\}\s*\}\s*\}$",
         b, "XalanXMLSerializerBase::cdata: the raw branch clears m_nextIsRaw")
    b = function_body(xsb, r"XalanXMLSerializerBase::processingInstruction\s*\([^)]*\)\s*\{", "XalanXMLSerializerBase::processingInstruction")
    need(r"^\{\s*" + MARK + r"\s*writeProcessingInstruction\s*\(\s*target\s*,\s*data\s*\)\s*;\s*\}\s*\}$", b, "XalanXMLSerializerBase::processingInstruction: the marker")
    fxu = strip_comments(sf.read("XMLSupport/FormatterToXMLUnicode.hpp"))
    b = function_body(fxu, r"\bcharactersRaw\s*\(\s*const\s+XMLCh\s*\*\s*const\s+chars\s*,\s*const\s+size_type\s+length\s*\)\s*\{", "FormatterToXMLUnicode::charactersRaw")
    need(r"^\{\s*writeParentTagEnd\s*\(\s*\)\s*;\s*m_indentHandler\.setPreserve\s*\(\s*true\s*\)\s*;\s*m_writer\.write\s*\(\s*chars\s*,\s*length\s*\)\s*;\s*m_indentHandler\.setPrevText\s*\(\s*true\s*\)\s*;\s*\}$", b, "FormatterToXMLUnicode::charactersRaw body")

    o = HEADER
    o += "(* plugin translator/gen_serlegacy.py: the legacy XML serializer FormatterToXML (C04, part legacy) *)\n"
    o += "From Coq Require Import NArith List.\nImport ListNotations.\nLocal Open Scope N_scope.\n\n"
    o += "Definition lg_specials_size : N := %d.\n" % size
    o += "Definition lg_attr_special_chars : list N := %s.\n" % nlist(attr_special)
    o += "(* initAttrCharsMap after the m_attrSpecialChars loop: single entries and inclusive ranges set to 'S' *)\n"
    o += "Definition lg_attr_sets : list N := %s.\n" % nlist([x[1] for x in attr_ops if x[0] == "set"])
    o += "Definition lg_attr_ranges : list (N * N) := [%s].\n" % "; ".join("(%d, %d)" % (x[1], x[2]) for x in attr_ops if x[0] == "range")
    o += "(* initCharsMap: entries and ranges set, then entries cleared, then the loop k = m_maxCharacter .. SPECIALSSIZE - 1 *)\n"
    o += "Definition lg_chars_sets : list N := %s.\n" % nlist([x[1] for x in chars_ops if x[0] == "set"])
    o += "Definition lg_chars_ranges : list (N * N) := [%s].\n" % "; ".join("(%d, %d)" % (x[1], x[2]) for x in chars_ops if x[0] == "range")
    o += "Definition lg_chars_cleared : list N := %s.\n" % nlist([x[1] for x in chars_ops if x[0] == "clear"])
    o += "(* accumDefaultEntity: (character, what is written) *)\n"
    o += "Definition lg_entities : list (N * list N) := [%s].\n" % ";\n   ".join("(%d, %s)" % (c, nlist(u)) for c, u in entities)
    o += "Definition lg_name_substitute : N := %d.\n" % name_subst
    o += "Definition lg_max_character_values : list N := %s.\n" % nlist(maxvals)
    o += "Definition lg_lsep : N := %d.\n" % lsep
    o += "Definition lg_control_below : N := %d.\n" % ctl_below
    o += "Definition lg_control_allowed_1_0 : list N := %s.\n" % nlist(ctl_except)
    o += "Definition lg_cdata_open : list N := %s.\n" % nlist(cd_open)
    o += "Definition lg_cdata_close : list N := %s.\n" % nlist(cd_close)
    o += "Definition lg_cdata_split : list N := %s.\n" % nlist(split_out)
    o += "Definition lg_comment_open : list N := %s.\nDefinition lg_comment_close : list N := %s.\n" % (nlist(c_open), nlist(c_close))
    o += "Definition lg_pi_open : list N := %s.\nDefinition lg_pi_sep : N := %d.\nDefinition lg_pi_close : list N := %s.\n" % (nlist(p_open), p_sep, nlist(p_close))
    o += "(* the raw marker: processingInstruction(lg_raw_target, lg_raw_data) sets m_nextIsRaw *)\n"
    o += "Definition lg_raw_target : list N := %s.\nDefinition lg_raw_data : list N := %s.\n" % (nlist(raw_target), nlist(raw_data))
    o += "\n(* variants (each flag: every site it covers has the same one of two recognised shapes) *)\n"
    o += "Definition legacy_cdata_cr_referenced : bool := %s.\n" % ("true" if cd_sites[0] == 1 else "false")
    o += "Definition legacy_detects_lone_low_surrogate : bool := %s.\n" % ("true" if sur_sites[0] == 1 else "false")
    o += "Definition legacy_checks_comment_pi_names : bool := %s.\n" % ("true" if chk_sites[0] == 1 else "false")
    facts = {"attr_special": attr_special, "entities": len(entities), "max_values": maxvals,
             "cdata_cr_referenced": cd_sites[0] == 1, "detects_lone_low_surrogate": sur_sites[0] == 1,
             "checks_comment_pi_names": chk_sites[0] == 1}
    return o, facts


GENERATORS = {"GenSerLegacy": gen_serlegacy}
