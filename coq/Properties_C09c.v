(* Properties_C09c.v — C09 part "compile": obligations about the match-pattern compiler model (PatcDefs.v), the
   node-test / score model (PatcScoreDefs.v) and their composition with the matcher theorems of Properties_C09.v.
   Only statements, `exact`, Print Assumptions and Examples. *)
From Coq Require Import List NArith Bool Arith.
Import ListNotations.
Require Import XV.XpAst XV.GenXpc XV.GenPatc XV.XpcLexDefs XV.XpcParseDefs XV.PatcDefs XV.PatcScoreDefs.
Require Import XV.PatcModel XV.PatcScoreModel.

(** The pattern compiler never runs out of fuel: every token list / string is compiled or refused. *)
Theorem pattern_parse_fuel_sufficient : forall fl ns ts, pparse fl ns ts <> Fuel.
Proof. exact pparse_fuel_sufficient_m. Qed.
Print Assumptions pattern_parse_fuel_sufficient.

Theorem pattern_compile_total : forall fl ns s, pcompile fl ns s <> Fuel.
Proof. exact pcompile_total_m. Qed.
Print Assumptions pattern_compile_total.

(** Scores.  A node test of a compiled step (never eNODETYPE_ROOT) scores eMatchScoreNone exactly when the test function
    the NodeTester constructor picks refuses the node. *)
Theorem score_none_iff_no_match : forall t attr x, step_test t = true ->
  (node_test_score t attr x = ScNone <-> tester_accepts (pick_tester t attr) x = false).
Proof. exact score_none_iff_no_match_m. Qed.
Print Assumptions score_none_iff_no_match.

(** The class of a match depends only on the shape of the test (QName / NCName:* / other node tests): what XSLT 5.5
    default priorities are computed from. *)
Theorem score_class_by_test_shape : forall t attr x, step_test t = true ->
  node_test_score t attr x <> ScNone -> node_test_score t attr x = test_class t.
Proof. exact score_class_by_test_shape_m. Qed.
Print Assumptions score_class_by_test_shape.

(** A name test with a local part matches exactly the nodes of the principal node type whose expanded name equals the
    expanded name of the test (prefix replaced by its URI at compile time; no prefix = null namespace). *)
Theorem name_test_matches_iff_expanded_names_equal : forall t attr x u l,
  test_expanded_name t = Some (u, l) ->
  (node_test_score t attr x <> ScNone <-> principal attr (xkind x) = true /\ xns x = u /\ xlocal x = l).
Proof. exact name_test_matches_iff_expanded_names_equal_m. Qed.
Print Assumptions name_test_matches_iff_expanded_names_equal.

(** Run time = compile time: for a one-step alternative without predicates the score of a matching node is the class
    getTargetData reports for the alternative. *)
Theorem single_step_score_is_target_class : forall k t x sc, step_test t = true ->
  (k = PkAttribute \/ k = PkImmediateAncestor) ->
  single_step_score (k, t, []) x = Some sc -> sc <> ScNone -> sc = target_class [(k, t, [])].
Proof. exact single_step_score_is_target_class_m. Qed.
Print Assumptions single_step_score_is_target_class.

Example score_qname : node_test_score (TName (NsUri [117%N]) (Some [97%N])) false (mkX NkElem [117%N] [97%N]) = ScQName.
Proof. reflexivity. Qed.
Example score_nswild : node_test_score (TName (NsUri [117%N]) None) true (mkX NkAttr [117%N] [97%N]) = ScNSWild.
Proof. reflexivity. Qed.
Example score_other_ns : node_test_score (TName NsEmpty (Some [97%N])) false (mkX NkElem [117%N] [97%N]) = ScNone.
Proof. reflexivity. Qed.
