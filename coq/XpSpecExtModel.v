(* XpSpecExtModel.v — the relational semantics of XpSpecDenDefs.v depends on the values of the
   sub-expressions only: if two relations R1, R2 agree on the direct sub-expressions of e (in every
   admissible context), then [expr_den R1 c e] and [expr_den R2 c e] are the same relation. *)
From Coq Require Import ZArith NArith List Bool Arith Lia Relations Sorted.
Require Import XV.XpAst XV.DomDefs XV.NumDefs XV.XpDefs XV.DomModel XV.XpModel
               XV.XpSpecDefs XV.XpSpecStepModel XV.XpSpecEvalModel XV.XpSpecDenDefs.
Import ListNotations.

(** * sets: proximity position and size depend on the extension only *)
Lemma prox_ext ax (S1 S2 : nat -> Prop) x k : (forall y, S1 y <-> S2 y) ->
  (proximity_position ax S1 x k <-> proximity_position ax S2 x k).
Proof.
  intros H. unfold proximity_position. rewrite (H x).
  split; intros [Hx [b [Hb [Hm Hk]]]]; (split; [exact Hx|]); exists b; (split; [exact Hb|]); (split; [|exact Hk]);
    intros y; rewrite (Hm y); [rewrite (H y) | rewrite <- (H y)]; reflexivity.
Qed.

Lemma size_ext (S1 S2 : nat -> Prop) m : (forall y, S1 y <-> S2 y) -> (set_size S1 m <-> set_size S2 m).
Proof.
  intros H. unfold set_size.
  split; intros [a [Ha [Hm Hl]]]; exists a; (split; [exact Ha|]); (split; [|exact Hl]);
    intros y; rewrite (Hm y); [apply H | symmetry; apply H].
Qed.

Lemma pos_size_ext ax (S1 S2 : nat -> Prop) x k m : (forall y, S1 y <-> S2 y) ->
  (pos_size ax S1 x k m <-> pos_size ax S2 x k m).
Proof. intros H. unfold pos_size. rewrite (prox_ext ax S1 S2 x k H), (size_ext S1 S2 m H). reflexivity. Qed.

Lemma preds_setR_sub' pvR ax : forall ps (S : nat -> Prop) x, preds_setR pvR ax S ps x -> S x.
Proof.
  induction ps as [|p ps IH]; intros S x H; cbn [preds_setR] in H; [exact H|].
  apply IH in H. destruct H as [H _]. exact H.
Qed.

Section PathExt.
  Variable d : doc.
  Variable tstP : axis -> ntest -> nat -> Prop.
  Variables pvR1 pvR2 : expr -> nat -> nat -> nat -> value -> Prop.

  (* the two predicate-value relations agree on the expressions of a list, at nodes of the table *)
  Definition agree (pes : list expr) : Prop :=
    forall pe, In pe pes -> forall y k m v, y < length d -> (pvR1 pe y k m v <-> pvR2 pe y k m v).

  Lemma filter_setR_ext ax (S1 S2 : nat -> Prop) pe : (forall y, S1 y <-> S2 y) -> (forall y, S1 y -> y < length d) ->
    agree [pe] -> forall x, filter_setR pvR1 ax S1 pe x <-> filter_setR pvR2 ax S2 pe x.
  Proof.
    intros H Hr Ha x. unfold filter_setR. rewrite <- (H x).
    split; intros [Hx [k [m [v [Hkm [Hv Ht]]]]]]; (split; [exact Hx|]); exists k, m, v;
      (split; [apply (pos_size_ext ax S1 S2 x k m H); exact Hkm|]); (split; [|exact Ht]);
      apply (Ha pe (or_introl eq_refl) x k m v (Hr x Hx)); exact Hv.
  Qed.

  Lemma pred_definedR_ext ax (S1 S2 : nat -> Prop) pe : (forall y, S1 y <-> S2 y) -> (forall y, S1 y -> y < length d) ->
    agree [pe] -> (pred_definedR pvR1 ax S1 pe <-> pred_definedR pvR2 ax S2 pe).
  Proof.
    intros H Hr Ha. unfold pred_definedR.
    split; intros Hd y Hy; [apply H in Hy | apply (H y) in Hy]; destruct (Hd y) as [k [m [v [Hkm Hv]]]];
      try (apply H; exact Hy); try exact Hy; exists k, m, v;
      (split; [apply (pos_size_ext ax S1 S2 y k m H); exact Hkm|]);
      apply (Ha pe (or_introl eq_refl) y k m v); try exact Hv; apply Hr; try exact Hy; apply H; exact Hy.
  Qed.

  Lemma agree_incl l1 l2 : incl l1 l2 -> agree l2 -> agree l1.
  Proof. intros Hi Ha pe Hpe. apply Ha. apply Hi. exact Hpe. Qed.

  Lemma preds_ext ax : forall ps (S1 S2 : nat -> Prop), (forall y, S1 y <-> S2 y) -> (forall y, S1 y -> y < length d) ->
    agree (map snd ps) ->
    (forall x, preds_setR pvR1 ax S1 ps x <-> preds_setR pvR2 ax S2 ps x) /\
    (preds_definedR pvR1 ax S1 ps <-> preds_definedR pvR2 ax S2 ps).
  Proof.
    induction ps as [|p ps IH]; intros S1 S2 H Hr Ha; cbn [preds_setR preds_definedR].
    - split; [exact H | reflexivity].
    - assert (Ha1 : agree [snd p]) by (apply (agree_incl _ (map snd (p :: ps))); [intros z [<-|[]]; left; reflexivity | exact Ha]).
      assert (Ha2 : agree (map snd ps)) by (apply (agree_incl _ (map snd (p :: ps))); [intros z Hz; right; exact Hz | exact Ha]).
      pose proof (filter_setR_ext ax S1 S2 (snd p) H Hr Ha1) as Hf.
      assert (Hr' : forall y, filter_setR pvR1 ax S1 (snd p) y -> y < length d) by (intros y [Hy _]; apply Hr; exact Hy).
      destruct (IH _ _ Hf Hr' Ha2) as [I1 I2]. split; [exact I1|].
      rewrite (pred_definedR_ext ax S1 S2 (snd p) H Hr Ha1), I2. reflexivity.
  Qed.

  Hypothesis Hw : wfd d.

  Definition step_preds (st : step) : list expr := map snd (snd st).

  Lemma step_ext ax t ps n : n < length d -> agree (map snd ps) ->
    (forall x, step_denR d tstP pvR1 (ax, t, ps) n x <-> step_denR d tstP pvR2 (ax, t, ps) n x) /\
    (step_definedR d tstP pvR1 (ax, t, ps) n <-> step_definedR d tstP pvR2 (ax, t, ps) n).
  Proof.
    intros Hn Ha. cbn [step_denR step_definedR]. apply preds_ext; [intros y; reflexivity | | exact Ha].
    intros y [Hy _]. apply (axis_rel_in_range d ax n y Hw Hn Hy).
  Qed.

  Lemma step_denR_in_range pvR st n x : n < length d -> step_denR d tstP pvR st n x -> x < length d.
  Proof.
    destruct st as [[ax t] ps]. cbn [step_denR]. intros Hn H.
    assert (G : forall ps (S : nat -> Prop) x, preds_setR pvR ax S ps x -> S x).
    { clear. induction ps as [|p ps IH]; intros S x H; cbn [preds_setR] in H; [exact H|]. apply IH in H. destruct H as [H _]. exact H. }
    apply G in H. destruct H as [H _]. apply (axis_rel_in_range d ax n x Hw Hn H).
  Qed.

  Lemma path_denR_in_range pvR : forall steps n x, n < length d -> path_denR d tstP pvR steps n x -> x < length d.
  Proof.
    induction steps as [|st rest IH]; intros n x Hn H; cbn [path_denR] in H; [subst; exact Hn|].
    destruct H as [y [Hy Hp]]. apply (IH y x); [eapply step_denR_in_range; eauto | exact Hp].
  Qed.

  Lemma path_ext : forall steps n, n < length d -> agree (flat_map step_preds steps) ->
    (forall x, path_denR d tstP pvR1 steps n x <-> path_denR d tstP pvR2 steps n x) /\
    (path_definedR d tstP pvR1 steps n <-> path_definedR d tstP pvR2 steps n).
  Proof.
    induction steps as [|[[ax t] ps] rest IH]; intros n Hn Ha; cbn [path_denR path_definedR].
    - split; [intros x; reflexivity | reflexivity].
    - assert (Ha1 : agree (map snd ps)) by (apply (agree_incl _ (flat_map step_preds ((ax, t, ps) :: rest))); [|exact Ha];
        intros z Hz; cbn [flat_map]; apply in_or_app; left; exact Hz).
      assert (Ha2 : agree (flat_map step_preds rest)) by (apply (agree_incl _ (flat_map step_preds ((ax, t, ps) :: rest))); [|exact Ha];
        intros z Hz; cbn [flat_map]; apply in_or_app; right; exact Hz).
      destruct (step_ext ax t ps n Hn Ha1) as [S1 S2]. split.
      + intros x. split; intros [y [Hy Hp]]; exists y.
        * split; [apply S1; exact Hy|]. apply (IH y); [eapply step_denR_in_range; eauto | exact Ha2 | exact Hp].
        * split; [apply S1; exact Hy|]. apply S1 in Hy. apply (IH y); [eapply step_denR_in_range; eauto | exact Ha2 | exact Hp].
      + rewrite S2. split; intros [Hd Hall]; (split; [exact Hd|]); intros y Hy.
        * apply S1 in Hy. apply (IH y); [eapply step_denR_in_range; eauto | exact Ha2 | apply Hall; exact Hy].
        * apply (IH y); [eapply step_denR_in_range; eauto | exact Ha2 | apply Hall; apply S1; exact Hy].
  Qed.
End PathExt.

(** * admissible contexts *)
Lemma ctx_ok_with_node c x l : ctx_ok c -> x < length (cx_doc c) -> ctx_ok (with_node c x l).
Proof. intros [A [B [C D]]] Hx. unfold ctx_ok. cbn [with_node cx_doc cx_node cx_vars]. auto. Qed.

Lemma Forall2_ext_in {A B} (P Q : A -> B -> Prop) l1 l2 :
  (forall a b, In a l1 -> (P a b <-> Q a b)) -> (Forall2 P l1 l2 <-> Forall2 Q l1 l2).
Proof.
  intros H. split; intros F; induction F as [|a b l1 l2 Hab _ IH]; constructor;
    try (apply (H a b (or_introl eq_refl)); exact Hab); apply IH; intros a' b' Hin; apply H; right; exact Hin.
Qed.

Lemma nodes_value_ext (P Q : nat -> Prop) v : (forall x, P x <-> Q x) -> (nodes_value P v <-> nodes_value Q v).
Proof.
  intros H. unfold nodes_value. split; intros [r [Hv [Ho Hm]]]; exists r; (split; [exact Hv|]); (split; [exact Ho|]);
    intros x; rewrite (Hm x); [apply H | symmetry; apply H].
Qed.

(** * one level of the semantics is extensional in the values of the direct sub-expressions *)
Theorem expr_den_ext (R1 R2 : ctx -> expr -> value -> Prop) c e :
  ctx_ok c ->
  (forall c' x w, ctx_ok c' -> In x (subexprs e) -> (R1 c' x w <-> R2 c' x w)) ->
  forall v, expr_den R1 c e v <-> expr_den R2 c e v.
Proof.
  intros Hc H v.
  assert (Hbin : forall a b, In a (subexprs e) -> In b (subexprs e) ->
            (forall op, cmp_den R1 c op a b v <-> cmp_den R2 c op a b v) /\
            (forall op, arith_den R1 c op a b v <-> arith_den R2 c op a b v)).
  { intros a b Ia Ib. split; intros op.
    - unfold cmp_den. split; intros [va [vb [r [Ha [Hb Hr]]]]]; exists va, vb, r;
        (split; [apply (H c a va Hc Ia); exact Ha|]); (split; [apply (H c b vb Hc Ib); exact Hb | exact Hr]).
    - unfold arith_den. split; intros [va [vb [Ha [Hb Hr]]]]; exists va, vb;
        (split; [apply (H c a va Hc Ia); exact Ha|]); (split; [apply (H c b vb Hc Ib); exact Hb | exact Hr]). }
  destruct e; cbn [expr_den]; cbn [subexprs] in H, Hbin;
    try (apply (Hbin e1 e2); [left; reflexivity | right; left; reflexivity]);
    try reflexivity.
  - (* or *)
    split; intros [va [Ha Hr]]; exists va; (split; [apply (H c e1 va Hc (or_introl eq_refl)); exact Ha|]);
      (destruct Hr as [Hr|[Hf [vb [Hb Hv]]]]; [left; exact Hr | right; split; [exact Hf|]; exists vb; split; [|exact Hv]]);
      apply (H c e2 vb Hc (or_intror (or_introl eq_refl))); exact Hb.
  - (* and *)
    split; intros [va [Ha Hr]]; exists va; (split; [apply (H c e1 va Hc (or_introl eq_refl)); exact Ha|]);
      (destruct Hr as [Hr|[Hf [vb [Hb Hv]]]]; [left; exact Hr | right; split; [exact Hf|]; exists vb; split; [|exact Hv]]);
      apply (H c e2 vb Hc (or_intror (or_introl eq_refl))); exact Hb.
  - (* neg *)
    split; intros [va [Ha Hr]]; exists va; (split; [|exact Hr]); apply (H c e va Hc (or_introl eq_refl)); exact Ha.
  - (* union *)
    split; intros [sets [HF Hv]]; exists sets; (split; [|exact Hv]);
      (eapply Forall2_ext_in; [|exact HF]); intros a s Ia; [symmetry|]; apply (H c a (VNodes s) Hc Ia).
  - (* group *)
    apply (H c e v Hc (or_introl eq_refl)).
  - (* function call *)
    split; intros [vals [HF Hv]]; exists vals; (split; [|exact Hv]);
      (eapply Forall2_ext_in; [|exact HF]); intros a w Ia; [symmetry|]; apply (H c a w Hc Ia).
  - (* location paths *)
    destruct Hc as [Hw [Hn Hrest]]. assert (Hc : ctx_ok c) by (split; [exact Hw | split; assumption]).
    set (pvR1 := fun pe x k m w => R1 (with_node c x (canon x k m)) pe w).
    set (pvR2 := fun pe x k m w => R2 (with_node c x (canon x k m)) pe w).
    assert (Hag : forall pes, incl pes (subexprs (EPath head hpreds steps)) -> agree (cx_doc c) pvR1 pvR2 pes).
    { intros pes Hi pe Hpe y k m w Hy. unfold pvR1, pvR2. apply H; [apply ctx_ok_with_node; assumption | apply Hi; exact Hpe]. }
    assert (Hsteps : agree (cx_doc c) pvR1 pvR2 (flat_map step_preds steps)).
    { apply Hag. intros z Hz. cbn [subexprs]. apply in_or_app. right. apply in_or_app. right. exact Hz. }
    destruct head as [h|].
    + assert (Hh : In h (subexprs (EPath (Some h) hpreds steps))) by (cbn [subexprs]; left; reflexivity).
      assert (Hhp : agree (cx_doc c) pvR1 pvR2 (map snd hpreds)).
      { apply Hag. intros z Hz. cbn [subexprs]. apply in_or_app. right. apply in_or_app. left. exact Hz. }
      assert (Hside : forall ns, (forall y, In y ns -> y < length (cx_doc c)) ->
                (preds_definedR pvR1 AxChild (fun y => In y ns) hpreds /\
                 (forall n, preds_setR pvR1 AxChild (fun y => In y ns) hpreds n -> path_definedR (cx_doc c) (node_test_denotes (cx_doc c) (cx_strip c)) pvR1 steps n) /\
                 nodes_value (fun x => exists n, preds_setR pvR1 AxChild (fun y => In y ns) hpreds n /\
                                                  path_denR (cx_doc c) (node_test_denotes (cx_doc c) (cx_strip c)) pvR1 steps n x) v) <->
                (preds_definedR pvR2 AxChild (fun y => In y ns) hpreds /\
                 (forall n, preds_setR pvR2 AxChild (fun y => In y ns) hpreds n -> path_definedR (cx_doc c) (node_test_denotes (cx_doc c) (cx_strip c)) pvR2 steps n) /\
                 nodes_value (fun x => exists n, preds_setR pvR2 AxChild (fun y => In y ns) hpreds n /\
                                                  path_denR (cx_doc c) (node_test_denotes (cx_doc c) (cx_strip c)) pvR2 steps n x) v)).
      { intros ns Hns.
        destruct (preds_ext (cx_doc c) pvR1 pvR2 AxChild hpreds (fun y => In y ns) (fun y => In y ns)
                    (fun y => iff_refl _) Hns Hhp) as [P1 P2].
        assert (Hr1 : forall n, preds_setR pvR1 AxChild (fun y => In y ns) hpreds n -> n < length (cx_doc c)).
        { intros n Hn0. apply Hns. apply (preds_setR_sub' _ _ _ _ _ Hn0). }
        assert (E2 : forall n, preds_setR pvR1 AxChild (fun y => In y ns) hpreds n ->
                  (forall x, path_denR (cx_doc c) (node_test_denotes (cx_doc c) (cx_strip c)) pvR1 steps n x <->
                             path_denR (cx_doc c) (node_test_denotes (cx_doc c) (cx_strip c)) pvR2 steps n x) /\
                  (path_definedR (cx_doc c) (node_test_denotes (cx_doc c) (cx_strip c)) pvR1 steps n <->
                   path_definedR (cx_doc c) (node_test_denotes (cx_doc c) (cx_strip c)) pvR2 steps n)).
        { intros n Hn1. apply (path_ext (cx_doc c) _ pvR1 pvR2 Hw steps n (Hr1 n Hn1) Hsteps). }
        assert (Heq : forall x, (exists n, preds_setR pvR1 AxChild (fun y => In y ns) hpreds n /\
                                            path_denR (cx_doc c) (node_test_denotes (cx_doc c) (cx_strip c)) pvR1 steps n x) <->
                                (exists n, preds_setR pvR2 AxChild (fun y => In y ns) hpreds n /\
                                            path_denR (cx_doc c) (node_test_denotes (cx_doc c) (cx_strip c)) pvR2 steps n x)).
        { intros x. split; intros [n [Hn0 Hp]]; exists n.
          - split; [apply P1; exact Hn0 | apply (proj1 (E2 n Hn0)); exact Hp].
          - apply P1 in Hn0. split; [exact Hn0 | apply (proj1 (E2 n Hn0)); exact Hp]. }
        rewrite P2. apply and_iff_compat_l. split; intros [A B]; split.
        - intros n Hn2. apply P1 in Hn2. apply (proj2 (E2 n Hn2)). apply A. exact Hn2.
        - apply (proj1 (nodes_value_ext _ _ v Heq)). exact B.
        - intros n Hn1. apply (proj2 (E2 n Hn1)). apply A. apply P1. exact Hn1.
        - apply (proj2 (nodes_value_ext _ _ v Heq)). exact B. }
      split; intros [Hfh [ns [Hns [Hrng Hrest']]]]; (split; [exact Hfh|]); exists ns.
      * split; [apply (H c h (VNodes ns) Hc Hh); exact Hns|]. split; [exact Hrng|]. apply (Hside ns Hrng). exact Hrest'.
      * split; [apply (H c h (VNodes ns) Hc Hh); exact Hns|]. split; [exact Hrng|]. apply (Hside ns Hrng). exact Hrest'.
    + destruct (path_ext (cx_doc c) (node_test_denotes (cx_doc c) (cx_strip c)) pvR1 pvR2 Hw steps (cx_node c) Hn Hsteps) as [P1 P2].
      rewrite P2. apply and_iff_compat_l. apply nodes_value_ext. exact P1.
Qed.
