(* Extraction of the C08 model for the correspondence driver. ExtrOcamlBasic only. *)
Require Import ExtrOcamlBasic.
From Coq Require Import ZArith.
Require Import XV.SerDefs XV.GenOutopt XV.OutoptDefs.
(* Z.of_N only so that the type z exists for ocaml/conv.ml *)
Extraction "extracted/outopt_model.ml" serialize_opt ser_text_as_coded html_is html_attr_is process_outputs select_coded
  flag_EMPTY flag_RAW flag_BLOCK aflag_ATTRURL aflag_ATTREMPTY Z.of_N.
