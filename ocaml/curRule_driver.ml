(* model side of the C10 "currule" correspondence (coq/CurRuleDefs.v, extracted).
   One case per line, whitespace separated tokens:
     <id> V<0|1> C<k><g><d> <sheet> N <count> <key>* M <npat> <bits>* R <n> rule* T <n> named* G <n> glob* D <n> kids*
     V: GenTmpl.gen_per_alternative; C: the three variant flags of GenCurRule (call-template keeps the
        current rule / top-level variables evaluated under a null rule / executeChildren without shortcut)
     sheet, key, bits: as in ocaml/tmpl_driver.ml
     rule  := <tid> <pathlen> <idx>* body          named := <name> <tid> <pathlen> <idx>* body
     glob  := <g> body                             kids  := <node> <n> <child>*
     body  := <n> instr*
     instr := t <k> | b body | f <c|s> body | c <name> - | c <name> + body | a <c|s> <mode|-> | i <site> | g <g>
   Output: <id> <ok|fail|fuel> <text codes, comma separated, or -> W <a><b><c><d><e>
     a: every xsl:apply-imports decision recorded in the tree is the one findTemplate gives for the rule the
        walk of the tree finds on top of the stack, and the walk ends like the run (interpreter = walk)
     b: the tree is well-formed (wf)      c: the guard glob_ok of the partial theorem holds for the variant
     d: walk of the tree = specification (observations and error flag)
     e: under the repaired variant (all flags set) the run gives the same text and status *)

exception Bad of string

let () =
  let ic = if Array.length Sys.argv > 1 then open_in Sys.argv.(1) else stdin in
  iter_lines ic (fun line ->
    match split_ws line with
    | [] -> ()
    | id :: toks ->
      (try
        let arr = Array.of_list toks in
        let p = ref 0 in
        let next () = if !p >= Array.length arr then raise (Bad "eof") else (let t = arr.(!p) in incr p; t) in
        let int () = int_of_string (next ()) in
        let nn () = n_of_int (int ()) in
        let opt_n () = match next () with "-" -> None | s -> Some (n_of_int (int_of_string s)) in
        let opt_z () = match next () with "-" -> None | s -> Some (z_of_int (int_of_string s)) in
        let rec times k f = if k <= 0 then [] else (let x = f () in x :: times (k - 1) f) in
        let alt () =
          let pat = n_of_int (int ()) in
          let tn = match next () with
            | "t" -> TNText | "c" -> TNComment | "r" -> TNRoot | "p" -> TNPI | "n" -> TNNode | "a" -> TNAny
            | s when String.length s > 1 && s.[0] = 'N' -> TNName (n_of_int (int_of_string (String.sub s 1 (String.length s - 1))))
            | s -> raise (Bad ("tname " ^ s)) in
          let tt = match next () with
            | "e" -> TTElement | "a" -> TTAttribute | "y" -> TTAny | "o" -> TTOther | s -> raise (Bad ("ttype " ^ s)) in
          let sc = match int () with 0 -> ScNone | 1 -> ScNodeTest | 2 -> ScNSWild | 3 -> ScQName | _ -> ScOther in
          { a_pat = pat; a_target = { tg_name = tn; tg_type = tt }; a_score = sc } in
        let rec item () =
          match next () with
          | "T" ->
            let tid = n_of_int (int ()) in
            let mode = opt_n () in
            let prio = opt_z () in
            let k = int () in
            let alts = times k alt in
            ITmpl { t_id = tid; t_mode = mode; t_prio = prio; t_alts = alts }
          | "I" -> let k = int () in IIncl (times k item)
          | s -> raise (Bad ("item " ^ s)) in
        let rec sheet () =
          match next () with
          | "S" ->
            let k = int () in
            let items = times k item in
            let m = int () in
            let imps = times m sheet in
            Sheet (items, imps)
          | s -> raise (Bad ("sheet " ^ s)) in
        let pa = (match next () with "V1" -> true | "V0" -> false | s -> raise (Bad ("variant " ^ s))) in
        let vr = (match next () with
          | s when String.length s = 4 && s.[0] = 'C' ->
            { v_call_keeps = (s.[1] = '1'); v_global_null = (s.[2] = '1'); v_global_direct = (s.[3] = '1') }
          | s -> raise (Bad ("flags " ^ s))) in
        let sh = sheet () in
        if next () <> "N" then raise (Bad "N");
        let cnt = int () in
        let keys = times cnt (fun () ->
          let s = next () in
          let num () = n_of_int (int_of_string (String.sub s 1 (String.length s - 1))) in
          match s.[0] with
          | 'e' -> KElem (num ()) | 'a' -> KAttr (num ()) | 't' -> KText | 'c' -> KComment | 'p' -> KPI
          | 'r' -> KRoot | 'x' -> KNsDecl | _ -> KOther) in
        if next () <> "M" then raise (Bad "M");
        let npat = int () in
        let bits = Array.of_list (times npat next) in
        let pmatch (pat : n) (nd : n) =
          let k = int_of_n pat and i = int_of_n nd in
          k < npat && i < String.length bits.(k) && bits.(k).[i] = '1' in
        let path () = let k = int () in times k (fun () -> nat_of_int (int ())) in
        let rec body () = let k = int () in times k instr
        and instr () =
          match next () with
          | "t" -> SText0 (nn ())
          | "b" -> SBlock (body ())
          | "f" -> let s = (match next () with "c" -> SelChildren | _ -> SelSelf) in SForEach (s, body ())
          | "c" -> let name = nn () in
                   (match next () with
                    | "-" -> SCall (name, None)
                    | _ -> SCall (name, Some (body ())))
          | "a" -> let s = (match next () with "c" -> SelChildren | _ -> SelSelf) in SApply (s, opt_n ())
          | "i" -> SImports (nn ())
          | "g" -> SGRef (nn ())
          | s -> raise (Bad ("instr " ^ s)) in
        if next () <> "R" then raise (Bad "R");
        let rules = times (int ()) (fun () ->
          let tid = nn () in let pth = path () in let b = body () in
          (tid, { td_ref = { tr_id = tid; tr_path = pth }; td_body = b })) in
        if next () <> "T" then raise (Bad "T");
        let named = times (int ()) (fun () ->
          let name = nn () in let tid = nn () in let pth = path () in let b = body () in
          (name, { td_ref = { tr_id = tid; tr_path = pth }; td_body = b })) in
        if next () <> "G" then raise (Bad "G");
        let globs = times (int ()) (fun () -> let g = nn () in let b = body () in (g, b)) in
        if next () <> "D" then raise (Bad "D");
        let kids = times (int ()) (fun () -> let nd = nn () in let k = int () in (nd, times k nn)) in
        let prog = { p_sheet = sh; p_rules = rules; p_named = named; p_globals = globs; p_children = kids;
                     p_keys = List.mapi (fun i k -> (n_of_int i, k)) keys } in
        let fuel = nat_of_int 600 in
        let go vr =
          let (((x, tree), text), status) = run vr pa pmatch prog fuel in
          (tree, text, status) in
        let (tree, text, status) = go vr in
        let stxt = match status with Done -> "ok" | Failed -> "fail" | Stuck -> "fail" | OutOfFuel -> "fuel" in
        let codes = match status, text with
          | Done, (_ :: _) -> String.concat "," (List.map (fun k -> string_of_int (int_of_n k)) text)
          | _, _ -> "-" in
        let s0 = push_i InvNull st_reset in
        let flags =
          match tree with
          | [root] ->
            let ((_, wobs), wok) = walk vr root s0 in
            let (sobs, sok) = spec ByMatch (top s0) root in
            let a = List.for_all (coded_choice_b pa pmatch prog) wobs && (wok = (status <> Failed) || status = OutOfFuel) in
            let b = wf ByMatch root in
            let c = glob_ok vr ByMatch (top s0) root in
            let d = (wobs = sobs) && (wok = sok) in
            let (_, text', status') = go fixed_variant in
            let e = (status' = status) && (status <> Done || text' = text) in
            String.concat "" (List.map (fun x -> if x then "1" else "0") [a; b; c; d; e])
          | _ -> "-----" in
        Printf.printf "%s %s %s W %s\n" id stxt codes flags
      with
      | Bad m -> Printf.printf "%s error:%s\n" id m
      | Failure m -> Printf.printf "%s error:%s\n" id m
      | Invalid_argument m -> Printf.printf "%s error:%s\n" id m
      | Not_found -> Printf.printf "%s error:notfound\n" id))
