(* SerUtf8Sim.v — C04: the UTF-8 serializer writes the UTF-8 encoding of what the UTF-16 serializer
   writes.  [sim i8 i16]: whenever the UTF-16 items yield units u, these have paired surrogates and
   the UTF-8 items yield the RFC 3629 encoding of the code points of u.  Proved for every function of
   the formatter by following its structure (scripts without CDATA-section elements). *)
From Coq Require Import NArith List Bool Lia ZifyBool ZifyNat ZifyN Wf_nat.
Require Import XV.SerDefs XV.XmlParseDefs XV.SerUtfModel XV.SerEscModel.
Import ListNotations.
Local Open Scope N_scope.

Definition small (s : list N) : bool := forallb (fun c => c <? 65536) s.

Definition sim (i8 i16 : list item) : Prop :=
  match payload i16 with
  | Ok u => exists cps, code_points u = Some cps /\ payload i8 = Ok (flat_map utf8_spec cps) /\ small u = true
  | _ => True
  end.

Lemma code_points_app : forall a b ca cb, code_points a = Some ca -> code_points b = Some cb ->
  code_points (a ++ b) = Some (ca ++ cb).
Proof.
  intros a. remember (length a) as n eqn:Hn. revert a Hn.
  induction n as [n IH] using lt_wf_ind. intros a Hn b ca cb Ha Hb.
  destruct a as [|c r]; [cbn in Ha; injection Ha as <-; exact Hb|].
  cbn [code_points app] in *.
  destruct ((55296 <=? c) && (c <=? 56319)).
  - destruct r as [|lo r']; [discriminate|]. cbn [app].
    destruct ((56320 <=? lo) && (lo <=? 57343)); [|discriminate].
    destruct (code_points r') as [c'|] eqn:E; [|discriminate]. cbn [option_map] in Ha. injection Ha as <-.
    rewrite (IH (length r') ltac:(subst n; cbn [length]; lia) r' eq_refl b c' cb E Hb). reflexivity.
  - destruct ((56320 <=? c) && (c <=? 57343)); [discriminate|].
    destruct (code_points r) as [c'|] eqn:E; [|discriminate]. cbn [option_map] in Ha. injection Ha as <-.
    rewrite (IH (length r) ltac:(subst n; cbn [length]; lia) r eq_refl b c' cb E Hb). reflexivity.
Qed.

Lemma small_app : forall a b, small (a ++ b) = small a && small b.
Proof. intros. unfold small. apply forallb_app. Qed.

Lemma sim_nil : sim [] [].
Proof. unfold sim. cbn. exists []. repeat split; reflexivity. Qed.

Lemma sim_app : forall a8 a16 b8 b16, sim a8 a16 -> sim b8 b16 -> sim (a8 ++ b8) (a16 ++ b16).
Proof.
  unfold sim. intros a8 a16 b8 b16 Ha Hb. rewrite payload_app.
  destruct (payload a16) as [u1| |]; [|exact I|exact I].
  destruct (payload b16) as [u2| |]; [|exact I|exact I].
  destruct Ha as [c1 [E1 [P1 S1]]]. destruct Hb as [c2 [E2 [P2 S2]]].
  exists (c1 ++ c2). split; [apply code_points_app; assumption|]. split.
  - rewrite payload_app, P1, P2, flat_map_app. reflexivity.
  - rewrite small_app, S1, S2. reflexivity.
Qed.

Lemma sim_throw : forall i8 c r, sim i8 (IThrow c :: r).
Proof. intros. unfold sim. cbn. exact I. Qed.

(* ---- primitives ------------------------------------------------------------------------------------- *)
Lemma ascii_code_points : forall l, forallb (fun c => c <? 128) l = true ->
  code_points l = Some l /\ flat_map utf8_spec l = l.
Proof.
  induction l as [|c r IH]; intros H; [split; reflexivity|].
  cbn [forallb] in H. apply andb_true_iff in H. destruct H as [Hc Hr].
  destruct (IH Hr) as [E1 E2]. cbn [code_points flat_map].
  replace ((55296 <=? c) && (c <=? 56319)) with false by lia.
  replace ((56320 <=? c) && (c <=? 57343)) with false by lia.
  rewrite E1, E2. cbn [option_map]. unfold utf8_spec. replace (c <? 128) with true by lia.
  split; reflexivity.
Qed.

Lemma payload_u8_block : forall xs, payload (u8_block xs) = Ok xs.
Proof.
  intros xs. unfold u8_block. destruct (kbuf_utf8 <? len xs); cbn [payload]; rewrite app_nil_r; reflexivity.
Qed.

Lemma payload_u16_block' : forall xs, payload (u16_block xs) = Ok xs.
Proof.
  intros xs. unfold u16_block. destruct (kbuf_utf16 <? len xs); cbn [payload]; rewrite app_nil_r; reflexivity.
Qed.

Lemma sim_const : forall l, forallb (fun c => c <? 128) l = true -> sim (u8_block l) (u16_block l).
Proof.
  intros l H. unfold sim. rewrite payload_u16_block'. destruct (ascii_code_points l H) as [E1 E2].
  exists l. split; [exact E1|]. split; [rewrite payload_u8_block, E2; reflexivity|].
  unfold small. rewrite forallb_forall in *. intros x Hx. specialize (H x Hx). lia.
Qed.

Lemma sim_unit : forall c, c < 128 -> sim (u8_unit c) (u16_unit c).
Proof.
  intros c H. unfold sim, u8_unit, u16_unit. cbn [payload app].
  exists [c]. split.
  - cbn [code_points]. replace ((55296 <=? c) && (c <=? 56319)) with false by lia.
    replace ((56320 <=? c) && (c <=? 57343)) with false by lia. reflexivity.
  - split; [cbn [flat_map]; unfold utf8_spec; replace (c <? 128) with true by lia; reflexivity|].
    unfold small. cbn [forallb]. lia.
Qed.

(* XalanDOMChar strings: transcoded by the UTF-8 writer, copied by the UTF-16 writer *)
Lemma u8_str_enc : forall n s cps, (length s <= n)%nat -> small s = true -> code_points s = Some cps ->
  payload (u8_str s) = Ok (flat_map utf8_spec cps).
Proof.
  induction n as [|n IH]; intros s cps Hn Hs Hc.
  - destruct s; [|cbn [length] in Hn; lia]. cbn in Hc. injection Hc as <-. reflexivity.
  - destruct s as [|c r]; [cbn in Hc; injection Hc as <-; reflexivity|].
    cbn [length] in Hn. unfold small in Hs. cbn [forallb] in Hs. apply andb_true_iff in Hs.
    destruct Hs as [Hs1 Hs2]. fold (small r) in Hs2.
    cbn [code_points] in Hc. cbn [u8_str]. rewrite is_high_eq, (is_low_eq c).
    destruct ((55296 <=? c) && (c <=? 56319)) eqn:Eh; cbn [negb].
    + replace ((56320 <=? c) && (c <=? 57343)) with false by lia.
      destruct r as [|lo r']; [discriminate|]. rewrite is_low_eq.
      destruct ((56320 <=? lo) && (lo <=? 57343)) eqn:El; [|discriminate].
      destruct (code_points r') as [cps'|] eqn:Ec; [|discriminate].
      cbn [option_map] in Hc. injection Hc as <-.
      unfold small in Hs2. cbn [forallb] in Hs2. apply andb_true_iff in Hs2. destruct Hs2 as [_ Hs3].
      rewrite decode_pair_eq by lia.
      rewrite payload_app, u8_code_spec by lia.
      rewrite (IH r' cps') by (try assumption; cbn [length] in Hn; lia). reflexivity.
    + destruct ((56320 <=? c) && (c <=? 57343)) eqn:El; [discriminate|].
      destruct (code_points r) as [cps'|] eqn:Ec; [|discriminate].
      cbn [option_map] in Hc. injection Hc as <-.
      rewrite payload_app, u8_code_spec by lia.
      rewrite (IH r cps') by (try assumption; lia). reflexivity.
Qed.

Definition paired (l : list N) : bool := match code_points l with Some _ => true | None => false end.

Lemma sim_str_block : forall l, small l = true -> paired l = true -> sim (u8_str l) (u16_block l).
Proof.
  intros l Hs Hp. unfold sim, paired in *. rewrite payload_u16_block'.
  destruct (code_points l) as [cps|] eqn:E; [|discriminate].
  exists cps. split; [reflexivity|]. split; [exact (u8_str_enc (length l) l cps (le_n _) Hs E)|exact Hs].
Qed.

(* writeCommentChars / writePIChars: the UTF-16 writer validates the surrogates itself *)
Lemma sim_comment_chars : forall l, small l = true -> sim (u8_str l) (u16_chars l).
Proof.
  intros l Hs. unfold sim. destruct (code_points l) as [cps|] eqn:E.
  - rewrite (u16_chars_verbatim l cps E). exists cps. split; [exact E|].
    split; [exact (u8_str_enc (length l) l cps (le_n _) Hs E)|exact Hs].
  - destruct (u16_unpaired_is_an_error l E) as [code H]. rewrite H. exact I.
Qed.

Lemma sim_ascii_str : forall l, forallb (fun c => c <? 128) l = true -> sim (u8_str l) (u16_block l).
Proof.
  intros l H. destruct (ascii_code_points l H) as [E1 _]. apply sim_str_block.
  - unfold small. rewrite forallb_forall in *. intros x Hx. specialize (H x Hx). lia.
  - unfold paired. rewrite E1. reflexivity.
Qed.

(* write(chars, start, length): one character *)
Lemma sim_at : forall c r, small (c :: r) = true ->
  sim (fst (u8_at c r)) (fst (u16_at c r)) /\ snd (u8_at c r) = snd (u16_at c r).
Proof.
  intros c r Hs. unfold small in Hs. cbn [forallb] in Hs. apply andb_true_iff in Hs. destruct Hs as [Hc Hr].
  unfold u8_at, u16_at. rewrite is_high_eq, (is_low_eq c).
  destruct ((56320 <=? c) && (c <=? 57343)) eqn:El.
  - replace ((55296 <=? c) && (c <=? 56319)) with false by lia. cbn [fst snd]. split; [apply sim_throw|reflexivity].
  - destruct ((55296 <=? c) && (c <=? 56319)) eqn:Eh; cbn [negb].
    + destruct r as [|lo r']; cbn [fst snd]; [split; [apply sim_throw|reflexivity]|].
      rewrite is_low_eq. cbn [forallb] in Hr. apply andb_true_iff in Hr. destruct Hr as [Hlo _].
      destruct ((56320 <=? lo) && (lo <=? 57343)) eqn:E2; cbn [fst snd]; [|split; [apply sim_throw|reflexivity]].
      split; [|reflexivity]. unfold sim, u16_unit. cbn [payload app].
      exists [(c - 55296) * 1024 + (lo - 56320) + 65536]. split.
      * cbn [code_points]. rewrite Eh, E2. reflexivity.
      * split; [rewrite decode_pair_eq by lia; rewrite u8_code_spec by lia; cbn [flat_map]; rewrite app_nil_r; reflexivity|].
        unfold small. cbn [forallb]. lia.
    + cbn [fst snd]. split; [|reflexivity]. unfold sim, u16_unit. cbn [payload app].
      exists [c]. split.
      * cbn [code_points]. rewrite Eh, El. reflexivity.
      * split; [rewrite u8_code_spec by lia; cbn [flat_map]; rewrite app_nil_r; reflexivity|].
        unfold small. cbn [forallb]. lia.
Qed.

(* ---- the formatter ------------------------------------------------------------------------------------ *)
Lemma digits_rev_ascii : forall f n x, In x (digits_rev f n) -> x < 128.
Proof.
  induction f as [|f IH]; intros n x H; [destruct H|].
  cbn [digits_rev] in H. destruct (n <? 10) eqn:E.
  - destruct H as [<-|[]]. lia.
  - destruct H as [<-|H]; [|exact (IH _ _ H)].
    assert (n mod 10 < 10) by (apply N.mod_lt; lia). lia.
Qed.

Lemma decimal_ascii : forall n, forallb (fun c => c <? 128) (decimal n) = true.
Proof.
  intros n. apply forallb_forall. intros x Hx. unfold decimal in Hx. apply in_rev in Hx.
  apply digits_rev_ascii in Hx. lia.
Qed.

Lemma literal_is_ascii : forall v11 c, p_range v11 c = false ->
  (p_content v11 c = false \/ p_attribute v11 c = false) -> c < 128.
Proof.
  intros v11 c Hr H. unfold p_range in Hr. apply N.ltb_ge in Hr.
  destruct v11; cbn [sp_last] in Hr; [|change last_special_1_0 with 127 in Hr; lia].
  destruct (c <? 128) eqn:E; [lia|]. exfalso.
  assert (S : forallb (fun c => (c <? 128) || (p_content true c && p_attribute true c)) (upto last_special_1_1) = true)
    by (vm_compute; reflexivity).
  pose proof (sweep _ _ S c Hr) as Hc. cbn beta in Hc. rewrite E in Hc. cbn [orb] in Hc.
  apply andb_true_iff in Hc. destruct Hc as [H1 H2]. destruct H as [H|H]; congruence.
Qed.

Section Fmt.
  Variable v11 : bool.

  Lemma sim_units : forall l, forallb (fun c => c <? 128) l = true ->
    sim (units fam_utf8 l) (units fam_utf16 l).
  Proof.
    induction l as [|c r IH]; intros H; [apply sim_nil|].
    cbn [forallb] in H. apply andb_true_iff in H. destruct H as [Hc Hr].
    unfold units. cbn [flat_map]. apply sim_app; [apply sim_unit; lia|apply IH; exact Hr].
  Qed.

  Lemma sim_ncr : forall n, sim (ncr fam_utf8 n) (ncr fam_utf16 n).
  Proof.
    intros n. unfold ncr. cbn [f_unit f_str fam_utf8 fam_utf16].
    apply sim_app; [apply sim_unit; lia|]. apply sim_app; [apply sim_unit; lia|].
    apply sim_app; [apply sim_ascii_str; apply decimal_ascii|apply sim_unit; lia].
  Qed.

  Lemma sim_newline : sim (f_newline fam_utf8) (f_newline fam_utf16).
  Proof. cbn [f_newline fam_utf8 fam_utf16]. apply sim_ascii_str. reflexivity. Qed.

  Lemma sim_default_escape : forall c, sim (default_escape fam_utf8 v11 c) (default_escape fam_utf16 v11 c).
  Proof.
    intros c. unfold default_escape, default_entity. cbn [f_const fam_utf8 fam_utf16].
    destruct (c =? 60); [apply sim_const; reflexivity|].
    destruct (c =? 62); [apply sim_const; reflexivity|].
    destruct (c =? 38); [apply sim_const; reflexivity|].
    destruct (c =? 10); [apply sim_newline|].
    destruct (p_forbidden v11 c); [apply sim_throw|apply sim_ncr].
  Qed.

  Lemma sim_default_attr_escape : forall c,
    sim (default_attr_escape fam_utf8 v11 c) (default_attr_escape fam_utf16 v11 c).
  Proof.
    intros c. unfold default_attr_escape, default_entity. cbn [f_const fam_utf8 fam_utf16].
    destruct (c =? 60); [apply sim_const; reflexivity|].
    destruct (c =? 62); [apply sim_const; reflexivity|].
    destruct (c =? 38); [apply sim_const; reflexivity|].
    destruct (c =? 34); [apply sim_const; reflexivity|].
    destruct (p_forbidden v11 c); [apply sim_throw|apply sim_ncr].
  Qed.

  Definition step_sim (s8 s16 : N -> list N -> list item * bool) : Prop :=
    forall c r, small (c :: r) = true -> sim (fst (s8 c r)) (fst (s16 c r)) /\ snd (s8 c r) = snd (s16 c r).

  Lemma sim_normalized_big : step_sim (normalized_big fam_utf8 v11) (normalized_big fam_utf16 v11).
  Proof.
    intros c r Hs. unfold normalized_big. destruct (v11 && (c =? 8232)); cbn [fst snd].
    - split; [apply sim_ncr|reflexivity].
    - cbn [f_at fam_utf8 fam_utf16]. apply sim_at. exact Hs.
  Qed.

  Lemma sim_content_step : step_sim (content_step fam_utf8 v11) (content_step fam_utf16 v11).
  Proof.
    intros c r Hs. unfold content_step. destruct (p_range v11 c) eqn:Er; [apply sim_normalized_big; exact Hs|].
    destruct (p_content v11 c) eqn:Ec; cbn [negb fst snd].
    - split; [apply sim_default_escape|reflexivity].
    - split; [|reflexivity]. cbn [f_unit fam_utf8 fam_utf16]. apply sim_unit.
      apply (literal_is_ascii v11 c Er). left. exact Ec.
  Qed.

  Lemma sim_attr_step : step_sim (attr_step fam_utf8 v11) (attr_step fam_utf16 v11).
  Proof.
    intros c r Hs. unfold attr_step. destruct (p_range v11 c) eqn:Er; [apply sim_normalized_big; exact Hs|].
    destruct (p_attribute v11 c) eqn:Ec; cbn [negb fst snd].
    - split; [apply sim_default_attr_escape|reflexivity].
    - split; [|reflexivity]. cbn [f_unit fam_utf8 fam_utf16]. apply sim_unit.
      apply (literal_is_ascii v11 c Er). right. exact Ec.
  Qed.

  Lemma small_tail : forall c r, small (c :: r) = true -> small r = true.
  Proof. intros c r H. unfold small in *. cbn [forallb] in H. apply andb_true_iff in H. tauto. Qed.

  Lemma sim_char_loop : forall s8 s16, step_sim s8 s16 ->
    forall n l, (length l <= n)%nat -> small l = true ->
    sim (char_loop s8 l) (char_loop s16 l).
  Proof.
    intros s8 s16 Hst. induction n as [|n IH]; intros l Hn Hs.
    - destruct l; [apply sim_nil|cbn [length] in Hn; lia].
    - destruct l as [|c r]; [apply sim_nil|]. cbn [length] in Hn. cbn [char_loop].
      destruct (Hst c r Hs) as [H1 H2].
      destruct (s8 c r) as [i8 k8]. destruct (s16 c r) as [i16 k16]. cbn [fst snd] in *. subst k16.
      apply sim_app; [exact H1|]. pose proof (small_tail _ _ Hs) as Hr.
      destruct k8.
      + destruct r as [|x r']; [apply sim_nil|]. apply IH; [cbn [length] in Hn; lia|exact (small_tail _ _ Hr)].
      + apply IH; [lia|exact Hr].
  Qed.

  Lemma sim_write_content : forall s, small s = true ->
    sim (write_content fam_utf8 v11 s) (write_content fam_utf16 v11 s).
  Proof. intros s H. unfold write_content. apply (sim_char_loop _ _ sim_content_step (length s)); [lia|exact H]. Qed.

  Lemma sim_write_attr_string : forall s, small s = true ->
    sim (write_attr_string fam_utf8 v11 s) (write_attr_string fam_utf16 v11 s).
  Proof. intros s H. unfold write_attr_string. apply (sim_char_loop _ _ sim_attr_step (length s)); [lia|exact H]. Qed.
End Fmt.

(* ---- CDATA sections ----------------------------------------------------------------------------------- *)
Section Cdata.
  Variable v11 : bool.

  Definition cd_sim (p8 p16 : list item * bool) : Prop := sim (fst p8) (fst p16) /\ snd p8 = snd p16.

  Lemma sim_cdata_char : forall c r o, small (c :: r) = true ->
    sim (fst (fst (f_cdata_char fam_utf8 c r o))) (fst (fst (f_cdata_char fam_utf16 c r o))) /\
    snd (fst (f_cdata_char fam_utf8 c r o)) = snd (fst (f_cdata_char fam_utf16 c r o)) /\
    snd (f_cdata_char fam_utf8 c r o) = snd (f_cdata_char fam_utf16 c r o).
  Proof.
    intros c r o Hs. cbn [f_cdata_char fam_utf8 fam_utf16]. destruct (sim_at c r Hs) as [H1 H2].
    destruct (u8_at c r) as [i8 k8]. destruct (u16_at c r) as [i16 k16]. cbn [fst snd] in *. subst k16.
    repeat split. apply sim_app; [|exact H1]. destruct o; [apply sim_const; reflexivity|apply sim_nil].
  Qed.

  Lemma sim_cdata_loop : forall n l o, (length l <= n)%nat -> small l = true ->
    cd_sim (cdata_loop fam_utf8 v11 l o) (cdata_loop fam_utf16 v11 l o).
  Proof.
    induction n as [|n IH]; intros l o Hn Hs.
    - destruct l; [split; [apply sim_nil|reflexivity]|cbn [length] in Hn; lia].
    - destruct l as [|c r]; [split; [apply sim_nil|reflexivity]|]. cbn [length] in Hn.
      pose proof (small_tail _ _ Hs) as Hr.
      assert (Plain : cd_sim (cdata_plain fam_utf8 v11 c r o) (cdata_plain fam_utf16 v11 c r o)).
      { unfold cdata_plain. destruct (c =? 10).
        - destruct (IH r o ltac:(lia) Hr) as [I1 I2].
          destruct (cdata_loop fam_utf8 v11 r o) as [a8 o8]. destruct (cdata_loop fam_utf16 v11 r o) as [a16 o16].
          cbn [fst snd] in *. subst o16. split; [|reflexivity]. cbn [fst]. apply sim_app; [apply sim_newline|exact I1].
        - destruct (p_forbidden v11 c); [split; [apply sim_throw|reflexivity]|].
          destruct ((c =? 13) || (v11 && ((c =? 133) || (c =? 8232) || p_crforbidden v11 c))).
          + destruct (IH r true ltac:(lia) Hr) as [I1 I2].
            destruct (cdata_loop fam_utf8 v11 r true) as [a8 o8]. destruct (cdata_loop fam_utf16 v11 r true) as [a16 o16].
            cbn [fst snd] in *. subst o16. split; [|reflexivity]. cbn [fst].
            apply sim_app; [destruct o; [apply sim_nil|cbn [f_const fam_utf8 fam_utf16]; apply sim_const; reflexivity]|].
            apply sim_app; [apply sim_ncr|exact I1].
          + destruct (sim_cdata_char c r o Hs) as [C1 [C2 C3]].
            destruct (f_cdata_char fam_utf8 c r o) as [[i8 k8] o8].
            destruct (f_cdata_char fam_utf16 c r o) as [[i16 k16] o16]. cbn [fst snd] in *. subst k16 o16.
            destruct k8.
            * destruct r as [|x r']; [split; [cbn [fst]; apply sim_app; [exact C1|apply sim_nil]|reflexivity]|].
              destruct (IH r' o8 ltac:(cbn [length] in Hn; lia) (small_tail _ _ Hr)) as [I1 I2].
              destruct (cdata_loop fam_utf8 v11 r' o8) as [a8 q8]. destruct (cdata_loop fam_utf16 v11 r' o8) as [a16 q16].
              cbn [fst snd] in *. subst q16. split; [|reflexivity]. cbn [fst]. apply sim_app; assumption.
            * destruct (IH r o8 ltac:(lia) Hr) as [I1 I2].
              destruct (cdata_loop fam_utf8 v11 r o8) as [a8 q8]. destruct (cdata_loop fam_utf16 v11 r o8) as [a16 q16].
              cbn [fst snd] in *. subst q16. split; [|reflexivity]. cbn [fst]. apply sim_app; assumption. }
      rewrite !cdata_loop_cons.
      destruct (c =? 93); [|exact Plain].
      destruct (longer_than cdata_lookahead_gt (c :: r)); [|exact Plain].
      destruct r as [|a [|b r'']]; [exact Plain|exact Plain|].
      destruct ((a =? 93) && (b =? 62)); [|exact Plain].
      destruct (IH r'' false ltac:(cbn [length] in Hn; lia) (small_tail _ _ (small_tail _ _ Hr))) as [I1 I2].
      destruct (cdata_loop fam_utf8 v11 r'' false) as [a8 q8]. destruct (cdata_loop fam_utf16 v11 r'' false) as [a16 q16].
      cbn [fst snd] in *. subst q16. split; [|reflexivity]. cbn [fst f_const f_unit fam_utf8 fam_utf16].
      apply sim_app; [destruct o; [apply sim_const; reflexivity|apply sim_nil]|].
      apply sim_app; [apply sim_unit; lia|]. apply sim_app; [apply sim_unit; lia|].
      apply sim_app; [apply sim_const; reflexivity|]. apply sim_app; [apply sim_const; reflexivity|].
      apply sim_app; [apply sim_unit; lia|exact I1].
  Qed.

  Lemma sim_write_cdata : forall s, small s = true ->
    sim (write_cdata fam_utf8 v11 s) (write_cdata fam_utf16 v11 s).
  Proof.
    intros s H. unfold write_cdata. destruct (sim_cdata_loop (length s) s false (le_n _) H) as [I1 I2].
    destruct (cdata_loop fam_utf8 v11 s false) as [a8 q8]. destruct (cdata_loop fam_utf16 v11 s false) as [a16 q16].
    cbn [fst snd] in *. subst q16. cbn [f_const fam_utf8 fam_utf16].
    apply sim_app; [apply sim_const; reflexivity|]. apply sim_app; [exact I1|].
    destruct q8; [apply sim_nil|apply sim_const; reflexivity].
  Qed.
End Cdata.

(* ---- comments, PIs, tags, events --------------------------------------------------------------------- *)
Definition str_ok (l : list N) : bool := small l && paired l.

Definition sim_event_ok (e : event) : bool :=
  match e with
  | EStart n attrs => str_ok n && forallb (fun a => str_ok (fst a) && small (snd a)) attrs
  | EEnd n => str_ok n
  | EText s => small s
  | ECdata s => small s
  | EComment s => small s
  | EPI t d => str_ok t && small d
  end.

Lemma small_rev : forall l, small l = true -> small (rev l) = true.
Proof.
  intros l H. unfold small in *. rewrite forallb_forall in *. intros x Hx. apply H. apply in_rev. exact Hx.
Qed.

Section Doc.
  Variable v11 : bool.

  Lemma sim_normalized_loop : forall l run_rev, small l = true -> small run_rev = true ->
    sim (normalized_loop fam_utf8 v11 l run_rev) (normalized_loop fam_utf16 v11 l run_rev).
  Proof.
    induction l as [|c r IH]; intros run_rev Hl Hr; cbn [normalized_loop].
    - cbn [f_comment fam_utf8 fam_utf16]. apply sim_comment_chars. apply small_rev. exact Hr.
    - pose proof (small_tail _ _ Hl) as Ht.
      destruct (c =? 10).
      + apply sim_app; [cbn [f_comment fam_utf8 fam_utf16]; apply sim_comment_chars; apply small_rev; exact Hr|].
        apply sim_app; [apply sim_newline|]. apply IH; [exact Ht|reflexivity].
      + destruct (p_comment_error v11 c); [apply sim_throw|].
        apply IH; [exact Ht|]. unfold small in *. cbn [forallb] in *. apply andb_true_iff in Hl.
        destruct Hl as [Hc _]. rewrite Hc, Hr. reflexivity.
  Qed.

  Lemma sim_write_comment : forall s, small s = true ->
    sim (write_comment fam_utf8 v11 s) (write_comment fam_utf16 v11 s).
  Proof.
    intros s H. unfold write_comment, write_normalized_data.
    apply sim_app; [apply sim_units; reflexivity|].
    apply sim_app; [apply sim_normalized_loop; [exact H|reflexivity]|apply sim_units; reflexivity].
  Qed.

  Lemma sim_name : forall n, str_ok n = true -> sim (f_name fam_utf8 n) (f_name fam_utf16 n).
  Proof.
    intros n H. unfold str_ok in H. apply andb_true_iff in H. destruct H as [H1 H2].
    cbn [f_name fam_utf8 fam_utf16]. apply sim_str_block; assumption.
  Qed.

  Lemma sim_write_pi : forall t d, str_ok t = true -> small d = true ->
    sim (write_pi fam_utf8 v11 t d) (write_pi fam_utf16 v11 t d).
  Proof.
    intros t d Ht Hd. unfold write_pi, write_normalized_data.
    apply sim_app; [apply sim_units; reflexivity|].
    apply sim_app; [apply sim_name; exact Ht|].
    apply sim_app.
    - destruct d as [|c r]; [apply sim_nil|]. destruct (is_xml_ws c); [apply sim_nil|].
      cbn [f_unit fam_utf8 fam_utf16]. apply sim_unit. lia.
    - apply sim_app; [apply sim_normalized_loop; [exact Hd|reflexivity]|apply sim_units; reflexivity].
  Qed.

  Lemma sim_write_header : forall ver enc, str_ok ver = true -> str_ok enc = true ->
    sim (write_header fam_utf8 ver enc) (write_header fam_utf16 ver enc).
  Proof.
    intros ver enc Hv He. unfold write_header. cbn [f_const f_str fam_utf8 fam_utf16].
    unfold str_ok in *. apply andb_true_iff in Hv, He. destruct Hv as [V1 V2]. destruct He as [E1 E2].
    apply sim_app; [apply sim_const; reflexivity|].
    apply sim_app; [apply sim_str_block; assumption|].
    apply sim_app; [apply sim_const; reflexivity|].
    apply sim_app; [apply sim_str_block; assumption|apply sim_const; reflexivity].
  Qed.

  Lemma sim_write_attribute : forall a, str_ok (fst a) = true -> small (snd a) = true ->
    sim (write_attribute fam_utf8 v11 a) (write_attribute fam_utf16 v11 a).
  Proof.
    intros a H1 H2. unfold write_attribute.
    apply sim_app; [cbn [f_unit fam_utf8 fam_utf16]; apply sim_unit; lia|].
    apply sim_app; [apply sim_name; exact H1|].
    apply sim_app; [cbn [f_unit fam_utf8 fam_utf16]; apply sim_unit; lia|].
    apply sim_app; [cbn [f_unit fam_utf8 fam_utf16]; apply sim_unit; lia|].
    apply sim_app; [apply sim_write_attr_string; exact H2|cbn [f_unit fam_utf8 fam_utf16]; apply sim_unit; lia].
  Qed.

  Lemma sim_attributes : forall attrs,
    forallb (fun a => str_ok (fst a) && small (snd a)) attrs = true ->
    sim (flat_map (write_attribute fam_utf8 v11) attrs) (flat_map (write_attribute fam_utf16 v11) attrs).
  Proof.
    induction attrs as [|a r IH]; intros H; [apply sim_nil|].
    cbn [forallb] in H. apply andb_true_iff in H. destruct H as [Ha Hr].
    apply andb_true_iff in Ha. destruct Ha as [A1 A2].
    cbn [flat_map]. apply sim_app; [apply sim_write_attribute; assumption|apply IH; exact Hr].
  Qed.

  Lemma sim_parent_tag_end : forall st,
    sim (fst (parent_tag_end fam_utf8 st)) (fst (parent_tag_end fam_utf16 st)) /\
    snd (parent_tag_end fam_utf8 st) = snd (parent_tag_end fam_utf16 st).
  Proof.
    intros st. unfold parent_tag_end. destruct st as [|[] r]; cbn [fst snd]; split; try reflexivity; try apply sim_nil.
    cbn [f_unit fam_utf8 fam_utf16]. apply sim_unit. lia.
  Qed.

  Lemma sim_event_items : forall e st, sim_event_ok e = true ->
    sim (fst (event_items fam_utf8 v11 e st)) (fst (event_items fam_utf16 v11 e st)) /\
    snd (event_items fam_utf8 v11 e st) = snd (event_items fam_utf16 v11 e st).
  Proof.
    intros e st He. destruct (sim_parent_tag_end st) as [P1 P2].
    destruct e as [n attrs|n|s|s|s|t d]; cbn [event_items sim_event_ok] in *.
    - apply andb_true_iff in He. destruct He as [Hn Ha].
      destruct (parent_tag_end fam_utf8 st) as [p8 s8]. destruct (parent_tag_end fam_utf16 st) as [p16 s16].
      cbn [fst snd] in *. subst s16. split; [|reflexivity].
      apply sim_app; [exact P1|]. apply sim_app; [cbn [f_unit fam_utf8 fam_utf16]; apply sim_unit; lia|].
      apply sim_app; [apply sim_name; exact Hn|apply sim_attributes; exact Ha].
    - destruct st as [|b r]; cbn [fst snd]; (split; [|reflexivity]).
      + apply sim_app; [cbn [f_unit fam_utf8 fam_utf16]; apply sim_unit; lia|cbn [f_unit fam_utf8 fam_utf16]; apply sim_unit; lia].
      + apply sim_app; [|cbn [f_unit fam_utf8 fam_utf16]; apply sim_unit; lia].
        destruct b; [|cbn [f_unit fam_utf8 fam_utf16]; apply sim_unit; lia].
        apply sim_app; [cbn [f_unit fam_utf8 fam_utf16]; apply sim_unit; lia|].
        apply sim_app; [cbn [f_unit fam_utf8 fam_utf16]; apply sim_unit; lia|apply sim_name; exact He].
    - destruct s as [|c r]; [cbn [fst snd]; split; [apply sim_nil|reflexivity]|].
      destruct (parent_tag_end fam_utf8 st) as [p8 s8]. destruct (parent_tag_end fam_utf16 st) as [p16 s16].
      cbn [fst snd] in *. subst s16. split; [|reflexivity].
      apply sim_app; [exact P1|apply sim_write_content; exact He].
    - destruct s as [|c r]; [cbn [fst snd]; split; [apply sim_nil|reflexivity]|].
      destruct (parent_tag_end fam_utf8 st) as [p8 s8]. destruct (parent_tag_end fam_utf16 st) as [p16 s16].
      cbn [fst snd] in *. subst s16. split; [|reflexivity].
      apply sim_app; [exact P1|apply sim_write_cdata; exact He].
    - destruct (parent_tag_end fam_utf8 st) as [p8 s8]. destruct (parent_tag_end fam_utf16 st) as [p16 s16].
      cbn [fst snd] in *. subst s16. split; [|reflexivity].
      apply sim_app; [exact P1|apply sim_write_comment; exact He].
    - apply andb_true_iff in He. destruct He as [Ht Hd].
      destruct (parent_tag_end fam_utf8 st) as [p8 s8]. destruct (parent_tag_end fam_utf16 st) as [p16 s16].
      cbn [fst snd] in *. subst s16. split; [|reflexivity].
      apply sim_app; [exact P1|apply sim_write_pi; assumption].
  Qed.

  Lemma sim_events_items : forall es st, forallb sim_event_ok es = true ->
    sim (events_items fam_utf8 v11 es st) (events_items fam_utf16 v11 es st).
  Proof.
    induction es as [|e r IH]; intros st H; [apply sim_nil|].
    cbn [forallb] in H. apply andb_true_iff in H. destruct H as [He Hr].
    cbn [events_items]. destruct (sim_event_items e st He) as [H1 H2].
    destruct (event_items fam_utf8 v11 e st) as [i8 s8]. destruct (event_items fam_utf16 v11 e st) as [i16 s16].
    cbn [fst snd] in *. subst s16. apply sim_app; [exact H1|apply IH; exact Hr].
  Qed.

  (* the UTF-8 document is the UTF-8 encoding of the UTF-16 document *)
  Theorem sim_document : forall ver enc es, str_ok ver = true -> str_ok enc = true ->
    forallb sim_event_ok es = true ->
    sim (document_items fam_utf8 v11 ver enc es) (document_items fam_utf16 v11 ver enc es).
  Proof.
    intros ver enc es Hv He Hes. unfold document_items.
    apply sim_app; [apply sim_write_header; assumption|].
    apply sim_app; [apply sim_events_items; exact Hes|]. unfold sim. cbn. exists []. repeat split; reflexivity.
  Qed.
End Doc.

(* ---- reading the UTF-8 document back -------------------------------------------------------------------- *)
Require Import XV.XmlDocDefs XV.SerDocDefs.

Lemma code_points_facts : forall n u cps, (length u <= n)%nat -> small u = true -> code_points u = Some cps ->
  forallb is_scalar cps = true /\ flat_map units_of_cp cps = u.
Proof.
  induction n as [|n IH]; intros u cps Hn Hs Hc.
  - destruct u; [|cbn [length] in Hn; lia]. cbn in Hc. injection Hc as <-. split; reflexivity.
  - destruct u as [|c r]; [cbn in Hc; injection Hc as <-; split; reflexivity|].
    cbn [length] in Hn. pose proof (small_tail _ _ Hs) as Hr.
    unfold small in Hs. cbn [forallb] in Hs. apply andb_true_iff in Hs. destruct Hs as [Hc1 _].
    cbn [code_points] in Hc.
    destruct ((55296 <=? c) && (c <=? 56319)) eqn:Eh.
    + destruct r as [|lo r']; [discriminate|].
      destruct ((56320 <=? lo) && (lo <=? 57343)) eqn:El; [|discriminate].
      destruct (code_points r') as [cps'|] eqn:Ec; [|discriminate]. cbn [option_map] in Hc. injection Hc as <-.
      destruct (IH r' cps') as [I1 I2]; [cbn [length] in Hn; lia|exact (small_tail _ _ Hr)|exact Ec|].
      cbn [forallb flat_map]. rewrite I1, I2. split.
      * unfold is_scalar. lia.
      * f_equal. unfold units_of_cp.
        set (cp := (c - 55296) * 1024 + (lo - 56320) + 65536).
        replace (cp <? 65536) with false by (subst cp; lia).
        assert (D : (cp - 65536) / 1024 = c - 55296).
        { symmetry. apply (N.div_unique _ 1024 _ (lo - 56320)); subst cp; lia. }
        assert (M : (cp - 65536) mod 1024 = lo - 56320).
        { symmetry. apply (N.mod_unique _ 1024 (c - 55296)); subst cp; lia. }
        rewrite D, M. cbn [app]. f_equal; [lia|f_equal; lia].
    + destruct ((56320 <=? c) && (c <=? 57343)) eqn:El; [discriminate|].
      destruct (code_points r) as [cps'|] eqn:Ec; [|discriminate]. cbn [option_map] in Hc. injection Hc as <-.
      destruct (IH r cps') as [I1 I2]; [lia|exact Hr|exact Ec|].
      cbn [forallb flat_map]. rewrite I1, I2. split.
      * unfold is_scalar. lia.
      * unfold units_of_cp. replace (c <? 65536) with true by lia. reflexivity.
Qed.

Lemma utf8_decode_enc : forall cps, forallb is_scalar cps = true ->
  forall fuel, (length (flat_map utf8_spec cps) <= fuel)%nat ->
  utf8_decode fuel (flat_map utf8_spec cps) = Some cps.
Proof.
  induction cps as [|cp r IH]; intros H fuel Hf.
  - destruct fuel; reflexivity.
  - cbn [forallb] in H. apply andb_true_iff in H. destruct H as [H1 H2]. cbn [flat_map] in *.
    apply utf8_decode_spec_app; [exact H1|exact (IH H2)|exact Hf].
Qed.

(* transfer: whatever the reader returns for the UTF-16 document, the UTF-8 reader returns for the
   UTF-8 document *)
Theorem utf8_document_transfer : forall v11 ver enc es bs t,
  str_ok ver = true -> str_ok enc = true -> forallb sim_event_ok es = true ->
  payload (document_items fam_utf16 v11 ver enc es) = Ok bs -> parse_doc v11 bs = Some t ->
  exists bytes, payload (document_items fam_utf8 v11 ver enc es) = Ok bytes /\
                parse_doc_utf8 v11 bytes = Some t.
Proof.
  intros v11 ver enc es bs t Hv He Hes Hp Ht.
  pose proof (sim_document v11 ver enc es Hv He Hes) as S. unfold sim in S. rewrite Hp in S.
  destruct S as [cps [Hc [H8 Hs]]].
  destruct (code_points_facts (length bs) bs cps (le_n _) Hs Hc) as [F1 F2].
  exists (flat_map utf8_spec cps). split; [exact H8|].
  unfold parse_doc_utf8. rewrite (utf8_decode_enc cps F1) by lia. rewrite F2. exact Ht.
Qed.
