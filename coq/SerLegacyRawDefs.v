(* SerLegacyRawDefs.v — C04, part "legacy": the raw marker (m_nextIsRaw) on the side of the NEW serializer
   (XalanXMLSerializerBase::processingInstruction / characters / cdata, FormatterToXMLUnicode::charactersRaw),
   as a wrapper around the event model of SerEscDefs.v, which has no marker: the marker PI writes nothing and
   sets the flag; the next characters() / cdata() call with length != 0 clears it and writes its text through
   m_writer.write(chars, length) after writeParentTagEnd.  Definitions only; used by the correspondence of
   props/C04_legacy.py for the scripts that contain the marker. *)
From Coq Require Import NArith List Bool.
Require Import XV.GenSerLegacy XV.SerDefs XV.SerLegacyDefs.
Import ListNotations.
Local Open Scope N_scope.

Definition u_is_marker (e : event) : bool :=
  match e with
  | EPI t d => lg_list_eqb t lg_raw_target && lg_list_eqb d lg_raw_data
  | _ => false
  end.

Definition u_consumes (e : event) : bool :=
  match e with
  | EText (_ :: _) => true
  | ECdata (_ :: _) => true
  | _ => false
  end.

Definition u_event_text (e : event) : list N :=
  match e with EText s => s | ECdata s => s | _ => [] end.

Definition u_raw_items (F : fam) (e : event) (st : list bool) : list item * list bool :=
  let '(p, st1) := parent_tag_end F st in (p ++ f_str F (u_event_text e), st1).

Fixpoint u_events_raw (F : fam) (v11 : bool) (es : list event) (st : list bool) (raw : bool) : list item :=
  match es with
  | [] => []
  | e :: r =>
      if u_is_marker e then u_events_raw F v11 r st true
      else if u_consumes e then
        let '(its, st1) := if raw then u_raw_items F e st else event_items F v11 e st in
        its ++ u_events_raw F v11 r st1 false
      else
        let '(its, st1) := event_items F v11 e st in
        its ++ u_events_raw F v11 r st1 raw
  end.

Definition u_document_raw (F : fam) (v11 : bool) (version encoding : list N) (es : list event) : list item :=
  write_header F version encoding ++ u_events_raw F v11 es [] false ++ [IFlush].

Definition u_serialize_raw (F : fam) (v11 : bool) (version encoding : list N) (es : list event) : res (list N) :=
  match run (f_kbuf F) (u_document_raw F v11 version encoding es) (wr_init (f_kbuf F)) with
  | Ok w => Ok (rev_append (out_rev w) (rev_append (buf_rev w) []))
  | Oob => Oob
  | Thrown c => Thrown c
  end.
