"""C16 — xsl:sort yields a stable permutation ordered by its keys."""
import json, math, os, struct
from vlib import core, xsltrun

LEVEL = "proof"
FAMILY = "sort"
XSL = "http://www.w3.org/1999/XSL/Transform"


def bits(x):
    return struct.unpack(">Q", struct.pack(">d", x))[0]


def tok(s):
    return "u:" + ",".join("%x" % ord(c) for c in s)


# ---------------------------------------------------------------------------------------------
# case = {"id", "n", "rows": [ {attr: value} ], "text": [str] (element content), "sel": select expr,
#         "keys": [ {"dtype": "text"|"number", "desc": bool, "case": ""|"upper-first"|"lower-first",
#                    "expr": xpath or None, "attrs": {name: (kind, value)} } ], "mode": "for-each"|"apply"}
# attrs kinds: "simple" (literal), "parts" (AVT with {}), absent (not in the dict)

def avt_text(kind, value, rng):
    if kind == "simple":
        return value
    # an AVT with {} parts that evaluates to value (bare literal parts included: they used to
    # overwrite the buffer — fixed in /repo by b279609, XPath::literal/numberlit string overloads)
    k = rng.randrange(0, len(value) + 1)
    form = rng.randrange(7)
    if form == 0:
        return "{concat('%s','%s')}" % (value[:k], value[k:])
    if form == 1:
        return "%s{substring('%s',%d)}" % (value[:k], value, k + 1)
    if form == 2:
        return "{substring('%s',1,%d)}%s" % (value, k, value[k:])
    if form == 3:
        return "{'%s'}" % value
    if form == 4:
        return "%s{'%s'}" % (value[:k], value[k:])
    if form == 5:
        return "{'%s'}{'%s'}" % (value[:k], value[k:])
    return "{substring('%s',1,%d)}{substring('%s',%d)}" % (value, k, value, k + 1)


def sort_elems_xml(case):
    out = ""
    for k in case["keys"]:
        a = ""
        if k["expr"] is not None:
            a += ' select="%s"' % k["expr"]
        for name in ("data-type", "order", "case-order"):
            if name in k["attrs"]:
                a += ' %s="%s"' % (name, k["attrs"][name][2])
        out += "<xsl:sort%s/>" % a
    return out


def key_expr(k):
    return k["expr"] if k["expr"] is not None else "."


def build_sheet(case):
    """one transformation; per select expression of the case (one or two: a second sort in the same
    transformation sees caches and scratch vectors used before): an unsorted pass (ids and the
    library's own key values) and the sorted pass"""
    emit_keys = ""
    for k in case["keys"]:
        e = key_expr(k)
        emit_keys += ('|<xsl:value-of select="number(%s)"/>;<xsl:value-of select="1 div number(%s)"/>;<xsl:value-of select="string(%s)"/>' % (e, e, e))
    body = '<xsl:value-of select="@id"/>:<xsl:value-of select="position()"/>/<xsl:value-of select="last()"/>,'
    sorts = sort_elems_xml(case)
    extra = '<xsl:template match="*" mode="m">%s</xsl:template>' % body if case["mode"] != "for-each" else ""
    main = ""
    for sel in case["sels"]:
        if case["mode"] == "for-each":
            sorted_pass = '<xsl:for-each select="%s">%s%s</xsl:for-each>' % (sel, sorts, body)
        else:
            sorted_pass = '<xsl:apply-templates select="%s" mode="m">%s</xsl:apply-templates>' % (sel, sorts)
        main += ('<xsl:for-each select="%s"><xsl:value-of select="@id"/>%s<xsl:text>&#10;</xsl:text></xsl:for-each>'
                 '<xsl:text>==&#10;</xsl:text>%s<xsl:text>&#10;##&#10;</xsl:text>' % (sel, emit_keys, sorted_pass))
    return ('<xsl:stylesheet version="1.0" xmlns:xsl="%s"><xsl:output method="text"/>'
            '<xsl:template match="/">%s</xsl:template>%s</xsl:stylesheet>' % (XSL, main, extra))


def build_source(case):
    out = "<r>"
    for i, row in enumerate(case["rows"]):
        out += '<n id="%d"%s>%s</n>' % (i, "".join(' %s="%s"' % kv for kv in sorted(row.items())), case["text"][i])
    return out + "</r>"


def parse_output(txt):
    """-> list (one per pass) of (unsorted [(id, [(float, str)])], sorted [(id, pos, last)]), or None"""
    out = []
    chunks = txt.split("\n##\n")
    if chunks[-1] != "":
        return None
    for ch in chunks[:-1]:
        if "==\n" not in ch:
            return None
        a, b = ch.split("==\n", 1)
        uns = []
        for line in a.split("\n"):
            if not line:
                continue
            f = line.split("|")
            vals = []
            for x in f[1:]:
                num, inv, s = x.split(";", 2)
                v = float("nan") if num == "NaN" else float(num.replace("Infinity", "inf"))
                if v == 0 and inv == "-Infinity":
                    v = -0.0
                vals.append((v, s))
            uns.append((int(f[0]), vals))
        srt = []
        for item in b.strip("\n").split(","):
            if not item:
                continue
            i, rest = item.split(":")
            p, l = rest.split("/")
            srt.append((int(i), int(p), int(l)))
        out.append((uns, srt))
    return out


# ---------------------------------------------------------------------------------------------
# independent oracle: the property text evaluated on the library's output (no Coq model involved)

def py_key_cmp(k, va, vb):
    if k["dtype"] == "number":
        x, y = va[0], vb[0]
        if math.isnan(x):
            r = 0 if math.isnan(y) else -1
        elif math.isnan(y):
            r = 1
        else:
            r = -1 if x < y else (1 if x > y else 0)
    else:
        x, y = va[1], vb[1]          # assumption: collation = code point order on the generated alphabet
        r = -1 if x < y else (1 if x > y else 0)
    return -r if k["desc"] else r


def py_cmp(keys, va, vb):
    for j, k in enumerate(keys):
        r = py_key_cmp(k, va[j], vb[j])
        if r:
            return r
    return 0


def oracle(case, uns, srt):
    """returns None or a description of how the property text fails"""
    ids_u = [i for i, _ in uns]
    ids_s = [i for i, _, _ in srt]
    if sorted(ids_u) != sorted(ids_s):
        return "the sorted pass processed %r, not a permutation of the selected nodes %r" % (ids_s[:40], ids_u[:40])
    if ids_u != sorted(ids_u):
        return "the unsorted pass is not in document order: %r" % ids_u[:40]
    vals = dict(uns)
    n = len(srt)
    for idx, (i, p, l) in enumerate(srt):
        if p != idx + 1 or l != n:
            return "node %d is processed as number %d of %d but position()/last() = %d/%d" % (i, idx + 1, n, p, l)
    for idx in range(n - 1):
        a, b = ids_s[idx], ids_s[idx + 1]
        r = py_cmp(case["keys"], vals[a], vals[b])
        if r > 0:
            return "node %d (keys %r) is processed before node %d (keys %r) although it sorts after it" % (a, vals[a], b, vals[b])
        if r == 0 and a > b:
            return "nodes %d and %d have equal keys %r but are processed against document order (not stable)" % (a, b, vals[a])
    return None


# ---------------------------------------------------------------------------------------------
# model line

def model_line(case, uns, lid):
    n = len(uns)
    parts = [lid, str(len(case["keys"])), str(n)]
    for k in case["keys"]:
        parts.append("-")    # lang: never generated (collation is assumed, not modelled)
        for name in ("data-type", "order", "case-order"):
            if name in k["attrs"]:
                kind, value, _ = k["attrs"][name]
                parts.append(("s:" if kind == "simple" else "p:") + tok(value))
            else:
                # ElemSort creates the defaults data-type="text", order="ascending" as simple AVTs
                parts.append({"data-type": "s:" + tok("text"), "order": "s:" + tok("ascending"), "case-order": "-"}[name])
    for j in range(len(case["keys"])):
        for _, vals in uns:
            v, s = vals[j]
            b = 0x7FF8000000000000 if math.isnan(v) else bits(v)
            parts.append("%016x/%s" % (b, tok(s)))
    return " ".join(parts)


def model_expected(case, uns, model_out):
    """translate the model's node indexes (positions in the selected list) back to ids"""
    if model_out is None or model_out == "error":
        return model_out, None
    a, _, pure = model_out.partition(";pure=")
    ids = [i for i, _ in uns]
    seq = []
    for item in a.split(","):
        if not item:
            continue
        nd, rest = item.split(":")
        seq.append("%d:%s" % (ids[int(nd)], rest))
    pure_ids = [ids[int(x)] for x in pure.split(",") if x != ""]
    return ",".join(seq), pure_ids


# ---------------------------------------------------------------------------------------------
# generators

ALPHA_L = "abcdefghijklmnopqrstuvwxyz0123456789"
ALPHA_U = "ABCDEFGHIJKLMNOPQRSTUVWXYZ0123456789"

def num_special():
    st = sentinel_text()
    return [("x", "1"), ("", "1"), ("0", "1"), ("0", "-1"), ("1", "0"), ("-1", "0"), ("0", "0"),
            (st, "1"), (st, "1"), (repr(float(st) * 2), "2"), ("-" + st, "1"), ("1", "1"), ("-1", "1"), ("1", "2"), ("-1", "2"),
            ("1e3", "1"), (" 7 ", "1"), ("7", "1"), ("7.0", "1")]


def gen_num_value(r, palette):
    c = r.random()
    if c < 0.35:
        return r.choice(num_special())
    if c < 0.8:
        return (str(r.choice(palette)), "1")
    return (str(r.randrange(-40, 40)), r.choice(["1", "2", "4", "-1", "8"]))


def gen_str_value(r, alpha, palette):
    c = r.random()
    if c < 0.12:
        return ""
    if c < 0.7:
        return r.choice(palette)
    return "".join(r.choice(alpha) for _ in range(r.choice([1, 1, 2, 3, 5])))


def gen_case(ctx, cid, n, nkeys, force=None):
    r = ctx.rng
    force = force or {}
    alpha = r.choice([ALPHA_L, ALPHA_U])
    keys = []
    for j in range(nkeys):
        dtype = force.get("dtype") or r.choice(["text", "number"])
        desc = force.get("desc", r.random() < 0.4)
        co = r.choice(["", "", "upper-first", "lower-first"]) if dtype == "text" else r.choice(["", "", "", "lower-first"])
        attrs = {}
        if dtype == "number" or r.random() < 0.3:
            kind = "parts" if r.random() < 0.25 else "simple"
            attrs["data-type"] = (kind, dtype)
        if desc or r.random() < 0.3:
            kind = "parts" if r.random() < 0.25 else "simple"
            attrs["order"] = (kind, "descending" if desc else "ascending")
        if co:
            kind = "parts" if r.random() < 0.25 else "simple"
            attrs["case-order"] = (kind, co)
        attrs = {a: (kind, v, avt_text(kind, v, r)) for a, (kind, v) in attrs.items()}
        if dtype == "number":
            form = r.randrange(8)
            if form == 0 and j == 0:
                expr = "position() mod 3"
            elif form == 1:
                expr = "(last() - position()) mod 4"
            elif form == 2 and j == 0:
                expr = None                           # the node's string value
            else:
                expr = "@a%d div @d%d" % (j, j)
        else:
            form = r.randrange(8)
            if form == 0:
                expr = "concat(@s%d, '')" % j
            elif form == 1 and j == 0:
                expr = None
            elif form == 2:
                expr = "substring(@s%d, 1, 2)" % j
            else:
                expr = "@s%d" % j
        keys.append({"dtype": dtype, "desc": desc, "case": co, "expr": expr, "attrs": attrs})
    # few distinct values per key so that ties (and therefore later keys and stability) matter
    npal = force.get("npal") or r.choice([1, 2, 3, 5, 12])
    rows, text = [], []
    pal_n = [[r.choice([0, 1, 2, 3, 5, 10, -1, -7, 100, sentinel_text()]) for _ in range(npal)] for _ in range(nkeys)]
    pal_s = [["".join(r.choice(alpha) for _ in range(r.choice([1, 2, 3]))) for _ in range(npal)] for _ in range(nkeys)]
    for i in range(n):
        row = {"g": str(r.randrange(2))}
        t = ""
        for j, k in enumerate(keys):
            if k["dtype"] == "number":
                a, d = gen_num_value(r, pal_n[j])
                if force.get("allnan"):
                    a, d = r.choice([("x", "1"), ("", "1"), ("0", "0")])
                row["a%d" % j], row["d%d" % j] = a, d
                if k["expr"] is None:
                    t = a
            else:
                s = gen_str_value(r, alpha, pal_s[j])
                row["s%d" % j] = s
                if k["expr"] is None:
                    t = s
        rows.append(row)
        text.append(t)
    sel = force.get("sel") or r.choice(["/r/n"] * 6 + ["/r/n[@g='1']", "/r/n[last()]/preceding-sibling::n",
                                                       "/r/n[@g='1'] | /r/n[@g='0']", "//n", "/r/*", "/r/n[1]/following-sibling::*"])
    mode = force.get("mode") or r.choice(["for-each", "for-each", "apply"])
    sels = [sel]
    if r.random() < 0.3:      # a second sort in the same transformation, over another node list
        sels.append(r.choice(["/r/n[@g='0']", "/r/n[@g='1']", "/r/n[position() &gt; 1]", "/r/n", "/r/n[position() mod 2 = 0]"]))
    return {"id": cid, "n": n, "rows": rows, "text": text, "sel": sel, "sels": sels, "keys": keys, "mode": mode}


def gen_cases(ctx, count):
    r = ctx.rng
    cases = []

    def add(cls, n, nkeys, **force):
        c = gen_case(ctx, "c%d" % len(cases), n, nkeys, force)
        c["cls"] = cls
        cases.append(c)
    # boundary streams aimed at the case splits of the proofs and of the 7b mutations
    for n in (0, 1, 2, 3):
        for nk in (1, 2):
            add("tiny", n, nk)
    for _ in range(max(4, count // 12)):       # all keys equal on > 32 nodes: only stability decides
        add("big-all-equal", r.choice([33, 40, 64, 100]), r.choice([1, 2]), npal=1, sel="/r/n")
    for _ in range(max(4, count // 12)):       # big with few distinct values
        add("big-few-values", r.choice([17, 33, 50, 90, 130]), r.choice([1, 2, 3]), npal=r.choice([2, 3]))
    for _ in range(max(4, count // 12)):       # first key NaN everywhere: the second key must decide
        add("first-key-all-nan", r.choice([3, 6, 20, 40]), r.choice([2, 3]), dtype="number", allnan=True)
    for _ in range(max(4, count // 12)):       # descending with ties
        add("descending-ties", r.choice([4, 9, 20, 40]), r.choice([1, 2]), desc=True, npal=2)
    for _ in range(max(4, count // 12)):
        add("numeric-specials", r.choice([5, 12, 30]), 1, dtype="number", npal=12)
    for _ in range(max(4, count // 12)):
        add("apply-templates", r.choice([2, 7, 35]), r.choice([1, 2, 3]), mode="apply")
    while len(cases) < count:
        add("random", r.choice([2, 3, 4, 5, 8, 13, 21, 34, 60]), r.choice([1, 1, 2, 2, 3]))
    return cases


# ---------------------------------------------------------------------------------------------
# the bit-pattern model of the IEEE comparisons (d_is_nan / d_lt / d_gt on Z) against the hardware

def ieee_probe(ctx, model):
    r = ctx.rng
    special = [0, 1 << 63, 0x7FF0000000000000, 0xFFF0000000000000, 0x7FF8000000000000, 0xFFF8000000000001, 0x7FF0000000000001,
               1, (1 << 63) | 1, 0x000FFFFFFFFFFFFF, 0x0010000000000000, 0x7FEFFFFFFFFFFFFF, 0xFFEFFFFFFFFFFFFF, bits(1.0), bits(-1.0),
               bits(float(sentinel_text()))]
    pairs = [(a, b) for a in special for b in special]
    for _ in range(3000 if not ctx.thorough else 30000):
        a = r.choice(special) if r.random() < 0.2 else r.getrandbits(64)
        b = r.choice([a, a ^ 1, a ^ (1 << 63), r.getrandbits(64), r.choice(special)])
        pairs.append((a, b))
    lines = ["q%d N %016x %016x" % (i, a, b) for i, (a, b) in enumerate(pairs)]
    rc, res, raw = core.run_lines_parallel(model, lines)
    bad = []
    for i, (a, b) in enumerate(pairs):
        x, y = struct.unpack(">d", struct.pack(">Q", a))[0], struct.unpack(">d", struct.pack(">Q", b))[0]
        if math.isnan(x):
            exp = "Eq" if math.isnan(y) else "Lt"
        elif math.isnan(y):
            exp = "Gt"
        else:
            exp = "Lt" if x < y else ("Gt" if x > y else "Eq")
        ctx.count("ieee-probe")
        if res.get("q%d" % i) != exp:
            bad.append("num_compare %016x %016x: model %s, IEEE comparison %s" % (a, b, res.get("q%d" % i), exp))
    return bad


_SENT = {}


def sentinel_text():
    """the cache's dummy value as written in the current source (so that keys equal to it are generated)"""
    if "t" not in _SENT:
        import srcfacts
        try:
            v = srcfacts.GENERATORS["GenSort"]()[1]["sentinel"]
        except Exception:
            v = 135792468.0
        _SENT["t"] = str(int(v)) if v == int(v) and abs(v) < 1e15 else repr(v)
    return _SENT["t"]


# ---------------------------------------------------------------------------------------------
# collation probe: is the collation assumed by the model/oracle (code point order on single-case
# ASCII alphanumerics, empty string first) the one the library uses here?

def collation_probe(ctx, exe):
    r = ctx.rng
    out = []
    for alpha in (ALPHA_L, ALPHA_U):
        words = [""] + list(alpha) + ["".join(r.choice(alpha) for _ in range(r.choice([2, 2, 3, 4]))) for _ in range(80)]
        words += [w + c for w in words[1:20] for c in alpha[:2]]
        r.shuffle(words)
        src = "<r>" + "".join('<n id="%d" s="%s"/>' % (i, w) for i, w in enumerate(words)) + "</r>"
        for co in ("", ' case-order="upper-first"', ' case-order="lower-first"'):
            sheet = ('<xsl:stylesheet version="1.0" xmlns:xsl="%s"><xsl:output method="text"/><xsl:template match="/">'
                     '<xsl:for-each select="/r/n"><xsl:sort select="@s"%s/><xsl:value-of select="@s"/>,</xsl:for-each></xsl:template></xsl:stylesheet>' % (XSL, co))
            res = xsltrun.run([{"id": "p", "sheet": sheet, "source": src}], exe=exe)["p"]
            if res[0] != "ok":
                out.append("collation probe failed to run: %r" % (res,))
                continue
            got = res[1].decode("utf-8").split(",")[:-1]
            if got != sorted(words):
                bad = next((i for i in range(len(got) - 1) if got[i] > got[i + 1]), None)
                out.append("collation probe%s: %r is placed before %r" % (co, got[bad] if bad is not None else "?", got[bad + 1] if bad is not None else "?"))
    return out


# ---------------------------------------------------------------------------------------------
# known finding K-C16-1: the lang of one xsl:sort leaks into the others (replay corpus/C16/k_lang.json)

def lang_corpus():
    p = os.path.join(core.VERIF, "corpus", "C16", "k_lang.json")
    return json.load(open(p)) if os.path.exists(p) else []


def run_lang_corpus(ctx, exe, known):
    """each entry: sheet, source, expected (property text: every key uses its own lang), defect (what the
    code as modelled produces).  Only meaningful when ICU has the locale data: 'probe' entries check that."""
    entries = lang_corpus()
    if not entries:
        ctx.broken.append("corpus/C16/k_lang.json is missing")
        return
    res = xsltrun.run([{"id": e["id"], "sheet": e["sheet"], "source": e["source"]} for e in entries], exe=exe)
    usable = all(res[e["id"]][0] == "ok" and res[e["id"]][1].decode() == e["expected"] for e in entries if e["kind"] == "probe")
    ctx.notes["lang_probe_usable"] = usable
    hit = False
    for e in entries:
        if e["kind"] != "replay":
            continue
        ctx.cov["evaluations"] += 1
        ctx.count("corpus:lang")
        got = res[e["id"]]
        txt = got[1].decode() if got[0] == "ok" else repr(got)
        if txt == e["expected"]:
            continue
        if usable and txt == e["defect"] and "K-C16-1" in known:
            hit = True
        elif usable:
            ctx.violation("lang", "# C16: xsl:sort lang handling differs from both the property and the recorded finding\n%s\n# got %s expected %s"
                          % (json.dumps(e), txt, e["expected"]))
    if hit:
        ctx.known_finding("K-C16-1 " + known["K-C16-1"]["what"])


# ---------------------------------------------------------------------------------------------
# context independence of a key (no model of the collation involved): the order a sort key produces
# depends only on that key's own attributes and values, not on which sorts ran before — in the
# same transformation, as an earlier key of the same sort, or earlier on a reused transformer.
# Plus the part of XSLT 1.0 section 10 that needs no collation model: upper-first puts the
# upper-case variant of two strings that are equal ignoring case first, lower-first the reverse;
# case-order never changes the relative order of strings that differ ignoring case.

CASE_ORDERS = ["", "upper-first", "lower-first"]
CTX_LANGS = ["en", "de", "sv", "fr", "en-US", ""]


def ctx_sort_xml(sel, lang, co, desc):
    a = ' select="%s"' % sel
    if lang:
        a += ' lang="%s"' % lang
    if co:
        a += ' case-order="%s"' % co
    if desc:
        a += ' order="descending"'
    return "<xsl:sort%s/>" % a


def ctx_sheet(passes):
    """passes: list of lists of xsl:sort xml (one for-each per entry); each pass prints id:pos/last, then a newline"""
    body = '<xsl:value-of select="@id"/>:<xsl:value-of select="position()"/>/<xsl:value-of select="last()"/>,'
    main = "".join('<xsl:for-each select="/r/n">%s%s</xsl:for-each><xsl:text>&#10;</xsl:text>' % ("".join(p), body) for p in passes)
    return ('<xsl:stylesheet version="1.0" xmlns:xsl="%s"><xsl:output method="text"/><xsl:template match="/">%s</xsl:template></xsl:stylesheet>'
            % (XSL, main))


def gen_ctx_group(ctx, gid):
    r = ctx.rng
    lang = r.choice(CTX_LANGS)
    desc = r.random() < 0.25
    letters = r.choice(["ab", "abc", "abz", "bo"])
    bases = ["a", "b", "ab"] + ["".join(r.choice(letters) for _ in range(r.choice([1, 2, 2, 3]))) for _ in range(r.randrange(1, 4))]
    words = []
    for b in bases:
        for _ in range(r.choice([2, 2, 3, 4])):
            words.append("".join(c.upper() if r.random() < 0.5 else c for c in b))
    words += ["a", "A", "b", "B"][:r.choice([0, 2, 4])]
    if r.random() < 0.3:
        words += [r.choice(words), "7" + r.choice("aA"), "7"]
    r.shuffle(words)
    words = words[:16]
    source = "<r>" + "".join('<n id="%d" k="%s"/>' % (i, w) for i, w in enumerate(words)) + "</r>"
    jobs = []

    def job(role, co, sheet, proc, opts=""):
        j = {"id": "%s_%s_%s" % (gid, role, co or "none"), "role": role, "co": co, "sheet": sheet, "source": source, "proc": proc}
        if opts:
            j["opts"] = opts
        jobs.append(j)
    for co in CASE_ORDERS:
        S = ctx_sort_xml("@k", lang, co, desc)
        others = [c for c in CASE_ORDERS if c != co]
        r.shuffle(others)
        P = [ctx_sort_xml("@k", lang, c, r.random() < 0.3) for c in others]
        job("iso", co, ctx_sheet([[S]]), "fresh")
        # (i) a later sort of a transformation that ran other specs with the same lang before
        job("later", co, ctx_sheet([[p] for p in P[:r.choice([1, 2])]] + [[S]]), "fresh")
        # (ii) a later key, after a key with other attributes on which all nodes tie
        tie = ctx_sort_xml(r.choice(["'x'", "1", "string(../@none)"]), lang, others[0], r.random() < 0.3)
        job("key2", co, ctx_sheet([[tie, S]]), "fresh")
        # (iii) on a reused transformer after another transformation
        seq = "%s_seq_%s" % (gid, co or "none")
        job("reuse-before", co, ctx_sheet([[p] for p in P]), seq, "reuse")
        job("reuse", co, ctx_sheet([[S]]), seq, "reuse")
    return {"gid": gid, "lang": lang, "desc": desc, "words": words, "jobs": jobs}


def run_ctx_groups(groups, exe):
    """fresh jobs in batches; each reuse sequence in its own process, in order"""
    from concurrent.futures import ThreadPoolExecutor
    fresh = [j for g in groups for j in g["jobs"] if j["proc"] == "fresh"]
    seqs = {}
    for g in groups:
        for j in g["jobs"]:
            if j["proc"] != "fresh":
                seqs.setdefault(j["proc"], []).append(j)
    res, _ = run_jobs(fresh, exe)

    def run_seq(js):
        rc, o, raw = core.run_lines(exe, "\n".join(xsltrun.line_of(j) for j in js) + "\n", sep="|")
        return {j["id"]: decode_result(o.get(j["id"])) for j in js}
    with ThreadPoolExecutor(core.NPROC) as ex:
        for d in ex.map(run_seq, list(seqs.values())):
            res.update(d)
    return res


def ctx_parse(r):
    """last pass of the output -> [(id, pos, last)] or None"""
    if r[0] != "ok":
        return None
    lines = [l for l in r[1].decode("utf-8").split("\n") if l != ""]
    if not lines:
        return []
    out = []
    for item in lines[-1].split(","):
        if item:
            i, rest = item.split(":")
            p, l = rest.split("/")
            out.append((int(i), int(p), int(l)))
    return out


def case_direction(x, y):
    """x, y equal ignoring case and different: +1 if x is the upper-case variant wherever they differ,
    -1 if the lower-case variant, 0 if mixed (no verdict)"""
    d = set()
    for a, b in zip(x, y):
        if a != b:
            d.add(1 if a.isupper() else -1)
    return d.pop() if len(d) == 1 else 0


def check_ctx_group(g, res):
    """returns a list of failure texts"""
    words, n = g["words"], len(g["words"])
    fails = []
    iso = {}
    for j in g["jobs"]:
        if j["role"] == "reuse-before":
            continue
        srt = ctx_parse(res[j["id"]])
        what = "%s of <xsl:sort select=\"@k\"%s%s%s/>" % (
            j["role"], ' lang="%s"' % g["lang"] if g["lang"] else "", ' case-order="%s"' % j["co"] if j["co"] else "", ' order="descending"' if g["desc"] else "")
        if srt is None:
            fails.append("%s: the transformation failed: %r" % (what, res[j["id"]]))
            continue
        ids = [i for i, _, _ in srt]
        if sorted(ids) != list(range(n)) or any(p != k + 1 or l != n for k, (_, p, l) in enumerate(srt)):
            fails.append("%s: not a permutation with position()/last() in processing order: %r" % (what, srt))
            continue
        for a, b in zip(ids, ids[1:]):
            if words[a] == words[b] and a > b:
                fails.append("%s: nodes %d and %d have the same key %r but are processed against document order" % (what, a, b, words[a]))
        if j["role"] == "iso":
            iso[j["co"]] = ids
            sign = -1 if g["desc"] else 1
            want = {"upper-first": 1, "lower-first": -1}.get(j["co"])
            # only with an explicit lang: without one the collator is the process default, which in a
            # C/POSIX environment (ICU en_US_POSIX) orders ASCII by code point at the primary level
            if want and g["lang"]:
                for x in range(n):
                    for y in range(x + 1, n):
                        a, b = words[ids[x]], words[ids[y]]          # a is processed before b
                        if a != b and a.lower() == b.lower():
                            d = case_direction(a, b)
                            if d and d != want * sign:
                                fails.append("%s: %r is processed before %r" % (what, a, b))
        elif j["co"] in iso and ids != iso[j["co"]]:
            fails.append("%s: processed as %s but the same key alone on a fresh transformer gives %s (keys %s)" % (
                what, ids, iso[j["co"]], " ".join(words)))
    # case-order only decides between strings that are equal ignoring case
    if len(iso) == 3 and g["lang"]:
        def rel(ids):
            pos = {i: k for k, i in enumerate(ids)}
            return {(a, b): pos[a] < pos[b] for a in range(n) for b in range(a + 1, n) if words[a].lower() != words[b].lower()}
        base = rel(iso[""])
        for co in ("upper-first", "lower-first"):
            diff = [k for k, v in rel(iso[co]).items() if v != base[k]]
            if diff:
                a, b = diff[0]
                fails.append("case-order=%s changes the relative order of %r and %r, which differ ignoring case" % (co, words[a], words[b]))
    return fails


def evaluate_ctx(ctx, groups, exe):
    res = run_ctx_groups(groups, exe)
    orc = []
    for g in groups:
        ctx.cov["evaluations"] += len(g["jobs"])
        ctx.count("context-independence:lang=%s" % (g["lang"] or "none"), len(g["jobs"]))
        f = check_ctx_group(g, res)
        if f:
            orc.append({"group": g, "what": f})
    return orc


# ---------------------------------------------------------------------------------------------

def decode_result(r):
    if r is None:
        return ("crash",)
    f = r.split("|")
    if f[0] == "ok":
        return ("ok", bytes.fromhex(f[1]) if len(f) > 1 else b"")
    return ("err", int(f[1]), bytes.fromhex(f[2]).decode("utf-8", "replace") if len(f) > 2 else "")


def run_jobs(jobs, exe, chunk=48):
    """run the transformations in batches (one driver process per batch).  A crash loses the rest of
    its batch: those cases are rerun one per process.  Returns (results, [sequence of jobs that
    crashed a driver although none of them fails alone])"""
    from concurrent.futures import ThreadPoolExecutor
    chunks = [jobs[i:i + chunk] for i in range(0, len(jobs), chunk)]

    def run_chunk(ch):
        rc, res, raw = core.run_lines(exe, "\n".join(xsltrun.line_of(j) for j in ch) + "\n", sep="|")
        return res
    with ThreadPoolExecutor(core.NPROC) as ex:
        outs = list(ex.map(run_chunk, chunks))
        res, lost, seqs = {}, [], []
        for ch, o in zip(chunks, outs):
            missing = [j for j in ch if j["id"] not in o]
            if missing:
                first = ch.index(missing[0])
                seqs.append(ch[:first + 1])
                lost += missing
            for j in ch:
                res[j["id"]] = decode_result(o.get(j["id"]))
        alone = list(ex.map(lambda j: run_chunk([j]), lost))
    culprit = False
    for j, o in zip(lost, alone):
        res[j["id"]] = decode_result(o.get(j["id"]))
        culprit = culprit or res[j["id"]][0] == "crash"
    return res, ([] if culprit else seqs)


def evaluate(ctx, cases, exe, model):
    """returns (correspondence mismatches, oracle failures)"""
    jobs = [{"id": c["id"], "sheet": build_sheet(c), "source": build_source(c)} for c in cases]
    res, crashed_seqs = run_jobs(jobs, exe)
    corr, orc = [], []
    lines, parsed = [], {}
    for c in cases:
        ctx.cov["evaluations"] += 1
        ctx.count(c["cls"] + ":" + c["mode"])
        got = res[c["id"]]
        if got[0] != "ok":
            orc.append({"case": c, "what": "the transformation failed: %r" % (got,)})
            continue
        p = parse_output(got[1].decode("utf-8"))
        if p is None or len(p) != len(c["sels"]):
            orc.append({"case": c, "what": "unexpected output %r" % got[1][:200]})
            continue
        parsed[c["id"]] = p
        ctx.count("passes:%d" % len(p))
        for pi, (uns, srt) in enumerate(p):
            ctx.count("size:%s" % ("0-1" if len(uns) < 2 else "2-16" if len(uns) <= 16 else "17-32" if len(uns) <= 32 else ">32"))
            msg = oracle(c, uns, srt)
            if msg:
                orc.append({"case": c, "what": "pass %d (%s): %s" % (pi + 1, c["sels"][pi], msg), "got": ",".join("%d:%d/%d" % t for t in srt)})
            lines.append(model_line(c, uns, "%s_%d" % (c["id"], pi)))
    for seq in crashed_seqs[:3]:
        orc.append({"case": {"id": "seq", "n": 10 ** 6, "keys": [], "sels": [], "sel": "", "mode": "", "cls": "sequence"},
                    "what": "the driver crashed while running this sequence of transformations in one process (no single one crashes alone)",
                    "sequence": seq})
    mres = {}
    if model and lines:
        rc, mres, raw = core.run_lines_parallel(model, lines)
        if rc != 0:
            ctx.broken.append("model driver exited with status %d: %s" % (rc, raw[-300:]))
    nontrivial = set()
    for c in cases:
        for pi, (uns, srt) in enumerate(parsed.get(c["id"], [])):
            got = ",".join("%d:%d/%d" % t for t in srt)
            if [i for i, _, _ in srt] != [i for i, _ in uns]:
                nontrivial.add((got, json.dumps(c["keys"], sort_keys=True)))
            if model:
                ctx.cov["traces_validated_against_impl"] += 1
                exp, pure = model_expected(c, uns, mres.get("%s_%d" % (c["id"], pi)))
                if exp != got:
                    corr.append({"case": c, "impl": got, "model": exp})
                elif pure != [i for i, _, _ in srt]:
                    corr.append({"case": c, "impl": got, "model": "cache-free model differs: %r" % pure})
    ctx.cov["distinct_nontrivial"] += len(nontrivial)
    return corr, orc


def replay_text(o):
    c = o["case"]
    if "sequence" in o:
        return "# %s\n%s" % (o["what"], json.dumps({"sequence": o["sequence"]}))
    d = {"case": c, "sheet": build_sheet(c), "source": build_source(c)}
    return "# %s\n# library output: %s\n%s" % (o["what"], o.get("got", ""), json.dumps(d))


def run(ctx):
    ctx.assumptions += [
        "collation (ICU, default locale of the process, any case-order) orders strings of single-case ASCII letters and digits by code point, the empty string first (probed on every run; Coq: a Section variable assumed to be a total preorder, instantiated by code-point order)",
        "std::stable_sort returns a permutation that is sorted and keeps equivalent elements in order whenever the comparator is a strict weak ordering (proved for the comparator; sort_unique then fixes the result)",
        "the value of a sort key's select expression for a node does not depend on when it is evaluated (the model takes the values from the library's own unsorted pass)",
        "context-independence stream: ICU collation is deterministic for a given (locale, case-order) — the stream compares the library with itself (same key alone on a fresh transformer) and checks only the case-order rule of XSLT 1.0 section 10 on strings equal ignoring case; no collation order is assumed",
        "key values are read back through string(number): generated numerators/divisors give doubles that print exactly (integers, binary fractions, NaN, +-Infinity, -0 via 1 div x)",
    ]
    ctx.notes["rule"] = "distinct_nontrivial = distinct (sorted output sequence, key list) pairs whose processing order differs from document order"
    ok_lib, liblog = core.build_lib("plain")
    if not ok_lib:
        ctx.broken.append("library does not build from the working tree: " + liblog[-500:])
        return ctx.finish(LEVEL)
    proved = ctx.prove(["Properties_C16.v"], ["GenSort"])
    try:
        import srcfacts
        f = srcfacts.GENERATORS["GenSort"]()[1]
        shared = f["lang_by_pointer"] and f["lang_shared_scratch"]
        fresh = f["lang_cleared_per_key"] or not f["lang_shared_scratch"]
        ctx.notes["lang_configuration"] = ("shared lang string (K-C16-1: _refuted/_partial theorems are the live ones)" if shared and not fresh
                                           else "one lang string per key (key_attrs_independent_when_repaired is the live theorem)" if fresh and not shared
                                           else "not covered by the theorems")
    except Exception as ex:
        ctx.notes["lang_configuration"] = "unknown: %s" % ex
    model, ok_m, mlog = core.build_model(FAMILY)
    if not ok_m:
        ctx.broken.append("model extraction/build failed: " + mlog[-500:])
        model = None
    exe, ok_h, hlog = xsltrun.build()
    if not ok_h:
        ctx.broken.append("xslt driver does not compile against the working tree: " + hlog[-500:])
        return ctx.finish(LEVEL)
    known = {k["key"]: k for k in ctx.known.for_property("C16")}

    if model:
        bad = ieee_probe(ctx, model)
        if bad:
            ctx.broken.append("the bit-pattern model of the double comparisons disagrees with IEEE arithmetic: " + "; ".join(bad[:3]))
    probe = collation_probe(ctx, exe)
    if probe:
        ctx.broken.append("collation assumption does not hold in this environment: " + "; ".join(probe[:3]))
    run_lang_corpus(ctx, exe, known)

    count = 700 if not ctx.thorough else 20000
    cases = gen_cases(ctx, count)
    ctx.cov["samples"] = [sort_elems_xml(c) + " over " + " and ".join(c["sels"]) + " n=%d" % c["n"] for c in cases[8:14]]
    corr, orc = evaluate(ctx, cases, exe, model)
    if (corr or not proved or not model or ctx.broken) and not orc and not ctx.thorough:
        ctx.escalated = True
        more = gen_cases(ctx, 3000)
        for c in more:
            c["id"] = "e" + c["id"]
        c2, o2 = evaluate(ctx, more, exe, model)
        corr += c2
        orc += o2
    ngroups = 60 if not ctx.thorough else 600
    groups = [gen_ctx_group(ctx, "g%d" % i) for i in range(ngroups)]
    ctx_fail = evaluate_ctx(ctx, groups, exe)
    ctx.notes["context_independence_groups"] = ngroups
    if ctx_fail:
        ctx_fail.sort(key=lambda o: (len(o["group"]["words"]), len(o["what"])))
        txt = "# C16: the order produced by a sort key depends on what was sorted before / case-order semantics; replay: python3 check.py C16 --replay <this file>\n"
        for o in ctx_fail[:10]:
            txt += "".join("# %s\n" % w for w in o["what"][:6]) + json.dumps({"ctxgroup": o["group"]}) + "\n"
        ctx.violation("context", txt)
    ctx.notes["context_independence_failures"] = len(ctx_fail)
    if corr:
        ctx.broken.append("correspondence sort: %d of %d cases differ between the extracted model and the library, e.g. keys %s over %s: library %s model %s" % (
            len(corr), ctx.cov["traces_validated_against_impl"], sort_elems_xml(corr[0]["case"]), corr[0]["case"]["sel"],
            corr[0]["impl"][:200], str(corr[0]["model"])[:200]))
        ctx.notes["correspondence_mismatches"] = [{"impl": x["impl"][:300], "model": str(x["model"])[:300], "keys": sort_elems_xml(x["case"])} for x in corr[:10]]
    if orc:
        orc.sort(key=lambda o: ("crash" in o["what"], o["case"]["n"], len(o["case"]["keys"])))
        ctx.violation("oracle", "# C16 oracle failures; replay: python3 check.py C16 --replay <this file>\n" +
                      "\n".join(replay_text(o) for o in orc[:20]))
    ctx.notes["oracle_failures"] = len(orc)
    return ctx.finish(LEVEL, explanation="theorems over the Gallina model of NodeSorter (comparator, caches, stable sort, attribute loop) + correspondence of the extracted model with whole transformations + independent Python oracle on the library's output")


def replay(ctx, path):
    core.build_lib("plain")
    exe, ok, log = xsltrun.build()
    rc = 0
    for line in open(path):
        if not line.strip() or line.startswith("#"):
            continue
        d = json.loads(line)
        if "ctxgroup" in d:
            g = d["ctxgroup"]
            fails = check_ctx_group(g, run_ctx_groups([g], exe))
            print("context group %s (lang=%r, keys %s):" % (g["gid"], g["lang"], " ".join(g["words"])))
            for f in fails:
                print("  FAIL: " + f)
            if not fails:
                print("  ok")
            rc |= 1 if fails else 0
            continue
        if "sequence" in d:
            res, seqs = run_jobs(d["sequence"], exe, chunk=len(d["sequence"]))
            bad = [j["id"] for j in d["sequence"] if res[j["id"]][0] == "crash"]
            print("sequence of %d transformations in one process:" % len(d["sequence"]), "FAIL: crash" if (bad or seqs) else "ok")
            rc |= 1 if (bad or seqs) else 0
        elif "case" in d:
            c = d["case"]
            got = xsltrun.run([{"id": c["id"], "sheet": d["sheet"], "source": d["source"]}], exe=exe)[c["id"]]
            if got[0] != "ok":
                print("FAIL", c["id"], got)
                rc = 1
                continue
            for pi, (uns, srt) in enumerate(parse_output(got[1].decode("utf-8")) or []):
                msg = oracle(c, uns, srt)
                print(c["id"], sort_elems_xml(c), "over", c["sels"][pi], "->", ",".join("%d:%d/%d" % t for t in srt))
                print("  " + ("FAIL: " + msg if msg else "ok"))
                rc |= 1 if msg else 0
        else:   # lang corpus entry
            got = xsltrun.run([{"id": d["id"], "sheet": d["sheet"], "source": d["source"]}], exe=exe)[d["id"]]
            txt = got[1].decode() if got[0] == "ok" else repr(got)
            print(d["id"], "->", txt, "| property expects", d["expected"])
            if d["kind"] == "replay" and txt != d["expected"]:
                print("  FAIL: " + d.get("what", "the keys do not use their own lang"))
                rc = 1
    return rc
