# KN1 repaired by a fix: commit - regression case, must pass (apply to <doc/>)
<xsl:stylesheet version="1.0" xmlns:xsl="http://www.w3.org/1999/XSL/Transform"><xsl:template match="/"><p:a xmlns:p="u4"><p:b xmlns:p="u5"><xsl:attribute name="x" namespace="u4">u4</xsl:attribute></p:b></p:a></xsl:template></xsl:stylesheet>
