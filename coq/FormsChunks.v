(* FormsChunks.v - C05: XalanOutputStream buffering: the callback chunks concatenate to the written data. *)
From Coq Require Import NArith List Bool Lia ZifyBool ZifyNat ZifyN.
Import ListNotations.
Require Import XV.GenForms XV.FormsDefs.

Section Transcoded.
  (* the transcoder applied by doWrite to each flushed block; only assumed to act block-wise
     (tc (a ++ b) = tc a ++ tc b): the identity (code units), the UTF-16 pass-through, any
     stateless per-character encoder without a surrogate pair split over two blocks *)
  Variable tc : list N -> list N.
  Hypothesis tc_app : forall a b, tc (a ++ b) = tc a ++ tc b.

  Lemma tc_nil : tc [] = [].
  Proof.
    pose proof (tc_app [] []) as H. cbn [app] in H. apply (f_equal (@length N)) in H. rewrite app_length in H.
    destruct (tc []); [reflexivity | cbn in H; lia].
  Qed.

  Definition bytes_c (c : ochunk) : list N := match c with CWide d => tc d | CNarrow d => d end.
  Definition bytes_w (w : owrite) : list N :=
    match w with OWide d => tc d | OChar c => tc [c] | ONarrow d => d | OFlush => [] end.
  Definition sent (st : ostate) : list N := flat_map bytes_c (rev (o_out st)).

  Lemma sent_cons : forall buf c out, sent (mkO buf (c :: out)) = sent (mkO [] out) ++ bytes_c c.
  Proof. intros; unfold sent; cbn [o_out rev]. rewrite flat_map_app. cbn [flat_map]. rewrite app_nil_r. reflexivity. Qed.

  Lemma sent_buf : forall b1 b2 out, sent (mkO b1 out) = sent (mkO b2 out).
  Proof. reflexivity. Qed.

  Lemma flush_keeps : forall st, sent (flush_buffer st) ++ tc (o_buf (flush_buffer st)) = sent st ++ tc (o_buf st).
  Proof.
    intros [buf out]; unfold flush_buffer; cbn [o_buf o_out]. destruct buf as [|x b]; [reflexivity|].
    rewrite sent_cons. cbn [o_buf bytes_c]. rewrite tc_nil, app_nil_r. reflexivity.
  Qed.

  Lemma flush_empties : forall st, o_buf (flush_buffer st) = [].
  Proof. intros [buf out]; unfold flush_buffer; cbn [o_buf]; destruct buf; reflexivity. Qed.

  Lemma ostep_keeps : forall bs st w,
    (match w with ONarrow _ => o_buf st = [] | _ => True end) ->
    sent (ostep bs st w) ++ tc (o_buf (ostep bs st w)) = (sent st ++ tc (o_buf st)) ++ bytes_w w.
  Proof.
    intros bs st w Hn. destruct w; cbn [ostep bytes_w].
    - (* OWide *)
      destruct (N.ltb bs (len d)) eqn:E2.
      + assert (E1 : N.ltb bs (len d + len (o_buf st)) = true) by (unfold len in *; lia). rewrite E1.
        pose proof (flush_keeps st) as Hk. pose proof (flush_empties st) as He.
        destruct (flush_buffer st) as [b o]. cbn [o_buf o_out] in *. subst b.
        rewrite sent_cons. cbn [bytes_c o_buf]. rewrite tc_nil, app_nil_r in *. rewrite <- Hk. reflexivity.
      + destruct (N.ltb bs (len d + len (o_buf st))).
        * pose proof (flush_keeps st) as Hk. destruct (flush_buffer st) as [b o]. cbn [o_buf o_out] in *.
          rewrite (sent_buf (b ++ d) b o), tc_app, app_assoc, Hk. reflexivity.
        * destruct st as [b o]. cbn [o_buf o_out]. rewrite (sent_buf (b ++ d) b o), tc_app, app_assoc. reflexivity.
    - (* OChar *)
      destruct (N.eqb (len (o_buf st)) bs).
      + pose proof (flush_keeps st) as Hk. destruct (flush_buffer st) as [b o]. cbn [o_buf o_out] in *.
        rewrite (sent_buf (b ++ [c]) b o), tc_app, app_assoc, Hk. reflexivity.
      + destruct st as [b o]. cbn [o_buf o_out]. rewrite (sent_buf (b ++ [c]) b o), tc_app, app_assoc. reflexivity.
    - (* ONarrow *)
      destruct st as [b o]. cbn [o_buf o_out] in *. subst b. rewrite sent_cons. cbn [bytes_c o_buf].
      rewrite tc_nil, !app_nil_r. reflexivity.
    - (* OFlush *)
      rewrite app_nil_r. apply flush_keeps.
  Qed.

  Lemma orun_keeps : forall ws bs st, narrow_ok_from bs st ws = true ->
    let st' := fold_left (ostep bs) ws st in
    sent st' ++ tc (o_buf st') = (sent st ++ tc (o_buf st)) ++ flat_map bytes_w ws.
  Proof.
    induction ws as [|w r IH]; intros bs st H; cbn [fold_left flat_map].
    - rewrite app_nil_r. reflexivity.
    - cbn [narrow_ok_from] in H. apply andb_prop in H; destruct H as [H1 H2].
      specialize (IH bs (ostep bs st w) H2). cbn zeta in IH. rewrite IH, ostep_keeps, app_assoc; [reflexivity|].
      destruct w; try exact I. destruct (o_buf st); [reflexivity | discriminate].
  Qed.

  Lemma chunks_bytes_pending : forall bs ws, narrow_ok bs ws = true ->
    flat_map bytes_c (chunks bs ws) ++ tc (o_buf (orun bs ws)) = flat_map bytes_w ws.
  Proof.
    intros bs ws H. unfold narrow_ok in H. pose proof (orun_keeps ws (eff_size bs) (mkO [] []) H) as Hk.
    cbn zeta in Hk. unfold sent in Hk at 2. cbn [o_out o_buf rev flat_map app] in Hk. rewrite tc_nil in Hk. exact Hk.
  Qed.

  Lemma orun_flush : forall bs ws, orun bs (ws ++ [OFlush]) = flush_buffer (orun bs ws).
  Proof. intros; unfold orun; rewrite fold_left_app; reflexivity. Qed.

  Lemma chunks_bytes : forall bs ws, narrow_ok bs ws = true ->
    flat_map bytes_c (chunks bs (ws ++ [OFlush])) = flat_map bytes_w ws.
  Proof.
    intros bs ws H. rewrite <- (chunks_bytes_pending bs ws H). unfold chunks. rewrite orun_flush.
    pose proof (flush_keeps (orun bs ws)) as Hk. rewrite flush_empties, tc_nil, app_nil_r in Hk. exact Hk.
  Qed.
End Transcoded.

(* code-unit level: tc = identity *)
Lemma chunks_units : forall bs ws, narrow_ok bs ws = true -> delivered (chunks bs (ws ++ [OFlush])) = written ws.
Proof.
  intros bs ws H. pose proof (chunks_bytes (fun x => x) (fun a b => eq_refl) bs ws H) as Hk.
  unfold delivered, written.
  erewrite flat_map_ext; [erewrite (flat_map_ext write_data)|]; [exact Hk | |]; intros []; reflexivity.
Qed.

Lemma chunks_units_pending : forall bs ws, narrow_ok bs ws = true ->
  delivered (chunks bs ws) ++ o_buf (orun bs ws) = written ws.
Proof.
  intros bs ws H. pose proof (chunks_bytes_pending (fun x => x) (fun a b => eq_refl) bs ws H) as Hk.
  unfold delivered, written.
  erewrite flat_map_ext; [erewrite (flat_map_ext write_data)|]; [exact Hk | |]; intros []; reflexivity.
Qed.

(* UTF-16 pass-through (m_writeAsUTF16): every code unit becomes two bytes *)
Definition utf16le (l : list N) : list N := flat_map (fun u => [N.modulo u 256; N.div u 256]) l.
Lemma utf16le_app : forall a b, utf16le (a ++ b) = utf16le a ++ utf16le b.
Proof. intros; unfold utf16le; apply flat_map_app. Qed.

(* the buffer never exceeds the (effective) buffer size, and a chunk is either at most one buffer
   or exactly one oversized write *)
Definition chunk_ok (bs : N) (ws : list owrite) (c : ochunk) : Prop :=
  match c with
  | CWide d => (len d <= bs)%N \/ In (OWide d) ws
  | CNarrow d => In (ONarrow d) ws
  end.

Lemma ostep_bound : forall bs st w, (1 <= bs)%N -> (len (o_buf st) <= bs)%N -> (len (o_buf (ostep bs st w)) <= bs)%N.
Proof.
  intros bs [b o] w Hb H. destruct w; cbn [ostep o_buf o_out] in *; unfold len in *.
  - destruct (N.ltb bs (N.of_nat (length d))) eqn:E2.
    + destruct (N.ltb bs (N.of_nat (length d) + N.of_nat (length b))); [|cbn [o_buf]; lia]. unfold flush_buffer; cbn [o_buf]. destruct b; cbn [o_buf length] in *; lia.
    + destruct (N.ltb bs (N.of_nat (length d) + N.of_nat (length b))) eqn:E1.
      * unfold flush_buffer; cbn [o_buf]. destruct b; cbn [o_buf app] in *; rewrite ?app_length; cbn [length]; lia.
      * cbn [o_buf]. rewrite app_length. lia.
  - destruct (N.eqb (N.of_nat (length b)) bs) eqn:E.
    + unfold flush_buffer; cbn [o_buf]. destruct b; cbn [o_buf app length] in *; lia.
    + cbn [o_buf]. rewrite app_length. cbn [length]. lia.
  - assumption.
  - unfold flush_buffer; cbn [o_buf]. destruct b; cbn [o_buf length] in *; lia.
Qed.

Lemma ostep_chunks_ok : forall bs st w (P : ochunk -> Prop),
  (len (o_buf st) <= bs)%N -> Forall P (o_out st) ->
  (forall d, (len d <= bs)%N -> P (CWide d)) ->
  (match w with OWide d => P (CWide d) | ONarrow d => P (CNarrow d) | _ => True end) ->
  Forall P (o_out (ostep bs st w)).
Proof.
  intros bs [b o] w P Hb Ho Hs Hw. assert (Hf : Forall P (o_out (flush_buffer (mkO b o)))).
  { unfold flush_buffer; cbn [o_buf o_out]. destruct b; [assumption|]. constructor; [apply Hs; assumption | assumption]. }
  destruct w; cbn [ostep o_buf o_out] in *.
  - destruct (N.ltb bs (len d)); destruct (N.ltb bs (len d + len b)); cbn [o_out]; try assumption; constructor; assumption.
  - destruct (N.eqb (len b) bs); cbn [o_out]; assumption.
  - constructor; assumption.
  - assumption.
Qed.

Lemma orun_chunks_ok : forall ws0 ws bs st, (1 <= bs)%N -> (len (o_buf st) <= bs)%N ->
  Forall (chunk_ok bs (ws0 ++ ws)) (o_out st) ->
  Forall (chunk_ok bs (ws0 ++ ws)) (o_out (fold_left (ostep bs) ws st)) /\ (len (o_buf (fold_left (ostep bs) ws st)) <= bs)%N.
Proof.
  intros ws0 ws; revert ws0. induction ws as [|w r IH]; intros ws0 bs st Hbs Hb Ho; cbn [fold_left].
  - split; assumption.
  - replace (ws0 ++ w :: r) with ((ws0 ++ [w]) ++ r) in * by (rewrite <- app_assoc; reflexivity).
    apply IH; [assumption | apply ostep_bound; assumption |].
    apply ostep_chunks_ok; [assumption | assumption | intros d Hd; left; exact Hd |].
    destruct w; try exact I; cbn [chunk_ok]; [right|]; apply in_or_app; left; apply in_or_app; right; left; reflexivity.
Qed.

Lemma chunks_bounded : forall bs ws, Forall (chunk_ok (eff_size bs) ws) (chunks bs ws) /\ (len (o_buf (orun bs ws)) <= eff_size bs)%N.
Proof.
  intros bs ws. assert (H1 : (1 <= eff_size bs)%N) by (unfold eff_size; destruct (N.eqb bs 0) eqn:E; lia).
  destruct (orun_chunks_ok [] ws (eff_size bs) (mkO [] []) H1) as [Ha Hb]; [cbn; lia | constructor |].
  split; [|exact Hb]. unfold chunks, orun. apply Forall_rev. exact Ha.
Qed.
