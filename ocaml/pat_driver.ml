(* model side of the C09 correspondence.
   line:  <id> <ndoc> <node>*  <nalts> <path>*
     node:  r:- | e<name>:<parent> | a<name>:<parent> | n:<parent> | t:<parent> | c:<parent> | p<name>:<parent>
     path:  rel | abs | fn:<id,id,...>   then <nsteps> then per step:  <c|d> <c|a> <test> <npreds> <pred>*
     test:  n<k> | S<ns> | w | N | T | C | P | Q<k>
     pred (prefix):  pos <op> <k> | poslast | last <op> <k> | num <k> | lastnum | posmod <m> <r> | hasattr <a>
                     | haschild <test> | count <test> | parent <test> | true | not <pred> | and <pred> <pred> | or <pred> <pred>
   output: <id> W:<wf_doc> G:<1 (no guard any more)><shape> M:<0/1 per node> S:<0/1 per node> *)
let toks = ref [||]
let pos = ref 0
let next () = let t = !toks.(!pos) in incr pos; t
let nat_tok () = nat_of_int (int_of_string (next ()))
let tail s = String.sub s 1 (String.length s - 1)

let parse_node (t : string) : nrec =
  match String.split_on_char ':' t with
  | [k; p] ->
      let par = if p = "-" then None else Some (nat_of_int (int_of_string p)) in
      let nm () = nat_of_int (int_of_string (tail k)) in
      let kind = match k.[0] with
        | 'r' -> KRoot | 'e' -> KElem (nm ()) | 'a' -> KAttr (nm ()) | 'n' -> KNs
        | 't' -> KText | 'c' -> KComment | 'p' -> KPI (nm ()) | _ -> failwith "kind" in
      { nkind = kind; npar = par }
  | _ -> failwith "node"

let parse_test () : ntest =
  let t = next () in
  match t.[0] with
  | 'n' -> TName (nat_of_int (int_of_string (tail t)))
  | 'S' -> TNsWild (nat_of_int (int_of_string (tail t)))
  | 'w' -> TWild | 'N' -> TNode | 'T' -> TText | 'C' -> TComment | 'P' -> TPI
  | 'Q' -> TPIName (nat_of_int (int_of_string (tail t)))
  | _ -> failwith "test"

let parse_op () : cmp =
  match next () with
  | "eq" -> CEq | "ne" -> CNe | "lt" -> CLt | "le" -> CLe | "gt" -> CGt | "ge" -> CGe | _ -> failwith "op"

let rec parse_pred () : cpred =
  match next () with
  | "pos" -> let o = parse_op () in CPos (o, nat_tok ())
  | "poslast" -> CPosLast
  | "last" -> let o = parse_op () in CLast (o, nat_tok ())
  | "num" -> CNum (nat_tok ())
  | "lastnum" -> CLastNum
  | "posmod" -> let m = nat_tok () in CPosMod (m, nat_tok ())
  | "hasattr" -> CHasAttr (nat_tok ())
  | "haschild" -> CHasChild (parse_test ())
  | "count" -> CCount (parse_test ())
  | "parent" -> CParent (parse_test ())
  | "true" -> CTrue
  | "not" -> CNot (parse_pred ())
  | "and" -> let a = parse_pred () in CAnd (a, parse_pred ())
  | "or" -> let a = parse_pred () in COr (a, parse_pred ())
  | s -> failwith ("pred " ^ s)

let rec times n f = if n <= 0 then [] else let x = f () in x :: times (n - 1) f

let parse_path () : cpath =
  let h = next () in
  let head =
    if h = "rel" then CHRel else if h = "abs" then CHAbs
    else begin
      let body = String.sub h 3 (String.length h - 3) in
      CHFunc (if body = "" then [] else List.map (fun x -> nat_of_int (int_of_string x)) (String.split_on_char ',' body))
    end in
  let n = int_of_string (next ()) in
  let steps = times n (fun () ->
    let sp = (match next () with "c" -> SChild | "d" -> SDesc | _ -> failwith "sep") in
    let at = (match next () with "a" -> true | "c" -> false | _ -> failwith "axis") in
    let t = parse_test () in
    let np = int_of_string (next ()) in
    let ps = times np parse_pred in
    (sp, { cs_attr = at; cs_test = t; cs_preds = ps })) in
  { cp_head = head; cp_steps = steps }

let b x = if x then "1" else "0"

let () =
  let ic = if Array.length Sys.argv > 1 then open_in Sys.argv.(1) else stdin in
  iter_lines ic (fun line ->
    if line <> "" && line.[0] <> '#' then begin
      toks := Array.of_list (split_ws line);
      pos := 0;
      let id = next () in
      (try
        let nd = int_of_string (next ()) in
        let d = times nd (fun () -> parse_node (next ())) in
        let na = int_of_string (next ()) in
        let p = times na parse_path in
        let m = Buffer.create 64 and s = Buffer.create 64 in
        for k = 0 to nd - 1 do
          let n = nat_of_int k in
          Buffer.add_string m (b (c_match d p n));
          Buffer.add_string s (b (c_select d p n))
        done;
        Printf.printf "%s W:%s G:%s%s M:%s S:%s\n" id (b (wf_doc d))
          "1" (b (c_shape d p))
          (Buffer.contents m) (Buffer.contents s)
      with Failure e -> Printf.printf "%s parse-error:%s\n" id e
         | Invalid_argument e -> Printf.printf "%s parse-error:%s\n" id e)
    end)
