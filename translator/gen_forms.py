"""C05 - facts of XalanSourceTree/XalanSourceTreeContentHandler.{hpp,cpp}, XalanSourceTreeDocument.cpp,
XercesParserLiaison/XercesDocumentWrapper.cpp and PlatformSupport/XalanOutputStream.hpp consumed by
coq/FormsDefs.v (GenForms.v): which SAX callbacks flush the accumulated text before they create
their node, the default of fAccumulateText, the first node index of both tree builders, where the
element / namespace-declaration / attribute indexes are taken, where the wrapper walk numbers
attributes, and the default buffer size of XalanOutputStream.  Fail closed."""
import re
import srcfacts
from srcfacts import AnchorError, need, read, strip_comments, function_body


def _b(x):
    return "true" if x else "false"


def _flushes_before(body, create_rx, what):
    """True iff processAccumulatedText() is called in body before the first match of create_rx."""
    m = need(create_rx, body, what)
    p = body.find("processAccumulatedText")
    return 0 <= p < m.start()


def gen_forms():
    ch = strip_comments(read("XalanSourceTree/XalanSourceTreeContentHandler.cpp"))
    chh = strip_comments(read("XalanSourceTree/XalanSourceTreeContentHandler.hpp"))
    doc = strip_comments(read("XalanSourceTree/XalanSourceTreeDocument.cpp"))
    wr = strip_comments(read("XercesParserLiaison/XercesDocumentWrapper.cpp"))
    osh = strip_comments(read("PlatformSupport/XalanOutputStream.hpp"))
    osc = strip_comments(read("PlatformSupport/XalanOutputStream.cpp"))
    facts = {}

    def body(name, args_rx=r"[^)]*"):
        return function_body(ch, r"XalanSourceTreeContentHandler::%s\s*\(%s\)\s*\{" % (name, args_rx), "ContentHandler::" + name)

    facts["flush_at_start"] = _flushes_before(body("startElement"), r"createElement\s*\(", "startElement: createElement(")
    facts["flush_at_end"] = _flushes_before(body("endElement"), r"m_elementStack\s*\.\s*pop_back", "endElement: m_elementStack.pop_back")
    facts["flush_at_comment"] = _flushes_before(body("comment"), r"createCommentNode\s*\(", "comment: createCommentNode(")
    facts["flush_at_pi"] = _flushes_before(body("processingInstruction"), r"createProcessingInstructionNode\s*\(", "processingInstruction: createProcessingInstructionNode(")
    facts["flush_at_ignws"] = _flushes_before(body("ignorableWhitespace"), r"createTextIWSNode\s*\(", "ignorableWhitespace: createTextIWSNode(")
    # characters(): top level = white space only; accumulate or create a node per event
    cb = re.sub(r"\s+", "", body("characters"))
    # the white-space test either scans to a NUL (as found) or uses the length of the event (repair 6782ca4); both shapes
    # are recognised, anything else fails closed.  The model (FormsDefs.build_sax) is fed exact chunks, for which the two agree.
    need(re.escape("if(m_currentElement==0){if(isXMLWhitespace(chars") + r"(?:,0,length)?" +
         re.escape(")==false){throwXalanDOMException(XalanDOMException::HIERARCHY_REQUEST_ERR);}}"
                   "elseif(m_accumulateText==true){m_textBuffer.append(chars,length);}else{doCharacters(chars,length);}"),
         cb, "characters(): top-level white-space test / m_textBuffer.append / doCharacters structure")
    pb = re.sub(r"\s+", "", body("processAccumulatedText"))
    need(re.escape("if(m_textBuffer.empty()==false){doCharacters(m_textBuffer.c_str(),m_textBuffer.length());m_textBuffer.clear();}"),
         pb, "processAccumulatedText(): non-empty buffer -> doCharacters + clear")
    m = need(r"bool\s+fAccumulateText\s*=\s*(true|false)", chh, "default of fAccumulateText in the constructor declaration")
    facts["accumulate_text"] = m.group(1) == "true"
    # the element is pushed with the index taken before its attributes'
    vals = set(re.findall(r"m_nextIndexValue\s*\(\s*(\d+)\s*\)", doc))
    if len(vals) != 1:
        raise AnchorError("m_nextIndexValue initialisers not found or not unique: %r" % sorted(vals))
    facts["first_index"] = int(vals.pop())
    ce = function_body(doc, r"XalanSourceTreeDocument::createElementNode\s*\(\s*const\s+XalanDOMChar\s*\*\s*uri\s*,[^)]*\)\s*\{",
                       "createElementNode(uri, localname, qname, attrs, ...)")
    i1 = ce.find("m_nextIndexValue++")
    i2 = ce.find("createAttributes")
    if i1 < 0 or i2 < 0:
        raise AnchorError("createElementNode(uri,...): index increment / createAttributes not found")
    facts["element_before_attrs"] = i1 < i2
    ca = function_body(doc, r"XalanSourceTreeDocument::createAttributes\s*\(\s*const\s+AttributesType\s*&\s*theAttributes\s*,[^)]*\)\s*\{",
                       "createAttributes(attrs, vector, owner, fAddXMLNamespaceAttribute)")
    calls = re.findall(r"createAttributes\s*\([^;]*?,\s*(true|false)\s*\)\s*;", ca)
    if calls != ["true", "false"]:
        raise AnchorError("createAttributes: expected the namespace pass (true) followed by the attribute pass (false), got %r" % calls)
    # the element-by-ID table (FormsIdDefs): only an attribute whose declared type is EXACTLY "ID" is registered,
    # by insert (the first element registered for a value stays)
    cs = function_body(doc, r"XalanSourceTreeDocument::createAttributes\s*\(\s*XalanSourceTreeAttr\s*\*\*\s*theAttributeVector\s*,\s*const\s+AttributesType\s*&\s*theAttributes\s*,[^)]*\)\s*\{",
                       "createAttributes(vector, attrs, startIndex, owner, fCreateNamespaces)")
    csq = re.sub(r"\s+", "", cs)
    need(r"constXalanDOMChar\*theType=theAttributes\.getType\(i\);", csq, "createAttributes: theType = theAttributes.getType(i)")
    if "if(*theType==XalanUnicode::charLetter_I&&*++theType==XalanUnicode::charLetter_D&&*++theType==0){" in csq:
        facts["id_type_exact"] = True
    else:
        raise AnchorError("createAttributes: the declared-type test is no longer exactly 'I','D',terminator (model: FormsIdDefs.is_id_type)")
    need(r"m_elementsByID\.insert\(ElementByIDMapType::value_type\(theAttributeVector\[theStartIndex\]->getValue\(\)\.c_str\(\),theOwnerElement\)\);", csq,
         "createAttributes: m_elementsByID.insert(value of the new attribute -> owner element)")
    if len(re.findall(r"m_elementsByID\s*(\.\s*insert|\[)", doc)) != 1:
        raise AnchorError("XalanSourceTreeDocument.cpp: m_elementsByID is filled in more than one place")
    gb = re.sub(r"\s+", "", function_body(doc, r"XalanSourceTreeDocument::getElementById\s*\([^)]*\)\s*const\s*\{", "XalanSourceTreeDocument::getElementById"))
    need(r"m_elementsByID\.find\(elementId\.c_str\(\)\);if\(i==m_elementsByID\.end\(\)\)\{return0;\}else\{return\(\*i\)\.second;\}", gb,
         "getElementById: a lookup in m_elementsByID")
    ix = ca.find("s_XMLNamespacePrefix")
    if not (0 <= ix < ca.find("createAttributes(")):
        raise AnchorError("createAttributes: the xmlns:xml attribute is not created first")
    facts["nsdecls_first"] = True
    # wrapper walk
    bw = function_body(wr, r"XercesDocumentWrapper::buildWrapperNodes\s*\(\s*\)\s*\{", "buildWrapperNodes")
    m1 = need(r"setIndex\s*\(\s*(\d+)\s*\)", bw, "buildWrapperNodes: m_navigator->setIndex(n)")
    m2 = need(r"theTreeWalker\s*\(\s*this\s*,\s*m_navigator\s*,\s*(\d+)\s*,", bw, "buildWrapperNodes: start index of the tree walker")
    facts["wrap_doc_index"] = int(m1.group(1))
    facts["wrap_first_index"] = int(m2.group(1))
    sn = function_body(wr, r"BuildWrapperTreeWalker::startNode\s*\([^)]*\)\s*\{", "BuildWrapperTreeWalker::startNode")
    en = function_body(wr, r"BuildWrapperTreeWalker::endNode\s*\([^)]*\)\s*\{", "BuildWrapperTreeWalker::endNode")
    facts["wrap_attrs_in_start"] = ("getAttributes" in sn) and ("m_currentIndex" not in en)
    # the repair of K05c: the DocumentType wrapper is created (and numbered) but not linked into the child /
    # sibling chain, and the navigator steps over it when it falls back to the Xerces DOM (FormsDefs.wrap1, XDoctype)
    sq = re.sub(r"\s+", "", sn)
    m = need(r"constboolfLinkNode=node->getNodeType\(\)!=DOMNodeType::DOCUMENT_TYPE_NODE;", sq, "startNode: fLinkNode = not a DOCUMENT_TYPE_NODE")
    for what, rx in (("setFirstChild / setLastChild / sibling links under fLinkNode",
                      r"if\(fLinkNode==true\)\{.*?setFirstChild\(theWrapperNode\);.*?setLastChild\(theWrapperNode\);.*?setPreviousSibling\(.*?setNextSibling\(theWrapperNode\);\}\}"),
                     ("sibling stack entry under fLinkNode",
                      r"m_parentNavigatorStack\.push_back\(theCurrentEntry\);if\(fLinkNode==true\)\{m_siblingNavigatorStack\.push_back\(theCurrentEntry\);\}")):
        need(rx, sq, "startNode: " + what)
    if re.search(r"set(First|Last)Child\(theWrapperNode\)", sq[:m.start()]):
        raise AnchorError("startNode links the wrapper node before the document type test")
    nav = re.sub(r"\s+", "", strip_comments(read("XercesParserLiaison/XercesWrapperNavigator.cpp")))
    for fn, call in (("getPreviousSibling", "skipDocumentType(theXercesNode->getPreviousSibling(),false)"),
                     ("getNextSibling", "skipDocumentType(theXercesNode->getNextSibling(),true)"),
                     ("getFirstChild", "skipDocumentType(theXercesNode->getFirstChild(),true)"),
                     ("getLastChild", "skipDocumentType(theXercesNode->getLastChild(),false)")):
        if "mapNode(" + call + ")" not in nav:
            raise AnchorError("XercesWrapperNavigator::%s does not step over the document type node" % fn)
    facts["wrap_links_doctype"] = False
    p_inc = sn.find("++m_currentIndex")
    p_att = sn.find("getAttributes")
    facts["wrap_element_before_attrs"] = 0 <= p_inc < p_att
    # output stream
    m = need(r"eDefaultBufferSize\s*=\s*(\d+)u?", osh, "XalanOutputStream::eDefaultBufferSize")
    facts["ostream_bufsize"] = int(m.group(1))
    # The stream exists in two variants (FormsDefs.ostep_k): the original one, and the one repaired for K05e /
    # C08 K-C08-2 in which a flush done because more data is coming keeps a trailing high surrogate back.  Both
    # are recognised exactly (anything else fails closed); GenForms.stream_keeps_high_surrogate selects the model.
    wb = re.sub(r"\s+", "", function_body(osc, r"XalanOutputStream::write\s*\(\s*const\s+XalanDOMChar\s*\*\s*theBuffer\s*,[^)]*\)\s*\{", "XalanOutputStream::write(wide)"))
    wb = wb.replace("assert(theBuffer!=0);", "")
    wc = re.sub(r"\s+", "", function_body(osh, r"write\s*\(\s*XalanDOMChar\s+theChar\s*\)\s*\{", "XalanOutputStream::write(XalanDOMChar)"))
    wc = wc.replace("assert(m_bufferSize>0);", "")
    tail = "else{m_buffer.insert(m_buffer.end(),theBuffer,theBuffer+theBufferLength);}}"
    wb_orig = ("{if(theBufferLength+m_buffer.size()>m_bufferSize){flushBuffer();}if(theBufferLength>m_bufferSize){"
               "assert(m_buffer.empty()==true);doWrite(theBuffer,theBufferLength);}" + tail)
    wb_fixed = ("{if(theBufferLength+m_buffer.size()>m_bufferSize){flushBufferForMore();}if(theBufferLength>m_bufferSize){"
                "assert(m_buffer.size()<=1);if(m_buffer.empty()==false){m_buffer.push_back(*theBuffer);++theBuffer;--theBufferLength;flushBuffer();}"
                "if(theBufferLength!=0&&isHighSurrogate(theBuffer[theBufferLength-1])==true){--theBufferLength;"
                "if(theBufferLength!=0){doWrite(theBuffer,theBufferLength);}m_buffer.push_back(theBuffer[theBufferLength]);}"
                "elseif(theBufferLength!=0){doWrite(theBuffer,theBufferLength);}}" + tail)
    wc_orig = "{if(m_buffer.size()==m_bufferSize){flushBuffer();}m_buffer.push_back(theChar);}"
    wc_fixed = "{if(m_buffer.size()>=m_bufferSize){flushBufferForMore();}m_buffer.push_back(theChar);}"
    if wb == wb_orig and wc == wc_orig:
        if "flushBufferForMore" in re.sub(r"\s+", "", osc):
            raise AnchorError("XalanOutputStream: flushBufferForMore exists but the write functions are the original ones")
        facts["stream_keeps_high_surrogate"] = False
    elif wb == wb_fixed and wc == wc_fixed:
        ffm = re.sub(r"\s+", "", function_body(osc, r"XalanOutputStream::flushBufferForMore\s*\(\s*\)\s*\{", "XalanOutputStream::flushBufferForMore"))
        if ffm != ("{if(m_buffer.empty()==false&&isHighSurrogate(m_buffer.back())==true){constXalanDOMChartheHighSurrogate=m_buffer.back();"
                   "m_buffer.pop_back();flushBuffer();m_buffer.push_back(theHighSurrogate);}else{flushBuffer();}}"):
            raise AnchorError("XalanOutputStream::flushBufferForMore is not 'keep a trailing high surrogate, flush the rest' (model: FormsDefs.flush_for_more)")
        need(r"isHighSurrogate\(XalanDOMChartheChar\)\{return0xD800u?<=theChar&&theChar<=0xDBFFu?;\}", re.sub(r"\s+", "", osc),
             "isHighSurrogate = 0xD800 <= c <= 0xDBFF (model: FormsDefs.is_high_surrogate)")
        facts["stream_keeps_high_surrogate"] = True
    else:
        raise AnchorError("XalanOutputStream::write(XalanDOMChar) / write(const XalanDOMChar*, n): neither the original nor the repaired "
                          "(flushBufferForMore) variant (model: FormsDefs.ostep_k)")
    fb = re.sub(r"\s+", "", function_body(osc, r"XalanOutputStream::flushBuffer\s*\(\s*\)\s*\{", "XalanOutputStream::flushBuffer"))
    need(r"^\{if\(m_buffer\.empty\(\)==false\)\{CollectionClearGuard<BufferType>theGuard\(m_buffer\);.*?doWrite\(&\*m_buffer\.begin\(\),size_type\(m_buffer\.size\(\)\)\);\}", fb,
         "flushBuffer: a non-empty buffer is written by one doWrite and cleared (model: FormsDefs.flush_buffer)")
    fl = re.sub(r"\s+", "", function_body(osh, r"\n\s*flush\s*\(\s*\)\s*\{", "XalanOutputStream::flush()"))
    if fl != "{flushBuffer();doFlush();}":
        raise AnchorError("XalanOutputStream::flush() is no longer flushBuffer(); doFlush(); (model: FormsDefs.ostep OFlush)")
    text = ("(* generated by translator/gen_forms.py from XalanSourceTreeContentHandler.{hpp,cpp}, XalanSourceTreeDocument.cpp,\n"
            "   XercesDocumentWrapper.cpp, XalanOutputStream.hpp - do not edit *)\n"
            "From Coq Require Import NArith.\n")
    for k in ("flush_at_start", "flush_at_end", "flush_at_comment", "flush_at_pi", "flush_at_ignws", "accumulate_text",
              "element_before_attrs", "nsdecls_first", "wrap_attrs_in_start", "wrap_element_before_attrs", "wrap_links_doctype",
              "stream_keeps_high_surrogate", "id_type_exact"):
        text += "Definition %s : bool := %s.\n" % (k, _b(facts[k]))
    for k in ("first_index", "wrap_doc_index", "wrap_first_index", "ostream_bufsize"):
        text += "Definition %s : N := %d%%N.\n" % (k, facts[k])
    return text, facts


GENERATORS = {"GenForms": gen_forms}
