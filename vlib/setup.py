"""MANIFEST.setup_cmd: build everything once, offline, from files on disk."""
import os, sys, json
from vlib import core


def run():
    ok, log = core.build_lib("plain")
    if not ok:
        print(log[-3000:])
        return 1
    facts = core.coq_prepare(None)
    bad = [k for k, v in facts.items() if not v["ok"]]
    if bad:
        print("translator anchors missing:", bad, file=sys.stderr)
    man = json.load(open(os.path.join(core.VERIF, "MANIFEST.json")))
    # build the property files of the claimed checks (each check re-builds its own cone anyway;
    # this only warms the caches) - a file of a family still under construction is not fatal
    targets = ["Properties_%s.vo" % c["property_id"] for c in man.get("checks", [])
               if os.path.exists(os.path.join(core.COQ, "Properties_%s.v" % c["property_id"]))]
    ok, out = core.coq_make(targets, timeout=7200)
    if not ok:
        print(out[-3000:])
    rc = 0 if ok else 1
    for eng in man.get("engines", []):
        fam = eng.get("name")
        if os.path.exists(os.path.join(core.VERIF, "ocaml", fam + "_driver.ml")):
            _, okm, lg = core.build_model(fam)
            if not okm:
                print("model build failed:", fam, lg[-1500:])
                rc = 1
        if os.path.exists(os.path.join(core.VERIF, "harness", fam + ".cpp")):
            _, okh, lg = core.build_harness(fam, "plain")
            if not okh:
                print("harness build failed:", fam, lg[-1500:])
                rc = 1
    return rc
