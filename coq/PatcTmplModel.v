(* PatcTmplModel.v — C09 part "compile" meets C10: the class the pattern-compiler model assigns to a compiled alternative
   (PatcScoreDefs.target_class, from XPath::getTargetData) is the score C10's template model computes for the alternative's
   shape (TmplShape.target_data over GenTmpl, regenerated from the same function by translator/gen_tmpl) — and hence, by
   Properties_C10.default_priority_correct, the default priority of XSLT 1.0 section 5.5. *)
From Coq Require Import List NArith Bool Arith ZArith.
Import ListNotations.
Require Import XV.XpAst XV.PatcDefs XV.PatcPrintDefs XV.PatcScoreDefs XV.PatcShapeModel.
Require XV.TmplDefs XV.GenTmpl XV.TmplShape.

Definition tmpl_score (s : score) : TmplDefs.score :=
  match s with
  | ScNone => TmplDefs.ScNone | ScNodeTest => TmplDefs.ScNodeTest | ScNSWild => TmplDefs.ScNSWild
  | ScQName => TmplDefs.ScQName | ScOther => TmplDefs.ScOther
  end.
Definition nodetest_of (t : ntest) : TmplDefs.nodetest :=
  match t with
  | TComment => TmplDefs.NTComment | TText => TmplDefs.NTText | TNode | TRoot => TmplDefs.NTNode
  | TPi None => TmplDefs.NTPI | TPi (Some _) => TmplDefs.NTPILit
  | TName (NsUri _) None => TmplDefs.NTNSWild
  | TName _ None => TmplDefs.NTWild
  | TName _ (Some _) => TmplDefs.NTName 0%N
  end.
Definition laststep_of (s : pstep) : TmplDefs.laststep :=
  match s with (k, t, _) =>
    match k with
    | PkFunction _ => TmplDefs.LFunction
    | PkRoot => TmplDefs.LRoot
    | _ => TmplDefs.LStep (is_attr_kind k) (nodetest_of t)
    end
  end.
Definition is_single (a : lpattern) : bool := match a with [(_, _, [])] => true | _ => false end.
Definition tshape_of (a : lpattern) : option TmplDefs.shape :=
  match rev a with
  | [] => None
  | s :: _ => Some {| TmplDefs.sh_last := laststep_of s; TmplDefs.sh_multi := negb (is_single a) |}
  end.

Lemma target_class_is_tmpl_score_m : forall a sh, shape_lp a = true -> tshape_of a = Some sh ->
  tmpl_score (target_class a) = snd (TmplShape.target_data sh).
Proof.
  intros a sh Hs H. unfold tshape_of in H.
  destruct a as [|[[k t] ps] [|s2 r]].
  - discriminate.
  - cbn [rev app] in H. inversion H; subst. clear H. unfold TmplShape.target_data. cbn [TmplDefs.sh_last TmplDefs.sh_multi laststep_of].
    destruct ps as [|p ps'].
    + cbn [is_single negb].
      destruct k; try (vm_compute in Hs; discriminate); try reflexivity;
        destruct t as [| |[s|]| |[| |u] [l|]|]; try reflexivity; vm_compute in Hs; discriminate.
    + cbn [is_single negb].
      assert (T : target_class [(k, t, p :: ps')] = ScOther) by (destruct k; reflexivity).
      unfold pstep, pred in *. rewrite T. destruct (GenTmpl.gen_last_step _) as [[n0 t0] s0]. reflexivity.
  - match type of H with (match ?X with _ => _ end) = _ => destruct X as [|s q] eqn:E end; [discriminate|]. inversion H; subst. clear H.
    unfold TmplShape.target_data. cbn [TmplDefs.sh_last TmplDefs.sh_multi is_single negb].
    destruct (GenTmpl.gen_last_step (laststep_of s)) as [[n0 t0] s0].
    assert (T : target_class ((k, t, ps) :: s2 :: r) = ScOther).
    { cbn [target_class]. destruct k; try reflexivity; destruct ps; reflexivity. }
    unfold pstep, pred in *. rewrite T. destruct ps; reflexivity.
Qed.
