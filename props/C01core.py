"""C01, whole-interpreter piece (plug-in of props/C01.py: run_part(ctx)).

proof  : coq/Properties_C01core.v - the implementation-shaped abstract machine of coq/XsltCoreDefs.v (explicit
         stacks, as Xalan-C's iterative interpreter) refines the reference semantics sem_main, for every
         instantiation of the abstract mechanisms (XPath, sorting, template selection, node copies);
tie    : this file - for every generated program of the core language, the extracted machine, instantiated with
         tables the Python reference interpreter recorded (every XPath evaluation keyed by expression, values of
         its free variables and context; every sort; every template selection; node copies), must produce the
         tree the REBUILT LIBRARY serializes for the same stylesheet and source (re-parsed).  A key the machine
         asks for that the reference never evaluated (a table miss) means its state left the reference's: also
         a difference.  The extracted sem_main runs on the same tables and must agree with the machine (theorem);
oracle : props/C01.py's (vlib/xsltref.py vs the library); here reference != library classifies a machine/library
         difference (the machine runs on the reference's tables, so a behavioural change of the library looks like
         that); with ORACLE_MATTER_IS_BROKEN (default) it is reported as a broken correspondence with its replay:
         the generator stays out of every known-finding class of C01/C14 (no namespaces), so on the unchanged
         tree the count is 0."""
import os
import time

from vlib import core, xsltrun, xsltref, xsltgen, xpref, xsltcore

N_QUICK = 2200
N_THOROUGH = 15000
BATCH = 1100
# machine != library while reference != library as well: the machine runs on the reference's tables, so this is what a
# behavioural change of the library (or a deviation C01's oracle stream reports) looks like from here.  By default such
# programs are counted and their replays stored (C01's oracle turns them into VIOLATION / KNOWN-FINDING lines); set to True
# to report them as a broken correspondence as well.
ORACLE_MATTER_IS_BROKEN = True


def corpus_dir():
    return os.path.join(core.VERIF, "corpus", "C01core")


def load_corpus():
    import ast
    import glob
    out = []
    for p in sorted(glob.glob(os.path.join(corpus_dir(), "*.txt"))):
        lines = [l for l in open(p, encoding="utf-8") if l.startswith("{")]
        if lines:
            d = ast.literal_eval(lines[-1].strip())
            out.append((os.path.basename(p)[:-4], d["sheet"], d["doc"]))
    return out


def replay_text(what, sheet, doc, extra=""):
    main, _ = xsltgen.print_sheet(sheet)
    head = ["# C01core correspondence: " + what]
    head += ["#   " + l for l in main.split("\n")]
    head.append("#   --- source: " + xsltgen.doc_xml(doc).replace("\n", "&#10;"))
    head += ["#   " + l for l in extra.split("\n") if l]
    return "\n".join(head) + "\n" + repr({"kind": "core", "sheet": sheet, "doc": doc}) + "\n"


class Stats:
    def __init__(self):
        self.programs = self.agree = self.skipped = self.lib_err = self.oracle_matter = 0
        self.ev = self.evals = self.sorts = self.tmpls = self.instrs = self.exprs = 0
        self.max_ev = 0
        self.diffs = []
        self.matters = []
        self.pairs = set()
        self.samples = []


def run_batch(ctx, exe, model, progs, st, tag):
    """progs: [(id, sheet, doc)]"""
    cases = []
    for cid, sheet, doc in progs:
        st.programs += 1
        try:
            c = xsltcore.prepare(cid, sheet, doc)
        except xsltref.XsltError as e:
            ctx.count("core:skipped:reference-rejects(%s)" % str(e)[:20])
            st.skipped += 1
            continue
        except xpref.XPathTypeError as e:
            ctx.count("core:skipped:xpath-type-error")
            st.skipped += 1
            continue
        except xsltcore.TableConflict:
            ctx.count("core:skipped:key-cannot-tell-two-values-apart")
            st.skipped += 1
            continue
        except xsltcore.NotInLanguage as e:
            ctx.count("core:skipped:not-in-language(%s)" % str(e)[:20])
            st.skipped += 1
            continue
        except RecursionError:
            ctx.count("core:skipped:too-deep")
            st.skipped += 1
            continue
        c["sheet_ast"], c["doc"] = sheet, doc
        c["sheet"], c["files"] = xsltgen.print_sheet(sheet)
        c["source"] = xsltgen.doc_xml(doc)
        cases.append(c)
    if not cases:
        return
    res = xsltrun.run([{k: c[k] for k in ("id", "sheet", "source", "files")} for c in cases], exe=exe)
    lost = [c for c in cases if res.get(c["id"], ("crash",))[0] == "crash"]
    for c in lost[:50]:
        res[c["id"]] = xsltrun.run([{k: c[k] for k in ("id", "sheet", "source", "files")}], exe=exe, timeout=60).get(c["id"], ("crash",))
    mres = {}
    if model:
        rc, mres, raw = core.run_lines_parallel(model, [c["line"] for c in cases])
    for c in cases:
        o = res.get(c["id"], ("crash",))
        if o[0] != "ok":
            # an error / crash of the library on a program the reference accepts: a difference (only the reference's
            # XsltError skips a program)
            ctx.count("core:library-" + o[0])
            st.lib_err += 1
            st.diffs.append((c, "the library fails (%s) on a program the reference runs: %s" % (o[0], " ".join(str(x) for x in o[1:])[:200])))
            continue
        try:
            lib = xsltref.parse_output(o[1])
        except Exception as e:
            ctx.count("core:library-output-unparsable")
            st.lib_err += 1
            st.diffs.append((c, "the library's output cannot be parsed (%s) on a program the reference runs" % str(e)[:120]))
            continue
        ctx.cov["evaluations"] = ctx.cov.get("evaluations", 0) + 1
        st.ev += c["n_ev"]
        st.evals += c["n_evals"]
        st.sorts += c["n_sort"]
        st.tmpls += c["n_tmpl"]
        st.instrs += c["n_instr"]
        st.exprs += c["n_expr"]
        st.max_ev = max(st.max_ev, c["n_ev"])
        fs = xsltcore.features(c["sheet_ast"])
        for f in fs:
            ctx.count("core:feature:" + f)
        st.pairs |= fs
        for f in c["stats"]:
            ctx.count("core:executed:" + f)
        for f in c["flags"]:
            ctx.count("core:recovered:" + f)
        if len(st.samples) < 4 and c["n_instr"] < 30:
            st.samples.append(c["sheet"].split("\n", 2)[2][:400])
        if not model:
            continue
        m = mres.get(c["id"])
        what = None
        if m is None or m.startswith("ERR"):
            what = "the driver gives no result (%s)" % (m or "no line")[:120]
        else:
            mt, sm, miss = m.split()
            mm, sx = miss.split(",")
            if mt in ("NONE", "STUCK", "ILL"):
                what = "the machine ends with %s on a program the library and the reference run" % mt
            elif sm != mt:
                what = "extracted machine and extracted sem_main differ (sem: %s)" % ("NONE" if sm == "NONE" else "another tree")
            else:
                mtree = xsltcore.parse_tree_token(mt)
                if mtree != lib:
                    if c["tree"] != lib:
                        # reference and library differ as well: the program is in a class C01's oracle reports
                        ctx.count("core:oracle-matter(reference!=library)")
                        st.oracle_matter += 1
                        if len(st.matters) < 3:
                            st.matters.append((c, "machine = reference: " + xsltref.show(mtree).replace("\n", " | ")[:600] +
                                               "\nlibrary: " + xsltref.show(lib).replace("\n", " | ")[:600] +
                                               "\nflags of the reference run: " + ", ".join(k for k in c["flags"] if k != "#stats")))
                        continue
                    what = "machine tree differs from the library's (reference agrees with the library)"
                    what += "\nmachine: " + xsltref.show(mtree).replace("\n", " | ")[:600] + "\nlibrary: " + xsltref.show(lib).replace("\n", " | ")[:600]
                elif mm != "0":
                    what = "the machine asked for %s table keys the reference never evaluated (the trees agree)" % mm
                elif sx != "0":
                    what = "sem_main asked for %s table keys the reference never evaluated (the trees agree)" % sx
        if what is None:
            st.agree += 1
            ctx.cov["traces_validated_against_impl"] = ctx.cov.get("traces_validated_against_impl", 0) + 1
        else:
            st.diffs.append((c, what))


def run_part(ctx):
    t0 = time.time()
    ctx.assumptions += [
        "core: XPath evaluation, sorting, template selection and node copies are abstract in the model; the correspondence "
        "instantiates them with what the Python reference computed (tables), so a wrong XPath result of the library shows "
        "up as an oracle matter of C01/C02, not here",
        "core: the library is observed through its serialized output, re-parsed (attribute order and text-node boundaries are not observed)",
    ]
    rule = ("core: generated namespace-free programs of the core instruction language (nested for-each / apply-templates "
            "with modes, sorts, with-params / call-template / result-tree-fragment variables / choose / copy / attributes) x "
            "generated documents; distinct = distinct outer>inner nesting pairs seen; non-trivial = a program the reference, "
            "the library and the extracted machine all run to a tree")
    ctx.notes["rule"] = (ctx.notes.get("rule", "") + " | " + rule) if ctx.notes.get("rule") else rule
    ok_lib, liblog = core.build_lib("plain")
    if not ok_lib:
        ctx.broken.append("core: library does not build from the working tree: " + liblog[-500:])
        return
    proved = False
    if os.path.exists(os.path.join(core.COQ, "Properties_C01core.v")):
        proved = ctx.prove(["Properties_C01core.v"], ["GenXslt"])
    else:
        ctx.broken.append("core: coq/Properties_C01core.v does not exist yet (machine_refines_sem is not proved; correspondence only)")
    model, ok_m, mlog = xsltcore.build_driver()
    if not ok_m:
        ctx.broken.append("core: model extraction/build failed: " + mlog[-500:])
        model = None
    exe, ok_h, hlog = xsltrun.build()
    if not ok_h:
        ctx.broken.append("core: the xslt harness does not compile against the working tree: " + hlog[-500:])
        return
    st = Stats()
    corpus = load_corpus()
    if corpus:
        run_batch(ctx, exe, model, [("k_" + n, s, d) for n, s, d in corpus], st, "corpus")
    n = N_THOROUGH if ctx.thorough else N_QUICK
    done = 0
    rounds = 0
    while done < n:
        k = min(BATCH, n - done)
        progs = []
        for i in range(k):
            sheet, doc = xsltcore.gen_case(ctx.rng)
            progs.append(("g%d_%d" % (rounds, i), sheet, doc))
        run_batch(ctx, exe, model, progs, st, "gen")
        done += k
        rounds += 1
        if st.diffs and not ctx.thorough and rounds == (n + BATCH - 1) // BATCH and not getattr(ctx, "_core_widened", False):
            # a broken correspondence widens the search once
            ctx._core_widened = True
            ctx.escalated = True
            n += N_QUICK
    ctx.cov["distinct_nontrivial"] = ctx.cov.get("distinct_nontrivial", 0) + len(st.pairs)
    ctx.cov["samples"] = (ctx.cov.get("samples") or []) + st.samples
    ctx.notes["C01core_programs"] = st.programs
    ctx.notes["C01core_agree"] = st.agree
    ctx.notes["C01core_skipped"] = st.skipped
    ctx.notes["C01core_library_errors"] = st.lib_err
    ctx.notes["C01core_oracle_matters"] = st.oracle_matter
    ctx.notes["C01core_tables"] = {"xpath_entries": st.ev, "xpath_evaluations": st.evals, "largest_xpath_table": st.max_ev,
                                   "sort_entries": st.sorts, "template_selections": st.tmpls, "instructions": st.instrs,
                                   "expressions": st.exprs}
    ctx.notes["C01core_proved"] = bool(proved)
    ctx.notes["C01core_seconds"] = round(time.time() - t0, 1)
    if st.programs and st.skipped > 0.1 * st.programs:
        ctx.notes["C01core_skip_rate_high"] = "%d of %d" % (st.skipped, st.programs)
    d = os.path.join(core.OUT, ctx.pid)
    os.makedirs(d, exist_ok=True)
    paths = []
    for i, (c, what) in enumerate(st.matters):
        p = os.path.join(d, "core_oracle_matter_%d.txt" % i)
        with open(p, "w", encoding="utf-8") as f:
            f.write(replay_text("machine (on the reference's tables) and reference agree, the library differs", c["sheet_ast"], c["doc"], what))
        paths.append(p)
    if paths:
        ctx.notes["C01core_oracle_matter_replays"] = paths
    if st.oracle_matter and ORACLE_MATTER_IS_BROKEN:
        ctx.broken.append("core correspondence: the library differs from machine and reference on %d of %d programs [%s]" % (st.oracle_matter, st.programs, paths[0]))
    for i, (c, what) in enumerate(st.diffs[:5]):
        d = os.path.join(core.OUT, ctx.pid)
        os.makedirs(d, exist_ok=True)
        p = os.path.join(d, "core_diff_%d.txt" % i)
        with open(p, "w", encoding="utf-8") as f:
            f.write(replay_text(what.split("\n")[0], c["sheet_ast"], c["doc"], what))
        ctx.broken.append("core correspondence: %s [%s] (%d such programs of %d)" % (what.split("\n")[0], p, len(st.diffs), st.programs))
    return st
