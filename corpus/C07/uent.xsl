<?xml version="1.0"?>
<xsl:stylesheet version="1.0" xmlns:xsl="http://www.w3.org/1999/XSL/Transform">
  <xsl:param name="tid"/>
  <xsl:template match="/"><out u="{unparsed-entity-uri('pic')}"/></xsl:template>
</xsl:stylesheet>
