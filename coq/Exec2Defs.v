(* Exec2Defs.v — C11, part "helpers": the language into which translator/gen_exec2.py regenerates the
   BODIES of the specialised evaluation helpers of XPath.cpp / XPath.hpp (Or, And, equals .. gt,
   plus .. neg, Union, literal, variable, group, numberlit, locationPath, function*, in their
   value-returning / bool& / double& / XalanDOMString& / FormatterListener / MutableNodeRefList&
   overloads) and of the arms of the six executeMore switches with those helpers inlined — and what
   a term of that language computes, over the entry points [E : evs] used for sub-expressions.

   The translator executes each C++ body symbolically (locals, the op-map position, the out
   parameters) and emits one typed term: what is evaluated (which operand, through which entry
   point), which conversion is applied (XObject::boolean / number / string, the member functions
   of XObject and XToken, the DoubleSupport functions), and for every conversion of a node or node list whether
   the overload taking the XPathExecutionContext is the one called ([aware]; the overloads without it
   do not consult xsl:strip-space).  A body that is not of this form is an AnchorError.

   Primitives that are not opened here (owned by C02's model and correspondence): XPath::step
   (LSteps), the operand loop of Union(.., MutableNodeRefList&) (LUnionOperands), runFunction /
   runExtFunction (OFunction / OExtFunction), functionLocalName(XalanNode* ) (FnLocalName),
   getNumericOperand (NOperand) — the translator checks the form of their bodies.
   Definitions only. *)
From Coq Require Import ZArith NArith List Bool Arith SpecFloat.
Require Import XV.GenNum XV.NumDefs XV.XpAst XV.DomDefs XV.XpDefs XV.ExecArms XV.GenExec XV.ExecDefs.
Import ListNotations.

Inductive nodefn := FnName | FnLocalName.
Inductive arop := AAdd | ASub | AMul | ADiv | AMod.
Inductive rnd := RFloor | RCeiling | RRound.

(* node lists *)
Inductive lexp :=
  | LSteps                   (* step(executionContext, context, opPos + 2, list) *)
  | LUnionOperands           (* the loop of Union(.., MutableNodeRefList&) over the operands *)
  | LEval (k : nat)          (* executeMore(operand k, list): the returned object's node-set, else the list *)
  | LEvalMerged (k : nat)    (* the same, a returned object merged into the list in document order *)
  | LEvalListOnly (k : nat). (* the same, a returned object is dropped: only the list counts *)

Inductive bexp :=
  | BLit (b : bool)
  | BEval (k : nat)                          (* bool x; executeMore(operand k, x) *)
  | BNot (a : bexp)
  | BOrElse (a b : bexp)                     (* x = a; if (x == false) x = b *)
  | BAndAlso (a b : bexp)                    (* x = a; if (x == true) x = b *)
  | BCmp (op : cmpop) (x y : oexp)           (* x->equals / notEquals / lessThan ..( *y, executionContext) *)
  | BOfNum (n : nexp)                        (* XObject::boolean(double) *)
  | BImplicit (n : nexp)                     (* a double assigned to a bool *)
  | BOfStr (s : sexp)                        (* XObject::boolean(const XalanDOMString&) *)
  | BOfNodes (l : lexp)                      (* XObject::boolean(const NodeRefListBase&) *)
  | BOfObj (o : oexp)                        (* o->boolean(executionContext) *)
  | BTok (slot : nat)                        (* getToken(getOpCodeMapValue(opPos + slot))->boolean() *)
  | BAnyOperandFills                         (* loop over the operands: true when one fills the list *)
with nexp :=
  | NOperand (k : nat)                       (* getNumericOperand(operand k) *)
  | NEvalLocal (k : nat)                     (* double x; executeMore(operand k, x) *)
  | NArith (op : arop) (a b : nexp)         (* DoubleSupport::add / subtract / multiply / divide / modulus *)
  | NNeg (a : nexp)                          (* DoubleSupport::negative *)
  | NRnd (r : rnd) (a : nexp)                (* DoubleSupport::floor / ceiling / round *)
  | NOfBool (b : bexp)                       (* XObject::number(bool) *)
  | NOfStr (s : sexp)                        (* XObject::number(const XalanDOMString&, MemoryManager&) *)
  | NOfNodes (aware : bool) (l : lexp)       (* XObject::number(executionContext, const NodeRefListBase&) *)
  | NOfObj (aware : bool) (o : oexp)         (* o->num(executionContext) / o->num() *)
  | NTok (slot : nat)                        (* token->num() *)
  | NCount (l : lexp)                        (* getLength() *)
  | NPosition | NLast
  | NLen (ch : cexp)                         (* FormatterStringLengthCounter over the characters *)
  | NSum (aware : bool) (l : lexp)           (* the loop of functionSum: getNodeData, toDouble, add *)
  | NOfCtxNode (aware : bool)                (* XObject::number(executionContext, *context) *)
with sexp :=
  | SOfBool (b : bexp)                       (* XObject::string(bool, ..) *)
  | SOfNum (n : nexp)                        (* XObject::string(double, ..) *)
  | SOfNodes (aware : bool) (l : lexp)       (* XObject::string(const NodeRefListBase&, [executionContext,] ..) *)
  | SOfObj (aware : bool) (o : oexp)         (* o->str([executionContext,] ..) *)
  | STok (slot : nat)                        (* token->str() *)
  | SFirstOrEmpty (f : nodefn) (l : lexp)    (* getLength() == 0 ? s_emptyString : f(item(0)) *)
  | SOfCtx (f : nodefn)                      (* f(context) *)
with cexp :=
  | CEval (k : nat)                          (* executeMore(operand k, counter, &FormatterListener::characters) *)
  | CCtxNode (aware : bool)                  (* DOMServices::getNodeData( *context, [executionContext,] counter, ..) *)
with oexp :=
  | OEval (k : nat)                          (* executeMore(operand k) *)
  | OBool (b : bexp) | ONum (n : nexp) | OStr (s : sexp) | ONodes (l : lexp)   (* XObjectFactory::create.. *)
  | OVariable                                (* executionContext.getVariable(QName(token 2, token 3)) *)
  | OFunction                                (* XPath::runFunction *)
  | OExtFunction.                            (* XPath::runExtFunction *)

(* one body: what is done with the out parameter(s) of the entry point / what is returned *)
Inductive body :=
  | Fail                      (* unknownOpCodeError / notNodeSetError *)
  | RetB (b : bexp) | RetN (n : nexp) | RetS (s : sexp)      (* value-returning helpers *)
  | RetO (o : oexp)           (* return o  (generic);  theXObject = o  (node-list entry point) *)
  | WrB (b : bexp)            (* result = b *)
  | WrN (n : nexp)            (* result = n *)
  | AppS (s : sexp)           (* appended to the caller's XalanDOMString *)
  | SendF (s : sexp)          (* sent to the caller's FormatterListener *)
  | FillL (l : lexp)          (* the caller's MutableNodeRefList is filled *)
  | Deleg (k : nat).          (* executeMore(operand k, <the out parameters of this entry point>) *)

(* which overload of a helper a body belongs to *)
Inductive ovl := OvBool | OvNum | OvStrRef | OvObj | OvOutB | OvOutN | OvOutS | OvOutF | OvOutL.

(** * operands and tokens of an expression node (op map: operands start at opPos + 2, the next one at
      getNextOpCodePosition; the compiled functions with an op-code of their own have their
      argument there; tokens of a literal at opPos + 2, of a number literal at opPos + 3) *)
Definition child (e : expr) (k : nat) : option expr :=
  match e, k with
  | (EOr a _ | EAnd a _ | ENe a _ | EEq a _ | ELte a _ | ELt a _ | EGte a _ | EGt a _
    | EPlus a _ | EMinus a _ | EMult a _ | EDiv a _ | EMod a _), 1 => Some a
  | (EOr _ b | EAnd _ b | ENe _ b | EEq _ b | ELte _ b | ELt _ b | EGte _ b | EGt _ b
    | EPlus _ b | EMinus _ b | EMult _ b | EDiv _ b | EMod _ b), 2 => Some b
  | (ENeg a | EGroup a), 1 => Some a
  | EFunc _ [a], 1 => Some a
  | _, _ => None
  end.

Definition child_err (e : expr) : err := match e with EFunc _ _ => EArgs | _ => EType end.

Definition with_child {A} (e : expr) (k : nat) (f : expr -> res A) : res A :=
  match child e k with Some x => f x | None => Err (child_err e) end.

Definition token_at (e : expr) (slot : nat) : res token :=
  match e, slot with
  | ELiteral s, 2 => Ok (str_token s)
  | ENumLit t, 3 => Ok (num_token t)
  | _, _ => Err EType
  end.

(* the overloads without the execution context cannot ask it whether a text node is stripped *)
Definition no_strip (c : ctx) : ctx := mkCtx (cx_doc c) (cx_node c) (cx_list c) (cx_vars c) (fun _ _ => false).
Definition cxa (aware : bool) (c : ctx) : ctx := if aware then c else no_strip c.

(* XObject::num() without the execution context: XNumber answers its value, every other type
   DoubleSupport::toDouble(str()) (XObject.cpp) — number("true") is NaN — with str() the context-free
   string conversion *)
Definition num_nocontext (c : ctx) (v : value) : dbl :=
  match v with VNum x => x | _ => string_to_number (to_string (no_strip c) v) end.

Definition arith_fn (op : arop) : dbl -> dbl -> dbl :=
  match op with AAdd => d_add | ASub => d_sub | AMul => d_mul | ADiv => d_div | AMod => d_mod end.
Definition rnd_fn (r : rnd) : dbl -> dbl :=
  match r with RFloor => d_floor | RCeiling => d_ceiling | RRound => d_round end.
Definition nodefn_sem (f : nodefn) : ctx -> nat -> str :=
  match f with FnName => name_of | FnLocalName => local_name_of end.

Section Sem.
  Variable E : evs.
  Variable c : ctx.
  Variable e : expr.

  Definition sem_l (l : lexp) : res (list nat) :=
    match l with
    | LSteps => path_nodes E c e
    | LUnionOperands => match e with EUnion ops => union_nodes E c ops | _ => Err EType end
    | LEval k => with_child e k (fun x => do r <- ev_l E c x; Ok (nl_nodes r))
    | LEvalMerged k => with_child e k (fun x => do r <- ev_l E c x; Ok (nl_merged r))
    | LEvalListOnly k => with_child e k (fun x => do r <- ev_l E c x; Ok (match r with NlObj _ => [] | NlList l => l end))
    end.

  (* Union(bool&) written as its own loop: each operand through the node-list entry point, a
     returned object dropped, true as soon as the list was filled *)
  Definition any_operand_fills (ops : list expr) : res bool :=
    fold_left (fun acc x => do b <- acc; do r <- ev_l E c x;
                            Ok (b || match r with NlObj _ => false | NlList l => xo_boolean_nodes l end)) ops (Ok false).

  (* sem_c does not call back into the others: not an error *)
  Local Set Warnings "-non-full-mutual".
  Fixpoint sem_b (b : bexp) : res bool :=
    match b with
    | BLit v => Ok v
    | BEval k => with_child e k (ev_b E c)
    | BNot a => do x <- sem_b a; Ok (negb x)
    | BOrElse a b' => do x <- sem_b a; if x then Ok x else sem_b b'
    | BAndAlso a b' => do x <- sem_b a; if x then sem_b b' else Ok x
    | BCmp op x y => do vx <- sem_o x; do vy <- sem_o y; Ok (compare c op vx vy)
    | BOfNum n => do x <- sem_n n; Ok (xo_boolean_num x)
    | BImplicit n => do x <- sem_n n; Ok (implicit_bool_of_double x)
    | BOfStr s => do x <- sem_s s; Ok (xo_boolean_str x)
    | BOfNodes l => do r <- sem_l l; Ok (xo_boolean_nodes r)
    | BOfObj o => do v <- sem_o o; Ok (to_boolean v)
    | BTok slot => do t <- token_at e slot; Ok (tk_boolean t)
    | BAnyOperandFills => match e with EUnion ops => any_operand_fills ops | _ => Err EType end
    end
  with sem_n (n : nexp) : res dbl :=
    match n with
    | NOperand k => with_child e k (numeric_operand E c)
    | NEvalLocal k => with_child e k (number_arg E c)
    | NArith op a b => do x <- sem_n a; do y <- sem_n b; Ok (arith_fn op x y)
    | NNeg a => do x <- sem_n a; Ok (if d_is_nan x then d_nan else d_neg x)
    | NRnd r a => do x <- sem_n a; Ok (rnd_fn r x)
    | NOfBool b => do x <- sem_b b; Ok (xo_number_bool x)
    | NOfStr s => do x <- sem_s s; Ok (xo_number_str x)
    | NOfNodes aware l => do r <- sem_l l; Ok (xo_number_nodes (cxa aware c) r)
    | NOfObj aware o => do v <- sem_o o; Ok (if aware then to_number c v else num_nocontext c v)
    | NTok slot => do t <- token_at e slot; Ok (tk_num t)
    | NCount l => do r <- sem_l l; Ok (d_of_nat (length r))
    | NPosition => Ok (d_of_nat (position_of c))
    | NLast => Ok (d_of_nat (length (cx_list c)))
    | NLen ch => do s <- sem_c ch; Ok (d_of_nat (length s))
    | NSum aware l => do r <- sem_l l; Ok (sum_nodes (cxa aware c) r)
    | NOfCtxNode aware => Ok (xo_number_str (node_string (cxa aware c) (cx_node c)))
    end
  with sem_s (s : sexp) : res str :=
    match s with
    | SOfBool b => do x <- sem_b b; Ok (xo_string_bool x)
    | SOfNum n => do x <- sem_n n; Ok (xo_string_num x)
    | SOfNodes aware l => do r <- sem_l l; Ok (xo_string_nodes (cxa aware c) r)
    | SOfObj aware o => do v <- sem_o o; Ok (to_string (cxa aware c) v)
    | STok slot => do t <- token_at e slot; Ok (tk_str t)
    | SFirstOrEmpty f l => do r <- sem_l l; Ok (first_or_empty c (nodefn_sem f) r)
    | SOfCtx f => Ok (nodefn_sem f c (cx_node c))
    end
  with sem_c (ch : cexp) : res str :=
    match ch with
    | CEval k => with_child e k (fun x => ev_f E c x [])
    | CCtxNode aware => Ok (node_string (cxa aware c) (cx_node c))
    end
  with sem_o (o : oexp) : res value :=
    match o with
    | OEval k => with_child e k (ev_g E c)
    | OBool b => do x <- sem_b b; Ok (VBool x)
    | ONum n => do x <- sem_n n; Ok (VNum x)
    | OStr s => do x <- sem_s s; Ok (VStr x)
    | ONodes l => do r <- sem_l l; Ok (VNodes r)
    | OVariable => match e with
                   | EVar ns local =>
                       match lookup_var (cx_vars c) ns local with Some v => Ok v | None => Err EUnknownVariable end
                   | _ => Err EType end
    | OFunction => match e with EFunc name args => call_function (ev_g E) c name args | _ => Err EType end
    | OExtFunction => match e with EExtFunc _ _ _ => Err EUnknownFunction | _ => Err EType end
    end.

  (** ** the body of a value-returning helper *)
  Definition ret_b (b : body) : res bool := match b with RetB x => sem_b x | _ => Err EType end.
  Definition ret_n (b : body) : res dbl := match b with RetN x => sem_n x | _ => Err EType end.
  Definition ret_s (b : body) : res str := match b with RetS x => sem_s x | _ => Err EType end.

  (** ** a body run as the arm of each of the six switches *)
  Definition run2_g (b : body) : res value :=
    match b with RetO o => sem_o o | _ => Err EType end.
  Definition run2_b (b : body) : res bool :=
    match b with WrB x => sem_b x | Deleg k => with_child e k (ev_b E c) | _ => Err EType end.
  Definition run2_n (b : body) : res dbl :=
    match b with WrN x => sem_n x | Deleg k => with_child e k (ev_n E c) | _ => Err EType end.
  Definition run2_s (b : body) (buf : str) : res str :=
    match b with
    | AppS s => do x <- sem_s s; Ok (buf ++ x)
    | Deleg k => with_child e k (fun x => ev_s E c x buf)
    | _ => Err EType
    end.
  Definition run2_f (b : body) (acc : str) : res str :=
    match b with
    | SendF s => do x <- sem_s s; Ok (acc ++ x)
    | Deleg k => with_child e k (fun x => ev_f E c x acc)
    | _ => Err EType
    end.
  (* after the switch a returned object that is not a node-set is an error *)
  Definition run2_l (b : body) : res nlres :=
    match b with
    | RetO o => do v <- sem_o o; match v with VNodes l => Ok (NlObj l) | _ => Err EType end
    | FillL l => do r <- sem_l l; Ok (NlList r)
    | _ => Err EType
    end.
End Sem.

(** * which helper the generic switch calls for an expression node (GenExec.arm_generic) *)
Definition helper_of (e : expr) : option helper :=
  match arm_generic (opcode_of e) with ACall h _ _ => Some h | _ => None end.

(** * number of arguments with which XPathProcessorImpl compiles a function call to an op-code of
      its own (FunctionPosition() .. FunctionSum() reject any other count: no op map exists) *)
Definition fn_arity (op : opcode) : option nat :=
  match op with
  | OP_FUNCTION_POSITION | OP_FUNCTION_LAST | OP_FUNCTION_TRUE | OP_FUNCTION_FALSE
  | OP_FUNCTION_NAME_0 | OP_FUNCTION_LOCALNAME_0 | OP_FUNCTION_NUMBER_0 | OP_FUNCTION_STRING_0
  | OP_FUNCTION_STRINGLENGTH_0 | OP_FUNCTION_NAMESPACEURI_0 => Some 0
  | OP_FUNCTION_COUNT | OP_FUNCTION_NOT | OP_FUNCTION_BOOLEAN | OP_FUNCTION_NAME_1 | OP_FUNCTION_LOCALNAME_1
  | OP_FUNCTION_FLOOR | OP_FUNCTION_CEILING | OP_FUNCTION_ROUND | OP_FUNCTION_NUMBER_1 | OP_FUNCTION_STRING_1
  | OP_FUNCTION_STRINGLENGTH_1 | OP_FUNCTION_NAMESPACEURI_1 | OP_FUNCTION_SUM => Some 1
  | _ => None
  end.

Definition arity_ok (e : expr) : bool :=
  match e with
  | EFunc name args =>
      match fn_arity (fn_opcode name args) with Some n => Nat.eqb (length args) n | None => true end
  | _ => true
  end.

Definition guarded {A} (e : expr) (r : res A) : res A := if arity_ok e then r else Err EArgs.

(** * every conversion of a node / node list in a term goes through the overload taking the
      execution context *)
Definition lexp_plain (l : lexp) : bool := match l with LEvalListOnly _ => false | _ => true end.

Fixpoint aware_b (b : bexp) : bool :=
  match b with
  | BLit _ | BEval _ | BTok _ => true
  | BNot a => aware_b a
  | BOrElse a b' | BAndAlso a b' => aware_b a && aware_b b'
  | BCmp _ x y => aware_o x && aware_o y
  | BOfNum n | BImplicit n => aware_n n
  | BOfStr s => aware_s s
  | BOfNodes l => lexp_plain l
  | BOfObj o => aware_o o
  | BAnyOperandFills => false
  end
with aware_n (n : nexp) : bool :=
  match n with
  | NOperand _ | NEvalLocal _ | NTok _ | NPosition | NLast => true
  | NArith _ a b => aware_n a && aware_n b
  | NNeg a | NRnd _ a => aware_n a
  | NOfBool b => aware_b b
  | NOfStr s => aware_s s
  | NOfNodes aw l | NSum aw l => aw && lexp_plain l
  | NOfObj aw o => aw && aware_o o
  | NCount l => lexp_plain l
  | NLen ch => match ch with CEval _ => true | CCtxNode aw => aw end
  | NOfCtxNode aw => aw
  end
with aware_s (s : sexp) : bool :=
  match s with
  | SOfBool b => aware_b b
  | SOfNum n => aware_n n
  | SOfNodes aw l => aw && lexp_plain l
  | SOfObj aw o => aw && aware_o o
  | STok _ | SOfCtx _ => true
  | SFirstOrEmpty _ l => lexp_plain l
  end
with aware_o (o : oexp) : bool :=
  match o with
  | OEval _ | OVariable | OFunction | OExtFunction => true
  | OBool b => aware_b b
  | ONum n => aware_n n
  | OStr s => aware_s s
  | ONodes l => lexp_plain l
  end.

Definition aware_body (b : body) : bool :=
  match b with
  | Fail | Deleg _ => true
  | RetB x | WrB x => aware_b x
  | RetN x | WrN x => aware_n x
  | RetS x | AppS x | SendF x => aware_s x
  | RetO o => aware_o o
  | FillL l => lexp_plain l
  end.
