(* C01, mechanism (b): VariablesStack refines lexical scoping (XsltVarsDefs.v) *)
From Coq Require Import List NArith Bool Arith Lia.
Require Import XV.XsltVarsDefs.
Import ListNotations.

(* ---- states met during execution: csfi = size, global frame marked ---- *)
Definition st (l : list entry) (g : nat) : vs := mkV l (length l) g true.

Lemma push_st : forall x l g, push x (st l g) = st (x :: l) g.
Proof. intros. unfold push, st. simpl. rewrite Nat.eqb_refl. reflexivity. Qed.

Lemma pop_st : forall x l g, pop (st (x :: l) g) = st l g.
Proof. intros. unfold pop, st. simpl. rewrite Nat.eqb_refl. reflexivity. Qed.

Definition is_varE (e : entry) : Prop := match e with EVar _ _ => True | _ => False end.
Definition not_ctx (e : entry) : Prop := match e with ECtx => False | _ => True end.

Lemma pop_frame_st : forall V e t g, Forall is_varE V -> t <> [] ->
  pop_frame (st (V ++ EFrame e :: t) g) = Some (st t g).
Proof.
  intros V e t g HV Ht. unfold pop_frame.
  assert (forall k, length V < k -> pop_frame_n k (st (V ++ EFrame e :: t) g) = Some (st t g)).
  { induction V; intros k Hk.
    - destruct k; [simpl in Hk; lia|]. cbn [pop_frame_n stk st app]. destruct t; [contradiction|]. f_equal. exact (pop_st _ _ _).
    - inversion HV; subst. destruct k; [simpl in Hk; lia|].
      cbn [pop_frame_n stk st app]. destruct (V ++ EFrame e :: t) eqn:E.
      + destruct V; discriminate.
      + rewrite <- E in *. destruct a; try contradiction.
        change (mkV (EVar n b :: V ++ EFrame e :: t) (length (EVar n b :: V ++ EFrame e :: t)) g true) with (st (EVar n b :: V ++ EFrame e :: t) g).
        rewrite pop_st. apply IHV; auto. simpl in Hk. lia. }
  apply H. simpl. rewrite app_length. simpl. lia.
Qed.

Lemma pop_ctx_st : forall F t g, Forall not_ctx F -> pop_ctx (st (F ++ ECtx :: t) g) = st t g.
Proof.
  intros F t g HF. unfold pop_ctx.
  assert (forall k, length F < k -> pop_ctx_n k (st (F ++ ECtx :: t) g) = st t g).
  { induction F; intros k Hk.
    - destruct k; [simpl in Hk; lia|]. cbn [pop_ctx_n stk st app]. exact (pop_st _ _ _).
    - inversion HF; subst. destruct k; [simpl in Hk; lia|].
      cbn [pop_ctx_n stk st app].
      change (mkV (a :: F ++ ECtx :: t) (length (a :: F ++ ECtx :: t)) g true) with (st (a :: F ++ ECtx :: t) g).
      destruct a; try contradiction; rewrite pop_st; apply IHF; auto; simpl in Hk; lia. }
  apply H. simpl. rewrite app_length. simpl. lia.
Qed.

Lemma push_params_st : forall wp l g,
  push_params wp (st l g) = st (rev (map (fun p => EParam (fst p) (snd p)) wp) ++ l) g.
Proof.
  unfold push_params. induction wp; intros; simpl; auto.
  rewrite push_st. rewrite IHwp. rewrite <- app_assoc. reflexivity.
Qed.

(* ---- the search inside the current frame ---- *)
Fixpoint fl (n : N) (isParam : bool) (F : list entry) : option N * list entry :=
  match F with
  | [] => (None, [])
  | x :: r =>
      match x with
      | EVar n' b | EActive n' b =>
          if N.eqb n' n then (Some b, F) else match fl n isParam r with (res, r') => (res, x :: r') end
      | EParam n' b =>
          if isParam && N.eqb n' n then (Some b, EActive n' b :: r)
          else match fl n isParam r with (res, r') => (res, x :: r') end
      | ECtx => (None, F)
      | EFrame _ => match fl n isParam r with (res, r') => (res, x :: r') end
      end
  end.

Lemma match_nonempty : forall (A B : Type) (l : list A) (x y : B),
  l <> [] -> match l with [] => x | _ :: _ => y end = y.
Proof. intros. destruct l; [contradiction | reflexivity]. Qed.

Lemma find_local_frame : forall n p F R, R <> [] -> Forall not_ctx F ->
  find_local n p (F ++ ECtx :: R) = (fst (fl n p F), snd (fl n p F) ++ ECtx :: R).
Proof.
  induction F; intros R HR HF.
  - simpl. destruct R; [contradiction|]. reflexivity.
  - inversion HF; subst. specialize (IHF R HR H2).
    cbn [app find_local fl]. rewrite match_nonempty by (destruct F; discriminate).
    destruct a; try contradiction.
    + rewrite IHF. destruct (fl n p F). reflexivity.
    + destruct (N.eqb n0 n); [reflexivity|]. rewrite IHF. destruct (fl n p F). reflexivity.
    + destruct (p && N.eqb n0 n); [reflexivity|]. rewrite IHF. destruct (fl n p F). reflexivity.
    + destruct (N.eqb n0 n); [reflexivity|]. rewrite IHF. destruct (fl n p F). reflexivity.
Qed.

Lemma fl_length : forall n p F, length (snd (fl n p F)) = length F.
Proof.
  induction F; simpl; auto. destruct a; simpl; auto.
  - destruct (fl n p F); simpl in *. auto.
  - destruct (N.eqb n0 n); simpl; auto. destruct (fl n p F); simpl in *. auto.
  - destruct (p && N.eqb n0 n); simpl; auto. destruct (fl n p F); simpl in *. auto.
  - destruct (N.eqb n0 n); simpl; auto. destruct (fl n p F); simpl in *. auto.
Qed.

(* pure views of a frame *)
Fixpoint loc (n : N) (F : list entry) : option N :=
  match F with
  | [] => None
  | EVar n' b :: r | EActive n' b :: r => if N.eqb n' n then Some b else loc n r
  | ECtx :: _ => None
  | _ :: r => loc n r
  end.

Fixpoint pval (n : N) (F : list entry) : option N :=
  match F with
  | [] => None
  | EParam n' b :: r | EActive n' b :: r => if N.eqb n' n then Some b else pval n r
  | ECtx :: _ => None
  | _ :: r => pval n r
  end.

Fixpoint has_var (n : N) (F : list entry) : bool :=
  match F with
  | [] => false
  | EVar n' _ :: r => N.eqb n' n || has_var n r
  | _ :: r => has_var n r
  end.

Lemma fl_false : forall n F, fl n false F = (loc n F, F).
Proof.
  induction F; simpl; auto. destruct a; simpl; auto.
  - rewrite IHF. reflexivity.
  - destruct (N.eqb n0 n); auto. rewrite IHF. reflexivity.
  - rewrite IHF. reflexivity.
  - destruct (N.eqb n0 n); auto. rewrite IHF. reflexivity.
Qed.

Lemma fl_true_fst : forall n F, Forall not_ctx F -> has_var n F = false -> fst (fl n true F) = pval n F.
Proof.
  induction F; intros HF Hv; simpl; auto. inversion HF; subst. destruct a; simpl in *; try contradiction.
  - destruct (fl n true F); simpl in *. auto.
  - apply orb_false_iff in Hv. destruct Hv as [Hv1 Hv2]. rewrite Hv1. destruct (fl n true F); simpl in *; auto.
  - destruct (N.eqb n0 n); simpl; auto. destruct (fl n true F); simpl in *; auto.
  - destruct (N.eqb n0 n); simpl; auto. destruct (fl n true F); simpl in *; auto.
Qed.

Definition act (n : N) (F : list entry) : list entry := snd (fl n true F).

Lemma act_not_ctx : forall n F, Forall not_ctx F -> Forall not_ctx (act n F).
Proof.
  unfold act. induction F; intros HF; simpl; auto. inversion HF; subst. specialize (IHF H2).
  destruct a; simpl in *; try contradiction.
  - destruct (fl n true F); simpl in *. constructor; auto.
  - destruct (N.eqb n0 n); simpl; auto. destruct (fl n true F); simpl in *. constructor; auto.
  - destruct (N.eqb n0 n); simpl. constructor; simpl; auto. destruct (fl n true F); simpl in *. constructor; auto.
  - destruct (N.eqb n0 n); simpl; auto. destruct (fl n true F); simpl in *. constructor; auto.
Qed.

Lemma act_pval : forall n m F, pval m (act n F) = pval m F.
Proof.
  unfold act. induction F; simpl; auto. destruct a; simpl; auto.
  - destruct (fl n true F); simpl in *. auto.
  - destruct (N.eqb n0 n); simpl; auto. destruct (fl n true F); simpl in *. auto.
  - destruct (N.eqb n0 n); simpl; auto. destruct (fl n true F); simpl in *. rewrite IHF. reflexivity.
  - destruct (N.eqb n0 n); simpl; auto. destruct (fl n true F); simpl in *. rewrite IHF. reflexivity.
Qed.

Lemma act_has_var : forall n m F, has_var m (act n F) = has_var m F.
Proof.
  unfold act. induction F; simpl; auto. destruct a; simpl; auto.
  - destruct (fl n true F); simpl in *. auto.
  - destruct (N.eqb n0 n); simpl; auto. destruct (fl n true F); simpl in *. rewrite IHF. reflexivity.
  - destruct (N.eqb n0 n); simpl; auto. destruct (fl n true F); simpl in *. auto.
  - destruct (N.eqb n0 n); simpl; auto. destruct (fl n true F); simpl in *. auto.
Qed.

Lemma act_loc_other : forall n m F, m <> n -> loc m (act n F) = loc m F.
Proof.
  unfold act. intros n m F Hm. induction F; simpl; auto. destruct a; simpl; auto.
  - destruct (fl n true F); simpl in *. auto.
  - destruct (N.eqb n0 n); simpl; auto. destruct (fl n true F); simpl in *. rewrite IHF. reflexivity.
  - destruct (N.eqb n0 n) eqn:E; simpl.
    + apply N.eqb_eq in E. subst. destruct (N.eqb n m) eqn:E2; auto. apply N.eqb_eq in E2. congruence.
    + destruct (fl n true F); simpl in *. auto.
  - destruct (N.eqb n0 n); simpl; auto. destruct (fl n true F); simpl in *. rewrite IHF. reflexivity.
Qed.

Lemma act_loc_same : forall n F v, Forall not_ctx F -> has_var n F = false -> pval n F = Some v -> loc n (act n F) = Some v.
Proof.
  unfold act. induction F; intros v HF Hv Hp; simpl in *; try discriminate. inversion HF; subst.
  destruct a; simpl in *; try contradiction.
  - destruct (fl n true F); simpl in *. auto.
  - apply orb_false_iff in Hv. destruct Hv as [Hv1 Hv2]. rewrite Hv1. destruct (fl n true F); simpl in *. rewrite Hv1. auto.
  - destruct (N.eqb n0 n) eqn:E; simpl.
    + rewrite E. auto.
    + destruct (fl n true F); simpl in *. auto.
  - destruct (N.eqb n0 n) eqn:E; simpl.
    + rewrite E. auto.
    + destruct (fl n true F); simpl in *. rewrite E. auto.
Qed.

Lemma fl_true_none : forall n F, Forall not_ctx F -> has_var n F = false -> pval n F = None -> act n F = F.
Proof.
  unfold act. induction F; intros HF Hv Hp; simpl in *; auto. inversion HF; subst.
  destruct a; simpl in *; try contradiction.
  - specialize (IHF H2 Hv Hp). destruct (fl n true F); simpl in *. subst. auto.
  - apply orb_false_iff in Hv. destruct Hv as [Hv1 Hv2]. rewrite Hv1. specialize (IHF H2 Hv2 Hp). destruct (fl n true F); simpl in *. subst. auto.
  - destruct (N.eqb n0 n); try discriminate. specialize (IHF H2 Hv Hp). destruct (fl n true F); simpl in *. subst. auto.
  - destruct (N.eqb n0 n); try discriminate. specialize (IHF H2 Hv Hp). destruct (fl n true F); simpl in *. subst. auto.
Qed.

(* ---- global segment ---- *)
Definition gseg (genv : list (N * N)) : list entry :=
  map (fun p => EVar (fst p) (snd p)) genv ++ [EFrame 0%N; ECtx].

Lemma find_global_gseg : forall n genv, find_global n (gseg genv) = lookup n genv.
Proof.
  unfold gseg. induction genv; simpl; auto.
  destruct a as [n' b]. simpl. rewrite match_nonempty by (destruct genv; discriminate).
  destruct (N.eqb n' n); auto.
Qed.

Lemma skipn_app_len : forall (A : Type) (u g : list A), skipn (length (u ++ g) - length g) (u ++ g) = g.
Proof.
  intros. rewrite app_length. replace (length u + length g - length g) with (length u) by lia.
  induction u; simpl; auto.
Qed.

(* ---- frame invariant ---- *)
(* rs = true (params deactivated at the end of every template instance): no param entry is active unless the
   running template instance declared it, so an unbound-locally name finds nothing in the frame whatever was
   passed; rs = false: only for names that were not passed *)
Definition Fr (rs : bool) (F : list entry) (env wp : list (N * N)) : Prop :=
  Forall not_ctx F /\
  (forall n b, lookup n env = Some b -> loc n F = Some b) /\
  (forall n, lookup n env = None -> (rs = true \/ ~ In n (map fst wp)) -> loc n F = None) /\
  (forall n, lookup n env = None -> has_var n F = false) /\
  (forall n, pval n F = lookup n (rev wp)).

Lemma lookup_in : forall n l b, lookup n l = Some b -> In n (map fst l).
Proof.
  induction l; simpl; intros; try discriminate. destruct a as [n' b']. destruct (N.eqb n' n) eqn:E.
  - apply N.eqb_eq in E. left. auto.
  - right. eauto.
Qed.

Lemma Fr_push_var : forall rs F env wp n b, Fr rs F env wp -> lookup n env = None -> Fr rs (EVar n b :: F) ((n, b) :: env) wp.
Proof.
  intros rs F env wp n b [H0 [Ha [Hb [Hc Hd]]]] Hn. repeat split.
  - constructor; simpl; auto.
  - intros m b'. simpl. destruct (N.eqb n m); auto.
  - intros m. simpl. destruct (N.eqb n m); try discriminate. auto.
  - intros m. simpl. destruct (N.eqb n m); try discriminate. simpl. auto.
  - intros m. simpl. auto.
Qed.

Lemma Fr_push_frame : forall rs F env wp e, Fr rs F env wp -> Fr rs (EFrame e :: F) env wp.
Proof.
  intros rs F env wp e [H0 [Ha [Hb [Hc Hd]]]]. repeat split; simpl; auto.
  constructor; simpl; auto.
Qed.

Lemma Fr_act : forall rs F env wp n v, Fr rs F env wp -> lookup n env = None -> pval n F = Some v ->
  Fr rs (act n F) ((n, v) :: env) wp.
Proof.
  intros rs F env wp n v [H0 [Ha [Hb [Hc Hd]]]] Hn Hp. repeat split.
  - apply act_not_ctx; auto.
  - intros m b'. simpl. destruct (N.eqb n m) eqn:E.
    + apply N.eqb_eq in E. subst. intros X. inversion X; subst. apply act_loc_same; auto.
    + intros X. rewrite act_loc_other. auto. intros Y. subst. rewrite N.eqb_refl in E. discriminate.
  - intros m. simpl. destruct (N.eqb n m) eqn:E; try discriminate. intros X Y. rewrite act_loc_other. auto.
    intros Z. subst. rewrite N.eqb_refl in E. discriminate.
  - intros m. simpl. destruct (N.eqb n m) eqn:E; try discriminate. intros X. rewrite act_has_var. auto.
  - intros m. rewrite act_pval. auto.
Qed.

(* ---- induction principle ---- *)
Section InsInd.
  Variable P : ins -> Prop.
  Hypothesis HV : forall n b, P (Var n b).
  Hypothesis HU : forall n, P (Use n).
  Hypothesis HB : forall e body, Forall P body -> P (Block e body).
  Hypothesis HI : forall wp ts, Forall P ts -> P (Invoke wp ts).
  Hypothesis HT : forall e ps body, Forall P body -> P (Tmpl e ps body).
  Fixpoint ins_ind' (i : ins) : P i :=
    let go := fix go (l : list ins) : Forall P l :=
                match l with [] => Forall_nil P | x :: r => Forall_cons x (ins_ind' x) (go r) end in
    match i with
    | Var n b => HV n b
    | Use n => HU n
    | Block e body => HB e body (go body)
    | Invoke wp ts => HI wp ts (go ts)
    | Tmpl e ps body => HT e ps body (go body)
    end.
End InsInd.

(* ---- small facts ---- *)
Lemma mem_lookup_none : forall n env, mem n (map fst env) = false -> lookup n env = None.
Proof.
  induction env; simpl; auto. destruct a as [n' b]. simpl. intros H. apply orb_false_iff in H. destruct H as [H1 H2].
  rewrite H1. auto.
Qed.

Lemma lookup_none_mem : forall n env, lookup n env = None -> mem n (map fst env) = false.
Proof.
  induction env; simpl; auto. destruct a as [n' b]. simpl. destruct (N.eqb n' n); try discriminate. auto.
Qed.

Lemma mem_in : forall n l, mem n l = true <-> In n l.
Proof.
  induction l; simpl; split; intros; try discriminate; try contradiction.
  - apply orb_true_iff in H. destruct H. left. apply N.eqb_eq; auto. right. apply IHl; auto.
  - apply orb_true_iff. destruct H. left. subst. apply N.eqb_refl. right. apply IHl; auto.
Qed.

Lemma fp_cons : forall e x l, frame_pushed_l e l = true -> frame_pushed_l e (x :: l) = true.
Proof.
  intros. destruct l as [|y l]; [discriminate|]. cbn [frame_pushed_l]. destruct x as [|fe| | |]; auto. destruct (N.eqb fe e); auto.
Qed.

Lemma fp_here : forall e l, l <> [] -> frame_pushed_l e (EFrame e :: l) = true.
Proof. intros. destruct l; [contradiction|]. cbn [frame_pushed_l]. rewrite N.eqb_refl. reflexivity. Qed.

Lemma fp_app : forall e V l, frame_pushed_l e l = true -> frame_pushed_l e (V ++ l) = true.
Proof. induction V; simpl; auto. intros. apply fp_cons. auto. Qed.

Lemma fp_act : forall e n F T, T <> [] -> frame_pushed_l e (act n F ++ T) = frame_pushed_l e (F ++ T).
Proof.
  unfold act. intros e n F T HT. induction F; simpl; auto.
  assert (HN : forall X, X ++ T <> []) by (intros X; destruct X; simpl; [auto | discriminate]).
  destruct a; simpl.
  - reflexivity.
  - destruct (fl n true F) as [r F'] eqn:E; simpl in *.
    rewrite !match_nonempty by apply HN. rewrite IHF. reflexivity.
  - destruct (N.eqb n0 n); simpl; auto. destruct (fl n true F) as [r F'] eqn:E; simpl in *.
    rewrite !match_nonempty by apply HN. auto.
  - destruct (N.eqb n0 n); simpl.
    + rewrite !match_nonempty by apply HN. reflexivity.
    + destruct (fl n true F) as [r F'] eqn:E; simpl in *. rewrite !match_nonempty by apply HN. auto.
  - destruct (N.eqb n0 n); simpl; auto. destruct (fl n true F) as [r F'] eqn:E; simpl in *.
    rewrite !match_nonempty by apply HN. auto.
Qed.

Lemma act_app_vars : forall n V e Fp, Forall is_varE V -> has_var n V = false ->
  act n (V ++ EFrame e :: Fp) = V ++ EFrame e :: act n Fp.
Proof.
  unfold act. induction V; intros e Fp HV Hn; simpl.
  - destruct (fl n true Fp); reflexivity.
  - inversion HV; subst. destruct a; try contradiction. simpl in Hn. apply orb_false_iff in Hn. destruct Hn as [H3 H4].
    rewrite H3. specialize (IHV e Fp H2 H4). destruct (fl n true (V ++ EFrame e :: Fp)); simpl in *. rewrite IHV. reflexivity.
Qed.

Lemma has_var_app : forall n A B, has_var n (A ++ B) = has_var n A || has_var n B.
Proof. induction A; simpl; auto. intros. destruct a; auto. rewrite IHA. rewrite orb_assoc. reflexivity. Qed.

Lemma pval_params : forall n l, pval n (map (fun p => EParam (fst p) (snd p)) l) = lookup n l.
Proof. induction l; simpl; auto. destruct a as [n' b]. simpl. destruct (N.eqb n' n); auto. Qed.

Lemma has_var_params : forall n l, has_var n (map (fun p => EParam (fst p) (snd p)) l) = false.
Proof. induction l; simpl; auto. Qed.

Lemma not_ctx_params : forall l, Forall not_ctx (map (fun p => EParam (fst p) (snd p)) l).
Proof. induction l; simpl; constructor; simpl; auto. Qed.

(* template-start frames: only parameter entries *)
Definition TFw (F : list entry) (wp : list (N * N)) : Prop :=
  Forall not_ctx F /\ (forall n, has_var n F = false) /\ (forall n, pval n F = lookup n (rev wp)) /\
  (forall n b, loc n F = Some b -> pval n F <> None).

(* between template instances: with the repair no param is active *)
Definition TF (rs : bool) (F : list entry) (wp : list (N * N)) : Prop :=
  TFw F wp /\ (rs = true -> forall n, loc n F = None).

Lemma loc_params_only : forall n b l, loc n (map (fun p => EParam (fst p) (snd p)) l) = Some b -> False.
Proof. induction l; simpl; intros; try discriminate. auto. Qed.

Lemma TF_params : forall rs wp, TF rs (rev (map (fun p => EParam (fst p) (snd p)) wp)) wp.
Proof.
  intros. rewrite <- map_rev. split; [repeat split|].
  - apply not_ctx_params.
  - intros. apply has_var_params.
  - intros. apply pval_params.
  - intros n b H. exfalso. eapply loc_params_only; eauto.
  - intros _ n. destruct (loc n (map (fun p => EParam (fst p) (snd p)) (rev wp))) eqn:E; auto.
    exfalso. eapply loc_params_only; eauto.
Qed.

Lemma TF_Fr : forall rs F wp, TF rs F wp -> Fr rs F [] wp.
Proof.
  intros rs F wp [[H0 [H1 [H2 H3]]] H4]. repeat split; auto.
  - simpl; intros; discriminate.
  - intros n _ [Hr | Hn]; [apply H4; assumption|].
    destruct (loc n F) eqn:E; auto. exfalso. apply H3 in E. rewrite H2 in E.
    destruct (lookup n (rev wp)) eqn:E2; try congruence. apply lookup_in in E2. apply Hn.
    rewrite map_rev in E2. apply in_rev in E2. auto.
Qed.

Lemma loc_act_pval : forall n m F b, loc m (act n F) = Some b -> loc m F = Some b \/ pval m F <> None.
Proof.
  unfold act. induction F; intros b; simpl; auto. destruct a; simpl; auto.
  - destruct (fl n true F); simpl in *. auto.
  - destruct (N.eqb n0 n); simpl; auto. destruct (fl n true F); simpl in *. destruct (N.eqb n0 m); auto.
  - destruct (N.eqb n0 n); simpl.
    + destruct (N.eqb n0 m); auto. intros. right. discriminate.
    + destruct (fl n true F); simpl in *. destruct (N.eqb n0 m); auto. intros H. apply IHF in H. destruct H; auto. right. discriminate.
  - destruct (N.eqb n0 n); simpl; auto. destruct (fl n true F); simpl in *. destruct (N.eqb n0 m); auto.
Qed.

Lemma TFw_act : forall F wp n, TFw F wp -> TFw (act n F) wp.
Proof.
  intros F wp n [H0 [H1 [H2 H3]]]. repeat split.
  - apply act_not_ctx; auto.
  - intros. rewrite act_has_var. auto.
  - intros. rewrite act_pval. auto.
  - intros m b H. rewrite act_pval. apply loc_act_pval in H. destruct H; eauto.
Qed.

Lemma snd_spec_seq_cons : forall f x r env,
  snd (spec_seq f (x :: r) env) = snd (f x env) ++ snd (spec_seq f r (fst (f x env))).
Proof.
  intros. cbn [spec_seq]. destruct (f x env) as [env' o1]. cbn [fst snd].
  change ((fix spec_seq (l : list ins) (env0 : list (N * N)) {struct l} : list (N * N) * list obs :=
             match l with
             | [] => (env0, [])
             | x0 :: r0 => let (env'0, o0) := f x0 env0 in let (env'', o2) := spec_seq r0 env'0 in (env'', o0 ++ o2)
             end) r env') with (spec_seq f r env').
  destruct (spec_seq f r env'). reflexivity.
Qed.

Lemma exec_seq_cons : forall f x r s,
  exec_seq f (x :: r) s =
  match f x s with
  | Some (s', o1) => match exec_seq f r s' with Some (s'', o2) => Some (s'', o1 ++ o2) | None => None end
  | None => None
  end.
Proof. reflexivity. Qed.

(* ---- the variant with the repair of K-C01-1: params deactivated when a template's frame is popped ---- *)
Definition deact1 (x : entry) : entry := match x with EActive n b => EParam n b | _ => x end.

Lemma deact_frame : forall F R, R <> [] -> Forall not_ctx F -> deact (F ++ ECtx :: R) = map deact1 F ++ ECtx :: R.
Proof.
  induction F; intros R HR HF.
  - simpl. destruct R; [contradiction|]. reflexivity.
  - inversion HF; subst. cbn [app deact map]. rewrite match_nonempty by (destruct F; discriminate).
    rewrite IHF by assumption. destruct a; try contradiction; reflexivity.
Qed.

Lemma reset_params_st : forall F R g, R <> [] -> Forall not_ctx F ->
  reset_params (st (F ++ ECtx :: R) g) = st (map deact1 F ++ ECtx :: R) g.
Proof.
  intros. unfold reset_params. cbn [stk csfi gsfi gmarked st]. rewrite Nat.sub_diag. cbn [skipn firstn app].
  rewrite deact_frame by assumption. unfold st. f_equal. rewrite !app_length. rewrite map_length. reflexivity.
Qed.

Lemma deact1_not_ctx : forall F, Forall not_ctx F -> Forall not_ctx (map deact1 F).
Proof. induction 1; simpl; constructor; auto. destruct x; simpl in *; auto. Qed.

Lemma deact1_has_var : forall n F, has_var n (map deact1 F) = has_var n F.
Proof. induction F; simpl; auto. destruct a; simpl; auto. rewrite IHF. reflexivity. Qed.

Lemma deact1_pval : forall n F, pval n (map deact1 F) = pval n F.
Proof. induction F; simpl; auto. destruct a; simpl; auto; rewrite IHF; reflexivity. Qed.

Lemma deact1_loc : forall n F, Forall not_ctx F -> (forall m, has_var m F = false) -> loc n (map deact1 F) = None.
Proof.
  induction F; intros HF Hv; simpl; auto. inversion HF; subst.
  assert (Hv' : forall m, has_var m F = false).
  { intros m. specialize (Hv m). destruct a; simpl in Hv; auto. apply orb_false_iff in Hv. tauto. }
  destruct a; simpl in *; try contradiction; auto.
  specialize (Hv n0). rewrite N.eqb_refl in Hv. discriminate.
Qed.

Lemma TF_deact : forall rs F wp, TFw F wp -> TF rs (map deact1 F) wp.
Proof.
  intros rs F wp [H0 [H1 [H2 H3]]]. split; [repeat split|].
  - apply deact1_not_ctx; auto.
  - intros. rewrite deact1_has_var. auto.
  - intros. rewrite deact1_pval. auto.
  - intros n b H. rewrite deact1_loc in H by assumption. discriminate.
  - intros _ n. apply deact1_loc; assumption.
Qed.

Section Main.
  Variable rs : bool.
  Variable strict : bool.
  (* without the repair (rs = false) the guard of finding K-C01-1 is needed *)
  Hypothesis Hmode : rs = false -> strict = true.
  Variable genv : list (N * N).
  Let GL := gseg genv.
  Let g := length GL.

  Definition Good (F R : list entry) : Prop :=
    Forall not_ctx F /\ R <> [] /\ exists U, ECtx :: R = U ++ GL.

  Lemma g_gt1 : Nat.ltb 1 g = true.
  Proof. apply Nat.ltb_lt. unfold g, GL, gseg. rewrite app_length. simpl. lia. Qed.

  Lemma get_variable_st : forall n F R, Good F R ->
    get_variable n (st (F ++ ECtx :: R) g) =
    (match loc n F with Some b => Some b | None => lookup n genv end, st (F ++ ECtx :: R) g).
  Proof.
    intros n F R [H0 [HR [U HU]]]. unfold get_variable, find_entry. cbn [stk csfi gsfi st].
    rewrite Nat.sub_diag. cbn [skipn firstn app]. rewrite find_local_frame by assumption.
    rewrite fl_false. cbn [fst snd]. destruct (loc n F).
    - reflexivity.
    - rewrite g_gt1. cbn [negb andb].
      assert (HL : Nat.leb g (length (F ++ ECtx :: R)) = true).
      { apply Nat.leb_le. rewrite HU. rewrite app_assoc. rewrite app_length. unfold g. lia. }
      rewrite HL. f_equal.
      rewrite HU. rewrite app_assoc. unfold g. rewrite skipn_app_len. apply find_global_gseg.
  Qed.

  Lemma get_param_st : forall n F R, Good F R ->
    get_param_variable n (st (F ++ ECtx :: R) g) = (fst (fl n true F), st (act n F ++ ECtx :: R) g).
  Proof.
    intros n F R [H0 [HR [U HU]]]. unfold get_param_variable, find_entry. cbn [stk csfi gsfi gmarked st].
    rewrite Nat.sub_diag. cbn [skipn firstn app]. rewrite find_local_frame by assumption.
    assert (E : mkV (snd (fl n true F) ++ ECtx :: R) (length (F ++ ECtx :: R)) g true = st (act n F ++ ECtx :: R) g).
    { unfold st, act. f_equal. rewrite !app_length. rewrite fl_length. reflexivity. }
    destruct (fst (fl n true F)); cbn [negb andb]; rewrite E; reflexivity.
  Qed.

  Lemma Good_cons : forall x F R, not_ctx x -> Good F R -> Good (x :: F) R.
  Proof. intros x F R Hx [H0 [HR HU]]. repeat split; auto. Qed.

  Lemma Good_app : forall V F R, Forall not_ctx V -> Good F R -> Good (V ++ F) R.
  Proof. intros V F R HV [H0 [HR HU]]. repeat split; auto. apply Forall_app; auto. Qed.

  Lemma Good_nested : forall P F R, Forall not_ctx P -> Good F R -> Good P (F ++ ECtx :: R).
  Proof.
    intros P F R HP [H0 [HR [U HU]]]. repeat split; auto.
    - destruct F; discriminate.
    - exists (ECtx :: F ++ U). simpl. rewrite HU. rewrite <- app_assoc. reflexivity.
  Qed.

  Lemma is_varE_not_ctx : forall V, Forall is_varE V -> Forall not_ctx V.
  Proof. induction 1; constructor; auto. destruct x; simpl in *; auto. Qed.

  (* properties proved by induction on the execution tree *)
  Definition normalP (i : ins) : Prop :=
    forall wp env F R e dn',
      Good F R -> Fr rs F env wp ->
      ok_ins strict (map fst wp) i (map fst env) = Some dn' ->
      (is_decl i = true -> frame_pushed_l e (F ++ ECtx :: R) = true) ->
      exec_ins rs e i (st (F ++ ECtx :: R) g) =
        Some (match i with Var n b => st (EVar n b :: F ++ ECtx :: R) g | _ => st (F ++ ECtx :: R) g end,
              snd (spec_ins genv wp i env))
      /\ dn' = map fst (fst (spec_ins genv wp i env)).

  Definition tmplP (i : ins) : Prop :=
    match i with
    | Tmpl e ps body =>
        forall wp F R par dn0,
          Good F R -> TF rs F wp ->
          ok_params ps [] = Some dn0 ->
          is_some (ok_seq (fun x => ok_ins strict (map fst wp) x) body dn0) = true ->
          exists F', exec_ins rs par i (st (F ++ ECtx :: R) g) =
                       Some (st (F' ++ ECtx :: R) g, snd (spec_ins genv wp i []))
                     /\ TF rs F' wp
    | _ => True
    end.

  (* a sequence of ordinary instructions: only xsl:variable pushes stay on the stack *)
  Lemma seq_lemma : forall body, Forall normalP body ->
    forall wp env F R e dn',
      Good F R -> Fr rs F env wp ->
      ok_seq (fun x => ok_ins strict (map fst wp) x) body (map fst env) = Some dn' ->
      (existsb is_decl body = true -> frame_pushed_l e (F ++ ECtx :: R) = true) ->
      exists V, Forall is_varE V /\
        exec_seq (fun x => exec_ins rs e x) body (st (F ++ ECtx :: R) g) =
          Some (st (V ++ F ++ ECtx :: R) g, snd (spec_seq (fun x => spec_ins genv wp x) body env))
        /\ (existsb is_decl body = false -> V = []).
  Proof.
    induction 1 as [|i body Hi Hb IH]; intros wp env F R e dn' HG HF Hok Hfp.
    - exists []. simpl. repeat split; auto.
    - cbn [ok_seq] in Hok. destruct (ok_ins strict (map fst wp) i (map fst env)) as [dn1|] eqn:E1; try discriminate.
      assert (Hfp1 : is_decl i = true -> frame_pushed_l e (F ++ ECtx :: R) = true).
      { intros X. apply Hfp. simpl. rewrite X. reflexivity. }
      destruct (Hi wp env F R e dn1 HG HF E1 Hfp1) as [Hex Hdn].
      rewrite exec_seq_cons. rewrite Hex. rewrite snd_spec_seq_cons.
      destruct i.
      + (* Var: one more entry in the frame *)
        simpl in E1. destruct (mem n (map fst env)) eqn:Em; try discriminate. inversion E1; subst dn1. clear E1.
        cbn [spec_ins fst snd app].
        assert (HG1 : Good (EVar n b :: F) R) by (apply Good_cons; simpl; auto).
        assert (HF1 : Fr rs (EVar n b :: F) ((n, b) :: env) wp) by (apply Fr_push_var; auto; apply mem_lookup_none; auto).
        assert (Hfp2 : existsb is_decl body = true -> frame_pushed_l e ((EVar n b :: F) ++ ECtx :: R) = true).
        { intros X. change ((EVar n b :: F) ++ ECtx :: R) with (EVar n b :: F ++ ECtx :: R). apply fp_cons. apply Hfp1. reflexivity. }
        destruct (IH wp ((n, b) :: env) (EVar n b :: F) R e dn' HG1 HF1 Hok Hfp2) as [V [HV [Hex2 Hnil]]].
        change (EVar n b :: F ++ ECtx :: R) with ((EVar n b :: F) ++ ECtx :: R). rewrite Hex2.
        exists (V ++ [EVar n b]). repeat split.
        * apply Forall_app. split; auto. constructor; simpl; auto.
        * rewrite <- app_assoc. reflexivity.
        * simpl. intros X. discriminate.
      + assert (Hfp2 : existsb is_decl body = true -> frame_pushed_l e (F ++ ECtx :: R) = true) by (intros X; apply Hfp; simpl; auto).
        subst dn1. cbn [spec_ins fst snd] in *.
        destruct (IH wp env F R e dn' HG HF Hok Hfp2) as [V [HV [Hex2 Hnil]]]. rewrite Hex2.
        exists V. repeat split; auto.
      + assert (Hfp2 : existsb is_decl body = true -> frame_pushed_l e (F ++ ECtx :: R) = true) by (intros X; apply Hfp; simpl; auto).
        subst dn1. cbn [spec_ins fst snd] in *.
        destruct (IH wp env F R e dn' HG HF Hok Hfp2) as [V [HV [Hex2 Hnil]]]. rewrite Hex2.
        exists V. repeat split; auto.
      + assert (Hfp2 : existsb is_decl body = true -> frame_pushed_l e (F ++ ECtx :: R) = true) by (intros X; apply Hfp; simpl; auto).
        subst dn1. cbn [spec_ins fst snd] in *.
        destruct (IH wp env F R e dn' HG HF Hok Hfp2) as [V [HV [Hex2 Hnil]]]. rewrite Hex2.
        exists V. repeat split; auto.
      + simpl in E1. discriminate.
  Qed.

  Lemma fp_frame_in : forall e V rest, rest <> [] -> frame_pushed_l e (V ++ EFrame e :: rest) = true.
  Proof. intros. apply fp_app. apply fp_here. auto. Qed.

  Lemma params_lemma : forall ps wp e V Fp R env dn0,
    Good Fp R -> Forall is_varE V -> Fr rs (V ++ EFrame e :: Fp) env wp ->
    ok_params ps (map fst env) = Some dn0 ->
    exists V' Fp', Forall is_varE V' /\
      exec_params e ps (st ((V ++ EFrame e :: Fp) ++ ECtx :: R) g) = Some (st ((V' ++ EFrame e :: Fp') ++ ECtx :: R) g) /\
      Fr rs (V' ++ EFrame e :: Fp') (bind_params wp ps env) wp /\
      map fst (bind_params wp ps env) = dn0 /\
      Good Fp' R /\ (TFw Fp wp -> TFw Fp' wp).
  Proof.
    induction ps as [|[n d] ps IH]; intros wp e V Fp R env dn0 HG HV HF Hok.
    - simpl in Hok. inversion Hok; subst. exists V, Fp. simpl.
      refine (conj HV (conj eq_refl (conj HF (conj eq_refl (conj HG (fun X => X)))))).
    - cbn [ok_params fst] in Hok. destruct (mem n (map fst env)) eqn:Em; try discriminate.
      pose proof (mem_lookup_none _ _ Em) as Hn.
      destruct HF as [H0 [Ha [Hb [Hc Hd]]]].
      assert (HGc : Good (V ++ EFrame e :: Fp) R).
      { destruct HG as [G0 [G1 G2]]. repeat split; auto. }
      cbn [exec_params]. unfold exec_param. cbn [fst snd]. rewrite get_param_st by assumption.
      pose proof (Hc n Hn) as Hv. rewrite fl_true_fst by assumption.
      assert (HvV : has_var n V = false).
      { rewrite has_var_app in Hv. apply orb_false_iff in Hv. tauto. }
      unfold bind_params. cbn [fold_left fst snd]. fold (bind_params wp ps).
      rewrite <- (Hd n).
      destruct (pval n (V ++ EFrame e :: Fp)) as [v|] eqn:Ep.
      + rewrite act_app_vars by assumption.
        assert (HF' : Fr rs (V ++ EFrame e :: act n Fp) ((n, v) :: env) wp).
        { rewrite <- act_app_vars by assumption. apply Fr_act; auto. repeat split; auto. }
        assert (HG' : Good (act n Fp) R).
        { destruct HG as [G0 [G1 G2]]. repeat split; auto. apply act_not_ctx; auto. }
        destruct (IH wp e V (act n Fp) R ((n, v) :: env) dn0 HG' HV HF' Hok) as [V' [Fp' [A [B [C [D [E G]]]]]]].
        exists V', Fp'. refine (conj A (conj B (conj C (conj D (conj E _))))). intros X. apply G. apply TFw_act. auto.
      + rewrite fl_true_none by assumption.
        unfold push_variable, frame_pushed. cbn [stk st].
        rewrite <- app_assoc. cbn [app]. rewrite fp_frame_in by (destruct Fp; discriminate).
        rewrite push_st.
        assert (HF' : Fr rs ((EVar n d :: V) ++ EFrame e :: Fp) ((n, d) :: env) wp).
        { cbn [app]. apply Fr_push_var; auto. repeat split; auto. }
        assert (HV' : Forall is_varE (EVar n d :: V)) by (constructor; simpl; auto).
        destruct (IH wp e (EVar n d :: V) Fp R ((n, d) :: env) dn0 HG HV' HF' Hok) as [V' [Fp' [A [B [C [D [E G]]]]]]].
        exists V', Fp'. refine (conj A (conj _ (conj C (conj D (conj E G))))).
        rewrite <- B. f_equal. f_equal. cbn [app]. rewrite <- app_assoc. reflexivity.
  Qed.

  Lemma tmpl_lemma : forall e ps body, Forall normalP body -> tmplP (Tmpl e ps body).
  Proof.
    intros e ps body Hb wp F R par dn0 HG HT Hokp Hokb.
    destruct (ok_seq (fun x => ok_ins strict (map fst wp) x) body dn0) as [dnb|] eqn:Eb; try discriminate.
    cbn [exec_ins spec_ins snd].
    destruct (has_decl ps body) eqn:Ehv.
    - rewrite push_st.
      assert (HF0 : Fr rs ([] ++ EFrame e :: F) [] wp) by (apply Fr_push_frame; apply TF_Fr; auto).
      destruct (params_lemma ps wp e [] F R [] dn0 HG (Forall_nil _) HF0 Hokp) as [V' [Fp' [A [B [C [D [E G]]]]]]].
      cbn [app] in B. cbn [app]. rewrite B.
      assert (HG2 : Good (V' ++ EFrame e :: Fp') R).
      { destruct E as [E0 [E1 E2]]. repeat split; auto. apply Forall_app. split. apply is_varE_not_ctx; auto. constructor; simpl; auto. }
      rewrite <- D in Eb.
      assert (Hfp : existsb is_decl body = true -> frame_pushed_l e ((V' ++ EFrame e :: Fp') ++ ECtx :: R) = true).
      { intros _. rewrite <- app_assoc. cbn [app]. apply fp_frame_in. destruct Fp'; discriminate. }
      destruct (seq_lemma body Hb wp (bind_params wp ps []) (V' ++ EFrame e :: Fp') R e dnb HG2 C Eb Hfp) as [V2 [HV2 [Hex Hnil]]].
      rewrite Hex. unfold end_template, end_children.
      replace (V2 ++ (V' ++ EFrame e :: Fp') ++ ECtx :: R) with ((V2 ++ V') ++ EFrame e :: (Fp' ++ ECtx :: R)).
      2:{ rewrite <- !app_assoc. cbn [app]. reflexivity. }
      rewrite pop_frame_st.
      + destruct HT as [HTw HT5]. case_eq rs; intros Ers; cbn [andb].
        * destruct E as [E0 [E1 E2]]. rewrite reset_params_st by assumption.
          exists (map deact1 Fp'). split; auto. rewrite <- Ers. apply TF_deact. auto.
        * exists Fp'. split; auto. split; auto. intros X. rewrite X in Ers. discriminate.
      + apply Forall_app. split; auto.
      + destruct Fp'; discriminate.
    - unfold has_decl in Ehv. apply orb_false_iff in Ehv. destruct Ehv as [E1 E2].
      destruct ps; try discriminate. cbn [exec_params bind_params fold_left]. simpl in Hokp. inversion Hokp; subst dn0.
      assert (Hfp : existsb is_decl body = true -> frame_pushed_l e (F ++ ECtx :: R) = true) by (intros X; congruence).
      destruct (seq_lemma body Hb wp [] F R e dnb HG (TF_Fr _ _ _ HT) Eb Hfp) as [V2 [HV2 [Hex Hnil]]].
      rewrite Hex. rewrite (Hnil E2). unfold end_template. cbn [end_children app]. rewrite andb_false_r. exists F. split; auto.
  Qed.

  Definition okT (wp : list (N * N)) (x : ins) : bool :=
    match x with
    | Tmpl e ps body =>
        match ok_params ps [] with
        | Some dn0 => is_some (ok_seq (fun x => ok_ins strict (map fst wp) x) body dn0)
        | None => false
        end
    | _ => false
    end.

  Lemma tseq_lemma : forall ts, Forall (fun i => normalP i /\ tmplP i) ts ->
    forall wp F R par, Good F R -> TF rs F wp -> forallb (okT wp) ts = true ->
    exists F', exec_seq (fun x => exec_ins rs par x) ts (st (F ++ ECtx :: R) g) =
                 Some (st (F' ++ ECtx :: R) g, flat_map (fun x => snd (spec_ins genv wp x [])) ts)
               /\ TF rs F' wp.
  Proof.
    induction 1 as [|i ts [_ Hi] Hts IH]; intros wp F R par HG HT Hok.
    - exists F. simpl. auto.
    - cbn [forallb] in Hok. apply andb_true_iff in Hok. destruct Hok as [Hok1 Hok2].
      destruct i; try discriminate. unfold okT in Hok1.
      destruct (ok_params ps []) as [dn0|] eqn:Ep; try discriminate.
      destruct (Hi wp F R par dn0 HG HT Ep Hok1) as [F1 [Hex HT1]].
      rewrite exec_seq_cons. rewrite Hex.
      assert (HG1 : Good F1 R). { destruct HG as [G0 [G1 G2]]. destruct HT1 as [[T0 _] _]. repeat split; auto. }
      destruct (IH wp F1 R par HG1 HT1 Hok2) as [F2 [Hex2 HT2]].
      rewrite Hex2. exists F2. split; auto.
  Qed.

  Theorem main_lemma : forall i, normalP i /\ tmplP i.
  Proof.
    induction i using ins_ind'.
    - (* Var *) split; [|exact I]. intros wp env F R e dn' HG HF Hok Hfp.
      simpl in Hok. destruct (mem n (map fst env)); try discriminate. inversion Hok; subst.
      cbn [exec_ins spec_ins fst snd]. unfold push_variable, frame_pushed. cbn [stk st].
      rewrite Hfp by reflexivity. rewrite push_st. auto.
    - (* Use *) split; [|exact I]. intros wp env F R e dn' HG HF Hok Hfp.
      cbn [exec_ins spec_ins fst snd]. rewrite get_variable_st by assumption.
      simpl in Hok. destruct HF as [H0 [Ha [Hb [Hc Hd]]]].
      destruct (lookup n env) as [b|] eqn:El.
      + rewrite (Ha n b El). destruct (strict && negb (mem n (map fst env)) && mem n (map fst wp)); inversion Hok; auto.
      + assert (Hloc : loc n F = None).
        { apply Hb; auto. case_eq rs; intros Ers; [left; reflexivity|]. right.
          rewrite (Hmode Ers) in Hok. rewrite (lookup_none_mem _ _ El) in Hok. cbn [negb andb] in Hok.
          destruct (mem n (map fst wp)) eqn:Em; try discriminate. intros X. apply mem_in in X. congruence. }
        rewrite Hloc. destruct (strict && negb (mem n (map fst env)) && mem n (map fst wp)); inversion Hok; auto.
    - (* Block *) split; [|exact I]. intros wp env F R e0 dn' HG HF Hok Hfp.
      assert (Hb : Forall normalP body) by (eapply Forall_impl; [|exact H]; intros a [X _]; exact X).
      cbn [ok_ins] in Hok.
      destruct (ok_seq (fun x => ok_ins strict (map fst wp) x) body (map fst env)) as [dnb|] eqn:Eb; try discriminate.
      cbn [is_some] in Hok. inversion Hok; subst dn'.
      cbn [exec_ins spec_ins fst snd]. unfold has_decl. cbn [negb orb].
      destruct (existsb is_decl body) eqn:Ehv.
      + rewrite push_st.
        assert (HG1 : Good (EFrame e :: F) R) by (apply Good_cons; simpl; auto).
        assert (Hfp1 : existsb is_decl body = true -> frame_pushed_l e ((EFrame e :: F) ++ ECtx :: R) = true).
        { intros _. cbn [app]. apply fp_here. destruct F; discriminate. }
        destruct (seq_lemma body Hb wp env (EFrame e :: F) R e dnb HG1 (Fr_push_frame _ _ _ _ e HF) Eb Hfp1) as [V [HV [Hex Hnil]]].
        change (EFrame e :: F ++ ECtx :: R) with ((EFrame e :: F) ++ ECtx :: R). rewrite Hex.
        cbn [end_children app]. rewrite pop_frame_st; auto. destruct F; discriminate.
      + assert (Hfp1 : existsb is_decl body = true -> frame_pushed_l e (F ++ ECtx :: R) = true) by (intros X; congruence).
        destruct (seq_lemma body Hb wp env F R e dnb HG HF Eb Hfp1) as [V [HV [Hex Hnil]]].
        rewrite Hex. rewrite (Hnil Ehv). cbn [end_children app]. auto.
    - (* Invoke *) split; [|exact I]. intros wp0 env F R e dn' HG HF Hok Hfp.
      cbn [ok_ins] in Hok.
      match type of Hok with (if forallb ?f ts then _ else _) = _ => change f with (okT wp) in Hok end.
      destruct (forallb (okT wp) ts) eqn:Eok; try discriminate. inversion Hok; subst dn'.
      cbn [exec_ins spec_ins fst snd]. rewrite push_st. rewrite push_params_st.
      set (P := rev (map (fun p => EParam (fst p) (snd p)) wp)).
      assert (HTP : TF rs P wp) by apply TF_params.
      assert (HGP : Good P (F ++ ECtx :: R)).
      { apply Good_nested; auto. destruct HTP as [[T0 _] _]; auto. }
      destruct (tseq_lemma ts H wp P (F ++ ECtx :: R) e HGP HTP Eok) as [F' [Hex HT']].
      rewrite Hex. rewrite pop_ctx_st. auto. destruct HT' as [[T0 _] _]; auto.
    - (* Tmpl *) split.
      + intros wp env F R e0 dn' HG HF Hok. simpl in Hok. discriminate.
      + apply tmpl_lemma. eapply Forall_impl; [|exact H]. intros a [X _]; exact X.
  Qed.
End Main.

(* ---- the start state built by StylesheetRoot::process ---- *)
Lemma push_unmarked : forall x l gs,
  push x (mkV l (length l) gs false) = mkV (x :: l) (S (length l)) (if is_var x then S (length l) else gs) false.
Proof. intros. unfold push. simpl. rewrite Nat.eqb_refl. destruct (is_var x); reflexivity. Qed.

Lemma push_lazy_unmarked : forall n b l gs, frame_pushed_l 0%N l = true ->
  push_variable_lazy n b 0%N (mkV l (length l) gs false) = mkV (EVar n b :: l) (length (EVar n b :: l)) (S (length l)) false.
Proof.
  intros. unfold push_variable_lazy, frame_pushed. cbn [stk]. rewrite H. rewrite push_unmarked. reflexivity.
Qed.

Lemma globals_pushed : forall gl l gs, frame_pushed_l 0%N l = true ->
  exists gs', fold_left (fun s p => push_variable_lazy (fst p) (snd p) 0%N s) gl (mkV l (length l) gs false) =
              mkV (rev (map (fun p => EVar (fst p) (snd p)) gl) ++ l) (length (rev (map (fun p => EVar (fst p) (snd p)) gl) ++ l)) gs' false.
Proof.
  induction gl as [|[n b] gl IH]; intros l gs Hfp.
  - exists gs. reflexivity.
  - cbn [fold_left fst snd]. rewrite push_lazy_unmarked by assumption.
    destruct (IH (EVar n b :: l) (S (length l)) (fp_cons _ _ _ Hfp)) as [gs' E].
    exists gs'. rewrite E. cbn [map rev]. rewrite <- app_assoc. reflexivity.
Qed.

Lemma impl_start_st : forall globals,
  impl_start globals = st (ECtx :: gseg (rev globals)) (length (gseg (rev globals))).
Proof.
  intros. unfold impl_start, vs_init.
  change (mkV [] 0 0 false) with (mkV (@nil entry) (length (@nil entry)) 0 false).
  rewrite push_unmarked. cbn [is_var].
  change (S (length (@nil entry))) with (length [ECtx]). rewrite push_unmarked. cbn [is_var].
  change (S (length [ECtx])) with (length [EFrame 0%N; ECtx]).
  destruct (globals_pushed globals [EFrame 0%N; ECtx] 0 eq_refl) as [gs' E]. rewrite E.
  unfold mark_global. cbn [stk csfi].
  unfold gseg. rewrite map_rev.
  set (L := rev (map (fun p => EVar (fst p) (snd p)) globals) ++ [EFrame 0%N; ECtx]).
  change (mkV L (length L) (length L) true) with (st L (length L)). apply push_st.
Qed.

(* (b) main statement. strict = the guard of finding K-C01-1; it is only needed for the variant without the repair *)
Theorem varstack_refines_lexical_env_gen : forall rs strict globals root,
  (rs = false -> strict = true) ->
  ok_root strict root = true -> impl_run rs globals root = Some (spec_run globals root).
Proof.
  intros rs strict globals root Hmode Hok. unfold ok_root in Hok. cbn [ok_ins forallb] in Hok.
  destruct root; try discriminate.
  destruct (ok_params ps []) as [dn0|] eqn:Ep; try discriminate.
  cbn [andb] in Hok.
  destruct (is_some (ok_seq (fun x => ok_ins strict (map fst (@nil (N * N))) x) body dn0)) eqn:Eb; try discriminate.
  unfold impl_run, spec_run. rewrite impl_start_st.
  set (genv := rev globals).
  destruct (main_lemma rs strict Hmode genv (Tmpl e ps body)) as [_ HT]. cbn [tmplP] in HT.
  assert (HG : Good genv [] (gseg genv)).
  { repeat split. constructor. unfold gseg. destruct (map _ genv); discriminate. exists [ECtx]. reflexivity. }
  assert (HTF : TF rs [] []).
  { split; [repeat split|]. constructor. intros; discriminate. intros; reflexivity. }
  destruct (HT [] [] (gseg genv) 0%N dn0 HG HTF Ep Eb) as [F' [Hex _]].
  cbn [app] in Hex. rewrite Hex. reflexivity.
Qed.

(* both variants, with the guard *)
Theorem varstack_refines_lexical_env_partial_thm : forall rs globals root,
  ok_root true root = true -> impl_run rs globals root = Some (spec_run globals root).
Proof. intros. apply varstack_refines_lexical_env_gen with (strict := true); auto. Qed.

(* the repaired variant, WITHOUT the guard: in particular a with-param the invoked template does not declare
   is invisible to it (XSLT 1.0 11.6), whatever top-level binding has that name *)
Theorem varstack_refines_lexical_env_thm : forall globals root,
  ok_root false root = true -> impl_run true globals root = Some (spec_run globals root).
Proof. intros. apply varstack_refines_lexical_env_gen with (strict := false); auto; intros; discriminate. Qed.

(* the full statement fails: finding K-C01-1 (a with-param activated by one template instance stays
   active for the instances that follow under the same context marker) *)
Definition leak_witness : ins :=
  Tmpl 1 [] [Invoke [(5, 7)] [Tmpl 2 [(5, 1)] [Use 5]; Tmpl 3 [] [Use 5]]]%N.

Theorem varstack_refines_lexical_env_refuted_thm :
  ok_root false leak_witness = true /\
  impl_run false [(5, 100)]%N leak_witness <> Some (spec_run [(5, 100)]%N leak_witness).
Proof. split; [reflexivity | vm_compute; discriminate]. Qed.

(* with the repair the same program behaves lexically *)
Lemma leak_witness_repaired : impl_run true [(5, 100)]%N leak_witness = Some (spec_run [(5, 100)]%N leak_witness).
Proof. vm_compute. reflexivity. Qed.

(* ---- m_currentStackFrameIndex always equals the stack size (no external setCurrentStackFrameIndex) ---- *)
Inductive rop :=
| RPush (e : entry) | RPop | RPopCtx | RPopFrame | RFind (n : N) (p g : bool) | RMark | RReset.

Definition rstep (o : rop) (s : vs) : vs :=
  match o with
  | RPush e => push e s
  | RPop => pop s
  | RPopCtx => pop_ctx s
  | RPopFrame => match pop_frame s with Some s' => s' | None => s end
  | RFind n p g => snd (find_entry n p g s)
  | RMark => mark_global s
  | RReset => reset_params s
  end.

Definition tracks (s : vs) : Prop := csfi s = length (stk s).

Lemma push_tracks : forall e s, tracks s -> tracks (push e s).
Proof. unfold tracks, push. intros. simpl. rewrite H. rewrite Nat.eqb_refl. reflexivity. Qed.

Lemma pop_tracks : forall s, tracks s -> tracks (pop s).
Proof.
  unfold tracks, pop. intros [l c gs m] H. simpl in *. subst c. destruct l; auto. simpl.
  rewrite Nat.eqb_refl. reflexivity.
Qed.

Lemma pop_ctx_n_tracks : forall k s, tracks s -> tracks (pop_ctx_n k s).
Proof.
  induction k; intros; simpl; auto. destruct (stk s) eqn:E; auto.
  destruct e; try (apply IHk; apply pop_tracks; auto). apply pop_tracks; auto.
Qed.

Lemma pop_frame_n_tracks : forall k s s', tracks s -> pop_frame_n k s = Some s' -> tracks s'.
Proof.
  induction k; intros s s' H E; simpl in E.
  - inversion E; subst; auto.
  - destruct (stk s) as [|e l] eqn:E1.
    + inversion E; subst; auto.
    + destruct l as [|e2 l].
      * destruct e; inversion E; subst; auto.
      * destruct e; try discriminate.
        -- inversion E; subst. apply pop_tracks; auto.
        -- eapply IHk; [|exact E]; apply pop_tracks; auto.
        -- eapply IHk; [|exact E]; apply pop_tracks; auto.
        -- eapply IHk; [|exact E]; apply pop_tracks; auto.
Qed.

Lemma find_local_cons2 : forall n p x y r,
  find_local n p (x :: y :: r) =
  match x with
  | EVar n' b | EActive n' b =>
      if N.eqb n' n then (Some b, x :: y :: r)
      else match find_local n p (y :: r) with (res, r') => (res, x :: r') end
  | EParam n' b =>
      if p && N.eqb n' n then (Some b, EActive n' b :: y :: r)
      else match find_local n p (y :: r) with (res, r') => (res, x :: r') end
  | ECtx => (None, x :: y :: r)
  | EFrame _ => match find_local n p (y :: r) with (res, r') => (res, x :: r') end
  end.
Proof. reflexivity. Qed.

Lemma find_local_length : forall n p l, length (snd (find_local n p l)) = length l.
Proof.
  induction l as [|x l IH]; auto. destruct l as [|y r]; auto.
  rewrite find_local_cons2.
  destruct x; cbn [snd length]; auto.
  - destruct (find_local n p (y :: r)); cbn [snd length] in *. auto.
  - destruct (N.eqb n0 n); cbn [snd length]; auto. destruct (find_local n p (y :: r)); cbn [snd length] in *. auto.
  - destruct (p && N.eqb n0 n); cbn [snd length]; auto. destruct (find_local n p (y :: r)); cbn [snd length] in *. auto.
  - destruct (N.eqb n0 n); cbn [snd length]; auto. destruct (find_local n p (y :: r)); cbn [snd length] in *. auto.
Qed.

Lemma find_entry_tracks : forall n p g s, tracks s -> tracks (snd (find_entry n p g s)).
Proof.
  unfold tracks, find_entry. intros n p g s H.
  rewrite H. rewrite Nat.sub_diag. cbn [skipn firstn app].
  pose proof (find_local_length n p (stk s)) as L.
  destruct (find_local n p (stk s)) as [r l']. simpl in L.
  destruct r; simpl; auto.
  destruct (negb p && g && (1 <? gsfi s) && (gsfi s <=? length (stk s))); simpl; auto.
Qed.

Lemma deact_length : forall l, length (deact l) = length l.
Proof.
  induction l as [|x l IH]; auto. destruct l as [|y r]; auto.
  change (deact (x :: y :: r)) with (match x with ECtx => x :: y :: r | EActive n b => EParam n b :: deact (y :: r) | _ => x :: deact (y :: r) end).
  destruct x; cbn [length] in *; auto.
Qed.

Lemma reset_params_tracks : forall s, tracks s -> tracks (reset_params s).
Proof.
  unfold tracks, reset_params. intros s H. cbn [csfi stk]. rewrite H. rewrite Nat.sub_diag. cbn [skipn firstn app].
  rewrite deact_length. reflexivity.
Qed.

Theorem csfi_tracks_size_thm : forall ops, tracks (fold_left (fun s o => rstep o s) ops vs_init).
Proof.
  intros ops. assert (forall s, tracks s -> tracks (fold_left (fun s o => rstep o s) ops s)).
  { induction ops; intros; simpl; auto. apply IHops. destruct a; simpl.
    - apply push_tracks; auto.
    - apply pop_tracks; auto.
    - apply pop_ctx_n_tracks; auto.
    - destruct (pop_frame s) eqn:E; auto. eapply pop_frame_n_tracks; eauto.
    - apply find_entry_tracks; auto.
    - unfold mark_global. apply push_tracks. exact H.
    - apply reset_params_tracks; auto. }
  apply H. reflexivity.
Qed.
