(* Extraction of the C12 model for the correspondence driver. ExtrOcamlBasic only. *)
Require Import ExtrOcamlBasic.
From Coq Require Import ZArith.
Require Import XV.NodeListDefs.
(* ocaml/conv.ml (prepended to every driver) mentions the constructors of positive, N and Z *)
Definition conv_types_witness : N * Z := (Npos xH, Zpos xH).
Extraction "extracted/nodelist_model.ml"
  all_nodes index valid isNodeAfter isNodeAfter_struct nl_clear nl_addNode nl_addInOrder addNodesInDocOrder add_step
  nl_reverse nl_nullClear nl_flagIfSorted union_code conv_types_witness.
