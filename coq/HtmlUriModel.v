(* C08 part html: uri_escaping_is_percent_utf8 - what writeAttrURI writes (escapeURLs on) is, once the reader has taken
   the amp reference back to the ampersand, the %HH form of the UTF-8 bytes of every code point outside 33..126 (space
   kept, the quote mark as %22); with escapeURLs off the reader gets the value itself.  The bit manipulation of the code
   against the arithmetic definition of UTF-8: exhaustive computation over the (finite) ranges of units, lifted to all
   units by check_below_spec. *)
From Coq Require Import NArith ZArith List Bool Lia ZifyBool ZifyNat ZifyN.
Require Import XV.GenOutopt XV.GenHtml XV.HtmlEnt4Defs XV.HtmlDefs XV.HtmlTableModel XV.HtmlRefModel XV.HtmlTextModel XV.HtmlAttrModel.
Import ListNotations.
Open Scope N_scope.

(* ---- a bounded universal quantifier that computes --------------------------------------------------------- *)
Definition check_below (f : N -> bool) (n : N) : bool :=
  snd (N.iter n (fun p : N * bool => (fst p + 1, snd p && f (fst p))) (0, true)).

Lemma check_below_iter : forall f n,
  fst (N.iter n (fun p : N * bool => (fst p + 1, snd p && f (fst p))) (0, true)) = n /\
  (snd (N.iter n (fun p : N * bool => (fst p + 1, snd p && f (fst p))) (0, true)) = true -> forall i, i < n -> f i = true).
Proof.
  intros f n. induction n as [|n IH] using N.peano_ind.
  - cbn. split; [reflexivity | intros _ i Hi; lia].
  - rewrite N.iter_succ. destruct IH as [IH1 IH2]. cbn [fst snd]. split; [lia|].
    intros H i Hi. apply andb_true_iff in H. destruct H as [H1 H2].
    destruct (N.eq_dec i n) as [->|Hne]; [rewrite IH1 in H2; exact H2 | apply IH2; [exact H1 | lia]].
Qed.

Lemma check_below_spec : forall f n, check_below f n = true -> forall i, i < n -> f i = true.
Proof. intros f n H. apply (proj2 (check_below_iter f n)). exact H. Qed.

Ltac Zify.zify_post_hook ::= Z.div_mod_to_equations.

Definition plain_av (ch : N) : bool := negb (ch =? 34) && negb (ch =? 38).

(* ---- accumHexNumber on a byte: '%' and two upper-case hex digits ------------------------------------------- *)
Definition byte_ok (b : N) : bool := str_eqb (hexnum b) (hex2 b) && forallb plain_av (hex2 b).
Lemma byte_sweep : check_below byte_ok 256 = true.
Proof. vm_compute. reflexivity. Qed.
Lemma hexnum_byte : forall b, b < 256 -> hexnum b = hex2 b /\ forallb plain_av (hex2 b) = true.
Proof.
  intros b H. pose proof (check_below_spec _ _ byte_sweep b H) as G. unfold byte_ok in G.
  apply andb_true_iff in G. destruct G as [G1 G2]. apply str_eqb_eq in G1. auto.
Qed.

(* ---- the code's bytes against utf8_bytes: units of the BMP --------------------------------------------------- *)
Definition b2 (ch : N) : list N := [N.lor (N.shiftr ch 6) 192; N.lor (N.land ch 63) 128].
Definition b3 (ch : N) : list N := [N.lor (N.shiftr ch 12) 224; N.lor (N.shiftr (N.land ch 4032) 6) 128; N.lor (N.land ch 63) 128].
Definition bmp_ok (ch : N) : bool :=
  Bool.eqb (N.land ch 64512 =? 55296) (is_high ch) &&
  (if ch <=? 127 then true
   else if ch <=? 2047 then str_eqb (b2 ch) (utf8_bytes ch)
   else str_eqb (b3 ch) (utf8_bytes ch)).
Lemma bmp_sweep : check_below bmp_ok 65536 = true.
Proof. vm_compute. reflexivity. Qed.

Lemma bmp_facts : forall ch, ch < 65536 ->
  (N.land ch 64512 =? 55296) = is_high ch /\
  (127 < ch -> ch <= 2047 -> b2 ch = utf8_bytes ch) /\ (2047 < ch -> b3 ch = utf8_bytes ch).
Proof.
  intros ch H. pose proof (check_below_spec _ _ bmp_sweep ch H) as G. unfold bmp_ok in G.
  apply andb_true_iff in G. destruct G as [G1 G2]. apply Bool.eqb_prop in G1. split; [exact G1|]. split.
  - intros A B. destruct (ch <=? 127) eqn:E1; [lia|]. destruct (ch <=? 2047) eqn:E2; [|lia]. apply str_eqb_eq. exact G2.
  - intros A. destruct (ch <=? 127) eqn:E1; [lia|]. destruct (ch <=? 2047) eqn:E2; [lia|]. apply str_eqb_eq. exact G2.
Qed.

Lemma utf8_bytes_small : forall cp, cp < 1114112 -> forallb (fun b => b <? 256) (utf8_bytes cp) = true.
Proof.
  intros cp H. unfold utf8_bytes.
  destruct (cp <? 128) eqn:E1; [cbn [forallb]; lia|]. destruct (cp <? 2048) eqn:E2; [cbn [forallb]; lia|].
  destruct (cp <? 65536) eqn:E3; cbn [forallb]; lia.
Qed.

(* ---- surrogate pairs: the four bytes, by arithmetic over the two 10-bit halves -------------------------------- *)
Definition bytes4 (ch nextChar : N) : list N :=
  let highSurrogate := N.land ch 1023 in
  let wwww := N.shiftr (N.land highSurrogate 960) 6 in
  let uuuuu := wwww + 1 in
  let zzzz := N.shiftr (N.land highSurrogate 60) 2 in
  let temp := N.land (N.shiftl (N.land highSurrogate 3) 4) 48 in
  let lowSurrogate := N.land nextChar 1023 in
  let yyyyyy := N.lor temp (N.shiftr (N.land lowSurrogate 960) 6) in
  let xxxxxx := N.land lowSurrogate 63 in
  [N.lor 240 (N.shiftr uuuuu 2); N.lor (N.lor 128 (N.land (N.shiftl (N.land uuuuu 3) 4) 48)) zzzz; N.lor 128 yyyyyy; N.lor 128 xxxxxx].

Definition half_ok (a : N) : bool :=
  (N.land (55296 + a) 1023 =? a) && (N.land (56320 + a) 1023 =? a) &&
  (N.lor 240 (N.shiftr (N.shiftr (N.land a 960) 6 + 1) 2) =? 240 + (a + 64) / 256) &&
  (N.lor (N.lor 128 (N.land (N.shiftl (N.land (N.shiftr (N.land a 960) 6 + 1) 3) 4) 48)) (N.shiftr (N.land a 60) 2) =? 128 + ((a + 64) / 4) mod 64) &&
  (N.land (N.shiftl (N.land a 3) 4) 48 =? (a mod 4) * 16) &&
  (N.shiftr (N.land a 960) 6 =? a / 64) && (N.lor 128 (N.land a 63) =? 128 + a mod 64).
Lemma half_sweep : check_below half_ok 1024 = true.
Proof. vm_compute. reflexivity. Qed.
Definition lor_ok (n : N) : bool := N.lor 128 (N.lor (n / 16 * 16) (n mod 16)) =? 128 + n.
Lemma lor_sweep : check_below lor_ok 64 = true.
Proof. vm_compute. reflexivity. Qed.

Lemma half_facts : forall a, a < 1024 ->
  N.land (55296 + a) 1023 = a /\ N.land (56320 + a) 1023 = a /\
  N.lor 240 (N.shiftr (N.shiftr (N.land a 960) 6 + 1) 2) = 240 + (a + 64) / 256 /\
  N.lor (N.lor 128 (N.land (N.shiftl (N.land (N.shiftr (N.land a 960) 6 + 1) 3) 4) 48)) (N.shiftr (N.land a 60) 2) = 128 + ((a + 64) / 4) mod 64 /\
  N.land (N.shiftl (N.land a 3) 4) 48 = (a mod 4) * 16 /\
  N.shiftr (N.land a 960) 6 = a / 64 /\ N.lor 128 (N.land a 63) = 128 + a mod 64.
Proof.
  intros a Ha. pose proof (check_below_spec _ _ half_sweep a Ha) as G. unfold half_ok in G.
  repeat match goal with H : _ && _ = true |- _ => apply andb_true_iff in H; destruct H end.
  repeat match goal with H : (_ =? _) = true |- _ => apply N.eqb_eq in H end.
  repeat split; assumption.
Qed.

Lemma pair_arith : forall a b, a < 1024 -> b < 1024 ->
  [240 + (a + 64) / 256; 128 + ((a + 64) / 4) mod 64; 128 + (a mod 4 * 16 + b / 64); 128 + b mod 64] =
  utf8_bytes (a * 1024 + b + 65536).
Proof.
  intros a b Ha Hb. unfold utf8_bytes.
  destruct (a * 1024 + b + 65536 <? 128) eqn:E1; [lia|]. destruct (a * 1024 + b + 65536 <? 2048) eqn:E2; [lia|].
  destruct (a * 1024 + b + 65536 <? 65536) eqn:E3; [lia|]. clear E1 E2 E3.
  f_equal; [lia|]. f_equal; [lia|]. f_equal; [lia|]. f_equal. lia.
Qed.

Lemma lor_facts : forall t u, t < 4 -> u < 16 -> N.lor 128 (N.lor (t * 16) u) = 128 + (t * 16 + u).
Proof.
  intros t u Ht Hu. assert (Hn : t * 16 + u < 64) by lia.
  pose proof (check_below_spec _ _ lor_sweep _ Hn) as G. unfold lor_ok in G. apply N.eqb_eq in G.
  assert (E1 : (t * 16 + u) / 16 = t) by lia. assert (E2 : (t * 16 + u) mod 16 = u) by lia.
  rewrite E1, E2 in G. exact G.
Qed.

Lemma bytes4_ab : forall a b, a < 1024 -> b < 1024 -> bytes4 (55296 + a) (56320 + b) = utf8_bytes (a * 1024 + b + 65536).
Proof.
  intros a b Ha Hb.
  destruct (half_facts a Ha) as (A1 & _ & A3 & A4 & A5 & _ & _).
  destruct (half_facts b Hb) as (_ & B2 & _ & _ & _ & B6 & B7).
  assert (T : a mod 4 < 4) by (apply N.mod_lt; lia). assert (U : b / 64 < 16) by (apply N.div_lt_upper_bound; lia).
  pose proof (lor_facts _ _ T U) as GL.
  unfold bytes4. cbv zeta. rewrite A1, B2, A3, A4, A5, B6, GL, B7.
  apply pair_arith; assumption.
Qed.

Lemma bytes4_utf8 : forall hi lo, is_high hi = true -> is_lowsur lo = true -> bytes4 hi lo = utf8_bytes (pair_cp hi lo).
Proof.
  intros hi lo Hh Hl. unfold is_high, is_lowsur in *.
  assert (E1 : hi = 55296 + (hi - 55296)) by lia. assert (E2 : lo = 56320 + (lo - 56320)) by lia.
  rewrite E1 at 1. rewrite E2 at 1. rewrite bytes4_ab by lia. reflexivity.
Qed.

(* ---- the reader over what writeAttrURI writes ------------------------------------------------------------------- *)
Section U.
Variables (nm : str) (ats : list (str * str)) (an : str) (toks : list tok).
Notation AV v := (AttrVal nm ats an v, toks).

Lemma run_av_plains : forall p v, forallb plain_av p = true -> run (AV v) p = AV (rev p ++ v).
Proof.
  induction p as [|ch p IH]; intros v H; [reflexivity|].
  cbn [forallb] in H. apply andb_true_iff in H. destruct H as [H1 H2]. unfold plain_av in H1.
  rewrite run_cons. cbn [step]. unfold step_attrval.
  destruct (ch =? 34) eqn:E1; [discriminate|]. destruct (ch =? 38) eqn:E2; [discriminate|].
  rewrite IH by exact H2. cbn [rev]. rewrite <- app_assoc. reflexivity.
Qed.

Lemma hexbytes_plain : forall bs, forallb (fun b => b <? 256) bs = true -> forallb plain_av (flat_map hex2 bs) = true.
Proof.
  induction bs as [|b bs IH]; intros H; [reflexivity|]. cbn [forallb] in H. apply andb_true_iff in H. destruct H as [H1 H2].
  cbn [flat_map]. rewrite forallb_app, (proj2 (hexnum_byte b ltac:(lia))), IH by exact H2. reflexivity.
Qed.

Lemma run_amp : forall v, run (AV v) [38; 97; 109; 112; 59] = AV (38 :: v).
Proof. intros v. reflexivity. Qed.
Lemma run_quot : forall v, run (AV v) [38; 113; 117; 111; 116; 59] = AV (34 :: v).
Proof. intros v. vm_compute. reflexivity. Qed.

Lemma hex4 : forall x1 x2 x3 x4 rest, forallb (fun b => b <? 256) [x1; x2; x3; x4] = true ->
  hexnum x1 ++ hexnum x2 ++ hexnum x3 ++ hexnum x4 ++ rest = flat_map hex2 [x1; x2; x3; x4] ++ rest.
Proof.
  intros x1 x2 x3 x4 rest H. cbn [forallb] in H. repeat (apply andb_true_iff in H; destruct H as [? H]).
  rewrite (proj1 (hexnum_byte x1 ltac:(lia))), (proj1 (hexnum_byte x2 ltac:(lia))), (proj1 (hexnum_byte x3 ltac:(lia))), (proj1 (hexnum_byte x4 ltac:(lia))).
  cbn [flat_map]. rewrite app_nil_r, <- !app_assoc. reflexivity.
Qed.

Lemma hexnum2 : forall x y, x < 256 -> y < 256 -> hexnum x ++ hexnum y = flat_map hex2 [x; y].
Proof. intros x y Hx Hy. rewrite (proj1 (hexnum_byte x Hx)), (proj1 (hexnum_byte y Hy)). cbn [flat_map]. rewrite app_nil_r. reflexivity. Qed.

(* escapeURLs on: the reader gets uri_spec of the value *)
Lemma uri_on_n : forall c, esc_urls c = true -> maxc_ok c -> forall n s, (length s <= n)%nat -> chars_ok s = true ->
  forall v, run (AV v) (write_uri c s) = AV (rev (uri_spec s) ++ v).
Proof.
  intros c Hesc Hc. induction n as [|n IH]; intros s Hn Hok v.
  - destruct s; [reflexivity | cbn in Hn; lia].
  - destruct s as [|ch r]; [reflexivity|].
    unfold chars_ok in Hok. apply andb_true_iff in Hok. destruct Hok as [Hwf Hall].
    cbn [forallb] in Hall. apply andb_true_iff in Hall. destruct Hall as [Hch Hall]. cbn [length] in Hn.
    assert (Hlt : ch < 65536) by (unfold html_char, mem in Hch; cbn [existsb] in Hch; lia).
    destruct (bmp_facts ch Hlt) as (F1 & F2 & F3).
    (* one unit consumed: piece written, piece' read *)
    assert (STEP : forall piece piece', wf16 r = true -> (forall v, run (AV v) piece = AV (rev piece' ++ v)) ->
               run (AV v) (piece ++ write_uri c r) = AV (rev (piece' ++ uri_spec r) ++ v)).
    { intros piece piece' Hwr Hp. rewrite run_app, Hp, IH; [|lia|unfold chars_ok; rewrite Hwr, Hall; reflexivity].
      rewrite rev_app_distr, <- app_assoc. reflexivity. }
    assert (PL : forall bs, forallb (fun b => b <? 256) bs = true -> forall v, run (AV v) (flat_map hex2 bs) = AV (rev (flat_map hex2 bs) ++ v)).
    { intros bs Hb v0. apply run_av_plains, hexbytes_plain, Hb. }
    cbn [write_uri uri_spec]. rewrite Hesc. unfold uri_plain_from, uri_plain_to.
    destruct (is_high ch) eqn:Eh.
    + (* a surrogate pair: four bytes *)
      cbn [wf16] in Hwf. rewrite Eh in Hwf. destruct r as [|lo r']; [discriminate|].
      apply andb_true_iff in Hwf. destruct Hwf as [Hlo Hwr]. rewrite Hlo.
      cbn [forallb] in Hall. apply andb_true_iff in Hall. destruct Hall as [_ Hall'].
      assert ((ch <? 33) || (126 <? ch) = true) as -> by (unfold is_high in Eh; lia).
      assert (ch =? 32 = false) as -> by (unfold is_high in Eh; lia).
      assert (ch <=? 127 = false) as -> by (unfold is_high in Eh; lia).
      assert (ch <=? 2047 = false) as -> by (unfold is_high in Eh; lia).
      rewrite F1.
      destruct (fix_cp_pair _ _ Eh Hlo) as (_ & _ & _).
      pose proof (bytes4_utf8 _ _ Eh Hlo) as B4. unfold bytes4 in B4. cbv zeta in B4.
      assert (Hcp : 65536 <= pair_cp ch lo < 1114112) by (unfold pair_cp, is_high, is_lowsur in *; lia).
      pose proof (utf8_bytes_small (pair_cp ch lo) ltac:(lia)) as SM.
      unfold uri_cp. assert (pair_cp ch lo =? 32 = false) as -> by lia. assert (pair_cp ch lo =? 34 = false) as -> by lia.
      assert ((33 <=? pair_cp ch lo) && (pair_cp ch lo <=? 126) = false) as -> by lia.
      rewrite hex4 by (rewrite B4; exact SM). rewrite B4.
      rewrite run_app, PL by exact SM. rewrite IH; [|cbn [length] in Hn; lia|unfold chars_ok; rewrite Hwr, Hall'; reflexivity].
      rewrite rev_app_distr, <- app_assoc. reflexivity.
    + cbn [wf16] in Hwf. rewrite Eh in Hwf. apply andb_true_iff in Hwf. destruct Hwf as [Hnl Hwr]. apply negb_true_iff in Hnl.
      assert (USP : match r with lo :: r' => if is_lowsur lo then uri_cp ch ++ uri_spec r else uri_cp ch ++ uri_spec r | [] => uri_cp ch end = uri_cp ch ++ uri_spec r \/ True) by (right; exact I).
      clear USP.
      destruct ((ch <? 33) || (126 <? ch)) eqn:Eout.
      * destruct (ch =? 32) eqn:E32.
        { apply N.eqb_eq in E32. subst ch. change (32 :: write_uri c r) with ([32] ++ write_uri c r).
          apply (STEP [32] (uri_cp 32) Hwr). intros v0. reflexivity. }
        destruct (ch <=? 127) eqn:E127.
        { rewrite (proj1 (hexnum_byte ch ltac:(lia))).
          assert (UC : uri_cp ch = hex2 ch).
          { unfold uri_cp. rewrite E32. destruct (ch =? 34) eqn:E34; [lia|]. assert ((33 <=? ch) && (ch <=? 126) = false) as -> by lia.
            unfold utf8_bytes. assert (ch <? 128 = true) as -> by lia. cbn [flat_map]. rewrite app_nil_r. reflexivity. }
          rewrite <- UC. apply (STEP (uri_cp ch) (uri_cp ch) Hwr). intros v0. rewrite UC. apply run_av_plains. apply (proj2 (hexnum_byte ch ltac:(lia))). }
        assert (UC : uri_cp ch = flat_map hex2 (utf8_bytes ch)).
        { unfold uri_cp. rewrite E32. destruct (ch =? 34) eqn:E34; [lia|]. assert ((33 <=? ch) && (ch <=? 126) = false) as -> by lia. reflexivity. }
        pose proof (utf8_bytes_small ch ltac:(lia)) as SM.
        destruct (ch <=? 2047) eqn:E2047.
        { pose proof (F2 ltac:(lia) ltac:(lia)) as B. unfold b2 in B. rewrite <- B in SM, UC.
          cbn [forallb] in SM. repeat (apply andb_true_iff in SM; destruct SM as [? SM]).
          rewrite app_assoc, hexnum2 by lia. rewrite <- UC.
          apply (STEP (uri_cp ch) (uri_cp ch) Hwr). intros v0. rewrite UC. apply PL. cbn [forallb]. lia. }
        rewrite F1.
        pose proof (F3 ltac:(lia)) as B. unfold b3 in B. rewrite <- B in SM, UC.
        cbn [forallb] in SM. repeat (apply andb_true_iff in SM; destruct SM as [? SM]).
        rewrite (proj1 (hexnum_byte (N.lor (N.shiftr ch 12) 224) ltac:(lia))), (proj1 (hexnum_byte (N.lor (N.shiftr (N.land ch 4032) 6) 128) ltac:(lia))),
                (proj1 (hexnum_byte (N.lor (N.land ch 63) 128) ltac:(lia))).
        cbn [flat_map] in UC. rewrite app_nil_r in UC.
        rewrite !app_assoc. rewrite <- (app_assoc (hex2 _) (hex2 _) (hex2 _)). rewrite <- UC.
        apply (STEP (uri_cp ch) (uri_cp ch) Hwr). intros v0. rewrite UC.
        apply run_av_plains. rewrite !forallb_app.
        rewrite (proj2 (hexnum_byte (N.lor (N.shiftr ch 12) 224) ltac:(lia))), (proj2 (hexnum_byte (N.lor (N.shiftr (N.land ch 4032) 6) 128) ltac:(lia))),
                (proj2 (hexnum_byte (N.lor (N.land ch 63) 128) ltac:(lia))). reflexivity.
      * destruct (ch =? 34) eqn:E34.
        { apply N.eqb_eq in E34. subst ch. apply (STEP [37; 50; 50] (uri_cp 34) Hwr). intros v0. reflexivity. }
        destruct (ch =? 38) eqn:E38.
        { apply N.eqb_eq in E38. subst ch. apply (STEP [38; 97; 109; 112; 59] (uri_cp 38) Hwr). intros v0. reflexivity. }
        assert (UC : uri_cp ch = [ch]).
        { unfold uri_cp. rewrite E34. assert (ch =? 32 = false) as -> by lia. assert ((33 <=? ch) && (ch <=? 126) = true) as -> by lia. reflexivity. }
        assert (CU : content_unit c ch = [ch]).
        { unfold content_unit. destruct (maxc c <? ch) eqn:E; [|reflexivity]. destruct Hc as [Hc|[Hc|Hc]]; rewrite Hc in E; lia. }
        rewrite CU, UC. apply (STEP [ch] [ch] Hwr). intros v0. apply run_av_plains. cbn [forallb]. unfold plain_av. rewrite E34, E38. reflexivity.
Qed.

(* escapeURLs off: the reader gets the value itself *)
Lemma uri_off_n : forall c, esc_urls c = false -> maxc_ok c -> uri_noescape_pair_is_one_reference = true ->
  forall n s, (length s <= n)%nat -> chars_ok s = true ->
  forall v, run (AV v) (write_uri c s) = AV (rev s ++ v).
Proof.
  intros c Hesc Hc PAIR. induction n as [|n IH]; intros s Hn Hok v.
  - destruct s; [reflexivity | cbn in Hn; lia].
  - destruct s as [|ch r]; [reflexivity|].
    unfold chars_ok in Hok. apply andb_true_iff in Hok. destruct Hok as [Hwf Hall].
    cbn [forallb] in Hall. apply andb_true_iff in Hall. destruct Hall as [Hch Hall]. cbn [length] in Hn.
    assert (STEP : forall piece, wf16 r = true -> (forall v, run (AV v) piece = AV (ch :: v)) ->
               run (AV v) (piece ++ write_uri c r) = AV (rev (ch :: r) ++ v)).
    { intros piece Hwr Hp. rewrite run_app, Hp, IH; [|lia|unfold chars_ok; rewrite Hwr, Hall; reflexivity].
      cbn [rev]. rewrite <- app_assoc. reflexivity. }
    cbn [write_uri]. rewrite Hesc, PAIR. unfold uri_plain_from, uri_plain_to. cbn [andb].
    destruct (is_high ch) eqn:Eh.
    + cbn [wf16] in Hwf. rewrite Eh in Hwf. destruct r as [|lo r']; [discriminate|].
      apply andb_true_iff in Hwf. destruct Hwf as [Hlo Hwr]. rewrite Hlo.
      cbn [forallb] in Hall. apply andb_true_iff in Hall. destruct Hall as [Hlc Hall'].
      assert ((ch <? 33) || (126 <? ch) = true) as -> by (unfold is_high in Eh; lia).
      destruct (fix_cp_pair _ _ Eh Hlo) as (P1 & P2 & P3).
      destruct (ch <? maxc c) eqn:Elt.
      * (* the encoding has the units (UTF): both go out as they are *)
        assert (M : maxc c = 65535) by (unfold is_high in Eh; destruct Hc as [Hc|[Hc|Hc]]; rewrite Hc in Elt; lia).
        assert (CU : content_unit c ch = [ch]) by (unfold content_unit; destruct (maxc c <? ch) eqn:E; [lia | reflexivity]).
        assert (CL : content_unit c lo = [lo]) by (unfold content_unit, is_lowsur in *; destruct (maxc c <? lo) eqn:E; [lia | reflexivity]).
        cbn [write_uri]. rewrite Hesc. unfold uri_plain_from, uri_plain_to.
        assert ((lo <? 33) || (126 <? lo) = true) as -> by (unfold is_lowsur in Hlo; lia).
        assert (lo <? maxc c = true) as -> by (unfold is_lowsur in Hlo; lia).
        rewrite CU, CL. change ([ch] ++ [lo] ++ write_uri c r') with ([ch; lo] ++ write_uri c r').
        rewrite run_app, run_av_plains by (cbn [forallb]; unfold plain_av, is_high, is_lowsur in *; lia).
        rewrite IH; [|cbn [length] in Hn; lia|unfold chars_ok; rewrite Hwr, Hall'; reflexivity].
        cbn [rev app]. rewrite <- !app_assoc. reflexivity.
      * cbn [andb]. rewrite run_app, run_av_numref by exact P3. rewrite P1, P2.
        rewrite IH; [|cbn [length] in Hn; lia|unfold chars_ok; rewrite Hwr, Hall'; reflexivity].
        cbn [rev app]. rewrite <- !app_assoc. reflexivity.
    + cbn [wf16] in Hwf. rewrite Eh in Hwf. apply andb_true_iff in Hwf. destruct Hwf as [Hnl Hwr]. apply negb_true_iff in Hnl.
      destruct (fix_cp_char _ Hch Eh Hnl) as (Q1 & Q2). cbn [andb].
      destruct ((ch <? 33) || (126 <? ch)) eqn:Eout.
      * destruct (ch <? maxc c) eqn:Elt.
        -- assert (CU : content_unit c ch = [ch]) by (unfold content_unit; destruct (maxc c <? ch) eqn:E; [lia | reflexivity]).
           rewrite CU. apply (STEP [ch] Hwr). intros v0. apply run_av_plains. cbn [forallb]. unfold plain_av. lia.
        -- apply (STEP (numref ch) Hwr). intros v0. rewrite run_av_numref.
           ++ rewrite Q1, Q2. reflexivity.
           ++ unfold html_char, mem in Hch. cbn [existsb] in Hch. change (10 ^ 20) with 100000000000000000000. lia.
      * destruct (ch =? 34) eqn:E34.
        { apply N.eqb_eq in E34. subst ch. apply (STEP [38; 113; 117; 111; 116; 59] Hwr). intros v0. apply run_quot. }
        destruct (ch =? 38) eqn:E38.
        { apply N.eqb_eq in E38. subst ch. apply (STEP [38; 97; 109; 112; 59] Hwr). intros v0. reflexivity. }
        assert (CU : content_unit c ch = [ch]).
        { unfold content_unit. destruct (maxc c <? ch) eqn:E; [|reflexivity]. destruct Hc as [Hc|[Hc|Hc]]; rewrite Hc in E; lia. }
        rewrite CU. apply (STEP [ch] Hwr). intros v0. apply run_av_plains. cbn [forallb]. unfold plain_av. rewrite E34, E38. reflexivity.
Qed.

Lemma uri_run : forall c s v, maxc_ok c -> uri_noescape_pair_is_one_reference = true -> chars_ok s = true ->
  run (AV v) (write_uri c s) = AV (rev (if esc_urls c then uri_spec s else s) ++ v).
Proof.
  intros c s v Hc P Hs. destruct (esc_urls c) eqn:E.
  - apply (uri_on_n c E Hc (length s) s (le_n _) Hs).
  - apply (uri_off_n c E Hc P (length s) s (le_n _) Hs).
Qed.
End U.

Lemma uri_on : forall nm ats an toks c s v, maxc_ok c -> esc_urls c = true -> chars_ok s = true ->
  run (AttrVal nm ats an v, toks) (write_uri c s) = (AttrVal nm ats an (rev (uri_spec s) ++ v), toks).
Proof. intros nm ats an toks c s v Hc He Hs. apply (uri_on_n nm ats an toks c He Hc (length s) s (le_n _) Hs). Qed.

Lemma uri_off : forall nm ats an toks c s v, maxc_ok c -> uri_noescape_pair_is_one_reference = true -> esc_urls c = false -> chars_ok s = true ->
  run (AttrVal nm ats an v, toks) (write_uri c s) = (AttrVal nm ats an (rev s ++ v), toks).
Proof. intros nm ats an toks c s v Hc P He Hs. apply (uri_off_n nm ats an toks c He Hc P (length s) s (le_n _) Hs). Qed.
