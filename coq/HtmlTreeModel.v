(* C08 part "html": html_roundtrip - for every document that satisfies html_ok, the reader applied to what the serializer
   writes returns the normalised document.  Tokenizer half (the tokens of the tree), tree-builder half (nesting). *)
From Coq Require Import NArith List Bool Lia ZifyBool ZifyNat ZifyN.
Require Import XV.GenOutopt XV.GenHtml XV.HtmlEnt4Defs XV.HtmlDefs XV.HtmlTableModel XV.HtmlSerModel XV.HtmlRefModel XV.HtmlTextModel XV.HtmlAttrModel XV.HtmlElemModel XV.HtmlUriModel XV.HtmlTagModel.
Import ListNotations.
Open Scope N_scope.

(* induction over trees with the children as a list *)
Lemma hnode_induction : forall (P : hnode -> Prop),
  (forall name attrs kids, Forall P kids -> P (HEl name attrs kids)) ->
  (forall s, P (HText s)) -> (forall s, P (HComment s)) -> (forall t d, P (HPI t d)) ->
  forall n, P n.
Proof.
  intros P HE HT HC HP. fix IH 1. intros n. destruct n as [name attrs kids|s|s|t d].
  - apply HE. induction kids as [|k l IHl]; constructor; [apply IH | exact IHl].
  - apply HT.
  - apply HC.
  - apply HP.
Qed.

(* the tokens of a (normalised) tree *)
Definition meta_attrs (c : hcfg) : list (str * str) :=
  [ ([104;116;116;112;45;101;113;117;105;118], [67;111;110;116;101;110;116;45;84;121;112;101]);
    ([99;111;110;116;101;110;116], [116;101;120;116;47;104;116;109;108;59;32;99;104;97;114;115;101;116;61] ++ enc_name c) ].
Definition meta_name : str := [109; 101; 116; 97].
Fixpoint toks_of (c : hcfg) (n : hnode) : list tok :=
  match n with
  | HText s => map TkChar s
  | HComment d => [TkComment d]
  | HPI t d => [TkPI t d]
  | HEl name attrs kids =>
      let nm := map low name in
      TkStart nm (map (norm_attr c nm) attrs) ::
      (if str_eqb nm head_name && negb (omit_meta c) then [TkStart meta_name (meta_attrs c)] else []) ++
      flat_map (toks_of c) kids ++ (if in_names nm void4 then [] else [TkEnd nm])
  end.

(* ---- the kids loop of ser_node is ser_list --------------------------------------------------------------------- *)
Lemma ser_node_el : forall c top ins raw op name attrs kids,
  ser_node c top ins raw op (HEl name attrs kids) =
  match ser_attrs c name attrs with
  | None => None
  | Some ao =>
      let head := elem_is flag_HEADELEM name in
      match ser_list c false (if elem_is flag_SCRIPTELEM name then true else ins) (elem_is flag_RAW name) kids (negb head) with
      | None => None
      | Some (ko, open_end) =>
          let empty := elem_is flag_EMPTY name in
          let etag := [60; 47] ++ acc_name c name ++ [62] in
          Some ((pte op ++ [60] ++ acc_name c name ++ ao) ++
                (if head then 62 :: (if omit_meta c then [] else meta_tag c) else []) ++ ko ++
                (if open_end then (if empty then [62] else 62 :: etag) else (if empty then [] else etag)), false)
      end
  end.
Proof.
  intros c top ins raw op name attrs kids. cbn [ser_node]. destruct (ser_attrs c name attrs) as [ao|]; [|reflexivity]. cbv zeta.
  generalize (negb (elem_is flag_HEADELEM name)) as b.
  set (ins' := if elem_is flag_SCRIPTELEM name then true else ins). set (raw' := elem_is flag_RAW name).
  intros b.
  match goal with |- match ?X with _ => _ end = _ => assert (E : X = ser_list c false ins' raw' kids b) end.
  { revert b. induction kids as [|k l IHl]; intros b; [reflexivity|]. cbn [ser_list].
    destruct (ser_node c false ins' raw' b k) as [[o op1]|]; [|reflexivity]. rewrite IHl. reflexivity. }
  rewrite E. reflexivity.
Qed.

(* ---- the start tag ------------------------------------------------------------------------------------------------- *)
Lemma start_tag_run : forall c name attrs, maxc_ok c -> flags_ok -> name_ok name = true -> forallb attr_ok attrs = true ->
  exists ao, ser_attrs c name attrs = Some ao /\ acc_name c name = name /\
    forall toks, run (Data, toks) ([60] ++ name ++ ao ++ [62]) =
                 ((if in_names (map low name) raw4 then Raw else Data), TkStart (map low name) (map (norm_attr c (map low name)) attrs) :: toks).
Proof.
  intros c name attrs Hc Hf Hn Ha.
  destruct name as [|ch rest] eqn:En; [discriminate|]. rewrite <- En in *.
  assert (Hn' := Hn). rewrite En in Hn'. cbn [name_ok] in Hn'. apply andb_true_iff in Hn'. destruct Hn' as [Hl Hrest].
  set (acc := rev (map low rest) ++ [low ch]).
  assert (Racc : rev acc = map low name) by (unfold acc; rewrite En, rev_app_distr, rev_involutive; reflexivity).
  pose proof (pending_tagname acc) as Hp. rewrite Racc in Hp.
  destruct (attrs_run c name Hc Hf attrs Ha [] (TagName acc) Hp) as (ao & Hao & Hrun).
  exists ao. split; [exact Hao|]. split; [apply acc_name_ascii; [exact Hc | rewrite En; apply name_ascii; assumption]|].
  intros toks. destruct (letter_facts _ Hl) as (A & B & C & _).
  rewrite En. cbn [app]. rewrite run_cons. cbn [step step_data N.eqb Pos.eqb]. rewrite run_cons. cbn [step].
  destruct (ch =? 47) eqn:E1; [lia|]. destruct (ch =? 33) eqn:E2; [lia|]. destruct (ch =? 63) eqn:E3; [lia|]. rewrite Hl.
  rewrite run_app, run_tagname by exact Hrest. fold acc. rewrite Hrun. rewrite <- En. unfold emit_start.
  rewrite app_nil_r, rev_involutive. reflexivity.
Qed.

Lemma end_tag_run : forall name toks, name_ok name = true ->
  run (EndTagOpen, toks) (name ++ [62]) = (Data, TkEnd (map low name) :: toks).
Proof.
  intros name toks Hn. destruct name as [|ch rest]; [discriminate|]. cbn [name_ok] in Hn. apply andb_true_iff in Hn. destruct Hn as [Hl Hrest].
  cbn [app]. rewrite run_cons. cbn [step]. rewrite Hl. rewrite run_app, run_endname by exact Hrest.
  cbn [run fold_left step N.eqb Pos.eqb]. rewrite rev_rev_low. reflexivity.
Qed.

(* ---- SCRIPT / STYLE content: everything up to the first "</" is character data -------------------------------- *)
Lemma raw_run : forall s,
  (no_lt_slash s = true -> forall toks, run (Raw, toks) (s ++ [60; 47]) = (EndTagOpen, emit_chars s toks)) /\
  (no_lt_slash s = true -> (match s with 47 :: _ => False | _ => True end) ->
   forall toks, run (RawLt, toks) (s ++ [60; 47]) = (EndTagOpen, emit_chars s (TkChar 60 :: toks))).
Proof.
  induction s as [|ch r [IH1 IH2]].
  - split; intros; reflexivity.
  - assert (NL : no_lt_slash (ch :: r) = true -> no_lt_slash r = true /\ (ch = 60 -> match r with 47 :: _ => False | _ => True end)).
    { intros H. destruct (N.eq_dec ch 60) as [->|Hne].
      - destruct r as [|x r']; [split; [reflexivity|intros; exact I]|]. destruct (N.eq_dec x 47) as [->|Hx]; [discriminate|].
        split; [|intros _; destruct x as [|p]; [exact I|]; do 6 (destruct p; try exact I); congruence].
        destruct x as [|p]; [exact H|]. do 6 (destruct p; try exact H). congruence.
      - split; [|intros; congruence]. destruct ch as [|p]; [exact H|]. do 6 (destruct p; try exact H). congruence. }
    assert (EM : forall toks, emit_chars (ch :: r) toks = emit_chars r (TkChar ch :: toks)).
    { intros toks. unfold emit_chars. cbn [map rev]. rewrite <- app_assoc. reflexivity. }
    split.
    + intros H toks. destruct (NL H) as [H1 H2]. cbn [app]. rewrite run_cons. cbn [step]. unfold step_raw.
      destruct (ch =? 60) eqn:E.
      * apply N.eqb_eq in E. subst ch. rewrite (IH2 H1 (H2 eq_refl)). rewrite EM. reflexivity.
      * rewrite (IH1 H1). rewrite EM. reflexivity.
    + intros H Hs toks. destruct (NL H) as [H1 H2]. cbn [app]. rewrite run_cons. cbn [step].
      destruct (ch =? 47) eqn:E47; [apply N.eqb_eq in E47; subst ch; destruct Hs|]. unfold step_raw.
      destruct (ch =? 60) eqn:E.
      * apply N.eqb_eq in E. subst ch. rewrite (IH2 H1 (H2 eq_refl)). rewrite EM. reflexivity.
      * rewrite (IH1 H1). rewrite EM. reflexivity.
Qed.

(* ---- the META element after <HEAD> ------------------------------------------------------------------------------- *)
Definition enc_ok (c : hcfg) : bool :=
  forallb (fun ch => (33 <=? ch) && (ch <=? 126) && negb (mem ch [34; 38; 60; 62])) (enc_name c).

Lemma meta_prefix_run : forall toks,
  run (Data, toks) meta_string =
  (AttrVal meta_name [([104;116;116;112;45;101;113;117;105;118], [67;111;110;116;101;110;116;45;84;121;112;101])]
           (rev [99;111;110;116;101;110;116]) (rev [116;101;120;116;47;104;116;109;108;59;32;99;104;97;114;115;101;116;61]), toks).
Proof. intros toks. vm_compute. reflexivity. Qed.

Lemma meta_run : forall c toks, maxc_ok c -> enc_ok c = true ->
  run (Data, toks) (meta_tag c) = (Data, TkStart meta_name (meta_attrs c) :: toks).
Proof.
  intros c toks Hc He. unfold meta_tag.
  assert (AC : acc_content c (enc_name c) = enc_name c).
  { apply acc_content_id. unfold enc_ok in He. rewrite forallb_forall in *. intros x Hx. specialize (He x Hx).
    destruct Hc as [Hc|[Hc|Hc]]; rewrite Hc; lia. }
  rewrite AC, run_app, meta_prefix_run, run_app, run_av_plains.
  - cbn [run fold_left step]. unfold step_attrval. cbn [N.eqb Pos.eqb step is_ws mem existsb orb]. unfold emit_start.
    cbn [rev app]. rewrite rev_app_distr, !rev_involutive. reflexivity.
  - unfold enc_ok in He. rewrite forallb_forall in *. intros x Hx. specialize (He x Hx). unfold plain_av, mem in *. cbn [existsb] in He. lia.
Qed.

(* ---- the tokenizer half -------------------------------------------------------------------------------------------- *)
Definition cfg_good (c : hcfg) : Prop := maxc_ok c /\ enc_ok c = true /\ flags_ok.

Definition tok_prop (c : hcfg) (n : hnode) : Prop :=
  node_ok c n = true -> forall top op, exists o,
    ser_node c top false false op n = Some (pte op ++ o, false) /\
    forall toks, run (Data, toks) o = (Data, rev (toks_of c n) ++ toks).

Lemma tok_list : forall c top l, Forall (tok_prop c) l -> forallb (node_ok c) l = true ->
  exists o, ser_list c top false false l false = Some (o, false) /\
            forall toks, run (Data, toks) o = (Data, rev (flat_map (toks_of c) l) ++ toks).
Proof.
  intros c top. induction l as [|k l IH]; intros HF Hok.
  - exists []. split; reflexivity.
  - inversion HF as [|? ? Hk Hl]; subst. cbn [forallb] in Hok. apply andb_true_iff in Hok. destruct Hok as [Ok Ol].
    destruct (Hk Ok top false) as (o1 & S1 & R1). destruct (IH Hl Ol) as (o2 & S2 & R2).
    exists (o1 ++ o2). split.
    + cbn [ser_list]. rewrite S1, S2. reflexivity.
    + intros toks. rewrite run_app, R1, R2. cbn [flat_map]. rewrite rev_app_distr, <- app_assoc. reflexivity.
Qed.

Lemma tok_node : forall c, cfg_good c -> forall n, tok_prop c n.
Proof.
  intros c (Hc & He & Hf). apply hnode_induction.
  - (* element *)
    intros name attrs kids IHk Hok top op. cbn [node_ok] in Hok.
    apply andb_true_iff in Hok. destruct Hok as [Hok Hkids]. apply andb_true_iff in Hok. destruct Hok as [Hok _].
    apply andb_true_iff in Hok. destruct Hok as [Hn Ha].
    destruct (start_tag_run c name attrs Hc Hf Hn Ha) as (ao & Hao & Hacc & Hstart).
    rewrite ser_node_el, Hao. cbv zeta. rewrite Hacc, elem_is_head, elem_is_void, elem_is_raw, elem_is_script.
    set (nm := map low name) in *.
    destruct (in_names nm void4) eqn:Ev.
    + (* void: no children, no end tag *)
      destruct kids; [|discriminate]. destruct (void_not_head_raw_script _ Ev) as (V1 & V2 & V3).
      rewrite V1. cbn [ser_list negb andb]. exists ([60] ++ name ++ ao ++ [62]). split.
      * repeat (rewrite <- ?app_assoc; cbn [app]). reflexivity.
      * intros toks. rewrite Hstart, V2. cbn [toks_of]. fold nm. rewrite V1, Ev. cbn [andb flat_map app rev]. reflexivity.
    + destruct (in_names nm raw4) eqn:Er.
      * (* SCRIPT / STYLE *)
        destruct (raw_not_head_void _ Er) as (R1 & _). rewrite R1. cbn [negb andb].
        assert (KO : exists s, (kids = [] /\ s = []) \/ (kids = [HText s] /\ raw_ok c s = true)).
        { destruct kids as [|k [|k2 l]]; [exists []; left; auto| |destruct k; discriminate].
          destruct k as [| s | |]; try discriminate. exists s. right. auto. }
        destruct KO as (s & [[-> ->]|[-> Hraw]]).
        -- cbn [ser_list]. exists ([60] ++ name ++ ao ++ [62] ++ [60; 47] ++ name ++ [62]). split.
           ++ repeat (rewrite <- ?app_assoc; cbn [app]). reflexivity.
           ++ intros toks. rewrite !app_assoc. rewrite <- (app_assoc _ name [62]). rewrite <- !app_assoc.
              replace ([60] ++ name ++ ao ++ [62] ++ [60; 47] ++ name ++ [62]) with (([60] ++ name ++ ao ++ [62]) ++ ([] ++ [60; 47]) ++ name ++ [62])
                by (repeat (rewrite <- ?app_assoc; cbn [app]); reflexivity).
              rewrite run_app, Hstart, run_app, (proj1 (raw_run []) eq_refl), end_tag_run by exact Hn.
              cbn [toks_of]. fold nm. rewrite R1, Ev. cbn [andb flat_map app rev]. reflexivity.
        -- unfold raw_ok in Hraw. apply andb_true_iff in Hraw. destruct Hraw as [Hraw Hne]. apply andb_true_iff in Hraw. destruct Hraw as [Hraw Hmax].
           apply andb_true_iff in Hraw. destruct Hraw as [Hch Hnl]. unfold chars_ok in Hch. apply andb_true_iff in Hch. destruct Hch as [Hwf _].
           assert (Hs : s <> []) by (destruct s; [discriminate | discriminate]).
           assert (TX : ser_node c false (if str_eqb nm [115; 99; 114; 105; 112; 116] then true else false) true true (HText s) = Some ([62] ++ s, false)).
           { cbn [ser_node]. destruct s as [|s0 s']; [congruence|].
             destruct (if str_eqb nm [115; 99; 114; 105; 112; 116] then true else false).
             - rewrite acc_content_id by (apply forallb_weaken_maxc; exact Hmax). reflexivity.
             - rewrite write_norm_id by assumption. reflexivity. }
           cbn [ser_list]. rewrite TX. exists ([60] ++ name ++ ao ++ [62] ++ s ++ [60; 47] ++ name ++ [62]). split.
           ++ repeat (rewrite <- ?app_assoc; cbn [app]). reflexivity.
           ++ intros toks.
              replace ([60] ++ name ++ ao ++ [62] ++ s ++ [60; 47] ++ name ++ [62]) with (([60] ++ name ++ ao ++ [62]) ++ (s ++ [60; 47]) ++ name ++ [62])
                by (repeat (rewrite <- ?app_assoc; cbn [app]); reflexivity).
              rewrite run_app, Hstart, run_app, (proj1 (raw_run s) Hnl), end_tag_run by exact Hn.
              cbn [toks_of]. fold nm. rewrite R1, Ev. cbn [andb flat_map app]. rewrite app_nil_r.
              unfold emit_chars. cbn [rev]. rewrite !rev_app_distr. cbn [rev app]. rewrite <- !app_assoc. reflexivity.
      * (* an ordinary element *)
        assert (Hscr : str_eqb nm [115; 99; 114; 105; 112; 116] = false).
        { destruct (str_eqb nm [115; 99; 114; 105; 112; 116]) eqn:E; [|reflexivity]. apply str_eqb_eq in E. rewrite E in Er. vm_compute in Er. discriminate. }
        rewrite Hscr. apply andb_true_iff in Hkids. destruct Hkids as [_ Hkids].
        set (ishd := str_eqb nm head_name) in *.
        (* the children *)
        assert (KIDS : exists (ko : str) (oe : bool), ser_list c false false false kids (negb ishd) = Some ((if oe then [] else (if ishd then [] else [62])) ++ ko, oe) /\
                       oe = (match kids with [] => negb ishd | _ => false end) /\ (kids = [] -> ko = []) /\
                       forall toks, run (Data, toks) ko = (Data, rev (flat_map (toks_of c) kids) ++ toks)).
        { destruct kids as [|k l].
          - exists [], (negb ishd). split; [cbn [ser_list]; destruct ishd; reflexivity|]. split; [reflexivity|]. split; reflexivity.
          - inversion IHk as [|? ? Pk Pl]; subst. cbn [forallb] in Hkids. apply andb_true_iff in Hkids. destruct Hkids as [Ok Ol].
            destruct (Pk Ok false (negb ishd)) as (o1 & S1 & R1). destruct (tok_list c false l Pl Ol) as (o2 & S2 & R2).
            exists (o1 ++ o2), false. split; [|split; [reflexivity|split; [discriminate|]]].
            + cbn [ser_list]. rewrite S1, S2. destruct ishd; cbn [negb pte app]; rewrite <- ?app_assoc; reflexivity.
            + intros toks. rewrite run_app, R1, R2. cbn [flat_map]. rewrite rev_app_distr, <- app_assoc. reflexivity. }
        destruct KIDS as (ko & oe & SK & OE & KE & RK). rewrite SK.
        exists (([60] ++ name ++ ao ++ [62]) ++ (if ishd then (if omit_meta c then [] else meta_tag c) else []) ++ ko ++ [60; 47] ++ name ++ [62]). split.
        -- f_equal. f_equal. rewrite OE. destruct kids; [rewrite (KE eq_refl)|]; destruct ishd; cbn [negb app]; repeat (rewrite <- ?app_assoc; cbn [app]); reflexivity.
        -- intros toks. rewrite run_app, Hstart.
           assert (M : forall tk, run (Data, tk) (if ishd then if omit_meta c then [] else meta_tag c else []) =
                                  (Data, rev (if ishd && negb (omit_meta c) then [TkStart meta_name (meta_attrs c)] else []) ++ tk)).
           { intros tk. destruct ishd; [|reflexivity]. destruct (omit_meta c); [reflexivity|]. cbn [andb negb]. apply meta_run; assumption. }
           rewrite run_app, M, run_app, RK.
           change ([60; 47] ++ name ++ [62]) with (60 :: 47 :: name ++ [62]). rewrite run_cons. cbn [step step_data N.eqb Pos.eqb].
           rewrite run_cons. cbn [step N.eqb Pos.eqb]. rewrite end_tag_run by exact Hn.
           cbn [toks_of]. fold nm. fold ishd. rewrite Ev. cbn [rev]. rewrite !rev_app_distr. cbn [rev app]. rewrite <- !app_assoc. reflexivity.
  - (* text *)
    intros s Hok top op. cbn [node_ok] in Hok. unfold text_ok in Hok. apply andb_true_iff in Hok. destruct Hok as [Hch Hne].
    destruct (text_roundtrip c s Hc Hch) as (o & Ho & Hrun). exists o. split.
    + cbn [ser_node]. destruct s; [discriminate|]. rewrite Ho. reflexivity.
    + intros toks. rewrite Hrun. reflexivity.
  - intros s Hok. discriminate.
  - intros t d Hok. discriminate.
Qed.

(* ---- the tree-builder half ----------------------------------------------------------------------------------------- *)
Definition head_not_text (cur : list hnode) : Prop := match cur with HText _ :: _ => False | _ => True end.

Lemma build_text_any : forall s cur stack r, s <> [] -> head_not_text cur ->
  build (map TkChar s ++ r) cur stack = build r (HText s :: cur) stack.
Proof.
  intros s cur stack r Hs Hc. destruct s as [|ch s]; [congruence|]. cbn [map app build].
  assert (add_char ch cur = HText [ch] :: cur) as -> by (destruct cur as [|[| | |] cur']; try reflexivity; destruct Hc).
  rewrite build_chars. reflexivity.
Qed.

Definition build_prop (c : hcfg) (n : hnode) : Prop :=
  node_ok c n = true -> forall r cur stack, (is_text n = true -> head_not_text cur) ->
  build (toks_of c n ++ r) cur stack = build r (norm c n :: cur) stack.

Lemma norm_is_text : forall c n, is_text (norm c n) = is_text n.
Proof. intros c n. destruct n; reflexivity. Qed.

Lemma build_list : forall c l, Forall (build_prop c) l -> forallb (node_ok c) l = true -> no_adjacent_text l = true ->
  forall r cur stack, (match l with k :: _ => is_text k = true -> head_not_text cur | [] => True end) ->
  build (flat_map (toks_of c) l ++ r) cur stack = build r (rev (map (norm c) l) ++ cur) stack.
Proof.
  intros c. induction l as [|k l IH]; intros HF Hok Hadj r cur stack Hcur; [reflexivity|].
  inversion HF as [|? ? Pk Pl]; subst. cbn [forallb] in Hok. apply andb_true_iff in Hok. destruct Hok as [Ok Ol].
  cbn [flat_map]. rewrite <- app_assoc, (Pk Ok) by exact Hcur.
  assert (Hadj' : no_adjacent_text l = true /\ (match l with k2 :: _ => is_text k2 = true -> is_text k = false | [] => True end)).
  { destruct l as [|k2 l']; [split; [reflexivity | exact I]|]. cbn [no_adjacent_text] in Hadj. apply andb_true_iff in Hadj. destruct Hadj as [A B].
    split; [exact B|]. intros T. rewrite T, andb_true_r in A. apply negb_true_iff in A. exact A. }
  destruct Hadj' as [A B]. rewrite IH; [|assumption|assumption|assumption|].
  - cbn [map rev]. rewrite <- app_assoc. reflexivity.
  - destruct l as [|k2 l']; [exact I|]. intros T. specialize (B T). pose proof (norm_is_text c k) as NT. rewrite B in NT.
    unfold head_not_text. destruct (norm c k); try exact I. discriminate.
Qed.

Lemma build_node : forall c n, build_prop c n.
Proof.
  intros c. apply hnode_induction.
  - intros name attrs kids IHk Hok r cur stack _. cbn [node_ok] in Hok.
    apply andb_true_iff in Hok. destruct Hok as [_ Hkids].
    cbn [toks_of norm]. set (nm := map low name) in *. set (na := map (norm_attr c nm) attrs).
    destruct (in_names nm void4) eqn:Ev.
    + destruct kids; [|discriminate]. destruct (void_not_head_raw_script _ Ev) as (V1 & _ & _). rewrite V1.
      cbn [andb flat_map app map build]. rewrite Ev. reflexivity.
    + set (metas := if str_eqb nm head_name && negb (omit_meta c) then [TkStart meta_name (meta_attrs c)] else []).
      set (metan := if str_eqb nm head_name && negb (omit_meta c) then [meta_node c] else []).
      assert (KL : forall r' stack', build (flat_map (toks_of c) kids ++ r') metan stack' = build r' (rev (map (norm c) kids) ++ metan) stack').
      { intros r' stack'.
        assert (HNT : forall k, is_text k = true -> head_not_text metan) by (intros; unfold metan; destruct (str_eqb nm head_name && negb (omit_meta c)); exact I).
        destruct (in_names nm raw4) eqn:Er.
        - destruct kids as [|k [|k2 l]]; [reflexivity| |destruct k; discriminate].
          destruct k as [| s | |]; try discriminate. cbn [flat_map toks_of map norm rev app]. rewrite app_nil_r.
          apply build_text_any; [|apply (HNT (HText s)); reflexivity].
          unfold raw_ok in Hkids. apply andb_true_iff in Hkids. destruct Hkids as [_ Hne]. destruct s; [discriminate | discriminate].
        - apply andb_true_iff in Hkids. destruct Hkids as [Hadj Hk]. apply build_list; try assumption.
          destruct kids as [|k l]; [exact I | apply HNT]. }
      cbn [app build]. rewrite Ev.
      assert (MB : forall r', build (metas ++ r') [] ((nm, na, cur) :: stack) = build r' metan ((nm, na, cur) :: stack)).
      { intros r'. unfold metas, metan. destruct (str_eqb nm head_name && negb (omit_meta c)); [|reflexivity]. cbn [app build]. reflexivity. }
      rewrite <- !app_assoc, MB, KL. cbn [app build]. rewrite str_eqb_refl.
      rewrite rev_app_distr, rev_involutive. unfold metan.
      destruct (str_eqb nm head_name && negb (omit_meta c)); cbn [rev app]; reflexivity.
  - intros s Hok r cur stack Hcur. cbn [node_ok] in Hok. unfold text_ok in Hok. apply andb_true_iff in Hok. destruct Hok as [_ Hne].
    cbn [toks_of norm]. apply build_text_any; [destruct s; [discriminate | discriminate] | apply Hcur; reflexivity].
  - intros s Hok. discriminate.
  - intros t d Hok. discriminate.
Qed.

(* ---- html_roundtrip -------------------------------------------------------------------------------------------------- *)
Lemma html_ok_good : forall c doc, html_ok c doc = true -> flags_ok ->
  cfg_good c /\ doctype_line c = [] /\ forallb (node_ok c) doc = true /\ forallb (fun n => negb (is_text n)) doc = true.
Proof.
  intros c doc H Hf. unfold html_ok in H. apply andb_true_iff in H. destruct H as [Hc Hd].
  unfold cfg_ok in Hc. apply andb_true_iff in Hc. destruct Hc as [Hc Hdt]. apply andb_true_iff in Hc. destruct Hc as [Hm He].
  repeat split.
  - unfold maxc_ok. unfold mem in Hm. cbn [existsb] in Hm. lia.
  - exact He.
  - unfold doctype_line. destruct (dt_sys c); destruct (dt_pub c); try discriminate. reflexivity.
  - rewrite forallb_forall in *. intros x Hx. specialize (Hd x Hx). apply andb_true_iff in Hd. tauto.
  - rewrite forallb_forall in *. intros x Hx. specialize (Hd x Hx). apply andb_true_iff in Hd. tauto.
Qed.

Lemma no_text_adjacent : forall l, forallb (fun n => negb (is_text n)) l = true -> no_adjacent_text l = true.
Proof.
  induction l as [|a [|b l] IH]; intros H; try reflexivity. cbn [forallb] in H. apply andb_true_iff in H. destruct H as [H1 H2].
  cbn [no_adjacent_text]. apply negb_true_iff in H1. rewrite H1. cbn [andb negb]. apply IH. exact H2.
Qed.

Lemma filter_no_text : forall c l, forallb (fun n => negb (is_text n)) l = true ->
  filter (fun n => negb (ws_only_text n)) (map (norm c) l) = map (norm c) l.
Proof.
  intros c. induction l as [|a l IH]; intros H; [reflexivity|]. cbn [forallb] in H. apply andb_true_iff in H. destruct H as [H1 H2].
  cbn [map filter]. assert (ws_only_text (norm c a) = false) as -> by (destruct a; try reflexivity; discriminate).
  cbn [negb]. rewrite IH by exact H2. reflexivity.
Qed.

Theorem html_roundtrip_all : flags_ok -> forall c doc, html_ok c doc = true ->
  exists o, serialize_html c doc = Some o /\ parse_html o = Some (map (norm c) doc).
Proof.
  intros Hf c doc Hok. destruct (html_ok_good c doc Hok Hf) as (Hg & Hdt & Hn & Hnt).
  assert (FT : Forall (tok_prop c) doc) by (apply Forall_forall; intros x _; apply tok_node; exact Hg).
  assert (FB : Forall (build_prop c) doc) by (apply Forall_forall; intros x _; apply build_node).
  destruct (tok_list c true doc FT Hn) as (o & So & Ro). exists o. split.
  - unfold serialize_html. rewrite So, Hdt. reflexivity.
  - unfold parse_html, tokenize. rewrite Ro, app_nil_r, rev_involutive.
    rewrite <- (app_nil_r (flat_map (toks_of c) doc)).
    rewrite (build_list c doc FB Hn (no_text_adjacent _ Hnt) [] [] []).
    + cbn [build]. rewrite app_nil_r, rev_involutive, filter_no_text by exact Hnt. reflexivity.
    + destruct doc as [|k l]; [exact I|]. intros T. cbn [forallb] in Hnt. apply andb_true_iff in Hnt. destruct Hnt as [Hk _]. rewrite T in Hk. discriminate.
Qed.
