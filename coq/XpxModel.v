(* C02, extension part (family xpx): proofs about the models of XpxDefs.v — node-set functions. *)
From Coq Require Import List NArith ZArith Bool Arith Lia.
From Coq Require Import ZifyBool ZifyNat ZifyN.
Require Import XV.GenXpx XV.XpxDefs.
Import ListNotations.

(* ---------------------------------------------------------------------------------------------- *)
(* mem / insert / sorted *)

Lemma mem_In : forall x l, mem x l = true <-> In x l.
Proof.
  intros x l. unfold mem. rewrite existsb_exists. split.
  - intros [y [Hy He]]. apply N.eqb_eq in He. subst. exact Hy.
  - intros H. exists x. split; [exact H | apply N.eqb_refl].
Qed.

Lemma mem_false : forall x l, mem x l = false <-> ~ In x l.
Proof.
  intros x l. rewrite <- mem_In. destruct (mem x l).
  - split; [discriminate | intros H; exfalso; apply H; reflexivity].
  - split; [intros _ H; discriminate | reflexivity].
Qed.

Lemma insert_In : forall x l y, In y (insert x l) <-> y = x \/ In y l.
Proof.
  intros x l. induction l as [|a t IH]; intros y; cbn [insert].
  - cbn. intuition.
  - destruct (N.ltb x a) eqn:E1.
    + cbn. intuition.
    + destruct (N.eqb x a) eqn:E2.
      * apply N.eqb_eq in E2. subst. cbn. intuition.
      * cbn [In]. rewrite IH. intuition.
Qed.

Lemma insert_sorted : forall x l, sorted l -> sorted (insert x l).
Proof.
  intros x l. induction l as [|a t IH]; intros Hs; cbn [insert].
  - cbn. split; [intros y [] | exact I].
  - destruct Hs as [Ha Ht]. destruct (N.ltb x a) eqn:E1.
    + cbn [sorted]. split.
      * intros y [Hy | Hy]; [subst; lia | specialize (Ha y Hy); lia].
      * split; assumption.
    + destruct (N.eqb x a) eqn:E2.
      * cbn [sorted]. split; assumption.
      * cbn [sorted]. split.
        -- intros y Hy. apply insert_In in Hy. destruct Hy as [Hy | Hy]; [subst; lia | auto].
        -- auto.
Qed.

Lemma insert_last : forall x l, (forall y, In y l -> (y < x)%N) -> insert x l = l ++ [x].
Proof.
  intros x l. induction l as [|a t IH]; intros H; cbn [insert].
  - reflexivity.
  - assert (Ha : (a < x)%N) by (apply H; left; reflexivity).
    destruct (N.ltb x a) eqn:E1; [lia|]. destruct (N.eqb x a) eqn:E2; [lia|].
    cbn. f_equal. apply IH. intros y Hy. apply H. right. exact Hy.
Qed.

Lemma sorted_app_lt : forall l1 x l2, sorted (l1 ++ x :: l2) -> forall y, In y l1 -> (y < x)%N.
Proof.
  induction l1 as [|a t IH]; intros x l2 Hs y Hy; [destruct Hy|].
  cbn in Hs. destruct Hs as [Ha Ht]. destruct Hy as [Hy | Hy].
  - subst. apply Ha. apply in_or_app. right. left. reflexivity.
  - eapply IH; eauto.
Qed.

Lemma sorted_app_l : forall l1 l2, sorted (l1 ++ l2) -> sorted l1.
Proof.
  induction l1 as [|a t IH]; intros l2 Hs; cbn in *; [exact I|].
  destruct Hs as [Ha Ht]. split; [|eauto]. intros y Hy. apply Ha. apply in_or_app. left. exact Hy.
Qed.

Lemma sorted_app_r : forall l1 l2, sorted (l1 ++ l2) -> sorted l2.
Proof. induction l1 as [|a t IH]; intros l2 Hs; cbn in *; [exact Hs|]. destruct Hs. eauto. Qed.

Lemma sorted_NoDup : forall l, sorted l -> NoDup l.
Proof.
  induction l as [|a t IH]; intros Hs; [constructor|]. destruct Hs as [Ha Ht].
  constructor; [|auto]. intros Hin. specialize (Ha a Hin). lia.
Qed.

(* two strictly ascending lists with the same elements are the same list *)
Lemma sorted_ext : forall l1 l2, sorted l1 -> sorted l2 -> (forall x, In x l1 <-> In x l2) -> l1 = l2.
Proof.
  induction l1 as [|a t IH]; intros l2 H1 H2 Hx.
  - destruct l2 as [|b u]; [reflexivity|]. exfalso. apply (Hx b). left. reflexivity.
  - destruct l2 as [|b u]; [exfalso; apply (Hx a); left; reflexivity|].
    destruct H1 as [Ha Ht]. destruct H2 as [Hb Hu].
    assert (a = b).
    { assert (In a (b :: u)) by (apply Hx; left; reflexivity).
      assert (In b (a :: t)) by (apply Hx; left; reflexivity).
      destruct H as [H | H]; [congruence|]. destruct H0 as [H0 | H0]; [congruence|].
      specialize (Ha b H0). specialize (Hb a H). lia. }
    subst b. f_equal. apply IH; auto. intros x. split; intros Hin.
    + assert (In x (a :: u)) by (apply Hx; right; exact Hin). destruct H as [H | H]; [|exact H].
      subst. specialize (Ha _ Hin). lia.
    + assert (In x (a :: t)) by (apply Hx; right; exact Hin). destruct H as [H | H]; [|exact H].
      subst. specialize (Hb _ Hin). lia.
Qed.

Lemma filter_sorted : forall f l, sorted l -> sorted (filter f l).
Proof.
  intros f. induction l as [|a t IH]; intros Hs; cbn; [exact I|]. destruct Hs as [Ha Ht].
  destruct (f a); [|auto]. cbn. split; [|auto]. intros y Hy. apply filter_In in Hy. apply Ha. tauto.
Qed.

(* ---------------------------------------------------------------------------------------------- *)
(* the generic "for each node of the list: if p then addNodeInDocOrder" loop *)

Definition addif (p : N -> bool) (acc : list N) (n : N) : list N := if p n then insert n acc else acc.

Lemma addif_fold_In : forall p l acc x,
  In x (fold_left (addif p) l acc) <-> In x acc \/ (In x l /\ p x = true).
Proof.
  intros p. induction l as [|a t IH]; intros acc x; cbn [fold_left].
  - cbn. intuition.
  - rewrite IH. change (addif p acc a) with (if p a then insert a acc else acc). destruct (p a) eqn:E.
    + rewrite insert_In. cbn [In]. split.
      * intros [[H | H] | [H1 H2]]; subst; auto.
      * intros [H | [[H | H] H2]]; subst; auto.
    + cbn [In]. split.
      * intros [H | [H1 H2]]; auto.
      * intros [H | [[H | H] H2]]; subst; auto. congruence.
Qed.

Lemma addif_fold_sorted : forall p l acc, sorted acc -> sorted (fold_left (addif p) l acc).
Proof.
  intros p. induction l as [|a t IH]; intros acc Hs; cbn [fold_left]; [exact Hs|].
  apply IH. unfold addif. destruct (p a); [apply insert_sorted|]; exact Hs.
Qed.

Lemma addif_fold_filter : forall p l acc, sorted (acc ++ l) ->
  fold_left (addif p) l acc = acc ++ filter p l.
Proof.
  intros p. induction l as [|a t IH]; intros acc Hs; cbn [fold_left filter].
  - rewrite app_nil_r. reflexivity.
  - change (addif p acc a) with (if p a then insert a acc else acc). destruct (p a) eqn:E.
    + rewrite insert_last by (intros y Hy; eapply sorted_app_lt; eauto).
      rewrite IH by (rewrite <- app_assoc; exact Hs). rewrite <- app_assoc. reflexivity.
    + apply IH. clear IH. revert Hs. induction acc as [|b u IHu]; cbn; intros Hs.
      * destruct Hs; assumption.
      * destruct Hs as [Hb Hu]. split; [|auto]. intros y Hy. apply Hb.
        apply in_app_or in Hy. apply in_or_app. destruct Hy; [left|right; right]; assumption.
Qed.

(* ---------------------------------------------------------------------------------------------- *)
(* difference / intersection *)

Lemma select_addif : forall k l1 l2,
  select k l1 l2 = fold_left (addif (fun n => Bool.eqb (mem n l2) k)) l1 [].
Proof. reflexivity. Qed.

Lemma select_In : forall k l1 l2 x, In x (select k l1 l2) <-> In x l1 /\ mem x l2 = k.
Proof.
  intros. rewrite select_addif, addif_fold_In. cbn [In]. rewrite eqb_true_iff. tauto.
Qed.

Lemma select_sorted : forall k l1 l2, sorted (select k l1 l2).
Proof. intros. rewrite select_addif. apply addif_fold_sorted. exact I. Qed.

Lemma select_filter : forall k l1 l2, sorted l1 ->
  select k l1 l2 = filter (fun n => Bool.eqb (mem n l2) k) l1.
Proof. intros. rewrite select_addif. rewrite addif_fold_filter; auto. Qed.

Lemma difference_spec : forall l1 l2 x, In x (difference l1 l2) <-> In x l1 /\ ~ In x l2.
Proof. intros. unfold difference. rewrite select_In. change gen_difference_keep_found with false. rewrite mem_false. tauto. Qed.

Lemma intersection_spec : forall l1 l2 x, In x (intersection l1 l2) <-> In x l1 /\ In x l2.
Proof. intros. unfold intersection. rewrite select_In. change gen_intersection_keep_found with true. rewrite mem_In. tauto. Qed.

Lemma difference_sorted : forall l1 l2, sorted (difference l1 l2).
Proof. intros. apply select_sorted. Qed.
Lemma intersection_sorted : forall l1 l2, sorted (intersection l1 l2).
Proof. intros. apply select_sorted. Qed.

Lemma difference_filter : forall l1 l2, sorted l1 -> difference l1 l2 = filter (fun n => negb (mem n l2)) l1.
Proof.
  intros. unfold difference. rewrite select_filter by assumption. change gen_difference_keep_found with false.
  apply filter_ext. intros a. destruct (mem a l2); reflexivity.
Qed.

Lemma intersection_filter : forall l1 l2, sorted l1 -> intersection l1 l2 = filter (fun n => mem n l2) l1.
Proof.
  intros. unfold intersection. rewrite select_filter by assumption. change gen_intersection_keep_found with true.
  apply filter_ext. intros a. destruct (mem a l2); reflexivity.
Qed.

(* the result does not depend on the order of the second list, nor (as a list!) on which argument comes first *)
Lemma intersection_comm : forall l1 l2, intersection l1 l2 = intersection l2 l1.
Proof.
  intros. apply sorted_ext; try apply intersection_sorted. intros x. rewrite !intersection_spec. tauto.
Qed.

Lemma difference_intersection_partition : forall l1 l2 x,
  In x l1 <-> In x (difference l1 l2) \/ In x (intersection l1 l2).
Proof.
  intros. rewrite difference_spec, intersection_spec. destruct (mem x l2) eqn:E.
  - apply mem_In in E. tauto.
  - apply mem_false in E. tauto.
Qed.

(* ---------------------------------------------------------------------------------------------- *)
(* has-same-node / hasSameNodes *)

Lemma has_same_node_spec : forall l1 l2, has_same_node l1 l2 = true <-> exists x, In x l1 /\ In x l2.
Proof.
  intros l1 l2. unfold has_same_node. destruct l1 as [|a t].
  - split; [discriminate | intros [x [[] _]]].
  - destruct l2 as [|b u].
    + split; [discriminate | intros [x [_ []]]].
    + rewrite existsb_exists. split.
      * intros [x [H1 H2]]. apply mem_In in H2. eauto.
      * intros [x [H1 H2]]. exists x. split; [exact H1 | apply mem_In; exact H2].
Qed.

Lemma has_same_node_intersection : forall l1 l2, has_same_node l1 l2 = true <-> intersection l1 l2 <> [].
Proof.
  intros. rewrite has_same_node_spec. split.
  - intros [x Hx] He. apply intersection_spec in Hx. rewrite He in Hx. destruct Hx.
  - intros Hne. destruct (intersection l1 l2) as [|x r] eqn:E; [congruence|].
    exists x. apply intersection_spec. rewrite E. left. reflexivity.
Qed.

Lemma has_same_nodes_spec : forall l1 l2, NoDup l1 -> NoDup l2 ->
  (has_same_nodes l1 l2 = true <-> forall x, In x l1 <-> In x l2).
Proof.
  intros l1 l2 N1 N2. unfold has_same_nodes. destruct (Nat.eqb (length l1) (length l2)) eqn:E.
  - apply Nat.eqb_eq in E. rewrite forallb_forall. split.
    + intros H x. split.
      * intros Hx. apply mem_In. apply H. exact Hx.
      * intros Hx. assert (Hinc : incl l1 l2) by (intros y Hy; apply mem_In; apply H; exact Hy).
        assert (Hrev : incl l2 l1) by (apply NoDup_length_incl; [exact N1 | lia | exact Hinc]).
        apply Hrev. exact Hx.
    + intros H x Hx. apply mem_In. apply H. exact Hx.
  - apply Nat.eqb_neq in E. split; [discriminate|]. intros H. exfalso. apply E.
    apply Nat.le_antisymm; apply NoDup_incl_length; auto; intros y Hy; apply H; exact Hy.
Qed.

(* ---------------------------------------------------------------------------------------------- *)
(* leading / trailing *)

Lemma find_nodes_addif : forall pred l1 n l2, l1 <> [] -> mem n l1 = true ->
  find_nodes pred l1 (n :: l2) = fold_left (addif (fun c => pred c n)) l1 [].
Proof. intros pred l1 n l2 Hne Hm. unfold find_nodes. destruct l1; [congruence|]. rewrite Hm. reflexivity. Qed.

Lemma leading_empty2 : forall l1, leading l1 [] = l1.
Proof. intros. unfold leading, find_nodes. destruct l1; reflexivity. Qed.
Lemma trailing_empty2 : forall l1, trailing l1 [] = l1.
Proof. intros. unfold trailing, find_nodes. destruct l1; reflexivity. Qed.

Lemma leading_not_contained : forall l1 n l2, ~ In n l1 -> l1 <> [] -> leading l1 (n :: l2) = [].
Proof.
  intros l1 n l2 H Hne. unfold leading, find_nodes. destruct l1; [congruence|].
  apply mem_false in H. rewrite H. reflexivity.
Qed.
Lemma trailing_not_contained : forall l1 n l2, ~ In n l1 -> l1 <> [] -> trailing l1 (n :: l2) = [].
Proof.
  intros l1 n l2 H Hne. unfold trailing, find_nodes. destruct l1; [congruence|].
  apply mem_false in H. rewrite H. reflexivity.
Qed.

Lemma leading_spec : forall l1 n l2 x, In n l1 ->
  (In x (leading l1 (n :: l2)) <-> In x l1 /\ (x < n)%N).
Proof.
  intros l1 n l2 x Hn. unfold leading. rewrite find_nodes_addif.
  - rewrite addif_fold_In. cbn [In]. unfold leading_pred, is_after. change gen_leading_excludes_boundary with true.
    split; [intros [[] | [H1 H2]] | intros [H1 H2]; right]; split; auto; lia.
  - intros ->. destruct Hn.
  - apply mem_In. exact Hn.
Qed.

Lemma trailing_spec : forall l1 n l2 x, In n l1 ->
  (In x (trailing l1 (n :: l2)) <-> In x l1 /\ (n < x)%N).
Proof.
  intros l1 n l2 x Hn. unfold trailing. rewrite find_nodes_addif.
  - rewrite addif_fold_In. cbn [In]. unfold trailing_pred, is_after.
    split; [intros [[] | [H1 H2]] | intros [H1 H2]; right]; split; auto; lia.
  - intros ->. destruct Hn.
  - apply mem_In. exact Hn.
Qed.

Lemma leading_sorted : forall l1 l2, sorted l1 -> sorted (leading l1 l2).
Proof.
  intros l1 l2 Hs. unfold leading, find_nodes. destruct l1 as [|a t]; [exact I|]. destruct l2 as [|n u]; [exact Hs|].
  destruct (mem n (a :: t)); [|exact I]. apply (addif_fold_sorted (fun c => leading_pred c n)). exact I.
Qed.
Lemma trailing_sorted : forall l1 l2, sorted l1 -> sorted (trailing l1 l2).
Proof.
  intros l1 l2 Hs. unfold trailing, find_nodes. destruct l1 as [|a t]; [exact I|]. destruct l2 as [|n u]; [exact Hs|].
  destruct (mem n (a :: t)); [|exact I]. apply (addif_fold_sorted (fun c => trailing_pred c n)). exact I.
Qed.

Lemma sorted_app : forall l1 l2, sorted l1 -> sorted l2 ->
  (forall x y, In x l1 -> In y l2 -> (x < y)%N) -> sorted (l1 ++ l2).
Proof.
  induction l1 as [|a t IH]; intros l2 H1 H2 Hc; cbn; [exact H2|].
  destruct H1 as [Ha Ht]. split.
  - intros y Hy. apply in_app_or in Hy. destruct Hy as [Hy | Hy]; [auto | apply Hc; [left; reflexivity | exact Hy]].
  - apply IH; auto. intros x y Hx Hy. apply Hc; [right; exact Hx | exact Hy].
Qed.

(* the boundary node splits the first argument *)
Lemma leading_trailing_split : forall l1 n l2, sorted l1 -> In n l1 ->
  leading l1 (n :: l2) ++ n :: trailing l1 (n :: l2) = l1.
Proof.
  intros l1 n l2 Hs Hn. apply sorted_ext; [|exact Hs|].
  - apply sorted_app.
    + apply leading_sorted. exact Hs.
    + cbn [sorted]. split.
      * intros y Hy. apply trailing_spec in Hy; tauto.
      * apply trailing_sorted. exact Hs.
    + intros x y Hx Hy. apply leading_spec in Hx; [|exact Hn]. destruct Hy as [Hy | Hy].
      * subst. tauto.
      * apply trailing_spec in Hy; [|exact Hn]. lia.
  - intros x. rewrite in_app_iff. cbn [In]. rewrite leading_spec, trailing_spec by exact Hn. split.
    + intros [H | [H | H]]; subst; tauto.
    + intros Hx. destruct (N.lt_trichotomy x n) as [H | [H | H]]; [left | right; left | right; right]; auto.
Qed.
