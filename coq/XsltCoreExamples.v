(* C01 core interpreter: a concrete instantiation of the abstract mechanisms satisfying mech_ok, and a program nesting
   for-each in for-each, call-template with params (one holding a result tree fragment, one not declared by the
   callee, one defaulted), a fragment variable per iteration used through copy-of and value-of, choose, copy with an
   attribute, apply-templates with a mode and a with-param. Used by the Examples of Properties_C01core.v. *)
From Coq Require Import List NArith Bool Arith.
Require Import XV.XsltEventsDefs XV.XsltVarsDefs XV.XsltCoreDefs XV.XsltCoreModel XV.XsltCoreSim.
Import ListNotations.

Definition ex_d (n : N) : str := [(48 + n)%N].
Fixpoint ex_text (l : list rnode) : str :=
  match l with
  | [] => []
  | RText s :: r => s ++ ex_text r
  | RElem _ _ ch :: r => (fix go (c : list rnode) : str := match c with [] => [] | RText s :: r' => s ++ go r' | _ :: r' => go r' end) ch ++ ex_text r
  | _ :: r => ex_text r
  end.
Definition ex_vstr (v : value) : str :=
  match v with VAtom _ s => s | VNodes l => match l with n :: _ => ex_d n | [] => [] end | VRtf t => ex_text t end.
Definition ex_value (id : N) (vals : list value) (n p z : N) : value :=
  if N.eqb id 10 then VAtom (115 :: 58 :: ex_d p)%N (ex_d p)
  else if N.eqb id 11 then match vals with
                           | VRtf t :: _ => if forallb rnames_ok t then VRtf t else VAtom [] []
                           | v :: _ => v
                           | [] => VAtom [] []
                           end
  else VNodes [n].
Definition ex_string (id : N) (vals : list value) (n p z : N) : str :=
  if N.eqb id 2 then ex_d n else if N.eqb id 3 then ex_d p ++ [47%N] ++ ex_d z else if N.eqb id 4 then flat_map ex_vstr vals else [].
Definition ex_bool (id : N) (vals : list value) (n p z : N) : bool := if N.eqb id 5 then N.eqb p 2 else true.
Definition ex_nodes (id : N) (vals : list value) (n p z : N) : list N :=
  if N.eqb id 1 then (if N.eqb n 0 then [1; 2; 3]%N else []) else if N.eqb id 6 then (if N.eqb n 2 then [4; 5]%N else []) else [].
Definition ex_sort (id : N) (vals : list value) (n p z : N) (l : list N) : list N := rev l.
Definition ex_sel (n md : N) : option N := if N.eqb n 0 then Some 0%N else if N.eqb md 7 then Some 2%N else None.
Definition ex_copy (n : N) : list item := [GElem (ex_d n) [] []].
Definition ex_shallow (n : N) : shallow := if N.eqb n 0 then ShRoot else if N.eqb n 9 then ShLeaf [GText [57%N]] else ShElem (ex_d n).
Definition X (id : N) (vs : list N) := mkX id vs.
Definition ex_prog : list instr :=
 [ ITemplate [] [ILre [97%N] [([107%N], [ALit [120%N]; AExp (X 3 [])])]
     [IVar 1 (Some (X 10 [])) [];
      IForEach (X 1 []) None
        [IVar 2 None [ILre [98%N] [] [IValueOf (X 2 []); IValueOf (X 4 [1%N])]];
         IIf (X 5 []) [IText [33%N]];
         ICall 1 [IWithParam 5 (Some (X 11 [2%N])) []; IWithParam 6 None [IValueOf (X 3 [])]; IWithParam 9 (Some (X 10 [])) []];
         IForEach (X 6 []) (Some (X 20 []))
           [IValueOf (X 3 []);
            IChoose [IWhen (X 5 []) [IText [119%N]]; IOtherwise [ICopy [IAttribute [113%N] [AExp (X 4 [2%N])]]]]]];
      IApply (X 1 []) (Some 7%N) None [IWithParam 5 (Some (X 10 [])) []];
      IValueOf (X 4 [1%N])]];
   ITemplate [IParam 5 None; IParam 6 (Some (X 10 [])); IParam 7 (Some (X 10 []))]
             [ILre [99%N] [] [ICopyOf (X 11 [5%N]); IValueOf (X 4 [6%N; 7%N])]];
   ITemplate [IParam 5 None] [ILre [100%N] [] [IValueOf (X 4 [5%N]); IValueOf (X 3 [])]] ].
Definition ex_mech : mech := mkMech ex_value ex_string ex_bool ex_nodes ex_sort ex_sel ex_copy ex_shallow ex_prog.


Lemma ex_mech_ok : mech_ok ex_mech.
Proof.
  unfold mech_ok, ex_mech; cbn [mc_nodes mc_sort mc_copy mc_shallow mc_value]. repeat split.
  - intros. unfold ex_nodes.
    repeat match goal with |- context [if ?b then _ else _] => destruct b end;
    repeat constructor; simpl; intuition discriminate.
  - intros. unfold ex_sort. apply NoDup_rev. assumption.
  - intros. unfold ex_shallow in H. destruct (N.eqb n 0); try discriminate. destruct (N.eqb n 9); try discriminate.
    inversion H. reflexivity.
  - intros id vs n p z t. unfold ex_value. destruct (N.eqb id 10); try discriminate. destruct (N.eqb id 11); try discriminate.
    destruct vs as [|v r]; try discriminate. destruct v; try discriminate.
    destruct (forallb rnames_ok t0) eqn:E; try discriminate. intros H. inversion H. subst. exact E.
Qed.

Definition ex_tree : list rnode :=
  let d := fun n : N => [(48 + n)%N] in
  let t := fun s => RText s in
  [RElem [97%N] [([107%N], [120; 49; 47; 49]%N)]
     [RElem [99%N] [] [RElem [98%N] [] [t [49%N]; t [49%N]]; t [49; 47; 51; 49]%N]; t [33%N];
      RElem [99%N] [] [RElem [98%N] [] [t [50%N]; t [49%N]]; t [50; 47; 51; 50]%N]; t [49; 47; 50]%N;
      RElem [53%N] [([113%N], [50; 49]%N)] []; t [50; 47; 50]%N; t [119%N];
      RElem [99%N] [] [RElem [98%N] [] [t [51%N]; t [49%N]]; t [51; 47; 51; 51]%N];
      RElem [100%N] [] [t [49%N]; t [49; 47; 51]%N];
      RElem [100%N] [] [t [49%N]; t [50; 47; 51]%N];
      RElem [100%N] [] [t [49%N]; t [51; 47; 51]%N]; t [49%N]]].

Lemma ex_both_sides :
  option_map result_of (SemMain ex_mech 12 0%N) = Some ex_tree /\
  (match MachineMain ex_mech 400 0%N with Done s => result_tree s | _ => None end) = Some ex_tree /\
  SemMain ex_mech 5 0%N = None.
Proof. vm_compute. repeat split; reflexivity. Qed.

Lemma ex_theorem_applies :
  exists k s, (forall j, MachineMain ex_mech (k + j) 0%N = Done s) /\ result_tree s = Some ex_tree.
Proof.
  destruct (SemMain ex_mech 12 0%N) as [items|] eqn:E.
  - destruct (machine_refines_sem_pkg ex_mech ex_mech_ok 12 0%N items E) as [k [s [H1 H2]]].
    exists k, s. split; auto. rewrite H2. f_equal.
    pose proof ex_both_sides as [X _]. rewrite E in X. simpl in X. inversion X. reflexivity.
  - pose proof ex_both_sides as [X _]. rewrite E in X. discriminate.
Qed.
