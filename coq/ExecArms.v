(* ExecArms.v — vocabulary of the generated tables of GenExec.v (C11): the op-codes that occur as
   case labels of XPath::executeMore, the helper member functions its arms call, which overload of
   a helper is called, and the conversion wrapped around the call.  Definitions only. *)
From Coq Require Import List Bool.
Import ListNotations.

(* XPathExpression::eOpCodes that label a case of at least one of the six switches *)
Inductive opcode :=
  | OP_XPATH | OP_OR | OP_AND | OP_NOTEQUALS | OP_EQUALS | OP_LTE | OP_LT | OP_GTE | OP_GT
  | OP_PLUS | OP_MINUS | OP_MULT | OP_DIV | OP_MOD | OP_NEG | OP_UNION | OP_LITERAL | OP_VARIABLE
  | OP_GROUP | OP_NUMBERLIT | OP_EXTFUNCTION | OP_FUNCTION | OP_LOCATIONPATH
  | OP_FUNCTION_POSITION | OP_FUNCTION_LAST | OP_FUNCTION_COUNT | OP_FUNCTION_NOT | OP_FUNCTION_TRUE
  | OP_FUNCTION_FALSE | OP_FUNCTION_BOOLEAN | OP_FUNCTION_NAME_0 | OP_FUNCTION_NAME_1
  | OP_FUNCTION_LOCALNAME_0 | OP_FUNCTION_LOCALNAME_1 | OP_FUNCTION_FLOOR | OP_FUNCTION_CEILING
  | OP_FUNCTION_ROUND | OP_FUNCTION_NUMBER_0 | OP_FUNCTION_NUMBER_1 | OP_FUNCTION_STRING_0
  | OP_FUNCTION_STRING_1 | OP_FUNCTION_STRINGLENGTH_0 | OP_FUNCTION_STRINGLENGTH_1
  | OP_FUNCTION_NAMESPACEURI_0 | OP_FUNCTION_NAMESPACEURI_1 | OP_FUNCTION_SUM.

Definition all_opcodes : list opcode :=
  [OP_XPATH; OP_OR; OP_AND; OP_NOTEQUALS; OP_EQUALS; OP_LTE; OP_LT; OP_GTE; OP_GT;
   OP_PLUS; OP_MINUS; OP_MULT; OP_DIV; OP_MOD; OP_NEG; OP_UNION; OP_LITERAL; OP_VARIABLE;
   OP_GROUP; OP_NUMBERLIT; OP_EXTFUNCTION; OP_FUNCTION; OP_LOCATIONPATH;
   OP_FUNCTION_POSITION; OP_FUNCTION_LAST; OP_FUNCTION_COUNT; OP_FUNCTION_NOT; OP_FUNCTION_TRUE;
   OP_FUNCTION_FALSE; OP_FUNCTION_BOOLEAN; OP_FUNCTION_NAME_0; OP_FUNCTION_NAME_1;
   OP_FUNCTION_LOCALNAME_0; OP_FUNCTION_LOCALNAME_1; OP_FUNCTION_FLOOR; OP_FUNCTION_CEILING;
   OP_FUNCTION_ROUND; OP_FUNCTION_NUMBER_0; OP_FUNCTION_NUMBER_1; OP_FUNCTION_STRING_0;
   OP_FUNCTION_STRING_1; OP_FUNCTION_STRINGLENGTH_0; OP_FUNCTION_STRINGLENGTH_1;
   OP_FUNCTION_NAMESPACEURI_0; OP_FUNCTION_NAMESPACEURI_1; OP_FUNCTION_SUM].

(* member functions of XPath called from the arms (functionName(context) / functionName(context,
   opPos, executionContext) etc. are told apart by whether opPos is passed) *)
Inductive helper :=
  | HOr | HAnd | HNotEquals | HEquals | HLte | HLt | HGte | HGt
  | HPlus | HMinus | HMult | HDiv | HMod | HNeg
  | HUnion | HLiteral | HVariable | HGroup | HNumberLit | HRunExtFunction | HRunFunction | HLocationPath
  | HFnPosition | HFnLast | HFnCount | HFnNot | HFnBoolean
  | HFnName0 | HFnName1 | HFnLocalName0 | HFnLocalName1
  | HFnFloor | HFnCeiling | HFnRound | HFnNumber0 | HFnNumber1
  | HFnStringLength0 | HFnStringLength1 | HFnSum.

(* which overload of the helper the arm calls, by what it delivers *)
Inductive sg :=
  | SgBool       (* returns bool *)
  | SgNum        (* returns double *)
  | SgStrRef     (* returns const XalanDOMString& *)
  | SgObj        (* returns const XObjectPtr *)
  | SgOut.       (* void; writes to the result parameter(s) of the enclosing entry point *)

(* what is wrapped around the helper call *)
Inductive conv :=
  | CvDirect                    (* return f(..) / result = f(..) / f(.., result) *)
  | CvCreateBoolean             (* getXObjectFactory().createBoolean(f(..)) *)
  | CvCreateNumber              (* getXObjectFactory().createNumber(f(..)) *)
  | CvCreateStringReference     (* getXObjectFactory().createStringReference(f(..)) *)
  | CvBoolean                   (* result = XObject::boolean(f(..)) *)
  | CvNumber                    (* result = XObject::number(f(..) [, memory manager]) *)
  | CvString                    (* XObject::string(f(..), result) / XObject::string(f(..), listener, function) *)
  | CvAppend                    (* result.append(f(..)) *)
  | CvStringToChars             (* stringToCharacters(f(..), listener, function) *)
  | CvMemberBoolean             (* result = f(..)->boolean(executionContext) *)
  | CvMemberNum                 (* result = f(..)->num(executionContext) *)
  | CvMemberStr                 (* f(..)->str(executionContext, result) / ->str(executionContext, listener, function) *)
  | CvKeep.                     (* theXObject = f(..)  (node-list entry point) *)

Inductive arm :=
  | ADefault                                  (* default: unknownOpCodeError *)
  | ANotNodeSet                               (* notNodeSetError *)
  | AConst (b : bool) (cv : conv)             (* a bool literal in the place of the helper call *)
  | ACall (h : helper) (s : sg) (cv : conv)
  | ARecurse.                                 (* eOP_XPATH: executeMore(context, opPos + 2, .., result) *)

Scheme Equality for helper.
Scheme Equality for sg.
Scheme Equality for conv.

Definition arm_eqb (a b : arm) : bool :=
  match a, b with
  | ADefault, ADefault | ANotNodeSet, ANotNodeSet | ARecurse, ARecurse => true
  | AConst x c1, AConst y c2 => Bool.eqb x y && conv_beq c1 c2
  | ACall h1 s1 c1, ACall h2 s2 c2 => helper_beq h1 h2 && sg_beq s1 s2 && conv_beq c1 c2
  | _, _ => false
  end.
