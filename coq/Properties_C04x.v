(* C04, instruction-level guards (props/C04_xslt.py): the data of xsl:comment and
   xsl:processing-instruction is made representable by ElemComment::endElement / ElemPI::endElement
   before the serializer - which writes such data verbatim - sees it.  Statements only. *)
From Coq Require Import NArith List Bool.
Require Import XV.XmlParseDefs XV.SerDocDefs XV.FixupDefs XV.FixupModel XV.FixupSer.
Import ListNotations.
Local Open Scope N_scope.

(* for EVERY string the comment loop delivers data without "--" and without a trailing '-' *)
Theorem comment_fixup_makes_data_representable : forall s, comment_hyphens_ok (fix_comment s) = true.
Proof. exact fix_comment_ok. Qed.
Print Assumptions comment_fixup_makes_data_representable.

(* ... by inserting spaces only: nothing else is added, dropped or reordered *)
Theorem comment_fixup_inserts_spaces_only : forall s, InsSp s (fix_comment s).
Proof. exact fix_comment_inserts_spaces_only. Qed.
Print Assumptions comment_fixup_inserts_spaces_only.

(* ... and touches exactly the data that needs it *)
Theorem comment_fixup_identity_iff_ok : forall s, fix_comment s = s <-> comment_hyphens_ok s = true.
Proof. intro s; split; [apply fix_comment_changes_only_bad | apply fix_comment_identity]. Qed.
Print Assumptions comment_fixup_identity_iff_ok.

(* the serializer-level guard of C04's document theorems (SerDocDefs.comment_ok) holds for every
   xsl:comment whose characters are writable at all *)
Theorem xsl_comment_meets_serializer_guard : forall v11 s,
  raw_data_ok v11 (fix_comment s) = true -> comment_ok v11 (fix_comment s) = true.
Proof. exact xsl_comment_data_meets_serializer_guard. Qed.
Print Assumptions xsl_comment_meets_serializer_guard.

Theorem pi_fixup_makes_data_representable : forall s, pi_close_ok (fix_pi s) = true.
Proof. exact fix_pi_ok. Qed.
Print Assumptions pi_fixup_makes_data_representable.

Theorem pi_fixup_inserts_spaces_only : forall s, InsSp s (fix_pi s).
Proof. exact fix_pi_inserts_spaces_only. Qed.
Print Assumptions pi_fixup_inserts_spaces_only.

Theorem pi_fixup_identity_iff_ok : forall s, fix_pi s = s <-> pi_close_ok s = true.
Proof. intro s; split; [intro H; rewrite <- H; apply fix_pi_ok | apply fix_pi_identity]. Qed.
Print Assumptions pi_fixup_identity_iff_ok.

Theorem xsl_pi_data_never_closes_the_pi : forall s, has_sub [63; 62] (fix_pi s) = false.
Proof. exact xsl_pi_data_has_no_close. Qed.
Print Assumptions xsl_pi_data_never_closes_the_pi.

(* non-vacuity / regression instances: "--" -> "- -", "a-" -> "a- ", "---" -> "- - - ", "?>" -> "? >", "??>>" *)
Example comment_fixup_instances :
  fix_comment [45; 45] = [45; 32; 45; 32] /\ fix_comment [97; 45] = [97; 45; 32] /\
  fix_comment [45; 45; 45] = [45; 32; 45; 32; 45; 32] /\ fix_comment [97; 45; 98] = [97; 45; 98].
Proof. repeat split; reflexivity. Qed.
Example pi_fixup_instances :
  fix_pi [63; 62] = [63; 32; 62] /\ fix_pi [63; 63; 62; 62] = [63; 63; 32; 62; 62] /\ fix_pi [63; 97; 62] = [63; 97; 62].
Proof. repeat split; reflexivity. Qed.
(* the guard hypothesis of xsl_comment_meets_serializer_guard is satisfiable *)
Example comment_guard_satisfiable : raw_data_ok false (fix_comment [97; 45; 45; 98; 45]) = true.
Proof. vm_compute. reflexivity. Qed.
