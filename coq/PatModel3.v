(* PatModel3.v — C09, part 3: pattern heads (relative, '/', '//', id()/key()), whole paths, unions, the
   concrete predicate language, and the two refutations outside the guard. *)
From Coq Require Import List Bool Arith Lia.
Require Import XV.PatDefs XV.PatModel XV.PatModel2.
Import ListNotations.

(** * the root *)
Lemma last_default : forall (l : list nat) a d d', last (a :: l) d = last (a :: l) d'.
Proof.
  induction l as [|b l IH]; intros a d d'; [reflexivity|].
  change (last (a :: b :: l) d) with (last (b :: l) d).
  change (last (a :: b :: l) d') with (last (b :: l) d'). apply IH.
Qed.

Lemma root_of_eq : forall D n,
  root_of D n = match parent D n with Some p => root_of D p | None => n end.
Proof.
  intros D n. unfold root_of. rewrite (aos_eq D n). destruct (parent D n) as [p|]; [|reflexivity].
  rewrite (aos_eq D p).
  change (last (n :: p :: match parent D p with Some p0 => aos D p0 | None => [] end) n)
    with (last (p :: match parent D p with Some p0 => aos D p0 | None => [] end) n).
  apply last_default.
Qed.

Lemma root_of_noparent : forall D n, parent D (root_of D n) = None.
Proof.
  intros D n. induction n as [n IH] using (node_ind D). rewrite root_of_eq.
  destruct (parent D n) as [p|] eqn:E; [apply IH; reflexivity|exact E].
Qed.

Lemma root_of_in : forall D n, In (root_of D n) (aos D n).
Proof.
  intros D n. induction n as [n IH] using (node_ind D). rewrite root_of_eq.
  destruct (parent D n) as [p|] eqn:E; [|apply aos_self].
  eapply aos_up; [exact E|apply IH; reflexivity].
Qed.

Lemma root_unique : forall D n r, In r (aos D n) -> parent D r = None -> r = root_of D n.
Proof.
  intros D n. induction n as [n IH] using (node_ind D). intros r H Hr.
  rewrite root_of_eq. apply aos_cases in H. destruct H as [H|[p [Hp H]]].
  - subst. rewrite Hr. reflexivity.
  - rewrite Hp. apply IH; assumption.
Qed.

Lemma root_of_anc : forall D n a, In a (aos D n) -> root_of D a = root_of D n.
Proof.
  intros D n a H. apply root_unique; [|apply root_of_noparent].
  eapply aos_trans; [apply root_of_in|exact H].
Qed.

Lemma aos_le : forall D c a, In a (aos D c) -> a <= c.
Proof.
  intros D c. induction c as [c IH] using (node_ind D). intros a H.
  apply aos_cases in H. destruct H as [H|[p [Hp H]]]; [lia|].
  pose proof (IH p Hp a H). pose proof (parent_lt _ _ _ Hp). lia.
Qed.

Lemma root_kind : forall D c, wf_doc D = true -> c < length D ->
  (is_root (kind_of D c) = true <-> parent D c = None).
Proof.
  intros D c W Hc. split.
  - intros H. destruct (parent D c) as [p|] eqn:E; [|reflexivity].
    destruct (wf_parent_container D c p W E) as [_ H']. congruence.
  - apply wf_noparent_root; assumption.
Qed.

(** * heads *)
Lemma snd_let : forall (x : option nat * bool),
  snd (let (c, s) := x in ((if s then c else None), s)) = snd x.
Proof. intros [c s]. reflexivity. Qed.

Lemma head_generic : forall D h m1 rest n, is_user m1 = true ->
  (snd (step_pattern D (h :: m1 :: rest) n) = true <->
   exists g c', step_pattern D (m1 :: rest) n = (Some g, true) /\ parent D g = Some c' /\
                snd (body D h (m1 :: rest) c') = true).
Proof.
  intros D h m1 rest n U. rewrite step_pattern_cons2, (user_not_anyfn m1 U).
  destruct (step_pattern D (m1 :: rest) n) as [[g|] [|]].
  - destruct (parent D g) as [c'|] eqn:Hp.
    + rewrite snd_let. split.
      * intro H. exists g, c'. auto.
      * intros [g' [c'' [E1 [E2 H]]]]. inversion E1. subst g'. rewrite Hp in E2. inversion E2. subst. exact H.
    + split; [discriminate|]. intros [g' [c'' [E1 [E2 _]]]]. inversion E1. subst g'. congruence.
  - split; [discriminate|]. intros [g' [c'' [E1 _]]]. discriminate.
  - split; [discriminate|]. intros [g' [c'' [E1 _]]]. discriminate.
  - split; [discriminate|]. intros [g' [c'' [E1 _]]]. discriminate.
Qed.

Lemma head_func_desc : forall D fs m1 rest n, is_user m1 = true ->
  (snd (step_pattern D (MFunc fs :: MAnyFn :: m1 :: rest) n) = true <->
   exists g c' f, step_pattern D (m1 :: rest) n = (Some g, true) /\ parent D g = Some c' /\
                  find fs (aos D c') = Some f).
Proof.
  intros D fs m1 rest n U.
  rewrite step_pattern_cons2. cbn [is_anyfn].
  rewrite step_pattern_cons2, (user_not_anyfn m1 U).
  destruct (step_pattern D (m1 :: rest) n) as [[g|] [|]].
  - destruct (parent D g) as [c'|] eqn:Hp.
    + cbn [body head_is_anyfn is_anyfn negb].
      destruct (find fs (aos D c')) as [f|] eqn:Fd.
      * cbn [snd]. split; [intros _; exists g, c', f; auto|reflexivity].
      * cbn [snd]. split; [discriminate|]. intros [g' [c'' [f [E1 [E2 E3]]]]].
        inversion E1. subst g'. rewrite Hp in E2. inversion E2. subst. congruence.
    + cbn [snd]. split; [discriminate|]. intros [g' [c'' [f [E1 [E2 _]]]]]. inversion E1. subst g'. congruence.
  - cbn [snd]. split; [discriminate|]. intros [g' [c'' [f [E1 _]]]]. discriminate.
  - cbn [snd]. split; [discriminate|]. intros [g' [c'' [f [E1 _]]]]. discriminate.
  - cbn [snd]. split; [discriminate|]. intros [g' [c'' [f [E1 _]]]]. discriminate.
Qed.

Definition wf_path (p : path) : Prop := wf_steps (p_steps p) /\ wf_path_shape p = true.

(** * selection by a prefix of the path *)
Definition start (D : doc) (h : head) (a : nat) : list nat :=
  match h with HRel => [a] | HAbs => [root_of D a] | HFunc fs => filter fs (nodes D) end.
Definition Sel (D : doc) (h : head) (Q : list (sep * sstep)) (p : nat) : Prop :=
  exists a, In a (aos D p) /\ In p (sel_steps D (start D h a) Q).

Lemma sel_path_start : forall D h Q a, sel_path D (mkPath h Q) a = sel_steps D (start D h a) Q.
Proof. intros D [| |fs] Q a; reflexivity. Qed.

Lemma sel_steps_app : forall D cs Q S, sel_steps D cs (Q ++ S) = sel_steps D (sel_steps D cs Q) S.
Proof. intros. unfold sel_steps. apply fold_left_app. Qed.

Lemma first_sep_app : forall (Q S : list (sep * sstep)) sp st r, S = (sp, st) :: r -> Q = [] ->
  match Q ++ S with (s, _) :: _ => s | [] => SChild end = sp.
Proof. intros. subst. reflexivity. Qed.

(* a node selected from the context a has a among its ancestors-or-self *)
Lemma sel_rel_anc : forall D Q a q, wf_doc D = true -> In q (sel_steps D [a] Q) -> In a (aos D q).
Proof.
  intros D Q a q W H. destruct Q as [|[sp st] r].
  - destruct H as [H|[]]. subst. apply aos_self.
  - apply (sel_steps_reach D ((sp, st) :: r) W ltac:(discriminate)) in H.
    destruct H as [c [R [p [Hp Hin]]]]. pose proof (reach_aos D _ q c R) as Hc.
    pose proof (aos_parent_in D c q p Hc Hp) as Hpq.
    destruct sp; cbn [expand] in Hin.
    + destruct Hin as [E|[]]. subst. exact Hpq.
    + cbn [flat_map] in Hin. rewrite app_nil_r in Hin. apply in_dos in Hin.
      destruct Hin as [_ [E|[_ E]]]; [subst; exact Hpq|]. eapply aos_trans; eauto.
Qed.

Lemma start_anchor : forall D h Q a n q, wf_doc D = true ->
  In a (aos D n) -> In q (aos D n) -> In q (sel_steps D (start D h a) Q) ->
  exists a', In a' (aos D q) /\ In q (sel_steps D (start D h a') Q).
Proof.
  intros D h Q a n q W Ha Hq H. destruct h as [| |fs]; cbn [start] in *.
  - exists a. split; [eapply sel_rel_anc; eauto|exact H].
  - exists q. split; [apply aos_self|].
    rewrite (root_of_anc D n q Hq). rewrite (root_of_anc D n a Ha) in H. exact H.
  - exists q. split; [apply aos_self|exact H].
Qed.

Definition LeftOK (D : doc) (h : head) (Q : list (sep * sstep)) (sp : sep) (c : nat) : Prop :=
  exists p, parent D c = Some p /\
            match sp with
            | SChild => Sel D h Q p
            | SDesc => exists q, In q (aos D p) /\ Sel D h Q q
            end.

(* the selection by Q ++ S, split at the first step of S *)
Lemma sel_split : forall D h Q sp st r n, wf_doc D = true ->
  (Sel D h (Q ++ (sp, st) :: r) n <->
   exists c, reach D ((sp, st) :: r) n c /\ LeftOK D h Q sp c).
Proof.
  intros D h Q sp st r n W. unfold Sel, LeftOK.
  assert (Hne : (sp, st) :: r <> []) by discriminate. split.
  - intros [a [Ha H]]. rewrite sel_steps_app in H.
    apply (sel_steps_reach D _ W Hne) in H. destruct H as [c [R [p [Hp Hin]]]].
    exists c. split; [exact R|]. exists p. split; [exact Hp|].
    pose proof (aos_parent_in D c n p (reach_aos D _ n c R) Hp) as Hpn.
    destruct sp; cbn [expand] in Hin.
    + apply (start_anchor D h Q a n p W Ha Hpn Hin).
    + apply in_flat_map in Hin. destruct Hin as [q [Hq Hd]].
      assert (Hqp : In q (aos D p)).
      { apply in_dos in Hd. destruct Hd as [_ [E|[_ E]]]; [subst; apply aos_self|exact E]. }
      exists q. split; [exact Hqp|].
      apply (start_anchor D h Q a n q W Ha (aos_trans D q p n Hqp Hpn) Hq).
  - intros [c [R [p [Hp Hl]]]].
    pose proof (aos_parent_in D c n p (reach_aos D _ n c R) Hp) as Hpn.
    destruct sp.
    + destruct Hl as [a [Ha H]]. exists a. split; [eapply aos_trans; eauto|].
      rewrite sel_steps_app. apply (sel_steps_reach D _ W Hne).
      exists c. split; [exact R|]. exists p. split; [exact Hp|exact H].
    + destruct Hl as [q [Hqp [a [Ha H]]]]. exists a.
      split; [eapply aos_trans; [exact Ha|eapply aos_trans; eauto]|].
      rewrite sel_steps_app. apply (sel_steps_reach D _ W Hne).
      exists c. split; [exact R|]. exists p. split; [exact Hp|].
      cbn [expand]. apply in_flat_map. exists q. split; [exact H|]. apply in_dos. split.
      * pose proof (parent_lt _ _ _ Hp). pose proof (parent_valid _ _ _ Hp). lia.
      * right. split; [|exact Hqp]. apply container_not_attr. apply (wf_parent_container D c p W Hp).
Qed.

(* one more step on the right of the prefix *)
Lemma sel_snoc : forall D h Q sp st x, wf_doc D = true ->
  (Sel D h (Q ++ [(sp, st)]) x <-> sstep_ok D st x /\ LeftOK D h Q sp x).
Proof.
  intros D h Q sp st x W. rewrite (sel_split D h Q sp st [] x W). cbn [reach]. split.
  - intros [c [[Hok E] Hl]]. subst c. auto.
  - intros [Hok Hl]. exists x. auto.
Qed.

Lemma sel_last_attr : forall D h Q sp st x, wf_doc D = true -> s_attr st = true ->
  Sel D h (Q ++ [(sp, st)]) x -> is_attr (kind_of D x) = true.
Proof.
  intros D h Q sp st x W At H. apply (sel_snoc D h Q sp st x W) in H. destruct H as [[p [Hp Hin]] _].
  unfold spec_step in Hin. apply apply_preds_sub in Hin. rewrite At in Hin.
  apply filter_In in Hin. destruct Hin as [Hin _]. apply in_attributes in Hin. apply Hin.
Qed.

(** * the compiled steps to the left of a step *)
Definition is_desc (sp : sep) : bool := match sp with SDesc => true | SChild => false end.

Definition mk (D : doc) (acc : list mstep) (st : sstep) (nd : bool) : mstep :=
  if s_attr st then MAttr (s_test st) (s_preds st)
  else if nd then MAny (s_test st) (s_preds st) (left_check D acc (last_step acc))
  else MImm (s_test st) (s_preds st).

(* compile_steps on a prefix whose last step is followed by '//' (nd) or not *)
Fixpoint cs_ctx (D : doc) (acc : list mstep) (Q : list (sep * sstep)) (nd : bool) : list mstep :=
  match Q with
  | [] => []
  | (_, st) :: r =>
      let m := mk D acc st (match r with [] => nd | _ => next_is_desc r end) in
      m :: cs_ctx D (acc ++ [m]) r nd
  end.

Lemma last_step_snoc : forall l m, last_step (l ++ [m]) = Some m.
Proof. intros. unfold last_step. rewrite rev_app_distr. reflexivity. Qed.

Lemma compile_steps_cons : forall D acc sp st r,
  compile_steps D acc (last_step acc) ((sp, st) :: r) =
  mk D acc st (next_is_desc r) ::
  compile_steps D (acc ++ [mk D acc st (next_is_desc r)])
                (last_step (acc ++ [mk D acc st (next_is_desc r)])) r.
Proof. intros. rewrite last_step_snoc. reflexivity. Qed.

Lemma compile_steps_cs : forall D Q acc,
  compile_steps D acc (last_step acc) Q = cs_ctx D acc Q false.
Proof.
  intros D Q. induction Q as [|[sp st] r IH]; intro acc; [reflexivity|].
  rewrite compile_steps_cons. cbn [cs_ctx].
  assert (E : next_is_desc r = match r with [] => false | _ => next_is_desc r end)
    by (destruct r; reflexivity).
  rewrite <- E. f_equal. apply IH.
Qed.

Lemma next_is_desc_snoc : forall (Q : list (sep * sstep)) s st,
  next_is_desc (Q ++ [(s, st)]) = match Q with [] => is_desc s | _ => next_is_desc Q end.
Proof. intros [|[s1 st1] Q] s st; [destruct s; reflexivity|reflexivity]. Qed.

Lemma cs_ctx_snoc : forall D Q a s st nd,
  cs_ctx D a (Q ++ [(s, st)]) nd =
  cs_ctx D a Q (is_desc s) ++ [mk D (a ++ cs_ctx D a Q (is_desc s)) st nd].
Proof.
  intros D Q. induction Q as [|[s1 st1] Q IH]; intros a s st nd.
  - cbn [app cs_ctx]. rewrite app_nil_r. reflexivity.
  - cbn [app cs_ctx].
    assert (E : match Q ++ [(s, st)] with [] => nd | _ => next_is_desc (Q ++ [(s, st)]) end
                = match Q with [] => is_desc s | _ => next_is_desc Q end).
    { destruct Q as [|[s2 st2] Q2]; [destruct s; reflexivity|reflexivity]. }
    rewrite E. rewrite IH. cbn [app]. rewrite <- app_assoc. reflexivity.
Qed.

Lemma snoc_cases : forall (Q : list (sep * sstep)), Q = [] \/ exists Q0 s st, Q = Q0 ++ [(s, st)].
Proof.
  intros Q. induction Q as [|[s st] Q0 _] using rev_ind; [left; reflexivity|].
  right. exists Q0, s, st. reflexivity.
Qed.

Lemma mk_user : forall D acc st nd, is_user (mk D acc st nd) = true.
Proof. intros. unfold mk. destruct (s_attr st); [|destruct nd]; reflexivity. Qed.

Lemma next_is_desc_cons : forall sp (st : sstep) r, next_is_desc ((sp, st) :: r) = is_desc sp.
Proof. intros [|] st r; reflexivity. Qed.

Lemma head_steps_app : forall h (Q S : list (sep * sstep)), Q <> [] ->
  head_steps h (Q ++ S) = head_steps h Q.
Proof.
  intros h [|[s st] Q] S Hne; [congruence|]. unfold head_steps. cbn [app].
  rewrite !next_is_desc_cons. reflexivity.
Qed.

(* what a user step at the front can return *)
Lemma user_result : forall D m rest n, is_user m = true ->
  (exists g, step_pattern D (m :: rest) n = (Some g, true)) \/ step_pattern D (m :: rest) n = (None, false).
Proof.
  intros D m rest n U.
  assert (B : forall c, (exists g, (let (c', s) := body D m rest c in ((if s then c' else None), s)) = (Some g, true))
                        \/ (let (c', s) := body D m rest c in ((if s then c' else None), s)) = (None, false)).
  { intros c. destruct m; try discriminate; cbn [body].
    - destruct (step_ok D true t ps c); [left; eexists; reflexivity|right; reflexivity].
    - destruct (is_attr (kind_of D c)); [right; reflexivity|].
      destruct (find _ (aos D c)); [left; eexists; reflexivity|right; reflexivity].
    - destruct (step_ok D false t ps c); [left; eexists; reflexivity|right; reflexivity]. }
  destruct rest as [|m2 rest'].
  - rewrite step_pattern_one. apply B.
  - rewrite step_pattern_cons2.
    destruct (step_pattern D (m2 :: rest') n) as [[c|] [|]]; try (right; reflexivity).
    destruct (if is_anyfn m2 then Some c else parent D c); [apply B|right; reflexivity].
Qed.

(* the body of a compiled user step, in terms of step_ok *)
Lemma body_mk_plain : forall D acc st rest c, (s_attr st = true \/ True) ->
  body D (mk D acc st false) rest c = (Some c, step_ok D (s_attr st) (s_test st) (s_preds st) c).
Proof. intros D acc st rest c _. unfold mk. destruct (s_attr st); reflexivity. Qed.

Lemma body_mk_attr : forall D acc st nd rest c, s_attr st = true ->
  body D (mk D acc st nd) rest c = (Some c, step_ok D true (s_test st) (s_preds st) c).
Proof. intros D acc st nd rest c At. unfold mk. rewrite At. reflexivity. Qed.

Definition anyF (D : doc) (acc : list mstep) (st : sstep) (a : nat) : bool :=
  negb (is_root (kind_of D a)) && child_test (s_test st) (kind_of D a)
  && do_preds (found_index D false (s_test st) (s_preds st) a) (s_preds st) a true
  && left_ok D (left_check D acc (last_step acc)) a.

Lemma body_mk_any : forall D acc st rest c, s_attr st = false ->
  body D (mk D acc st true) rest c =
  if is_attr (kind_of D c) then (Some c, false)
  else match find (anyF D acc st) (aos D c) with
       | Some a => (Some a, true)
       | None => (None, false)
       end.
Proof. intros D acc st rest c At. unfold mk. rewrite At. reflexivity. Qed.

Lemma anyF_step_ok : forall D acc st a, s_attr st = false -> is_attr (kind_of D a) = false ->
  anyF D acc st a = step_ok D (s_attr st) (s_test st) (s_preds st) a
                    && left_ok D (left_check D acc (last_step acc)) a.
Proof. intros D acc st a At Ha. unfold anyF, step_ok. rewrite At, Ha. reflexivity. Qed.

(** * soundness of the compiled steps: whatever the matcher finds is a chain *)
Lemma gen_sound : forall D S, wf_doc D = true -> wf_steps S -> S <> [] -> forall acc n g,
  step_pattern D (compile_steps D acc (last_step acc) S) n = (Some g, true) -> reach D S n g.
Proof.
  intros D S W. induction S as [|[sp st] r IH]; intros Wf Hne acc n g H; [congruence|].
  inversion_clear Wf as [|? ? Wst Wr]. cbn [snd] in Wst.
  rewrite compile_steps_cons in H.
  set (m := mk D acc st (next_is_desc r)) in *.
  destruct r as [|[sp2 st2] r'].
  - cbn [compile_steps] in H. rewrite step_pattern_one in H. subst m. cbn [next_is_desc] in H.
    rewrite body_mk_plain in H by auto.
    destruct (step_ok D (s_attr st) (s_test st) (s_preds st) n) eqn:S0; [|discriminate].
    inversion H. subst g. cbn [reach]. split; [apply (step_ok_spec D st n W Wst); exact S0|reflexivity].
  - specialize (IH Wr ltac:(discriminate) (acc ++ [m]) n).
    rewrite compile_steps_cons in H, IH.
    set (m2 := mk D (acc ++ [m]) st2 (next_is_desc r')) in *.
    rewrite step_pattern_cons2, (user_not_anyfn m2 (mk_user _ _ _ _)) in H.
    destruct (step_pattern D (m2 :: _) n) as [[c2|] [|]] eqn:R; try discriminate.
    destruct (parent D c2) as [c'|] eqn:Hp; [|discriminate].
    pose proof (IH c2 eq_refl) as R2.
    assert (Plain : step_ok D (s_attr st) (s_test st) (s_preds st) c' = true -> g = c' ->
              reach D ((sp, st) :: (sp2, st2) :: r') n g).
    { intros S0 Eg. subst g. cbn [reach]. split; [apply (step_ok_spec D st c' W Wst); exact S0|].
      exists c2. split; [exact R2|]. exists c'. split; [exact Hp|].
      destruct sp2; [reflexivity|apply aos_self]. }
    subst m. rewrite next_is_desc_cons in H.
    destruct (s_attr st) eqn:At.
    + rewrite body_mk_attr in H by exact At.
      destruct (step_ok D true (s_test st) (s_preds st) c') eqn:S0; [|discriminate].
      inversion H. apply Plain; auto.
    + destruct sp2; cbn [is_desc] in H.
      * rewrite body_mk_plain in H by auto. rewrite At in H.
        destruct (step_ok D false (s_test st) (s_preds st) c') eqn:S0; [|discriminate].
        inversion H. apply Plain; auto.
      * rewrite body_mk_any in H by exact At.
        destruct (is_attr (kind_of D c')) eqn:Ac; [discriminate|].
        destruct (find (anyF D acc st) (aos D c')) as [a|] eqn:Fd; [|discriminate].
        inversion H. subst a. apply find_some in Fd. destruct Fd as [Hin Fg].
        assert (Hna : is_attr (kind_of D g) = false).
        { destruct (aos_container D g c' W Hin) as [E|E]; [subst; exact Ac|].
          apply container_not_attr. exact E. }
        rewrite (anyF_step_ok D acc st g At Hna) in Fg. apply andb_prop in Fg. destruct Fg as [S0 _].
        cbn [reach]. split; [apply (step_ok_spec D st g W Wst); exact S0|].
        exists c2. split; [exact R2|]. exists c'. split; [exact Hp|exact Hin].
Qed.

(** * completeness: by induction on the steps, with the theorem for every proper prefix at hand *)
Section Path.
Variable D : doc.
Hypothesis W : wf_doc D = true.
Variable h : head.

Definition Full (Q : list (sep * sstep)) : Prop :=
  forall p, p < length D -> (match_path D (mkPath h Q) p = true <-> Sel D h Q p).

Definition acc_of (P Q : list (sep * sstep)) (sp : sep) : list mstep :=
  head_steps h P ++ cs_ctx D (head_steps h P) Q (is_desc sp).

Lemma acc_left_none : forall Q sp st r,
  last_step (acc_of (Q ++ (sp, st) :: r) Q sp) = None -> h = HRel /\ Q = [].
Proof.
  intros Q sp st r H. unfold acc_of in H. destruct (snoc_cases Q) as [E|[Q0 [s0 [st0 E]]]].
  - subst Q. cbn [cs_ctx app] in H. rewrite app_nil_r in H. split; [|reflexivity].
    unfold head_steps in H. destruct h as [| |fs]; [reflexivity| |];
      destruct (next_is_desc ((sp, st) :: r)); discriminate.
  - subst Q. rewrite cs_ctx_snoc, app_assoc, last_step_snoc in H. discriminate.
Qed.

Lemma acc_left_any : forall Q sp st r l,
  last_step (acc_of (Q ++ (sp, st) :: r) Q sp) = Some l -> any_like l = true -> sp = SDesc.
Proof.
  intros Q sp st r l H A. unfold acc_of in H. destruct (snoc_cases Q) as [E|[Q0 [s0 [st0 E]]]].
  - subst Q. cbn [cs_ctx app] in H. rewrite app_nil_r in H.
    unfold head_steps in H. rewrite next_is_desc_cons in H.
    destruct sp; [|reflexivity]. cbn [is_desc] in H.
    destruct h as [| |fs]; inversion H; subst l; discriminate.
  - subst Q. rewrite cs_ctx_snoc, app_assoc, last_step_snoc in H. inversion H. subst l.
    unfold mk in A. destruct (s_attr st0); [discriminate|].
    destruct sp; [discriminate|reflexivity].
Qed.

Lemma acc_left_exact : forall Q sp st r l,
  last_step (acc_of (Q ++ (sp, st) :: r) Q sp) = Some l -> any_like l = false ->
  acc_of (Q ++ (sp, st) :: r) Q sp = compile D (mkPath h Q) /\
  (Q = [] -> h <> HRel) /\
  (sp = SChild \/ exists Q0 s0 st0, Q = Q0 ++ [(s0, st0)] /\ s_attr st0 = true).
Proof.
  intros Q sp st r l H A. unfold acc_of in *. destruct (snoc_cases Q) as [E|[Q0 [s0 [st0 E]]]].
  - subst Q. cbn [cs_ctx app] in *. rewrite app_nil_r in *.
    unfold compile, head_steps in *. cbn [p_head p_steps compile_steps next_is_desc] in *.
    destruct sp; cbn [is_desc] in *.
    + split; [rewrite app_nil_r; reflexivity|]. split; [|left; reflexivity].
      intros _ E. subst h. discriminate.
    + destruct h as [| |fs]; inversion H; subst l; discriminate.
  - subst Q. rewrite cs_ctx_snoc, app_assoc, last_step_snoc in H. inversion H. subst l. clear H.
    split; [|split; [intro E; destruct Q0; discriminate|]].
    + unfold compile. cbn [p_head p_steps]. rewrite compile_steps_cs.
      rewrite (head_steps_app h (Q0 ++ [(s0, st0)]) ((sp, st) :: r)) in *
        by (destruct Q0; discriminate).
      rewrite !cs_ctx_snoc. do 2 f_equal.
      unfold mk in *. destruct (s_attr st0); [reflexivity|].
      destruct sp; [reflexivity|discriminate].
    + unfold mk in A. destruct (s_attr st0) eqn:At.
      * right. exists Q0, s0, st0. auto.
      * left. destruct sp; [reflexivity|discriminate].
Qed.

Lemma sel_rel_nil : forall p, Sel D HRel [] p.
Proof. intros p. exists p. split; [apply aos_self|left; reflexivity]. Qed.

Lemma sstep_ok_parent : forall st c, sstep_ok D st c -> exists p, parent D c = Some p.
Proof. intros st c [p [Hp _]]. exists p. exact Hp. Qed.

Lemma gen_complete : forall P, wf_steps P ->
  (forall Q S, P = Q ++ S -> S <> [] -> (Q = [] -> h <> HRel) -> Full Q) ->
  forall S Q sp st r, P = Q ++ S -> S = (sp, st) :: r ->
  forall n,
  (exists c, reach D S n c /\ LeftOK D h Q sp c) ->
  exists g, step_pattern D (compile_steps D (acc_of P Q sp) (last_step (acc_of P Q sp)) S) n = (Some g, true)
            /\ LeftOK D h Q sp g.
Proof.
  intros P Wf IHfull S. induction S as [|x r IH]; intros Q sp st r0 EP ES n Hex; [discriminate|].
  inversion ES. subst x r0. clear ES.
  assert (WfS : wf_steps ((sp, st) :: r)).
  { unfold wf_steps in *. rewrite EP in Wf. apply Forall_app in Wf. apply Wf. }
  inversion_clear WfS as [|? ? Wst Wr]. cbn [snd] in Wst.
  set (acc := acc_of P Q sp) in *.
  rewrite compile_steps_cons.
  set (m := mk D acc st (next_is_desc r)) in *.
  destruct Hex as [c [R HL]].
  destruct r as [|[sp' st'] r'].
  - (* the last step *)
    cbn [reach] in R. destruct R as [Hok E]. subst c.
    cbn [compile_steps]. rewrite step_pattern_one. subst m. cbn [next_is_desc].
    rewrite body_mk_plain by auto.
    apply (step_ok_spec D st n W Wst) in Hok. rewrite Hok. exists n. auto.
  - cbn [reach] in R. destruct R as [Hok [c2 [R2 [p2 [Hp2 Hrel]]]]].
    (* the rest, with one more step on its left *)
    assert (EP' : P = (Q ++ [(sp, st)]) ++ (sp', st') :: r') by (rewrite <- app_assoc; exact EP).
    assert (Eacc : acc_of P (Q ++ [(sp, st)]) sp' = acc ++ [m]).
    { unfold acc_of, acc, m. rewrite cs_ctx_snoc, next_is_desc_cons, app_assoc. reflexivity. }
    assert (Hex' : exists c2, reach D ((sp', st') :: r') n c2 /\ LeftOK D h (Q ++ [(sp, st)]) sp' c2).
    { exists c2. split; [exact R2|]. exists p2. split; [exact Hp2|]. destruct sp'.
      - subst p2. apply (sel_snoc D h Q sp st c W). auto.
      - exists c. split; [exact Hrel|]. apply (sel_snoc D h Q sp st c W). auto. }
    destruct (IH (Q ++ [(sp, st)]) sp' st' r' EP' eq_refl n Hex') as [g2 [Hg2 HL2]].
    rewrite Eacc in Hg2. clear IH Hex'.
    rewrite compile_steps_cons in Hg2 |- *.
    set (m2 := mk D (acc ++ [m]) st' (next_is_desc r')) in *.
    rewrite step_pattern_cons2, (user_not_anyfn m2 (mk_user _ _ _ _)), Hg2.
    destruct HL2 as [pg [Hpg HS]]. rewrite Hpg.
    subst m. rewrite next_is_desc_cons.
    destruct sp'; cbn [is_desc].
    + (* '/': the step must hold at the parent *)
      apply (sel_snoc D h Q sp st pg W) in HS. destruct HS as [Hok' HL'].
      rewrite body_mk_plain by auto.
      apply (step_ok_spec D st pg W Wst) in Hok'. rewrite Hok'. exists pg. auto.
    + (* '//': some ancestor-or-self q of the parent *)
      destruct HS as [q [Hq HS]]. apply (sel_snoc D h Q sp st q W) in HS. destruct HS as [Hokq HLq].
      destruct (wf_parent_container D g2 pg W Hpg) as [Hcont _].
      assert (Hqna : is_attr (kind_of D q) = false).
      { destruct (aos_container D q pg W Hq) as [E|E]; [subst|]; apply container_not_attr; assumption. }
      destruct (s_attr st) eqn:At.
      { exfalso. destruct Hokq as [pq [Hpq Hin]]. unfold spec_step in Hin. apply apply_preds_sub in Hin.
        rewrite At in Hin. apply filter_In in Hin. destruct Hin as [Hin _]. apply in_attributes in Hin.
        destruct Hin as [_ Hin]. congruence. }
      rewrite body_mk_any by exact At. rewrite (container_not_attr _ Hcont).
      (* every accepted ancestor is not an attribute *)
      assert (NA : forall a, In a (aos D pg) -> is_attr (kind_of D a) = false).
      { intros a Ha. destruct (aos_container D a pg W Ha) as [E|E]; [subst|]; apply container_not_attr; assumption. }
      assert (Sq : step_ok D (s_attr st) (s_test st) (s_preds st) q = true)
        by (apply (step_ok_spec D st q W Wst); exact Hokq).
      (* what the left check means *)
      assert (Left : left_ok D (left_check D acc (last_step acc)) q = true /\
                     (forall g, In q (aos D g) -> sstep_ok D st g ->
                                left_ok D (left_check D acc (last_step acc)) g = true -> LeftOK D h Q sp g)).
      { destruct (last_step acc) as [l|] eqn:El.
        - destruct (any_like l) eqn:Al.
          + (* the step to the left can match any ancestor: the nearest one is good enough *)
            assert (Esp : sp = SDesc).
            { unfold acc in El. rewrite EP in El. eapply acc_left_any; eauto. }
            subst sp. unfold left_check. rewrite Al. split; [reflexivity|].
            intros g Hqg Hokg _. destruct (sstep_ok_parent st g Hokg) as [pgg Hpgg].
            exists pgg. split; [exact Hpgg|].
            destruct HLq as [pq [Hpq [q1 [Hq1 HS1]]]]. exists q1. split; [|exact HS1].
            apply aos_cases in Hqg. destruct Hqg as [E|[x [Hx Hqx]]].
            * subst g. rewrite Hpq in Hpgg. inversion Hpgg. subst. exact Hq1.
            * rewrite Hpgg in Hx. inversion Hx. subst x.
              eapply aos_trans; [exact Hq1|]. eapply aos_parent_in; eauto.
          + (* the step to the left is exact: stepPattern is re-entered on the steps to the left *)
            assert (Hex : acc = compile D (mkPath h Q) /\ (Q = [] -> h <> HRel) /\
                          (sp = SChild \/ exists Q0 s0 st0, Q = Q0 ++ [(s0, st0)] /\ s_attr st0 = true)).
            { unfold acc in El |- *. rewrite EP in El |- *. eapply acc_left_exact; eauto. }
            destruct Hex as [Eacc' [HQ Hsp]].
            pose proof (IHfull Q ((sp, st) :: (SDesc, st') :: r') EP ltac:(discriminate) HQ) as FQ.
            unfold left_check. rewrite Al. cbn [left_ok].
            assert (Chk : forall x px, parent D x = Some px ->
                          (snd (step_pattern D acc px) = true <-> Sel D h Q px)).
            { intros x px Hpx. rewrite Eacc'. apply FQ.
              pose proof (parent_lt _ _ _ Hpx). pose proof (parent_valid _ _ _ Hpx). lia. }
            assert (NoDesc : sp = SDesc -> forall x px, parent D x = Some px -> Sel D h Q px -> False).
            { intros Esp x px Hpx HSx. destruct Hsp as [E|[Q0 [s0 [st0 [EQ At0]]]]]; [congruence|].
              subst Q. apply (sel_last_attr D h Q0 s0 st0 px W At0) in HSx.
              destruct (wf_parent_container D x px W Hpx) as [Hc _].
              apply container_not_attr in Hc. congruence. }
            split.
            * destruct HLq as [pq [Hpq HSq]]. rewrite Hpq. destruct sp.
              -- apply (Chk q pq Hpq). exact HSq.
              -- exfalso. destruct HSq as [q1 [Hq1 HS1]].
                 destruct Hsp as [E|[Q0 [s0 [st0 [EQ At0]]]]]; [discriminate|]. subst Q.
                 apply (sel_last_attr D h Q0 s0 st0 q1 W At0) in HS1.
                 destruct (aos_container D q1 pq W Hq1) as [E|E].
                 ++ subst q1. destruct (wf_parent_container D q pq W Hpq) as [Hc _].
                    apply container_not_attr in Hc. congruence.
                 ++ apply container_not_attr in E. congruence.
            * intros g _ Hokg Hl. destruct (parent D g) as [pgg|] eqn:Hpgg; [|discriminate].
              apply (Chk g pgg Hpgg) in Hl. exists pgg. split; [exact Hpgg|].
              destruct sp; [exact Hl|]. exfalso. eapply NoDesc; eauto.
        - (* nothing to the left *)
          assert (HQ : h = HRel /\ Q = []).
          { unfold acc in El. rewrite EP in El. eapply acc_left_none; eauto. }
          destruct HQ as [Eh EQ]. cbn [left_check left_ok]. split; [reflexivity|].
          intros g _ Hokg _. destruct (sstep_ok_parent st g Hokg) as [pgg Hpgg].
          exists pgg. split; [exact Hpgg|]. rewrite Eh, EQ. destruct sp; [apply sel_rel_nil|].
          exists pgg. split; [apply aos_self|apply sel_rel_nil]. }
      destruct Left as [Lq Lg].
      assert (Fq : anyF D acc st q = true).
      { rewrite (anyF_step_ok D acc st q At Hqna). rewrite Sq, Lq. reflexivity. }
      destruct (find_aos D (anyF D acc st) pg q Hq Fq) as [g [Fd Hqg]].
      rewrite Fd. exists g. split; [reflexivity|].
      apply find_some in Fd. destruct Fd as [Hgin Fg].
      rewrite (anyF_step_ok D acc st g At (NA g Hgin)) in Fg. apply andb_prop in Fg.
      destruct Fg as [Sg Lgg].
      apply Lg; [exact Hqg|apply (step_ok_spec D st g W Wst); exact Sg|exact Lgg].
Qed.

Lemma sel_abs_nil : forall p, p < length D -> (Sel D HAbs [] p <-> is_root (kind_of D p) = true).
Proof.
  intros p Hp. unfold Sel. cbn [start sel_steps fold_left]. rewrite (root_kind D p W Hp). split.
  - intros [a [_ [E|[]]]]. subst p. apply root_of_noparent.
  - intros H. exists p. split; [apply aos_self|]. left. rewrite root_of_eq, H. reflexivity.
Qed.

Lemma sel_func_nil : forall fs p, (Sel D (HFunc fs) [] p <-> p < length D /\ fs p = true).
Proof.
  intros fs p. unfold Sel. cbn [start sel_steps fold_left]. split.
  - intros [a [_ H]]. apply filter_In in H. destruct H as [H1 H2]. split; [|exact H2].
    unfold nodes in H1. apply in_seq in H1. lia.
  - intros [H1 H2]. exists p. split; [apply aos_self|]. apply filter_In. split; [|exact H2].
    unfold nodes. apply in_seq. lia.
Qed.

Lemma parent_lt_len : forall c p, parent D c = Some p -> p < length D.
Proof. intros c p H. pose proof (parent_lt _ _ _ H). pose proof (parent_valid _ _ _ H). lia. Qed.

(* the theorem for a path, given the theorem for its proper prefixes *)
Lemma full_step : forall P, wf_steps P -> wf_path_shape (mkPath h P) = true ->
  (forall Q S, P = Q ++ S -> S <> [] -> (Q = [] -> h <> HRel) -> Full Q) -> Full P.
Proof.
  intros P Wf Sh IHfull n Hn. unfold match_path, compile. cbn [p_head p_steps].
  destruct P as [|[sp1 st1] r].
  - (* the head alone *)
    cbn [compile_steps]. rewrite app_nil_r. unfold head_steps. cbn [next_is_desc].
    destruct h as [| |fs] eqn:Eh.
    + discriminate.
    + rewrite step_pattern_one, snd_let. cbn [body snd]. symmetry. apply sel_abs_nil. exact Hn.
    + rewrite step_pattern_one, snd_let. cbn [body head_is_anyfn snd].
      rewrite sel_func_nil. split; [auto|intros [_ H]; exact H].
  - pose (P := (sp1, st1) :: r).
    pose proof (sel_split D h [] sp1 st1 r n W) as SS. cbn [app] in SS. rewrite SS. clear SS.
    change ((sp1, st1) :: r) with P in Wf, IHfull |- *.
    pose proof (gen_complete P Wf IHfull P [] sp1 st1 r eq_refl eq_refl n) as GC.
    unfold acc_of in GC. cbn [cs_ctx] in GC. rewrite app_nil_r in GC.
    pose proof (gen_sound D P W Wf ltac:(discriminate) (head_steps h P) n) as GS.
    assert (EC : compile_steps D (head_steps h P) (last_step (head_steps h P)) P =
                 mk D (head_steps h P) st1 (next_is_desc r) ::
                 compile_steps D (head_steps h P ++ [mk D (head_steps h P) st1 (next_is_desc r)])
                   (last_step (head_steps h P ++ [mk D (head_steps h P) st1 (next_is_desc r)])) r)
      by apply compile_steps_cons.
    set (m1 := mk D (head_steps h P) st1 (next_is_desc r)) in *.
    assert (Um : is_user m1 = true) by apply mk_user.
    set (rest := compile_steps D (head_steps h P ++ [m1]) (last_step (head_steps h P ++ [m1])) r) in *.
    rewrite EC in *.
    unfold head_steps in *. unfold P in GC, GS |- *. rewrite next_is_desc_cons in *.
    destruct h as [| |fs] eqn:Eh.
    + (* relative *)
      cbn [app]. cbn [app] in GC, GS. split.
      * intro H. destruct (user_result D m1 rest n Um) as [[g Hg]|Hg]; [|rewrite Hg in H; discriminate].
        pose proof (GS g Hg) as R. exists g. split; [exact R|].
        destruct (reach_first_ok D _ n g R) as [p Hp]. exists p. split; [exact Hp|].
        destruct sp1; [apply sel_rel_nil|]. exists p. split; [apply aos_self|apply sel_rel_nil].
      * intro H. destruct (GC H) as [g [Hg _]]. rewrite Hg. reflexivity.
    + destruct sp1; cbn [is_desc] in *; cbn [app] in *.
      * (* '/' *)
        rewrite (head_generic D MRoot m1 rest n Um). split.
        -- intros [g [c' [Hg [Hp Hb]]]]. cbn [body snd] in Hb.
           exists g. split; [apply GS; exact Hg|]. exists c'. split; [exact Hp|].
           apply sel_abs_nil; [eapply parent_lt_len; eauto|exact Hb].
        -- intro H. destruct (GC H) as [g [Hg [p [Hp HS]]]].
           exists g, p. split; [exact Hg|]. split; [exact Hp|]. cbn [body snd].
           apply sel_abs_nil; [eapply parent_lt_len; eauto|exact HS].
      * (* '//' *)
        rewrite (head_generic D MAnyWP m1 rest n Um). split.
        -- intros [g [c' [Hg [Hp _]]]].
           exists g. split; [apply GS; exact Hg|]. exists c'. split; [exact Hp|].
           exists (root_of D c'). split; [apply root_of_in|].
           apply sel_abs_nil.
           ++ pose proof (aos_le D c' _ (root_of_in D c')). pose proof (parent_lt_len g c' Hp). lia.
           ++ apply root_kind; [exact W| |apply root_of_noparent].
              pose proof (aos_le D c' _ (root_of_in D c')). pose proof (parent_lt_len g c' Hp). lia.
        -- intro H. destruct (GC H) as [g [Hg [p [Hp _]]]].
           exists g, p. split; [exact Hg|]. split; [exact Hp|]. cbn [body].
           rewrite (container_not_attr _ (proj1 (wf_parent_container D g p W Hp))). reflexivity.
    + destruct sp1; cbn [is_desc] in *; cbn [app] in *.
      * rewrite (head_generic D (MFunc fs) m1 rest n Um). split.
        -- intros [g [c' [Hg [Hp Hb]]]]. cbn [body head_is_anyfn] in Hb.
           rewrite (user_not_anyfn m1 Um) in Hb. cbn [snd] in Hb.
           exists g. split; [apply GS; exact Hg|]. exists c'. split; [exact Hp|].
           apply sel_func_nil. split; [eapply parent_lt_len; eauto|exact Hb].
        -- intro H. destruct (GC H) as [g [Hg [p [Hp HS]]]].
           exists g, p. split; [exact Hg|]. split; [exact Hp|]. cbn [body head_is_anyfn].
           rewrite (user_not_anyfn m1 Um). cbn [snd]. apply sel_func_nil in HS. apply HS.
      * rewrite (head_func_desc D fs m1 rest n Um). split.
        -- intros [g [c' [f [Hg [Hp Fd]]]]]. apply find_some in Fd. destruct Fd as [Hf Ff].
           exists g. split; [apply GS; exact Hg|]. exists c'. split; [exact Hp|].
           exists f. split; [exact Hf|]. apply sel_func_nil. split; [|exact Ff].
           pose proof (aos_le D c' f Hf). pose proof (parent_lt_len g c' Hp). lia.
        -- intro H. destruct (GC H) as [g [Hg [p [Hp [q [Hq HS]]]]]].
           apply sel_func_nil in HS. destruct HS as [_ Fq].
           destruct (find_aos D fs p q Hq Fq) as [f [Fd _]]. exists g, p, f. auto.
Qed.

Theorem full_path : forall k P, length P <= k -> wf_steps P -> wf_path_shape (mkPath h P) = true -> Full P.
Proof.
  induction k as [|k IH]; intros P Hk Wf Sh.
  - destruct P; [|cbn in Hk; lia]. apply full_step; try assumption.
    intros Q S E Hne _. destruct Q, S; try discriminate. congruence.
  - apply full_step; try assumption.
    intros Q S E Hne HQ. apply IH.
    + subst P. rewrite app_length in Hk. destruct S; [congruence|]. cbn [length] in Hk. lia.
    + subst P. unfold wf_steps in *. apply Forall_app in Wf. apply Wf.
    + subst P. unfold wf_path_shape in *. cbn [p_head p_steps] in *.
      destruct h as [| |fs]; try reflexivity.
      destruct Q as [|[s st] Q]; [exfalso; apply HQ; reflexivity|]. cbn [app] in Sh. exact Sh.
Qed.

End Path.

(** * a whole path, unions *)
Theorem match_path_iff : forall D p n,
  wf_doc D = true -> wf_path p -> n < length D ->
  (match_path D p n = true <-> exists a, In a (aos D n) /\ In n (sel_path D p a)).
Proof.
  intros D [h P] n W [Wf Sh] Hn. cbn [p_steps] in Wf.
  pose proof (full_path D W h (length P) P (le_n _) Wf Sh n Hn) as F.
  rewrite F. unfold Sel. split; intros [a [Ha H]]; exists a; (split; [exact Ha|]).
  - rewrite sel_path_start. exact H.
  - rewrite sel_path_start in H. exact H.
Qed.

Definition wf_pattern (P : pattern) : Prop := forall p, In p P -> wf_path p.

Theorem matches_iff_selects : forall D P n,
  wf_doc D = true -> wf_pattern P -> n < length D ->
  (matches D P n = true <-> selects D P n).
Proof.
  intros D P n W Wp Hn. unfold matches, selects. rewrite existsb_exists. split.
  - intros [p [Hp H]]. apply (match_path_iff D p n W (Wp p Hp) Hn) in H.
    destruct H as [a [Ha H]]. exists p, a. auto.
  - intros [p [a [Hp [Ha H]]]]. exists p. split; [exact Hp|].
    apply (match_path_iff D p n W (Wp p Hp) Hn). exists a. auto.
Qed.

Lemma selectsb_spec : forall D P n, selectsb D P n = true <-> selects D P n.
Proof.
  intros D P n. unfold selectsb, selects. rewrite existsb_exists. split.
  - intros [p [Hp H]]. apply existsb_exists in H. destruct H as [a [Ha H]].
    apply mem_In in H. exists p, a. auto.
  - intros [p [a [Hp [Ha H]]]]. exists p. split; [exact Hp|]. apply existsb_exists.
    exists a. split; [exact Ha|]. apply mem_In. exact H.
Qed.

(** * the concrete predicate language: the compiler's flag is sound *)
Lemma flag_sound : forall D p, cflag p = false ->
  forall n i s i' s', ceval D p n i s = ceval D p n i' s'.
Proof.
  intros D p. induction p; cbn [cflag]; intros F n i s i' s'; try discriminate; try reflexivity.
  - cbn [ceval]. rewrite (IHp F n i s i' s'). reflexivity.
  - apply orb_false_elim in F. destruct F as [F1 F2].
    cbn [ceval]. rewrite (IHp1 F1 n i s i' s'), (IHp2 F2 n i s i' s'). reflexivity.
  - apply orb_false_elim in F. destruct F as [F1 F2].
    cbn [ceval]. rewrite (IHp1 F1 n i s i' s'), (IHp2 F2 n i s i' s'). reflexivity.
Qed.

Lemma cpred_wf : forall D p, wf_pred (cpred_compile D p).
Proof. intros D p F. cbn [cpred_compile pfl pfn] in *. apply flag_sound. exact F. Qed.

Lemma path_of_wf : forall D p, wf_path_shape (path_of D p) = true -> wf_path (path_of D p).
Proof.
  intros D p Sh. split; [|exact Sh]. unfold wf_steps, path_of. cbn [p_steps].
  apply Forall_forall. intros s Hs. apply in_map_iff in Hs. destruct Hs as [x [E _]]. subst s.
  cbn [snd s_preds]. apply Forall_forall. intros q Hq. apply in_map_iff in Hq.
  destruct Hq as [y [E _]]. subst q. apply cpred_wf.
Qed.


Theorem c_match_iff_select : forall D P n,
  wf_doc D = true -> c_shape D P = true -> n < length D ->
  (c_match D P n = true <-> selects D (map (path_of D) P) n).
Proof.
  intros D P n W Sh Hn. unfold c_match. apply matches_iff_selects; try assumption.
  intros p Hp. apply in_map_iff in Hp. destruct Hp as [x [E Hx]]. subst p.
  apply path_of_wf. unfold c_shape in Sh. rewrite forallb_forall in Sh. apply Sh.
  apply in_map. exact Hx.
Qed.

(** * the former counterexamples *)
Definition el (n : nat) (p : nat) : nrec := mkN (KElem n) (Some p).
Definition name_step (n : nat) : sstep := mkS false (TName n) [].

(* K14:  /a//b  on  <x><a><b/></a></x>   (names: a = 0, b = 1, x = 4) *)
Definition k14_doc : doc := [mkN KRoot None; el 4 0; el 0 1; el 1 2].
Definition k14_pat : pattern := [mkPath HAbs [(SChild, name_step 0); (SDesc, name_step 1)]].

(* K15:  c/a//b  on  <c><a><y><a><b/></a></y></a></c>   (c = 2, y = 5) *)
Definition k15_doc : doc := [mkN KRoot None; el 2 0; el 0 1; el 5 2; el 0 3; el 1 4].
Definition k15_pat : pattern :=
  [mkPath HRel [(SChild, name_step 2); (SChild, name_step 0); (SDesc, name_step 1)]].

Lemma k14_facts : wf_doc k14_doc = true /\ matches k14_doc k14_pat 3 = false /\
                  selectsb k14_doc k14_pat 3 = false.
Proof. vm_compute. repeat split. Qed.

Lemma k15_facts : wf_doc k15_doc = true /\ matches k15_doc k15_pat 5 = true /\
                  selectsb k15_doc k15_pat 5 = true.
Proof. vm_compute. repeat split. Qed.
