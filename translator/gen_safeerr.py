"""gen_safeerr — regenerates coq/GenSafeErr.v (property C03, part "errors") from /repo's current sources:
the facts the guard models of coq/SafeErrDefs.v are instantiated with.

  (1) VariablesStack::findXObject (XSLT/VariablesStack.cpp): HOW the ElemVariable is looked for in
      m_guardStack (std::find over [begin, end) = the whole stack, or a comparison with back() = the top
      only), that the test stands in front of the one push_back, which stands in front of the evaluation
      (var->getValue), which stands in front of the one pop_back, that the stored value short-cuts the
      evaluation (theValue.null() == false -> return) and is stored after the pop (setValue), that the hit
      branch reports CircularVariableDefWasDetected with classification eError (XSLTEngineImpl::problem
      throws for eERROR), that nothing pops on the error path (no pop in a destructor/catch) and that
      VariablesStack::reset() clears the stack; whether a nesting limit ('if (m_guardStack.size() >= LIMIT) error' between the
      test and the push) is there, and its value (variant flag variable_depth_limited);
  (2) StylesheetExecutionContextDefault::pushOnElementRecursionStack / findOnElementRecursionStack (attribute
      sets): the same facts;
  (3) StylesheetExecutionContextDefault::pushCurrentTemplate / popCurrentTemplate: the comparison between
      m_currentTemplateStack.size() and the limit, the value of the limit, throw in front of the push, the
      number of entries the constructor and reset() leave on the stack, the callers (ElemTemplate,
      ElemForEach: push in startElement, pop in endElement);
  (4) XPathProcessorImpl: '++m_nestingDepth CMP eMaximumNestingDepth' in front of each recursive descent,
      a '--m_nestingDepth' after it, the value of the limit.

Fail-closed: AnchorError on any shape that is not recognised."""
import re
import srcfacts
from srcfacts import AnchorError, need, read, strip_comments, const_eval, function_body, HEADER


def search_shape(cond, stack, var):
    """classify the condition of the 'already being evaluated' test"""
    c = re.sub(r"\s+", "", cond)
    c = c.replace("std::find", "find")
    whole = "find(%s.begin(),%s.end(),%s)!=%s.end()" % (stack, stack, var, stack)
    tops = ["%s.back()==%s" % (stack, var), "%s==%s.back()" % (var, stack)]
    empt = ["%s.empty()==false&&" % stack, "!%s.empty()&&" % stack, "%s.size()>0&&" % stack, "%s.size()!=0&&" % stack]
    if c == whole:
        return "SearchWholeStack"
    for e in [""] + empt:
        for t in tops:
            if c == e + t or c == e + "(" + t + ")":
                return "SearchTopOnly"
    raise AnchorError("guard test over %s not recognised: %s" % (stack, cond.strip()[:160]))


def balanced_paren(text, i):
    """text[i] == '(' -> index of the matching ')'"""
    d = 0
    for j in range(i, len(text)):
        if text[j] == "(":
            d += 1
        elif text[j] == ")":
            d -= 1
            if d == 0:
                return j
    raise AnchorError("unbalanced parentheses")


def if_condition_before(body, pos, what):
    """the condition of the last 'if (' that starts before pos"""
    ifs = [m for m in re.finditer(r"\bif\s*\(", body) if m.start() < pos]
    if not ifs:
        raise AnchorError("no if in front of " + what)
    m = ifs[-1]
    j = balanced_paren(body, m.end() - 1)
    return body[m.end():j], m.start(), j


def cmp_name(op):
    try:
        return {">=": "CmpGe", ">": "CmpGt"}[op]
    except KeyError:
        raise AnchorError("comparison %r of a depth limit not recognised" % op)


def enum_value(text, name):
    m = need(r"\b" + name + r"\s*=\s*([^,}\n]+)", text, "enumerator " + name)
    return const_eval(m.group(1))


def gen_safeerr():
    # --- (1) variables -----------------------------------------------------------------------
    vs = strip_comments(read("XSLT/VariablesStack.cpp"))
    fx = function_body(vs, r"VariablesStack::findXObject\s*\(", "VariablesStack::findXObject")
    # the recursive-execution alternative (#if defined(XALAN_RECURSIVE_STYLESHEET_EXECUTION)) is not built
    pushes = [m.start() for m in re.finditer(r"m_guardStack\s*\.\s*push_back\s*\(\s*var\s*\)", fx)]
    pops = [m.start() for m in re.finditer(r"m_guardStack\s*\.\s*pop_back\s*\(\s*\)", fx)]
    all_push = len(re.findall(r"m_guardStack\s*\.\s*(?:push_back|emplace_back|insert)\s*\(", vs))
    all_pop = len(re.findall(r"m_guardStack\s*\.\s*(?:pop_back|erase|resize)\s*\(", vs))
    if len(pushes) != 1 or len(pops) != 1 or all_push != 1 or all_pop != 1:
        raise AnchorError("m_guardStack: expected exactly one push_back(var) and one pop_back() (in findXObject), found %d/%d in findXObject, %d/%d in the file"
                          % (len(pushes), len(pops), all_push, all_pop))
    evalm = need(r"theNewValue\s*=\s*var\s*->\s*getValue\s*\(", fx, "findXObject: theNewValue = var->getValue(")
    circ = need(r"CircularVariableDefWasDetected", fx, "findXObject: CircularVariableDefWasDetected")
    cond, if_at, cond_end = if_condition_before(fx, circ.start(), "CircularVariableDefWasDetected")
    if "m_guardStack" not in cond:
        raise AnchorError("findXObject: the if in front of CircularVariableDefWasDetected does not test m_guardStack: " + cond.strip()[:120])
    mode = search_shape(cond, "m_guardStack", "var")
    blk = function_body(fx[cond_end:], r"\{", "findXObject: block of the circular-definition test")
    if not re.search(r"executionContext\s*\.\s*problem\s*\(", blk) or not re.search(r"\beError\b", blk):
        raise AnchorError("findXObject: the circular-definition branch does not call executionContext.problem(..., eError, ...)")
    if not (if_at < pushes[0] < evalm.start() < pops[0]):
        raise AnchorError("findXObject: order test < push_back < getValue < pop_back not found")
    # optional nesting limit: 'if (m_guardStack.size() CMP LIMIT) { ... problem(..., eError, ...) ... }' between the
    # circular-definition test and the push.  Any other use of m_guardStack.size() is an unknown shape.
    size_uses = [m_ for m_ in re.finditer(r"m_guardStack\s*\.\s*size\s*\(\s*\)", fx)]
    vlimited, vlimit, vlimit_name, vlimit_op = False, 0, "", ""
    if size_uses:
        lm = re.search(r"if\s*\(\s*m_guardStack\s*\.\s*size\s*\(\s*\)\s*(>=|>|==|!=|<=|<)\s*(\w+)\s*\)", fx)
        if not lm or len(size_uses) != 1:
            raise AnchorError("findXObject: use of m_guardStack.size() not recognised as a nesting limit")
        if not (cond_end < lm.start() < pushes[0]):
            raise AnchorError("findXObject: the nesting-limit test does not stand between the circular-definition test and the push")
        lblk = function_body(fx[lm.end():], r"\{", "findXObject: block of the nesting-limit test")
        if not re.search(r"executionContext\s*\.\s*problem\s*\(", lblk) or not re.search(r"\beError\b", lblk):
            raise AnchorError("findXObject: the nesting-limit branch does not call executionContext.problem(..., eError, ...)")
        vlimit_op, vlimit_name = lm.group(1), lm.group(2)
        raw = enum_value(strip_comments(read("XSLT/VariablesStack.hpp")), vlimit_name)
        if vlimit_op == ">=":
            vlimit = raw
        elif vlimit_op == ">":
            vlimit = raw + 1          # refused when the size exceeds the constant: one more level runs
        else:
            raise AnchorError("findXObject: comparison %r of the nesting limit not recognised" % vlimit_op)
        if not (0 < vlimit <= 100000):
            raise AnchorError("findXObject: nesting limit %d outside the range the model is built for" % vlimit)
        vlimited = True
    short = need(r"if\s*\(\s*theValue\s*\.\s*null\s*\(\s*\)\s*==\s*false\s*\)\s*\{\s*return\s+theValue\s*;", fx, "findXObject: stored value returned first")
    store = need(r"m_stack\s*\[\s*theEntryIndex\s*\]\s*\.\s*setValue\s*\(\s*theNewValue\s*\)", fx, "findXObject: setValue(theNewValue)")
    if not (short.start() < if_at and pops[0] < store.start()):
        raise AnchorError("findXObject: stored-value short cut / setValue not where the model has them")
    if re.search(r"\bcatch\b|\btry\b", fx):
        raise AnchorError("findXObject contains try/catch: the model has no handler on the error path")
    rs = function_body(vs, r"VariablesStack::reset\s*\(\s*\)", "VariablesStack::reset")
    need(r"m_guardStack\s*\.\s*clear\s*\(\s*\)", rs, "VariablesStack::reset: m_guardStack.clear()")
    eng = strip_comments(read("XSLT/XSLTEngineImpl.cpp"))
    n_throw = 0
    for m in re.finditer(r"XSLTEngineImpl::problem\s*\(", eng):
        b = function_body(eng[m.start():], r"XSLTEngineImpl::problem\s*\(", "XSLTEngineImpl::problem")
        if re.search(r"if\s*\(\s*classification\s*==\s*ProblemListener::eERROR\s*\)\s*\{\s*throw\s+XSLTProcessorException", b):
            n_throw += 1
        else:
            raise AnchorError("XSLTEngineImpl::problem: 'if (classification == ProblemListener::eERROR) throw XSLTProcessorException' not found")
    if n_throw < 2:
        raise AnchorError("XSLTEngineImpl::problem: expected two overloads")
    # top-level variables are pushed unevaluated (lazy): Stylesheet::pushTopLevelVariables
    st = strip_comments(read("XSLT/Stylesheet.cpp"))
    ptv = function_body(st, r"Stylesheet::pushTopLevelVariables\s*\(", "Stylesheet::pushTopLevelVariables")
    need(r"executionContext\s*\.\s*pushVariable\s*\(\s*var\s*->\s*getNameAttribute\s*\(\s*\)\s*,\s*var\s*,", ptv, "pushTopLevelVariables: pushVariable(name, var, ...) (lazy)")

    # --- (2) attribute sets --------------------------------------------------------------------
    ec = strip_comments(read("XSLT/StylesheetExecutionContextDefault.cpp"))
    fo = function_body(ec, r"StylesheetExecutionContextDefault::findOnElementRecursionStack\s*\(", "findOnElementRecursionStack")
    fo1 = re.sub(r"\s+", "", fo).replace("std::find", "find")
    if "find(m_elementRecursionStack.begin(),m_elementRecursionStack.end(),theElement)" in fo1 and \
       re.search(r"returni==m_elementRecursionStack\.end\(\)\?false:true;", fo1):
        amode = "SearchWholeStack"
    elif re.search(r"m_elementRecursionStack\.back\(\)==theElement", fo1):
        amode = "SearchTopOnly"
    else:
        raise AnchorError("findOnElementRecursionStack: search shape not recognised")
    po = function_body(ec, r"StylesheetExecutionContextDefault::pushOnElementRecursionStack\s*\(", "pushOnElementRecursionStack")
    t = need(r"if\s*\(\s*findOnElementRecursionStack\s*\(\s*theElement\s*\)\s*==\s*true\s*\)", po, "pushOnElementRecursionStack: test")
    th = need(r"throw\s+XSLTProcessorException", po, "pushOnElementRecursionStack: throw")
    pb = need(r"m_elementRecursionStack\s*\.\s*push_back\s*\(\s*theElement\s*\)", po, "pushOnElementRecursionStack: push_back")
    if not (t.start() < th.start() < pb.start()) or "InfiniteRecursion_1Param" not in po:
        raise AnchorError("pushOnElementRecursionStack: order test < throw < push_back not found")
    pe = function_body(ec, r"StylesheetExecutionContextDefault::popElementRecursionStack\s*\(", "popElementRecursionStack")
    need(r"m_elementRecursionStack\s*\.\s*pop_back\s*\(\s*\)", pe, "popElementRecursionStack: pop_back")
    eas = strip_comments(read("XSLT/ElemAttributeSet.cpp"))
    se = function_body(eas, r"ElemAttributeSet::startElement\s*\(", "ElemAttributeSet::startElement")
    ee = function_body(eas, r"ElemAttributeSet::endElement\s*\(", "ElemAttributeSet::endElement")
    need(r"pushOnElementRecursionStack\s*\(\s*this\s*\)", se, "ElemAttributeSet::startElement: pushOnElementRecursionStack(this)")
    need(r"popElementRecursionStack\s*\(\s*\)", ee, "ElemAttributeSet::endElement: popElementRecursionStack()")

    if re.search(r"m_elementRecursionStack\s*\.\s*size\s*\(", po):
        raise AnchorError("m_elementRecursionStack.size() is used: the attribute-set model has no nesting limit")
    # --- repairs of K-C03e-2 / K-C03e-4 (recorded as facts; no Coq model depends on them)
    fe = strip_comments(read("XalanExtensions/FunctionEvaluate.cpp"))
    em = re.search(r"\b(eMaximumEvaluateNestingDepth)\s*=\s*(\d+)", fe)
    evaluate_limited = bool(em and re.search(r"thread_local[^;]*s_evaluateNestingDepth", fe) and re.search(r"\+\+\s*s_evaluateNestingDepth", fe)
                            and re.search(r"--\s*s_evaluateNestingDepth", fe) and re.search(r"s_evaluateNestingDepth\s*>\s*eMaximumEvaluateNestingDepth", fe))
    evaluate_limit = int(em.group(2)) if evaluate_limited else 0
    fe_src = strip_comments(read("XSLT/ElemForEach.cpp"))
    sc = function_body(fe_src, r"ElemForEach::sortChildren\s*\(", "ElemForEach::sortChildren")
    nested_sorter = bool(re.search(r"NodeSorter\s+(\w+)\s*\(", sc) and re.search(r"getSortKeys\s*\(\s*\)\s*\.\s*empty\s*\(\s*\)\s*==\s*false", sc)
                         and re.search(r"sorter\s*=\s*&\s*\w+\s*;", sc))

    # --- (3) template nesting ------------------------------------------------------------------
    pc = function_body(ec, r"StylesheetExecutionContextDefault::pushCurrentTemplate\s*\(", "pushCurrentTemplate")
    m = need(r"if\s*\(\s*m_currentTemplateStack\s*\.\s*size\s*\(\s*\)\s*(>=|>|==|!=|<=|<)\s*(\w+)\s*\)", pc, "pushCurrentTemplate: size() CMP limit")
    tcmp = cmp_name(m.group(1))
    lname = m.group(2)
    th = need(r"throw\s+XSLTProcessorException", pc, "pushCurrentTemplate: throw")
    pb = need(r"m_currentTemplateStack\s*\.\s*push_back\s*\(\s*theTemplate\s*\)", pc, "pushCurrentTemplate: push_back")
    if not (m.start() < th.start() < pb.start()) or "InfiniteRecursion_1Param" not in pc:
        raise AnchorError("pushCurrentTemplate: order test < throw < push_back not found")
    if len(re.findall(r"m_currentTemplateStack\s*\.\s*push_back\s*\(", pc)) != 1:
        raise AnchorError("pushCurrentTemplate: more than one push_back")
    hpp = strip_comments(read("XSLT/StylesheetExecutionContextDefault.hpp"))
    tlimit = enum_value(hpp, lname)
    pp = function_body(ec, r"StylesheetExecutionContextDefault::popCurrentTemplate\s*\(", "popCurrentTemplate")
    if len(re.findall(r"m_currentTemplateStack\s*\.\s*pop_back\s*\(\s*\)", pp)) != 1:
        raise AnchorError("popCurrentTemplate: exactly one pop_back expected")
    # every other push_back on the stack pushes the initial null entry (constructors, reset after clear)
    others = re.findall(r"m_currentTemplateStack\s*\.\s*push_back\s*\(\s*([^)]*)\)", ec)
    if sorted(others) != sorted(["0"] * (len(others) - 1) + ["theTemplate"]) or len(others) < 2:
        raise AnchorError("m_currentTemplateStack: push_back sites other than pushCurrentTemplate are not 'push_back(0)': %r" % others)
    rst = function_body(ec, r"StylesheetExecutionContextDefault::reset\s*\(\s*\)", "StylesheetExecutionContextDefault::reset")
    need(r"m_currentTemplateStack\s*\.\s*clear\s*\(\s*\)\s*;\s*m_currentTemplateStack\s*\.\s*push_back\s*\(\s*0\s*\)", rst, "reset: clear(); push_back(0)")
    tinit = 1
    callers = []
    for rel, cls in (("XSLT/ElemTemplate.cpp", "ElemTemplate"), ("XSLT/ElemForEach.cpp", "ElemForEach")):
        src = strip_comments(read(rel))
        s_ = function_body(src, cls + r"::startElement\s*\(", cls + "::startElement")
        e_ = function_body(src, cls + r"::endElement\s*\(", cls + "::endElement")
        if len(re.findall(r"pushCurrentTemplate\s*\(", s_)) != 1 or len(re.findall(r"popCurrentTemplate\s*\(", e_)) != 1:
            raise AnchorError("%s: pushCurrentTemplate in startElement / popCurrentTemplate in endElement not found once each" % cls)
        if len(re.findall(r"pushCurrentTemplate\s*\(", src)) != 1 or len(re.findall(r"popCurrentTemplate\s*\(", src)) != 1:
            raise AnchorError("%s: further pushCurrentTemplate/popCurrentTemplate calls" % cls)
        callers.append(cls)

    # --- (4) XPath parser nesting --------------------------------------------------------------
    xp = strip_comments(read("XPath/XPathProcessorImpl.cpp"))
    xh = strip_comments(read("XPath/XPathProcessorImpl.hpp"))
    sites = re.findall(r"if\s*\(\s*\+\+\s*m_nestingDepth\s*(>=|>|==|!=|<=|<)\s*(\w+)\s*\)\s*\{\s*error\s*\(\s*XalanMessages::ExpressionNestedTooDeeply\s*\)", xp)
    decs = re.findall(r"--\s*m_nestingDepth\s*;", xp)
    other = re.findall(r"m_nestingDepth\s*(?:\+\+|--|\+=|-=)|(?<![+\-])(?:\+\+|--)\s*m_nestingDepth", xp)
    if not sites or len(sites) != len(decs) or len(other) != len(sites) + len(decs):
        raise AnchorError("XPathProcessorImpl: '++m_nestingDepth CMP limit' sites (%d) do not pair with '--m_nestingDepth' (%d; %d modifications in all)" % (len(sites), len(decs), len(other)))
    if len({s for s in sites}) != 1:
        raise AnchorError("XPathProcessorImpl: the nesting tests differ: %r" % sites)
    xcmp = cmp_name(sites[0][0])
    xlimit = enum_value(xh, sites[0][1])
    for fn in ("Expr", "UnaryExpr"):
        b = function_body(xp, r"XPathProcessorImpl::" + fn + r"\s*\(\s*\)", "XPathProcessorImpl::" + fn)
        if len(re.findall(r"\+\+\s*m_nestingDepth", b)) != 1 or len(re.findall(r"--\s*m_nestingDepth", b)) != 1:
            raise AnchorError("XPathProcessorImpl::%s: one increment and one decrement expected" % fn)
    zero = len(re.findall(r"m_nestingDepth\s*=\s*0\s*;", xp))
    if zero < 2:
        raise AnchorError("XPathProcessorImpl: m_nestingDepth = 0 at the start of initXPath/initMatchPattern not found")

    o = HEADER
    o += "(* C03, part \"errors\": guard facts read from XSLT/VariablesStack.cpp, XSLT/StylesheetExecutionContextDefault.{cpp,hpp},\n"
    o += "   XSLT/XSLTEngineImpl.cpp, XSLT/Stylesheet.cpp, XSLT/ElemAttributeSet.cpp, XSLT/ElemTemplate.cpp, XSLT/ElemForEach.cpp,\n"
    o += "   XPath/XPathProcessorImpl.{cpp,hpp}. *)\n"
    o += "From Coq Require Import NArith List String.\nRequire Import XV.SafeErrDefs.\nImport ListNotations.\nOpen Scope string_scope.\n\n"
    o += "(* VariablesStack::findXObject: 'if (%s)' in front of CircularVariableDefWasDetected *)\n" % re.sub(r"\s+", " ", cond.strip())
    o += "Definition variable_guard_search : guard_search := %s.\n" % mode
    o += "(* test < push_back(var) < var->getValue < pop_back; stored value returned first; setValue after the pop;\n"
    o += "   problem(..., eError, ...) throws (XSLTEngineImpl::problem); no try/catch; reset() clears m_guardStack *)\n"
    o += "Definition variable_value_stored : bool := true.\n"
    if vlimited:
        o += "(* nesting limit: 'if (m_guardStack.size() %s %s) problem(eError)' between the circular-definition test and the push; %s = %d *)\n" % (vlimit_op, vlimit_name, vlimit_name, raw)
    else:
        o += "(* no nesting limit: m_guardStack.size() is not tested (finding K-C03e-1) *)\n"
    o += "Definition variable_depth_limited : bool := %s.\n" % ("true" if vlimited else "false")
    o += "Definition variable_nesting_limit : N := %d%%N.\n" % vlimit
    o += "Definition variable_dlimit : option nat := %s.\n" % ("Some (N.to_nat %d%%N)" % vlimit if vlimited else "None")
    o += "(* recorded only: xalan:evaluate nesting counter (K-C03e-2), own NodeSorter for a nested sort (K-C03e-4) *)\n"
    o += "Definition evaluate_nesting_limited : bool := %s.\n" % ("true" if evaluate_limited else "false")
    o += "Definition evaluate_nesting_limit : N := %d%%N.\n" % evaluate_limit
    o += "Definition nested_sort_own_sorter : bool := %s.\n" % ("true" if nested_sorter else "false")
    o += "Definition variable_guard_sites : list (string * N) := [(\"push_back\", %d%%N); (\"pop_back\", %d%%N)].\n\n" % (all_push, all_pop)
    o += "(* StylesheetExecutionContextDefault::findOnElementRecursionStack (attribute sets): no stored value *)\n"
    o += "Definition attribute_set_guard_search : guard_search := %s.\n" % amode
    o += "Definition attribute_set_value_stored : bool := false.\n\n"
    o += "(* pushCurrentTemplate: 'if (m_currentTemplateStack.size() %s %s) throw'; %s = %d;\n" % (m.group(1), lname, lname, tlimit)
    o += "   constructor and reset() leave %d (null) entry; callers: %s *)\n" % (tinit, ", ".join(callers))
    o += "Definition template_limit_cmp : limit_cmp := %s.\n" % tcmp
    o += "Definition template_nesting_limit : N := %d%%N.\n" % tlimit
    o += "Definition template_stack_initial : N := %d%%N.\n\n" % tinit
    o += "(* XPathProcessorImpl: %d sites 'if (++m_nestingDepth %s %s) error(ExpressionNestedTooDeeply)', each followed by '--m_nestingDepth' *)\n" % (len(sites), sites[0][0], sites[0][1])
    o += "Definition xpath_nesting_cmp : limit_cmp := %s.\n" % xcmp
    o += "Definition xpath_nesting_limit : N := %d%%N.\n" % xlimit
    facts = {"variable_depth_limited": vlimited, "variable_nesting_limit": vlimit, "evaluate_nesting_limited": evaluate_limited,
             "evaluate_nesting_limit": evaluate_limit, "nested_sort_own_sorter": nested_sorter, "variable_guard_search": mode, "attribute_set_guard_search": amode, "template_limit_cmp": tcmp, "template_nesting_limit": tlimit,
             "template_stack_initial": tinit, "xpath_nesting_cmp": xcmp, "xpath_nesting_limit": xlimit, "xpath_nesting_sites": len(sites)}
    return o, facts


GENERATORS = {"GenSafeErr": gen_safeerr}
