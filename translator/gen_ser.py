"""gen_ser — translator plugin for C04 (XML serializer): regenerates coq/GenSer.v from the current
sources of /repo on every run.  Facts (all consumed by coq/Ser*.v theorems and by the extracted model):

  * CharFunctor1_0 / CharFunctor1_1 :: s_specialChars tables, s_lastSpecial, the eXXX enum, and the
    comparison constants of attribute()/content()/isForbidden()/isCharRefForbidden()
  * kBufferSize of XalanUTF8Writer / XalanUTF16Writer / XalanOtherEncodingWriter
  * XalanUTF8Writer::write(XalanUnicodeChar): per branch the upper bound, the `m_bufferRemaining < k`
    guard, the stored bytes as (offset, shift, mask) resolved through the leaf helpers
    bitsXtoY / leadingByteOfN / trailingByte, and the decrement of m_bufferRemaining
  * XalanOtherEncodingWriter::write(XalanUnicodeChar): the > 0xFFFF split, its guard, the two stores
  * the single-unit and block write guards of the three writers (anchored; fail closed)
  * surrogate predicates and decodeUTF16SurrogatePair constants
  * the look-ahead guard of FormatterToXMLUnicode::writeCDATAChars
Fail closed: anything not recognised raises AnchorError.
"""
import re
import srcfacts as sf
from srcfacts import AnchorError, need, strip_comments, function_body, HEADER


def num(s):
    s = s.strip().rstrip("uUlL")
    return int(s, 16) if s.lower().startswith("0x") else int(s)


def coq_n_list(xs, per=16):
    rows = []
    for i in range(0, len(xs), per):
        rows.append("; ".join(str(x) for x in xs[i:i + per]))
    return "[" + ";\n   ".join(rows) + "]"


def parse_enum(hpp):
    m = need(r"enum\s*\{\s*eNone\s*=\s*(\w+)\s*,\s*eAttr\s*=\s*(\w+)\s*,\s*eBoth\s*=\s*(\w+)\s*,\s*eForb\s*=\s*(\w+)\s*,\s*eCRFb\s*=\s*(\w+)\s*\}",
             hpp, "eNone/eAttr/eBoth/eForb/eCRFb enum")
    return dict(zip(["eNone", "eAttr", "eBoth", "eForb", "eCRFb"], [num(x) for x in m.groups()]))


def parse_table(cpp, cls, enum):
    last = num(need(r"%s::s_lastSpecial\s*=\s*(\w+)\s*;" % cls, cpp, cls + "::s_lastSpecial").group(1))
    m = need(r"%s::s_specialChars\s*\[\s*s_lastSpecial\s*\+\s*1\s*\]\s*=\s*\{(.*?)\}\s*;" % cls, cpp, cls + "::s_specialChars")
    ents = [e.strip() for e in m.group(1).split(",") if e.strip()]
    vals = []
    for e in ents:
        if e not in enum:
            raise AnchorError("%s::s_specialChars: unknown entry %s" % (cls, e))
        vals.append(enum[e])
    if len(vals) > last + 1:
        raise AnchorError("%s::s_specialChars has more initialisers than s_lastSpecial + 1" % cls)
    vals += [0] * (last + 1 - len(vals))   # C++: missing trailing initialisers are zero
    return last, vals


def parse_functor(hpp, cls, enum):
    body = function_body(hpp, r"class\s+\w+\s+%s\s*\{" % cls, "class " + cls)
    out = {}
    for fn in ("attribute", "content", "isForbidden", "isCharRefForbidden"):
        fb = function_body(body, r"\b%s\s*\(\s*XalanDOMChar\s+theChar\s*\)\s*const\s*\{" % fn, "%s::%s" % (cls, fn))
        m = need(r"return\s+theChar\s*>\s*s_lastSpecial\s*\?\s*false\s*:\s*s_specialChars\s*\[\s*theChar\s*\]\s*(>|==)\s*(\w+)\s*;",
                 fb, "%s::%s body" % (cls, fn))
        if m.group(2) not in enum:
            raise AnchorError("%s::%s compares with unknown %s" % (cls, fn, m.group(2)))
        out[fn] = (m.group(1), enum[m.group(2)])
    rb = function_body(body, r"\brange\s*\(\s*XalanDOMChar\s+theChar\s*\)\s*const\s*\{", cls + "::range")
    need(r"return\s+theChar\s*>\s*s_lastSpecial\s*;", rb, cls + "::range body")
    for fn, op in (("attribute", ">"), ("content", ">"), ("isForbidden", "=="), ("isCharRefForbidden", "==")):
        if out[fn][0] != op:
            raise AnchorError("%s::%s uses operator %s, expected %s" % (cls, fn, out[fn][0], op))
    return out


def parse_leaves(u8):
    bits, lead = {}, {}
    for m in re.finditer(r"inline\s+char\s+(bits\w+)\s*\(\s*XalanUnicodeChar\s+theChar\s*\)\s*\{\s*return\s+static_cast<char>\s*\((.*?)\)\s*;\s*\}", u8, re.S):
        e = m.group(2).strip()
        mm = re.fullmatch(r"\(\s*theChar\s*>>\s*(\w+)\s*\)\s*&\s*(\w+)", e)
        if mm:
            bits[m.group(1)] = (num(mm.group(1)), num(mm.group(2)))
            continue
        mm = re.fullmatch(r"theChar\s*&\s*(\w+)", e)
        if mm:
            bits[m.group(1)] = (0, num(mm.group(1)))
            continue
        raise AnchorError("leaf helper %s not recognised: %s" % (m.group(1), e))
    for m in re.finditer(r"inline\s+char\s+(leadingByteOf\d|trailingByte)\s*\(\s*char\s+theBits\s*\)\s*\{\s*return\s+static_cast<char>\s*\(\s*(\w+)\s*\+\s*theBits\s*\)\s*;\s*\}", u8, re.S):
        lead[m.group(1)] = num(m.group(2))
    if len(bits) < 6 or len(lead) < 4:
        raise AnchorError("UTF-8 leaf helpers: found %d bits helpers, %d byte helpers" % (len(bits), len(lead)))
    return bits, lead


def kbuf(text, what):
    m = need(r"enum\s*\{\s*kBufferSize\s*=\s*(\w+)\s*\}", text, what + " kBufferSize")
    return num(m.group(1))


def parse_utf8_write_cp(u8, bits, lead):
    body = function_body(u8, r"void\s+write\s*\(\s*XalanUnicodeChar\s+theChar\s*\)\s*\{", "XalanUTF8Writer::write(XalanUnicodeChar)")
    body = re.sub(r"\bassert\s*\([^;]*\)\s*;", " ", body)
    # split the if / else-if chain
    parts = re.split(r"\belse\s+if\b|\belse\b", body)
    conds = []
    for p in parts[:-1]:
        m = need(r"\(\s*theChar\s*<=\s*(\w+)\s*\)\s*\{(.*)\}", p, "branch condition theChar <= K in UTF-8 write")
        conds.append((num(m.group(1)), m.group(2)))
    if "throwInvalidCharacterException" not in parts[-1]:
        raise AnchorError("UTF-8 write: final else does not throw")
    if len(conds) != 4:
        raise AnchorError("UTF-8 write: expected 4 branches, found %d" % len(conds))
    first_upper, first_body = conds[0]
    need(r"^\s*write\s*\(\s*char\s*\(\s*theChar\s*\)\s*\)\s*;\s*$", first_body, "first UTF-8 branch delegates to write(char)")
    rows = []
    for upper, b in conds[1:]:
        g = need(r"if\s*\(\s*m_bufferRemaining\s*<\s*(\w+)\s*\)\s*\{\s*flushBuffer\s*\(\s*\)\s*;\s*\}", b, "guard of UTF-8 branch <= %x" % upper)
        stores = []
        rest = b[g.end():]
        toks = re.findall(r"\*m_bufferPosition\s*=\s*(\w+)\s*\(\s*(\w+)\s*\(\s*theChar\s*\)\s*\)\s*;\s*\+\+m_bufferPosition\s*;|m_bufferRemaining\s*-=\s*(\w+)\s*;", rest)
        dec = None
        for byte_fn, bits_fn, d in toks:
            if d:
                dec = num(d)
            else:
                if dec is not None:
                    raise AnchorError("UTF-8 branch: store after the decrement")
                if byte_fn not in lead or bits_fn not in bits:
                    raise AnchorError("UTF-8 branch: unknown helper %s(%s)" % (byte_fn, bits_fn))
                stores.append((lead[byte_fn],) + bits[bits_fn])
        leftover = re.sub(r"\*m_bufferPosition\s*=\s*\w+\s*\(\s*\w+\s*\(\s*theChar\s*\)\s*\)\s*;|\+\+m_bufferPosition\s*;|m_bufferRemaining\s*-=\s*\w+\s*;", "", rest)
        if leftover.strip():
            raise AnchorError("UTF-8 branch <= %x has unrecognised statements: %s" % (upper, leftover.strip()[:80]))
        if dec is None or not stores:
            raise AnchorError("UTF-8 branch <= %x: no stores or no decrement" % upper)
        rows.append((upper, num(g.group(1)), stores, dec))
    return first_upper, rows


def unit_guard(text, sig_rx, what):
    """write(value_type): `if (m_bufferRemaining == 0) flushBuffer();` then one store, --m_bufferRemaining.
    For an unsigned counter `== 0` is `< 1`; returns 1."""
    b = function_body(text, sig_rx, what)
    need(r"if\s*\(\s*m_bufferRemaining\s*==\s*0\s*\)\s*\{\s*flushBuffer\s*\(\s*\)\s*;\s*\}", b, what + ": guard m_bufferRemaining == 0")
    need(r"\*m_bufferPosition\s*=\s*theChar\s*;\s*\+\+m_bufferPosition\s*;\s*--m_bufferRemaining\s*;", b, what + ": store/advance/decrement")
    return 1


def block_guard(text, sig_rx, what, big_rx):
    b = function_body(text, sig_rx, what)
    need(big_rx, b, what + ": direct write of blocks larger than the buffer")
    need(r"if\s*\(\s*m_bufferRemaining\s*<\s*theLength\s*\)\s*\{\s*flushBuffer\s*\(\s*\)\s*;\s*\}", b, what + ": guard m_bufferRemaining < theLength")
    need(r"m_bufferRemaining\s*-=\s*theLength\s*;", b, what + ": decrement by theLength")
    return True


def gen_ser():
    cpp = strip_comments(sf.read("XMLSupport/XalanXMLSerializerBase.cpp"))
    hpp = strip_comments(sf.read("XMLSupport/XalanXMLSerializerBase.hpp"))
    u8 = strip_comments(sf.read("XMLSupport/XalanUTF8Writer.hpp"))
    u16 = strip_comments(sf.read("XMLSupport/XalanUTF16Writer.hpp"))
    oth = strip_comments(sf.read("XMLSupport/XalanOtherEncodingWriter.hpp"))
    fw = strip_comments(sf.read("XMLSupport/XalanFormatterWriter.hpp"))
    uni = strip_comments(sf.read("XMLSupport/FormatterToXMLUnicode.hpp"))

    enum = parse_enum(hpp)
    last10, t10 = parse_table(cpp, "CharFunctor1_0", enum)
    last11, t11 = parse_table(cpp, "CharFunctor1_1", enum)
    f10 = parse_functor(hpp, "CharFunctor1_0", enum)
    f11 = parse_functor(hpp, "CharFunctor1_1", enum)

    bits, lead = parse_leaves(u8)
    k8, k16, ko = kbuf(u8, "XalanUTF8Writer"), kbuf(u16, "XalanUTF16Writer"), kbuf(oth, "XalanOtherEncodingWriter")
    ascii_upper, rows = parse_utf8_write_cp(u8, bits, lead)
    u8_unit = unit_guard(u8, r"void\s+write\s*\(\s*value_type\s+theChar\s*\)\s*\{", "XalanUTF8Writer::write(value_type)")
    block_guard(u8, r"void\s+write\s*\(\s*const\s+value_type\s*\*\s*theChars\s*,\s*size_type\s+theLength\s*\)\s*\{",
                "XalanUTF8Writer::write(const value_type*, size_type)", r"if\s*\(\s*theLength\s*>\s*sizeof\s*\(\s*m_buffer\s*\)\s*\)")
    if not re.search(r"value_type\s+m_buffer\s*\[\s*kBufferSize\s*\]", u8) or not re.search(r"typedef\s+char\s+value_type\s*;", u8):
        raise AnchorError("XalanUTF8Writer: m_buffer is not char[kBufferSize]")
    u16_unit = unit_guard(u16, r"void\s+write\s*\(\s*value_type\s+theChar\s*\)\s*\{", "XalanUTF16Writer::write(value_type)")
    block_guard(u16, r"void\s+write\s*\(\s*const\s+value_type\s*\*\s*theChars\s*,\s*size_type\s+theLength\s*\)\s*\{",
                "XalanUTF16Writer::write(const value_type*, size_type)", r"if\s*\(\s*theLength\s*>\s*kBufferSize\s*\)")
    # other-encoding writer
    ob = function_body(oth, r"void\s+write\s*\(\s*XalanDOMChar\s+theChar\s*\)\s*\{", "XalanOtherEncodingWriter::write(XalanDOMChar)")
    ob = re.sub(r"\bassert\s*\(.*?\)\s*;", " ", ob, flags=re.S)
    need(r"^\{\s*if\s*\(\s*m_bufferRemaining\s*==\s*0\s*\)\s*\{\s*flushBuffer\s*\(\s*\)\s*;\s*\}\s*if\s*\(\s*m_predicate\s*\(\s*theChar\s*\)\s*\)\s*\{\s*\*m_bufferPosition\s*=\s*theChar\s*;\s*\+\+m_bufferPosition\s*;\s*--m_bufferRemaining\s*;\s*\}\s*else\s*\{\s*writeNumericCharacterReference\s*\(\s*theChar\s*\)\s*;\s*\}\s*\}$",
         ob.strip(), "XalanOtherEncodingWriter::write(XalanDOMChar) structure")
    cb = function_body(oth, r"void\s+write\s*\(\s*XalanUnicodeChar\s+theChar\s*\)\s*\{", "XalanOtherEncodingWriter::write(XalanUnicodeChar)")
    m = need(r"if\s*\(\s*theChar\s*>\s*(\w+)\s*\)\s*\{\s*if\s*\(\s*m_bufferRemaining\s*<\s*(\w+)\s*\)\s*\{\s*flushBuffer\s*\(\s*\)\s*;\s*\}"
             r"\s*\*m_bufferPosition\s*=\s*static_cast<XalanDOMChar>\s*\(\s*\(\s*theChar\s*>>\s*(\w+)\s*\)\s*\+\s*(\w+)\s*\)\s*;\s*\+\+m_bufferPosition\s*;"
             r"\s*\*m_bufferPosition\s*=\s*static_cast<XalanDOMChar>\s*\(\s*\(\s*theChar\s*&\s*(\w+)\s*\)\s*\+\s*(\w+)\s*\)\s*;\s*\+\+m_bufferPosition\s*;"
             r"\s*m_bufferRemaining\s*=\s*m_bufferRemaining\s*-\s*size_type\s*\(\s*(\w+)\s*\)\s*;\s*\}"
             r"\s*else\s*\{\s*if\s*\(\s*m_bufferRemaining\s*==\s*0\s*\)\s*\{\s*flushBuffer\s*\(\s*\)\s*;\s*\}\s*\*m_bufferPosition\s*=\s*XalanDOMChar\s*\(\s*theChar\s*\)\s*;\s*\+\+m_bufferPosition\s*;\s*--m_bufferRemaining\s*;\s*\}",
             cb, "XalanOtherEncodingWriter::write(XalanUnicodeChar) structure")
    o_split, o_guard, o_hi_sh, o_hi_add, o_lo_mask, o_lo_add, o_dec = [num(x) for x in m.groups()]
    nb = function_body(oth, r"void\s+writeNumericCharacterReference\s*\(\s*XalanUnicodeChar\s+theChar\s*\)\s*\{", "XalanOtherEncodingWriter::writeNumericCharacterReference")
    need(r"if\s*\(\s*m_bufferRemaining\s*<\s*theLength\s*\)\s*\{\s*flushBuffer\s*\(\s*\)\s*;\s*\}", nb, "writeNumericCharacterReference guard")
    need(r"m_bufferRemaining\s*-=\s*theLength\s*;", nb, "writeNumericCharacterReference decrement")
    # surrogates (the writers use the predicates of XalanFormatterWriter)
    hs = need(r"isUTF16HighSurrogate\s*\(\s*XalanDOMChar\s+theChar\s*\)\s*\{\s*return\s+(\w+)\s*<=\s*theChar\s*&&\s*theChar\s*<=\s*(\w+)\s*\?\s*true\s*:\s*false\s*;", fw, "isUTF16HighSurrogate")
    ls = need(r"isUTF16LowSurrogate\s*\(\s*XalanDOMChar\s+theChar\s*\)\s*\{\s*return\s+(\w+)\s*<=\s*theChar\s*&&\s*theChar\s*<=\s*(\w+)\s*\?\s*true\s*:\s*false\s*;", fw, "isUTF16LowSurrogate")
    db = function_body(fw, r"decodeUTF16SurrogatePair\s*\([^)]*\)\s*\{", "XalanFormatterWriter::decodeUTF16SurrogatePair")
    dm = need(r"if\s*\(\s*isUTF16LowSurrogate\s*\(\s*theLowSurrogate\s*\)\s*==\s*false\s*\)\s*\{\s*throwInvalidUTF16SurrogateException.*?\}\s*return\s*\(\s*\(\s*theHighSurrogate\s*-\s*(\w+)\s*\)\s*<<\s*(\w+)\s*\)\s*\+\s*theLowSurrogate\s*-\s*(\w+)\s*\+\s*(\w+)\s*;",
              db, "decodeUTF16SurrogatePair body")
    # unpaired surrogates are errors in every character-data path of the three writers
    LOW = r"isUTF16LowSurrogate\s*\(\s*%s\s*\)\s*==\s*true\s*\)\s*\{\s*throwInvalidUTF16SurrogateException"
    b = function_body(u8, r"void\s+write\s*\(\s*const\s+XalanDOMChar\s*\*\s*theChars\s*,\s*size_type\s+theLength\s*\)\s*\{", "XalanUTF8Writer::write(const XalanDOMChar*, size_type)")
    need(r"if\s*\(\s*" + LOW % r"theChars\s*\[\s*i\s*\]" + r".*?\}\s*else\s+if\s*\(\s*isUTF16HighSurrogate", b, "UTF-8 write(chars, length): low-surrogate check first")
    b = function_body(u8, r"size_type\s+write\s*\(\s*const\s+XalanDOMChar\s+chars\s*\[\s*\]\s*,\s*size_type\s+start\s*,\s*size_type\s+length\s*\)\s*\{", "XalanUTF8Writer::write(chars, start, length)")
    need(r"if\s*\(\s*" + LOW % "ch" + r".*?\}\s*else\s+if\s*\(\s*isUTF16HighSurrogate", b, "UTF-8 write(chars, start, length): low-surrogate check first")
    b = function_body(u8, r"size_type\s+writeCDATAChar\s*\([^)]*\)\s*\{", "XalanUTF8Writer::writeCDATAChar")
    need(r"if\s*\(\s*outsideCDATA\s*==\s*true\s*\)\s*\{.*?'<'\s*,\s*'!'\s*,\s*'\['\s*,\s*'C'\s*,\s*'D'\s*,\s*'A'\s*,\s*'T'\s*,\s*'A'\s*,\s*'\['\s*\}\s*;\s*write\s*\(\s*s_cdataOpenString\s*,.*?\)\s*;\s*outsideCDATA\s*=\s*false\s*;\s*\}\s*return\s+write\s*\(\s*chars\s*,\s*start\s*,\s*length\s*\)\s*;",
         b, "UTF-8 writeCDATAChar reopens the section")
    b = function_body(u16, r"size_type\s+write\s*\(\s*const\s+value_type\s+chars\s*\[\s*\]\s*,\s*size_type\s+start\s*,\s*size_type\s+length\s*\)\s*\{", "XalanUTF16Writer::write(chars, start, length)")
    need(r"if\s*\(\s*isUTF16HighSurrogate\s*\(\s*ch\s*\)\s*==\s*true\s*\)\s*\{\s*if\s*\(\s*start\s*\+\s*1\s*>=\s*length\s*\)\s*\{\s*throwInvalidUTF16SurrogateException.*?\}\s*else\s+if\s*\(\s*isUTF16LowSurrogate\s*\(\s*chars\s*\[\s*start\s*\+\s*1\s*\]\s*\)\s*==\s*false\s*\)\s*\{\s*throwInvalidUTF16SurrogateException.*?\}\s*else\s*\{\s*write\s*\(\s*ch\s*\)\s*;\s*write\s*\(\s*chars\s*\[\s*\+\+start\s*\]\s*\)\s*;\s*\}\s*\}\s*else\s+if\s*\(\s*" + LOW % "ch" + r".*?\}\s*else\s*\{\s*write\s*\(\s*ch\s*\)\s*;\s*\}\s*return\s+start\s*;",
         b, "UTF-16 write(chars, start, length) validates surrogates")
    b = function_body(u16, r"size_type\s+writeCDATAChar\s*\([^)]*\)\s*\{", "XalanUTF16Writer::writeCDATAChar")
    need(r"if\s*\(\s*outsideCDATA\s*==\s*true\s*\)\s*\{.*?charLessThanSign\s*,\s*XalanUnicode::charExclamationMark\s*,\s*XalanUnicode::charLeftSquareBracket\s*,\s*XalanUnicode::charLetter_C\s*,\s*XalanUnicode::charLetter_D\s*,\s*XalanUnicode::charLetter_A\s*,\s*XalanUnicode::charLetter_T\s*,\s*XalanUnicode::charLetter_A\s*,\s*XalanUnicode::charLeftSquareBracket\s*\}\s*;\s*write\s*\(\s*s_cdataOpenString\s*,.*?\)\s*;\s*outsideCDATA\s*=\s*false\s*;\s*\}\s*return\s+write\s*\(\s*chars\s*,\s*start\s*,\s*length\s*\)\s*;",
         b, "UTF-16 writeCDATAChar reopens the section")
    for fn in ("writePIChars", "writeCommentChars"):
        b = function_body(u16, r"void\s+%s\s*\([^)]*\)\s*\{" % fn, "XalanUTF16Writer::" + fn)
        need(r"for\s*\(\s*size_type\s+i\s*=\s*0\s*;\s*i\s*<\s*theLength\s*;\s*\+\+i\s*\)\s*\{\s*i\s*=\s*write\s*\(\s*data\s*,\s*i\s*,\s*theLength\s*\)\s*;\s*\}", b, "UTF-16 %s loop" % fn)
        b = function_body(oth, r"void\s+%s\s*\([^)]*\)\s*\{" % fn, "XalanOtherEncodingWriter::" + fn)
        need(r"for\s*\(\s*size_type\s+i\s*=\s*0\s*;\s*i\s*<\s*theLength\s*;\s*\+\+i\s*\)\s*\{\s*i\s*=\s*write\s*\(\s*data\s*,\s*i\s*,\s*theLength\s*,\s*m_exceptionFunctor\s*\)\s*;\s*\}", b, "other-encoding %s loop (throwing functor, ++i)" % fn)
    b = function_body(oth, r"size_type\s+write\s*\(\s*const\s+XalanDOMChar\s+chars\s*\[\s*\]\s*,\s*size_type\s+start\s*,\s*size_type\s+length\s*,\s*TranscodingFailureFunctor\s*&\s*failureHandler\s*\)\s*\{", "XalanOtherEncodingWriter::write(chars, start, length, handler)")
    need(r"\}\s*else\s+if\s*\(\s*" + LOW % "ch", b, "other-encoding write: low-surrogate check")
    b = function_body(oth, r"size_type\s+writeCDATAChar\s*\([^)]*\)\s*\{", "XalanOtherEncodingWriter::writeCDATAChar")
    need(r"\}\s*else\s+if\s*\(\s*" + LOW % "theChar", b, "other-encoding writeCDATAChar: low-surrogate check")
    # comments and PIs: runs between line feeds through writeCommentChars / writePIChars
    b = function_body(uni, r"void\s+writeNormalizedData\s*\([^)]*\)\s*\{", "FormatterToXMLUnicode::writeNormalizedData")
    need(r"size_type\s+firstIndex\s*=\s*0\s*;\s*for\s*\(\s*size_type\s+i\s*=\s*0\s*;\s*i\s*<\s*theLength\s*;\s*\+\+i\s*\)\s*\{\s*const\s+XalanDOMChar\s+theChar\s*=\s*theData\s*\[\s*i\s*\]\s*;"
         r"\s*if\s*\(\s*XalanUnicode::charLF\s*==\s*theChar\s*\)\s*\{\s*writeRawData\s*\(\s*theData\s*\+\s*firstIndex\s*,\s*i\s*-\s*firstIndex\s*,\s*isComment\s*\)\s*;\s*outputNewline\s*\(\s*\)\s*;\s*firstIndex\s*=\s*i\s*\+\s*1\s*;\s*\}"
         r"\s*else\s+if\s*\(\s*m_charPredicate\.isCharRefForbidden\s*\(\s*theChar\s*\)\s*"
         r"(\|\|\s*XalanUnicode::charCR\s*==\s*theChar\s*\|\|\s*\(\s*XMLVersion\s*==\s*XML_VERSION_1_1\s*&&\s*\(\s*XalanUnicode::charNEL\s*==\s*theChar\s*\|\|\s*XalanUnicode::charLSEP\s*==\s*theChar\s*\)\s*\)\s*)?"
         r"\)\s*\{\s*throwInvalidXMLCharacterException.*?\}\s*\}\s*writeRawData\s*\(\s*theData\s*\+\s*firstIndex\s*,\s*theLength\s*-\s*firstIndex\s*,\s*isComment\s*\)\s*;",
         b, "writeNormalizedData structure")
    # variant: CR (1.1: NEL, LSEP) inside a comment / PI raises the error too (fixes/C04/06-K-new-1-comment-pi)
    comment_eol_is_error = re.search(r"isCharRefForbidden\s*\(\s*theChar\s*\)\s*\|\|\s*XalanUnicode::charCR\s*==\s*theChar", b) is not None
    b = function_body(uni, r"void\s+writeRawData\s*\([^)]*\)\s*\{", "FormatterToXMLUnicode::writeRawData")
    need(r"if\s*\(\s*isComment\s*==\s*true\s*\)\s*\{\s*m_writer\.writeCommentChars\s*\(\s*theData\s*,\s*theLength\s*\)\s*;\s*\}\s*else\s*\{\s*m_writer\.writePIChars\s*\(\s*theData\s*,\s*theLength\s*\)\s*;\s*\}", b, "writeRawData structure")
    # CDATA look-ahead
    cd = function_body(uni, r"writeCDATAChars\s*\([^)]*\)\s*\{", "FormatterToXMLUnicode::writeCDATAChars")
    cm = need(r"if\s*\(\s*theChar\s*==\s*XalanUnicode::charRightSquareBracket\s*&&\s*length\s*-\s*i\s*>\s*(\w+)\s*&&\s*XalanUnicode::charRightSquareBracket\s*==\s*chars\s*\[\s*i\s*\+\s*1\s*\]\s*&&\s*XalanUnicode::charGreaterThanSign\s*==\s*chars\s*\[\s*i\s*\+\s*2\s*\]\s*\)",
              cd, "writeCDATAChars ']]>' test")
    need(r"outsideCDATA\s*=\s*false\s*;\s*i\s*\+=\s*2\s*;", cd, "writeCDATAChars skips two units after a split")
    need(r"if\s*\(\s*XalanUnicode::charLF\s*==\s*theChar\s*\)\s*\{\s*outputNewline\s*\(\s*\)\s*;\s*\}\s*else\s+if\s*\(\s*m_charPredicate\.isForbidden\s*\(\s*theChar\s*\)\s*\)\s*\{\s*throwInvalidXMLCharacterException.*?\}"
         r"\s*else\s+if\s*\(\s*XalanUnicode::charCR\s*==\s*theChar\s*\|\|\s*\(\s*XMLVersion\s*==\s*XML_VERSION_1_1\s*&&\s*\(\s*XalanUnicode::charNEL\s*==\s*theChar\s*\|\|\s*XalanUnicode::charLSEP\s*==\s*theChar\s*\|\|\s*m_charPredicate\.isCharRefForbidden\s*\(\s*theChar\s*\)\s*\)\s*\)\s*\)"
         r"\s*\{\s*if\s*\(\s*outsideCDATA\s*==\s*false\s*\)\s*\{\s*m_writer\.write\s*\(\s*m_constants\.s_cdataCloseString\s*,\s*m_constants\.s_cdataCloseStringLength\s*\)\s*;\s*outsideCDATA\s*=\s*true\s*;\s*\}\s*writeNumericCharacterReference\s*\(\s*theChar\s*\)\s*;\s*\}"
         r"\s*else\s*\{\s*i\s*=\s*m_writer\.writeCDATAChar\s*\(\s*chars\s*,\s*i\s*,\s*length\s*,\s*outsideCDATA\s*\)\s*;\s*\}",
         cd, "writeCDATAChars: forbidden -> error; CR / 1.1 NEL, LSEP, controls -> leave the section and write a reference")
    for k, v in (("charCR", 13), ("charNEL", 133), ("charLSEP", 8232), ("charLF", 10)):
        m = need(r"static\s+const\s+XalanDOMChar\s+%s\s*=\s*(\w+)\s*;" % k, strip_comments(sf.read("PlatformSupport/XalanUnicode.hpp")), "XalanUnicode::" + k)
        if num(m.group(1)) != v:
            raise AnchorError("XalanUnicode::%s is %s, the model assumes %d" % (k, m.group(1), v))

    o = HEADER
    o += "From Coq Require Import NArith List.\nImport ListNotations.\nLocal Open Scope N_scope.\n\n"
    o += "(* XalanXMLSerializerBase.hpp: enum *)\n"
    for k in ("eNone", "eAttr", "eBoth", "eForb", "eCRFb"):
        o += "Definition %s : N := %d.\n" % (k, enum[k])
    for tag, last, tbl, fn in (("1_0", last10, t10, f10), ("1_1", last11, t11, f11)):
        o += "\n(* CharFunctor%s *)\n" % tag
        o += "Definition last_special_%s : N := %d.\n" % (tag, last)
        o += "Definition special_chars_%s : list N :=\n  %s.\n" % (tag, coq_n_list(tbl))
        o += "Definition attribute_gt_%s : N := %d.\n" % (tag, fn["attribute"][1])
        o += "Definition content_gt_%s : N := %d.\n" % (tag, fn["content"][1])
        o += "Definition forbidden_eq_%s : N := %d.\n" % (tag, fn["isForbidden"][1])
        o += "Definition charref_forbidden_eq_%s : N := %d.\n" % (tag, fn["isCharRefForbidden"][1])
    o += "\n(* writer buffers *)\n"
    o += "Definition kbuf_utf8 : N := %d.\nDefinition kbuf_utf16 : N := %d.\nDefinition kbuf_other : N := %d.\n" % (k8, k16, ko)
    o += "\n(* write(value_type): flush when m_bufferRemaining < k (the source has == 0) *)\n"
    o += "Definition unit_guard_utf8 : N := %d.\nDefinition unit_guard_utf16 : N := %d.\nDefinition unit_guard_other : N := 1.\n" % (u8_unit, u16_unit)
    o += "\n(* XalanUTF8Writer::write(XalanUnicodeChar): code points <= utf8_ascii_upper go through write(char);\n"
    o += "   then rows (upper bound, guard k of `m_bufferRemaining < k`, stores (offset, shift, mask), decrement);\n"
    o += "   above the last upper bound: exception *)\n"
    o += "Definition utf8_ascii_upper : N := %d.\n" % ascii_upper
    o += "Definition utf8_rows : list (N * N * list (N * N * N) * N) :=\n  [%s].\n" % ";\n   ".join(
        "(%d, %d, [%s], %d)" % (u, g, "; ".join("(%d, %d, %d)" % s for s in st), d) for (u, g, st, d) in rows)
    o += "\n(* XalanOtherEncodingWriter::write(XalanUnicodeChar) *)\n"
    o += "Definition other_split_gt : N := %d.\nDefinition other_pair_guard : N := %d.\n" % (o_split, o_guard)
    o += "Definition other_hi_shift : N := %d.\nDefinition other_hi_add : N := %d.\n" % (o_hi_sh, o_hi_add)
    o += "Definition other_lo_mask : N := %d.\nDefinition other_lo_add : N := %d.\nDefinition other_pair_decrement : N := %d.\n" % (o_lo_mask, o_lo_add, o_dec)
    o += "\n(* surrogates *)\n"
    o += "Definition high_sur_lo : N := %d.\nDefinition high_sur_hi : N := %d.\n" % (num(hs.group(1)), num(hs.group(2)))
    o += "Definition low_sur_lo : N := %d.\nDefinition low_sur_hi : N := %d.\n" % (num(ls.group(1)), num(ls.group(2)))
    o += "Definition sur_sub_hi : N := %d.\nDefinition sur_shift : N := %d.\nDefinition sur_sub_lo : N := %d.\nDefinition sur_add : N := %d.\n" % tuple(num(x) for x in dm.groups())
    o += "\n(* FormatterToXMLUnicode::writeCDATAChars: ']]>' is split when length - i > k *)\n"
    o += "Definition cdata_lookahead_gt : N := %d.\n" % num(cm.group(1))
    # variants of the legacy FormatterToXML (differential oracle only; not modelled)
    leg = strip_comments(sf.read("XMLSupport/FormatterToXML.cpp"))
    ade = function_body(leg, r"FormatterToXML::accumDefaultEscape\s*\([^)]*\)\s*\{", "FormatterToXML::accumDefaultEscape")
    wnc = function_body(leg, r"FormatterToXML::writeNormalizedChars\s*\([^)]*\)\s*\{", "FormatterToXML::writeNormalizedChars")
    legacy = {
        # 07-K-new-5: TAB/LF/CR, NEL, LSEP are written as references under XML 1.0 instead of raising an error
        "legacy_10_legal_chars_ok": re.search(r"XalanUnicode::charNEL\s*==\s*ch", ade) is None and re.search(r"!\s*m_isXML1_1\s*&&\s*XalanUnicode::charLSEP\s*==\s*ch", ade) is None
                                    and re.search(r"ch\s*!=\s*XalanUnicode::charCR", ade) is not None,
        # 08-K-new-3: U+009F and (under 1.1) U+2028 are written as references
        "legacy_11_c1_lsep_refs": re.search(r"j\s*<=\s*0x9F", leg) is not None and re.search(r"m_isXML1_1\s*==\s*true\s*&&\s*XalanUnicode::charLSEP\s*==\s*ch", ade) is not None,
        # 09-K-new-6: the CDATA section is (re)opened after a leading unrepresentable character
        "legacy_cdata_reopens_at_start": re.search(r"i\s*!=\s*0\s*&&\s*i\s*<\s*end\s*-\s*1", wnc) is None and re.search(r"if\s*\(\s*i\s*<\s*end\s*-\s*1\s*\)", wnc) is not None,
    }
    o += "\n(* variants of the legacy FormatterToXML, used by the differential oracle of props/C04.py only *)\n"
    for k in sorted(legacy):
        o += "Definition %s : bool := %s.\n" % (k, "true" if legacy[k] else "false")
    o += "\n(* FormatterToXMLUnicode::writeNormalizedData: CR (version 1.1: NEL, LSEP) in a comment or PI is an error *)\n"
    o += "Definition comment_eol_is_error : bool := %s.\n" % ("true" if comment_eol_is_error else "false")
    facts = {"kbuf": [k8, k16, ko], "utf8_rows": [(u, g, len(st), d) for (u, g, st, d) in rows],
             "other_pair_guard": o_guard, "special10_nonzero": sum(1 for x in t10 if x), "special11_nonzero": sum(1 for x in t11 if x)}
    return o, facts


GENERATORS = {"GenSer": gen_ser}
