(* PatSource.v — the structure of the C++ source that PatDefs.v was written against, spelled out so that
   Properties_C09.v can compare it with coq/GenPat.v (regenerated from /repo by translator/gen_pat.py on
   every run).  One entry per modelling decision:
     modelled_cases            the constructors of PatDefs.mstep, in the order of stepPattern's switch:
                               MAnyFn, MFunc, MRoot, MAttr, MAny, MAnyWP (shares MAny's case), MImm
     imm_excluded              step_ok (child): negb is_attr && negb is_root
     any_document_excluded_for body MAny tests negb is_root, body MAnyWP does not
     root_types                the model has ONE root kind (KRoot); eFROM_ROOT accepts a document node and the
                               root of a result tree fragment (DOCUMENT_FRAGMENT_NODE) for it.  The child-axis
                               steps (MImm, MAny) must exclude the same node types for the model to speak about
                               fragments as well (imm_excluded, root_types).  A source that excludes only
                               DOCUMENT_NODE there (imm_excluded_documents_only, root_types_documents_only: the
                               state before "fix: the root of a result tree fragment matched a child-axis step")
                               is mirrored by the model for source documents only; props/C09.py judges fragments
                               by its own in-stylesheet oracle (fragment stream), which fires on that source
     left_check_skipped_after  any_like: compile's left_check is None after MAny | MAnyWP | MAnyFn, else the
                               closure re-entering step_pattern on the steps to the left
                               (GenPat.any_checks_left, stop_ends_pattern); body MRoot accepts the root only
                               (GenPat.root_is_exact)
     name_test_attribute_axes  one attr_test for the matcher and for the re-run
     step_ops / head_ops       compile_steps / compile *)
From Coq Require Import List String.
Import ListNotations.
Open Scope string_scope.

Definition modelled_cases : list string :=
  ["eMATCH_ANY_ANCESTOR_WITH_FUNCTION_CALL"; "eOP_FUNCTION"; "eFROM_ROOT"; "eMATCH_ATTRIBUTE";
   "eMATCH_ANY_ANCESTOR"; "eMATCH_ANY_ANCESTOR_WITH_PREDICATE"; "eMATCH_IMMEDIATE_ANCESTOR"].
Definition root_types : list string := ["DOCUMENT_FRAGMENT_NODE"; "DOCUMENT_NODE"].
Definition root_types_documents_only : list string := ["DOCUMENT_NODE"].
Definition imm_excluded : list string := "ATTRIBUTE_NODE" :: root_types.
Definition imm_excluded_documents_only : list string := "ATTRIBUTE_NODE" :: root_types_documents_only.
Definition any_shared : list string := ["eMATCH_ANY_ANCESTOR"; "eMATCH_ANY_ANCESTOR_WITH_PREDICATE"].
Definition any_document_excluded : list string := ["eMATCH_ANY_ANCESTOR"].
Definition left_any_like : list string :=
  ["eMATCH_ANY_ANCESTOR"; "eMATCH_ANY_ANCESTOR_WITH_FUNCTION_CALL"; "eMATCH_ANY_ANCESTOR_WITH_PREDICATE"].
Definition attribute_axes : list string := ["eFROM_ATTRIBUTES"; "eMATCH_ATTRIBUTE"].
Definition compiled_step_ops : list string := ["eMATCH_ATTRIBUTE"; "eMATCH_IMMEDIATE_ANCESTOR"].
Definition compiled_head_ops : list string :=
  ["eMATCH_ANY_ANCESTOR_WITH_FUNCTION_CALL"; "eMATCH_ANY_ANCESTOR_WITH_PREDICATE"; "eNODETYPE_NODE";
   "eFROM_ROOT"; "eNODETYPE_ROOT"].
Definition attribute_tester_axis : string := "eFROM_ATTRIBUTES".
