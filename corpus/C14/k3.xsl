# K3 repaired by a fix: commit - regression case, must pass (apply to <doc/>)
<xsl:stylesheet version="1.0" xmlns:xsl="http://www.w3.org/1999/XSL/Transform"><xsl:template match="/"><xsl:element name="a:e" namespace="u4"><xsl:attribute name="b:x" xmlns:b="u4">u4</xsl:attribute></xsl:element></xsl:template></xsl:stylesheet>
