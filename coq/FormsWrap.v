(* FormsWrap.v - C05: the wrapper walk numbers a Xerces DOM in pre-order; for a DOM in XPath-normal
   form it presents the same nodes in the same order as the native tree of the DOM's serialisation. *)
From Coq Require Import NArith List Bool Lia ZifyBool ZifyNat ZifyN.
Import ListNotations.
Require Import XV.GenForms XV.FormsDefs XV.FormsModel XV.FormsTree.

Section xnode_ind2.
  Variable Q : xnode -> Prop.
  Hypothesis HE : forall q a kids, Forall Q kids -> Q (XElem q a kids).
  Hypothesis HR : forall nm kids, Forall Q kids -> Q (XEntRef nm kids).
  Hypothesis HT : forall s, Q (XText s).
  Hypothesis HD : forall s, Q (XCData s).
  Hypothesis HC : forall s, Q (XComment s).
  Hypothesis HP : forall t d, Q (XPi t d).
  Hypothesis HY : forall nm k, Q (XDoctype nm k).
  Fixpoint xnode_ind2 (x : xnode) : Q x :=
    let go := fix go (l : list xnode) : Forall Q l :=
                match l with [] => Forall_nil Q | y :: r => Forall_cons y (xnode_ind2 y) (go r) end in
    match x with
    | XElem q a kids => HE q a kids (go kids)
    | XEntRef nm kids => HR nm kids (go kids)
    | XText s => HT s | XCData s => HD s | XComment s => HC s | XPi t d => HP t d | XDoctype nm k => HY nm k
    end.
End xnode_ind2.

Lemma wrap_go_eq : forall kids m,
  (fix go (n : N) (l : list xnode) {struct l} : list wnode * N :=
     match l with
     | [] => ([], n)
     | k :: r => let (k', n') := wrap1 n k in let (r', n'') := go n' r in (k' ++ r', n'')
     end) m kids = wrap_list m kids.
Proof. induction kids as [|k r IH]; intro m; [reflexivity|]. cbn [wrap_list]. destruct (wrap1 m k). rewrite IH. reflexivity. Qed.

Lemma wrap1_elem : forall n q a kids,
  wrap1 n (XElem q a kids) =
  ([WElem n q (fst (number_attrs (N.succ n) a)) (fst (wrap_list (snd (number_attrs (N.succ n) a)) kids))],
   snd (wrap_list (snd (number_attrs (N.succ n) a)) kids)).
Proof.
  intros. cbn [wrap1]. unfold wrap_attrs_in_start. destruct (number_attrs (N.succ n) a) as [l n1]. rewrite wrap_go_eq.
  cbn [fst snd]. destruct (wrap_list n1 kids); reflexivity.
Qed.

Lemma wrap1_entref : forall n nm kids,
  wrap1 n (XEntRef nm kids) = ([WEntRef n nm (fst (wrap_list (N.succ n) kids))], snd (wrap_list (N.succ n) kids)).
Proof. intros. cbn [wrap1]. rewrite wrap_go_eq. destruct (wrap_list (N.succ n) kids); reflexivity. Qed.

Lemma wrap_list_cons : forall n x r,
  wrap_list n (x :: r) = (fst (wrap1 n x) ++ fst (wrap_list (snd (wrap1 n x)) r), snd (wrap_list (snd (wrap1 n x)) r)).
Proof. intros; cbn [wrap_list]. destruct (wrap1 n x) as [k' n']. cbn [fst snd]. destruct (wrap_list n' r); reflexivity. Qed.

Lemma wflat_app : forall a b, wflat (a ++ b) = wflat a ++ wflat b.
Proof. intros; unfold wflat; apply flat_map_app. Qed.

Lemma seq_ok_nil : forall n, seq_ok n [] n.
Proof. intro; split; cbn; [exact I | lia]. Qed.

Lemma seq_ok_one : forall n, seq_ok n [n] (N.succ n).
Proof. intro; split; cbn; [auto | lia]. Qed.

(** ** all DOMs: the indexes of the linked nodes increase in document order *)
Fixpoint asc_ok (n : N) (l : list N) (m : N) : Prop :=
  match l with
  | [] => (n <= m)%N
  | x :: r => (n <= x)%N /\ asc_ok (N.succ x) r m
  end.

Lemma asc_ok_weaken : forall l n k m, (n <= k)%N -> asc_ok k l m -> asc_ok n l m.
Proof. destruct l; cbn [asc_ok]; intros; [lia | split; [lia | tauto]]. Qed.

Lemma asc_ok_app : forall l1 l2 n k m, asc_ok n l1 k -> asc_ok k l2 m -> asc_ok n (l1 ++ l2) m.
Proof.
  induction l1 as [|x l1 IH]; intros l2 n k m H1 H2; cbn [app asc_ok] in *.
  - eapply asc_ok_weaken; eassumption.
  - destruct H1 as [Hx H1]. split; [assumption | eapply IH; eassumption].
Qed.

Lemma asc_ok_ascending : forall l n m, asc_ok n l m -> ascending_from n l.
Proof. induction l; cbn [asc_ok ascending_from]; intros; [exact I | split; [tauto | eapply IHl; apply H]]. Qed.

Lemma seq_ok_asc : forall l n m, seq_ok n l m -> asc_ok n l m.
Proof.
  induction l as [|x l IH]; intros n m [H1 H2]; cbn [asc_ok incr_from length] in *; [lia|].
  destruct H1 as [Hx H1]. subst x. split; [lia|]. apply IH. split; [assumption | lia].
Qed.

Definition Qx (x : xnode) : Prop := forall n, asc_ok n (wflat (fst (wrap1 n x))) (snd (wrap1 n x)).

Lemma wrap_list_asc : forall xs, Forall Qx xs -> forall n, asc_ok n (wflat (fst (wrap_list n xs))) (snd (wrap_list n xs)).
Proof.
  induction 1 as [|x r Hx _ IH]; intro n.
  - cbn. lia.
  - rewrite wrap_list_cons. cbn [fst snd]. rewrite wflat_app. eapply asc_ok_app; [apply Hx | apply IH].
Qed.

Lemma Qx_all : forall x, Qx x.
Proof.
  apply xnode_ind2; unfold Qx; intros.
  - rewrite wrap1_elem. cbn [fst snd]. unfold wflat at 1. cbn [flat_map wflat1]. unfold wrap_attrs_in_start. rewrite app_nil_r.
    change (n :: map fst (fst (number_attrs (N.succ n) a)) ++ flat_map wflat1 (fst (wrap_list (snd (number_attrs (N.succ n) a)) kids)))
      with ([n] ++ map fst (fst (number_attrs (N.succ n) a)) ++ wflat (fst (wrap_list (snd (number_attrs (N.succ n) a)) kids))).
    eapply asc_ok_app; [apply seq_ok_asc, seq_ok_one|]. eapply asc_ok_app; [| apply wrap_list_asc; assumption].
    destruct (number_attrs (N.succ n) a) as [l n1] eqn:E. apply seq_ok_asc. apply (number_attrs_ok _ _ _ _ E).
  - rewrite wrap1_entref. cbn [fst snd]. unfold wflat at 1. cbn [flat_map wflat1]. rewrite app_nil_r.
    change (n :: flat_map wflat1 (fst (wrap_list (N.succ n) kids))) with ([n] ++ wflat (fst (wrap_list (N.succ n) kids))).
    eapply asc_ok_app; [apply seq_ok_asc, seq_ok_one | apply wrap_list_asc; assumption].
  - apply seq_ok_asc, seq_ok_one.
  - apply seq_ok_asc, seq_ok_one.
  - apply seq_ok_asc, seq_ok_one.
  - apply seq_ok_asc, seq_ok_one.
  - cbn. lia.
Qed.

Lemma wrap_ascending : forall xs, ascending_from wrap_first_index (wflat (wrap xs)).
Proof.
  intro xs. unfold wrap. eapply asc_ok_ascending. apply wrap_list_asc. apply Forall_forall. intros; apply Qx_all.
Qed.

(** ** without a document type node the numbering is consecutive *)
Definition Qs (x : xnode) : Prop := xnodoctype x = true -> forall n, seq_ok n (wflat (fst (wrap1 n x))) (snd (wrap1 n x)).

Lemma wrap_list_seq : forall xs, Forall Qs xs -> forallb xnodoctype xs = true ->
  forall n, seq_ok n (wflat (fst (wrap_list n xs))) (snd (wrap_list n xs)).
Proof.
  induction 1 as [|x r Hx _ IH]; intros Hd n.
  - apply seq_ok_nil.
  - cbn [forallb] in Hd. apply andb_prop in Hd; destruct Hd as [H1 H2].
    rewrite wrap_list_cons. cbn [fst snd]. rewrite wflat_app. eapply seq_ok_app; [apply Hx; assumption | apply IH; assumption].
Qed.

Lemma Qs_all : forall x, Qs x.
Proof.
  apply (xnode_ind2 Qs); unfold Qs; intros; try discriminate; try apply seq_ok_one.
  - cbn [xnodoctype] in H0. rewrite wrap1_elem. cbn [fst snd]. unfold wflat at 1. cbn [flat_map wflat1]. unfold wrap_attrs_in_start. rewrite app_nil_r.
    change (n :: map fst (fst (number_attrs (N.succ n) a)) ++ flat_map wflat1 (fst (wrap_list (snd (number_attrs (N.succ n) a)) kids)))
      with ([n] ++ map fst (fst (number_attrs (N.succ n) a)) ++ wflat (fst (wrap_list (snd (number_attrs (N.succ n) a)) kids))).
    eapply seq_ok_app; [apply seq_ok_one|]. eapply seq_ok_app; [| apply wrap_list_seq; assumption].
    destruct (number_attrs (N.succ n) a) as [l n1] eqn:E. apply (number_attrs_ok _ _ _ _ E).
  - cbn [xnodoctype] in H0. rewrite wrap1_entref. cbn [fst snd]. unfold wflat at 1. cbn [flat_map wflat1]. rewrite app_nil_r.
    change (n :: flat_map wflat1 (fst (wrap_list (N.succ n) kids))) with ([n] ++ wflat (fst (wrap_list (N.succ n) kids))).
    eapply seq_ok_app; [apply seq_ok_one | apply wrap_list_seq; assumption].
Qed.

Lemma wrap_preorder : forall xs, forallb xnodoctype xs = true -> incr_from wrap_first_index (wflat (wrap xs)).
Proof.
  intros xs H. unfold wrap. apply (wrap_list_seq xs); [apply Forall_forall; intros; apply Qs_all | exact H].
Qed.

(** ** the wrapper presents exactly the DOM's nodes except the document type, in the DOM's order *)
Definition Sx (x : xnode) : Prop := forall n, map wstrip (fst (wrap1 n x)) = map x2t (drop_doctype1 x).

Lemma wrap_list_strip : forall xs, Forall Sx xs -> forall n, map wstrip (fst (wrap_list n xs)) = map x2t (drop_doctype xs).
Proof.
  induction 1 as [|x r Hx _ IH]; intro n; [reflexivity|].
  rewrite wrap_list_cons. cbn [fst]. unfold drop_doctype in *. cbn [flat_map]. rewrite !map_app, Hx, IH. reflexivity.
Qed.

Lemma Sx_all : forall x, Sx x.
Proof.
  apply xnode_ind2; unfold Sx; intros; try reflexivity.
  - rewrite wrap1_elem. cbn [fst map wstrip drop_doctype1 x2t]. rewrite (wrap_list_strip kids H).
    destruct (number_attrs (N.succ n) a) as [l n1] eqn:E. destruct (number_attrs_ok _ _ _ _ E) as [_ H1]. cbn [fst]. rewrite H1. reflexivity.
  - rewrite wrap1_entref. reflexivity.
Qed.

Lemma wrap_strip : forall xs, map wstrip (wrap xs) = map x2t (drop_doctype xs).
Proof. intro xs. unfold wrap. apply wrap_list_strip. apply Forall_forall. intros; apply Sx_all. Qed.

(* a parser reports nothing for the document type *)
Lemma sax_of_drop_list : forall xs, Forall (fun x => sax_of x = flat_map sax_of (drop_doctype1 x)) xs ->
  flat_map sax_of xs = flat_map sax_of (flat_map drop_doctype1 xs).
Proof.
  induction 1 as [|x r Hx _ IH]; [reflexivity|]. cbn [flat_map]. rewrite flat_map_app, <- Hx, <- IH. reflexivity.
Qed.

Lemma sax_of_drop1 : forall x, sax_of x = flat_map sax_of (drop_doctype1 x).
Proof.
  apply (xnode_ind2 (fun x => sax_of x = flat_map sax_of (drop_doctype1 x))); intros; cbn [drop_doctype1 flat_map sax_of]; rewrite ?app_nil_r; try reflexivity.
  - rewrite (sax_of_drop_list kids H). reflexivity.
  - rewrite (sax_of_drop_list kids H). reflexivity.
Qed.

Lemma sax_of_drop : forall xs, sax_of_list xs = sax_of_list (drop_doctype xs).
Proof. intro xs. apply sax_of_drop_list. apply Forall_forall. intros; apply sax_of_drop1. Qed.

(** the native tree of a canonical-attribute tree, with indexes and the xmlns:xml attribute erased, is the tree *)
Lemma str_eqb_eq : forall a b, str_eqb a b = true -> a = b.
Proof.
  induction a as [|x a IH]; destruct b as [|y b]; cbn [str_eqb]; intro H; try discriminate; [reflexivity|].
  apply andb_prop in H; destruct H as [H1 H2]. apply N.eqb_eq in H1. rewrite (IH _ H2), H1. reflexivity.
Qed.

Lemma attrs_eqb_eq : forall a b, attrs_eqb a b = true -> a = b.
Proof.
  induction a as [|[x1 x2] a IH]; destruct b as [|[y1 y2] b]; cbn [attrs_eqb fst snd]; intro H; try discriminate; [reflexivity|].
  apply andb_prop in H; destruct H as [H1 H3]. apply andb_prop in H1; destruct H1 as [H1 H2].
  rewrite (str_eqb_eq _ _ H1), (str_eqb_eq _ _ H2), (IH _ H3). reflexivity.
Qed.

Lemma filter_keep : forall (a : list attr), has_xml_ns a = false ->
  filter (fun x => negb (str_eqb (fst x) s_xmlns_xml)) a = a.
Proof.
  induction a as [|x a IH]; intro H; [reflexivity|]. cbn [has_xml_ns existsb] in H. apply orb_false_elim in H; destruct H as [H1 H2].
  set (f := fun x0 : str * str => negb (str_eqb (fst x0) s_xmlns_xml)) in *.
  change (filter f (x :: a)) with (if f x then x :: filter f a else filter f a).
  assert (Hx : f x = true) by (unfold f; rewrite H1; reflexivity). rewrite Hx, IH; [reflexivity | exact H2].
Qed.

Lemma strip_attrs : forall first a n, attrs_canonical a = true ->
  filter (fun x => negb (str_eqb (fst x) s_xmlns_xml)) (map snd (fst (number_attrs n (order_attrs first a)))) = a.
Proof.
  intros first a n H. unfold attrs_canonical in H. apply andb_prop in H; destruct H as [H1 H2].
  apply attrs_eqb_eq in H2. destruct (has_xml_ns a) eqn:Ex; [discriminate|].
  destruct (number_attrs n (order_attrs first a)) as [l n1] eqn:E. destruct (number_attrs_ok _ _ _ _ E) as [_ H3]. cbn [fst]. rewrite H3.
  unfold order_attrs in H2 |- *. rewrite Ex. cbn [negb andb app] in H2. rewrite H2.
  rewrite filter_app.
  match goal with |- ?l1 ++ ?l2 = _ => replace l2 with a by (symmetry; exact (filter_keep a Ex)) end.
  destruct first; reflexivity.
Qed.

Definition Tx (t : tree) : Prop := forall first n, tattrs_canonical t = true -> strip true (fst (number first n t)) = t.

Lemma number_list_strip : forall ts, Forall Tx ts -> forall first n, forallb tattrs_canonical ts = true ->
  map (strip true) (fst (number_list first n ts)) = ts.
Proof.
  induction 1 as [|t r Ht _ IH]; intros first n Hc; [reflexivity|].
  cbn [forallb] in Hc. apply andb_prop in Hc; destruct Hc as [H1 H2].
  rewrite number_list_cons. cbn [fst map]. rewrite Ht, IH by assumption. reflexivity.
Qed.

Lemma Tx_all : forall t, Tx t.
Proof.
  apply tree_ind2; unfold Tx; intros; try reflexivity.
  cbn [tattrs_canonical] in H0. apply andb_prop in H0; destruct H0 as [H1 H2].
  rewrite number_elem. cbn [fst strip andb]. rewrite strip_attrs by assumption. rewrite number_list_strip by assumption. reflexivity.
Qed.

Lemma x2t_plain_events : forall xs, xnormal xs = true ->
  build_sax (events_of_list (map x2t xs)) = Some (fst (number_list true first_index (map x2t xs))).
Proof.
  intros xs H. unfold xnormal in H. apply andb_prop in H; destruct H as [_ H]. apply build_canonical, H.
Qed.

Lemma sax_of_plain_list : forall xs, Forall (fun x => xplain x = true -> sax_of x = events_of (x2t x)) xs ->
  forallb xplain xs = true -> flat_map sax_of xs = flat_map events_of (map x2t xs).
Proof.
  induction 1 as [|x r Hx _ IH]; intro Hp; [reflexivity|].
  cbn [forallb] in Hp. apply andb_prop in Hp; destruct Hp as [H1 H2].
  cbn [flat_map map]. rewrite Hx, IH by assumption. reflexivity.
Qed.

Lemma sax_of_plain : forall x, xplain x = true -> sax_of x = events_of (x2t x).
Proof.
  apply (xnode_ind2 (fun x => xplain x = true -> sax_of x = events_of (x2t x))); intros; try reflexivity; try discriminate.
  cbn [xplain] in H0. cbn [sax_of x2t events_of]. rewrite (sax_of_plain_list kids H H0). reflexivity.
Qed.

Lemma sax_of_list_plain : forall xs, forallb xplain xs = true -> sax_of_list xs = events_of_list (map x2t xs).
Proof. intros xs H. apply sax_of_plain_list; [apply Forall_forall; intros; apply sax_of_plain; assumption | exact H]. Qed.

Lemma wrap_eq_build : forall xs, xnormal (drop_doctype xs) = true ->
  exists d, build_sax (sax_of_list xs) = Some d
            /\ map (strip true) d = map wstrip (wrap xs)
            /\ incr_from first_index (flat d)
            /\ ascending_from wrap_first_index (wflat (wrap xs)).
Proof.
  intros xs H. exists (fst (number_list true first_index (map x2t (drop_doctype xs)))).
  assert (Hpl : forallb xplain (drop_doctype xs) = true).
  { unfold xnormal in H. apply andb_prop in H; destruct H as [H _]. apply andb_prop in H; tauto. }
  rewrite sax_of_drop, (sax_of_list_plain _ Hpl).
  pose proof (x2t_plain_events _ H) as Hb. split; [exact Hb|]. split; [|split].
  - rewrite wrap_strip. unfold xnormal in H. apply andb_prop in H; destruct H as [H _]. apply andb_prop in H; destruct H as [_ H].
    apply number_list_strip; [apply Forall_forall; intros; apply Tx_all | exact H].
  - eapply index_preorder; exact Hb.
  - apply wrap_ascending.
Qed.
