(* Extraction of the match-pattern compiler model and the score model (C09 part "compile"). ExtrOcamlBasic only. *)
From Coq Require Import ZArith.
Require Import ExtrOcamlBasic.
Require Import XV.XpAst XV.XpcLexDefs XV.XpcParseDefs XV.PatcDefs XV.PatcScoreDefs.
(* ocaml/conv.ml (prepended to every driver) mentions the constructors of Z *)
Definition patc_z_probe : Z := Z.succ 0%Z.
Extraction "extracted/patc_model.ml" pcompile_here pcompile compile_here str_eqb simple_pattern_score target_class
  node_test_score no_empty_alt patc_z_probe.
