#!/usr/bin/env python3
"""Regenerates /verif/MANIFEST.json from the table below (keeps it valid at all times)."""
import json, os, sys
VERIF = os.path.dirname(os.path.dirname(os.path.abspath(__file__)))

ALL = ["C%02d" % i for i in range(1, 21)]

CLAIMED = {
 "C18": dict(
    engine="num", category="proof", design_ref="DESIGN.md section 7 (C18), section 12",
    technique="Coq theorems (induction, Z arithmetic) over a Gallina model of the conversions + translator-regenerated constants + extraction-based correspondence with the rebuilt library",
    text="Machine-checked theorems over an executable Gallina model of NumberToDOMString / DoubleSupport::toDouble / round / floor / ceiling: sprintf output fits the (regenerated) buffer for every double and precision; doValidate = the XPath Number lexical grammar; invalid strings give NaN; floor/ceiling/round equal their definitions on the exact rational value with the sign-of-zero rule; the full round-trip statement is refuted by a computed witness (known finding K5). The model is tied to the code by regenerated constants (GenNum.v) and by running the extracted model and the rebuilt library on ~34k (quick) boundary-targeted doubles and strings; an independent exact oracle (Python Fraction / correctly rounded float) decides the property on the library's outputs.",
    note="Trusted: Coq 8.16.1 kernel (vm_compute, no native_compute), no axioms (all theorems closed under the global context), srcfacts.py translator, ExtrOcamlBasic extraction + OCaml driver, g++ harness, glibc printf/atof behave as modelled (validated by the correspondence), Python float()/Fraction as oracle. The round-trip theorem for 2^-63 <= |x| is not yet proved in Coq (oracle-checked only)."),
}

def load_claims():
    """props/<ID>.claim.json files (same keys as the CLAIMED entries) add or override claims."""
    import glob
    # only claims the coordinator has reviewed and run (props/approved.txt: one property id per line)
    ap = os.path.join(VERIF, "props", "approved.txt")
    approved = set(open(ap).read().split()) if os.path.exists(ap) else set()
    for p in sorted(glob.glob(os.path.join(VERIF, "props", "C*.claim.json"))):
        pid = os.path.basename(p).split(".")[0]
        if pid in approved:
            CLAIMED[pid] = json.load(open(p))


NOT_YET = "not claimed yet: the model/theorems/correspondence for this property are still being built (see DESIGN.md section 10 for the order); no check is registered rather than an unsound one"


def main():
    load_claims()
    checks = []
    for pid in ALL:
        if pid not in CLAIMED:
            continue
        c = CLAIMED[pid]
        checks.append({
            "property_id": pid,
            "quick_cmd": "python3 check.py %s --tier quick" % pid,
            "thorough_cmd": "python3 check.py %s --tier thorough" % pid,
            "evidence_file": "/verif/evidence/%s.json" % pid,
            "replay_cmd_template": "python3 check.py %s --replay {path}" % pid,
            "engine": c["engine"],
            "level_claimed": {"category": c["category"], "text": c["text"], "design_ref": c["design_ref"]},
            "level_note": c["note"],
            "technique": c["technique"],
        })
    engines = {}
    for pid, c in CLAIMED.items():
        engines.setdefault(c["engine"], []).append(pid)
    man = {
        "version": 1,
        "setup_cmd": "python3 check.py --setup",
        "hooks": {
            "guard": "APACHE_XALAN_C_VERIF",
            "enable": "cmake -S /repo -B /verif/.build/plain -DCMAKE_CXX_FLAGS='-Wno-error -DAPACHE_XALAN_C_VERIF' (done by every check through vlib/core.py:build_lib); harness drivers are compiled with -DAPACHE_XALAN_C_VERIF too",
            "baseline_off_cmd": "cmake --build /repo/_build && ctest --test-dir /repo/_build -j8 --timeout 900",
            "source_commits": [l.strip() for l in os.popen("git -C /repo log --format=%H --grep='^verification hook'").read().split()],
            "add_only": True,
        },
        "engines": [{"name": e, "path": "/verif/coq + /verif/harness/%s.cpp + /verif/ocaml/%s_driver.ml" % (e, e),
                     "serves_properties": sorted(ps), "kind_free_text": "Coq model + theorems, extracted OCaml model, C++ correspondence driver"}
                    for e, ps in sorted(engines.items())],
        "checks": checks,
        "notes": "All checks: python3 check.py <ID> --tier quick|thorough (cwd /verif). Known findings: /verif/KNOWN_FINDINGS.txt. Design: /verif/DESIGN.md.",
        "not_applicable": [{"property_id": p, "reason": NOT_YET} for p in ALL if p not in CLAIMED],
    }
    with open(os.path.join(VERIF, "MANIFEST.json"), "w") as f:
        json.dump(man, f, indent=1)
        f.write("\n")


if __name__ == "__main__":
    main()
