(* model side of the C08 correspondence: same line protocol as harness/outopt.cpp (modes X and T).
   Output: "<id> ok <u:units>" | "<id> err <code>" | "<id> oob"
   (units = bytes for UTF-8 / ISO-8859-1 / US-ASCII, UTF-16 code units for UTF-16). *)
let ascii (s : string) : n list = List.init (String.length s) (fun i -> n_of_int (Char.code s.[i]))

let rec events (t : string list) : event list =
  match t with
  | [] -> []
  | "S" :: name :: n :: r ->
      let n = int_of_string n in
      let rec attrs k r acc =
        if k = 0 then (List.rev acc, r) else
        match r with
        | a :: v :: r' -> attrs (k - 1) r' ((u16_of_token a, u16_of_token v) :: acc)
        | _ -> failwith "bad script" in
      let (al, r') = attrs n r [] in
      EStart (u16_of_token name, al) :: events r'
  | "E" :: name :: r -> EEnd (u16_of_token name) :: events r
  | "T" :: s :: r -> EText (u16_of_token s) :: events r
  | "C" :: s :: r -> ECdata (u16_of_token s) :: events r
  | "M" :: s :: r -> EComment (u16_of_token s) :: events r
  | "P" :: a :: b :: r -> EPI (u16_of_token a, u16_of_token b) :: events r
  | _ -> failwith "bad script"

let kind_of = function
  | "UTF-8" -> EncUtf8 | "UTF-16" -> EncUtf16 | "ISO-8859-1" -> EncLatin1 | "US-ASCII" -> EncAscii
  | _ -> failwith "encoding"

let opt (s : string) : n list =
  if s = "-" then [] else if String.length s >= 2 && String.sub s 0 2 = "u:" then u16_of_token s else ascii s

let () =
  let ic = if Array.length Sys.argv > 1 then open_in Sys.argv.(1) else stdin in
  iter_lines ic (fun line ->
    match split_ws line with
    | "X" :: id :: enc :: ver :: ind :: omit :: sa :: dsys :: dpub :: rest ->
        (try
          let i = int_of_string ind in
          let c = { x_enc = kind_of enc; x_v11 = (ver = "1.1"); x_encname = ascii enc;
                    x_indent = (if i < 0 then None else Some (n_of_int i)); x_decl = (omit <> "1");
                    x_standalone = opt sa; x_dtsys = opt dsys; x_dtpub = opt dpub } in
          (match serialize_opt c (events rest) with
           | Ok l -> Printf.printf "%s ok %s\n" id (token_of_u16 l)
           | Oob -> Printf.printf "%s oob\n" id
           | Thrown c -> Printf.printf "%s err %d\n" id (int_of_n c))
        with Failure m -> Printf.printf "%s badscript\n" id)
    | "T" :: id :: enc :: rest ->
        (try (match ser_text_as_coded (kind_of enc) (events rest) with
              | Some l -> Printf.printf "%s ok %s\n" id (token_of_u16 l)
              | None -> Printf.printf "%s err 4\n" id)
         with Failure m -> Printf.printf "%s badscript\n" id)
    | "O" :: id :: apiind :: apienc :: rest ->
        (* option selection: O id <setIndent|-1> <setOutputEncoding|-> ( "|" | attr=value )*   one "|" opens an xsl:output element *)
        (try
          let yes v = (v = "yes") in
          let attr_of (t : string) : oattr =
            match String.index_opt t '=' with
            | None -> failwith "attr"
            | Some i ->
              let k = String.sub t 0 i and v = String.sub t (i + 1) (String.length t - i - 1) in
              (match k with
               | "m" -> AMethod (match v with "xml" -> MXml | "html" -> MHtml | "text" -> MText | _ -> failwith "method")
               | "v" -> AVersion (ascii v) | "i" -> AIndent (yes v) | "e" -> AEncoding (ascii v) | "o" -> AOmitDecl (yes v)
               | "s" -> AStandalone (ascii v) | "ds" -> ADoctypeSystem (ascii v) | "dp" -> ADoctypePublic (ascii v)
               | "c" -> ACdataElems (List.map ascii (String.split_on_char ',' v))
               | "ia" -> AIndentAmount (z_of_int (int_of_string v)) | "eu" -> AEscapeUrls (yes v) | "om" -> AOmitMeta (yes v)
               | _ -> failwith "attr") in
          let rec elems (t : string list) (cur : oattr list) (acc : oattr list list) =
            match t with
            | [] -> List.rev (List.rev cur :: acc)
            | "|" :: r -> elems r [] (List.rev cur :: acc)
            | x :: r -> elems r (attr_of x :: cur) acc in
          let outs = (match rest with "|" :: r -> elems r [] [] | [] -> [] | _ -> failwith "attr") in
          let r = process_outputs outs in
          let a = { a_indent = z_of_int (int_of_string apiind); a_encoding = (if apienc = "-" then [] else ascii apienc) } in
          let ((doind, amount), enc) = select_coded r a in
          let str l = String.concat "" (List.map (fun c -> String.make 1 (Char.chr (int_of_n c))) l) in
          Printf.printf "%s %s %d %d %s %s\n" id
            (match r.r_method with MNone -> "none" | MXml -> "xml" | MHtml -> "html" | MText -> "text")
            (if doind then 1 else 0) (int_of_n amount) (if enc = [] then "-" else str enc)
            (if r.r_cdata = [] then "-" else String.concat "," (List.map str r.r_cdata))
        with Failure m -> Printf.printf "%s badscript\n" id)
    | "Q" :: id :: flag :: name :: rest ->          (* HTML table look-up: Q id EMPTY|RAW|BLOCK <u:name> ; Q id ATTRURL|ATTREMPTY <u:elem> <u:attr> *)
        let b = (match flag, rest with
          | "EMPTY", _ -> html_is flag_EMPTY (u16_of_token name)
          | "RAW", _ -> html_is flag_RAW (u16_of_token name)
          | "BLOCK", _ -> html_is flag_BLOCK (u16_of_token name)
          | "ATTRURL", a :: _ -> html_attr_is aflag_ATTRURL (u16_of_token name) (u16_of_token a)
          | "ATTREMPTY", a :: _ -> html_attr_is aflag_ATTREMPTY (u16_of_token name) (u16_of_token a)
          | _ -> false) in
        Printf.printf "%s %s\n" id (if b then "1" else "0")
    | _ -> ())
