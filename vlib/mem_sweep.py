"""Fault-enumeration oracle for C19: drives harness/mem_sweep.cpp (see its head comment for the
command-line protocol).  Every random choice comes from the `rng` argument."""
import os, subprocess, collections
from concurrent.futures import ThreadPoolExecutor

from . import core

CORPUS = os.path.join(core.VERIF, "corpus", "C19")

SCENARIOS = ["ctor", "compile", "parse", "transform", "transform_compiled", "fail_message", "fail_xpath", "two"]


def _p(name):
    return os.path.join(CORPUS, name)


# (stylesheet, source) pairs for the succeeding scenarios
POOL = [(_p("s%d.xsl" % i), _p("s%d.xml" % i)) for i in range(1, 9)]
# inputs of the failing scenarios
FAIL_INPUTS = {
    "fail_message": (_p("fail_message.xsl"), _p("s1.xml")),
    "fail_xpath": (_p("fail_xpath.xsl"), _p("s1.xml")),
}


def build(variant="plain"):
    """Build library + harness; returns (exe, ok, log)."""
    ok, log = core.build_lib(variant)
    if not ok:
        return None, False, log
    return core.build_harness("mem_sweep", variant)


def env_for(variant="plain"):
    """Environment for running the harness built for `variant`."""
    e = dict(os.environ)
    if variant == "asan":
        # exitcode=99: the parent process of the harness reports `asan`; leaks are the manager's business;
        # the SEGV handler of ASan is kept (it prints the faulting frame) - the child then exits 99.
        e["ASAN_OPTIONS"] = "exitcode=99:detect_leaks=0:abort_on_error=0:allocator_may_return_null=1:handle_abort=0"
        e["UBSAN_OPTIONS"] = "halt_on_error=1:exitcode=99:print_stacktrace=1"
    return e


def _kv(line):
    d = {}
    for tok in line.split():
        if "=" in tok:
            a, b = tok.split("=", 1)
            d[a] = b
    return d


def _opts(throw, release):
    o = []
    if throw:
        o.append("--throw=" + throw)
    if release:
        o.append("--release")
    return o


def count(exe, scenario, xsl, xml, throw=None, release=False, env=None, timeout=120):
    """One run without injection.  Returns dict(N, outstanding, foreign, double, handler_allocs, status,
    nullfree, bytes, via, handler_sigs=[...], dtor_sigs=[(sig, first_k, count)...], raw, rc)."""
    p = subprocess.run([exe] + _opts(throw, release) + [scenario, xsl, xml, "count"],
                       stdout=subprocess.PIPE, stderr=subprocess.PIPE, universal_newlines=True,
                       errors="replace", timeout=timeout, env=env, cwd=CORPUS)
    res = {"rc": p.returncode, "raw": p.stdout, "handler_sigs": [], "dtor_sigs": [], "badfree": None, "N": None}
    for ln in p.stdout.splitlines():
        if ln.startswith("N="):
            d = _kv(ln)
            for k in ("N", "outstanding", "foreign", "double", "handler_allocs", "status", "nullfree", "bytes", "outlen"):
                if k in d:
                    res[k] = int(d[k])
            res["via"] = d.get("via")
        elif ln.startswith("HANDLER "):
            res["handler_sigs"].append(ln[8:].strip())
        elif ln.startswith("DTOR "):
            f = ln.split()
            d = _kv(ln)
            res["dtor_sigs"].append((f[1], int(d.get("first_k", 0)), int(d.get("count", 0))))
        elif ln.startswith("BADFREE "):
            res["badfree"] = ln[8:].strip()
    if res["N"] is None:
        res["error"] = "no count line (rc=%s): %s" % (p.returncode, (p.stderr or "")[-400:])
    return res


def _ranges(ks):
    """compact k-list: 1,2,3,7 -> '1-3,7'"""
    out, i, ks = [], 0, sorted(set(ks))
    while i < len(ks):
        j = i
        while j + 1 < len(ks) and ks[j + 1] == ks[j] + 1:
            j += 1
        out.append(str(ks[i]) if i == j else "%d-%d" % (ks[i], ks[j]))
        i = j + 1
    return ",".join(out)


_INT_FIELDS = ("k", "outstanding", "size", "status", "N")


def _parse_record(ln):
    d = _kv(ln)
    if "k" not in d or "outcome" not in d:
        return None
    for f in _INT_FIELDS:
        v = d.get(f, "-")
        try:
            d[f] = int(v)
        except ValueError:
            d[f] = None
    hs = d.get("hsig", "-")
    d["hsig"] = [] if hs in ("-", "") else hs.split(";")
    return d


def _run_chunk(exe, scenario, xsl, xml, ks, mode, throw, release, env, timeout):
    try:
        p = subprocess.run([exe] + _opts(throw, release) + [scenario, xsl, xml, "sweep", mode, _ranges(ks)],
                           stdout=subprocess.PIPE, stderr=subprocess.PIPE, universal_newlines=True,
                           errors="replace", timeout=timeout, env=env, cwd=CORPUS)
        out, rc = p.stdout, p.returncode
    except subprocess.TimeoutExpired as ex:
        out = ex.stdout or ""
        if isinstance(out, bytes):
            out = out.decode("utf-8", "replace")
        rc = 124
    recs = [r for r in (_parse_record(ln) for ln in out.splitlines()) if r]
    seen = set(r["k"] for r in recs)
    for k in ks:                      # the harness itself died / timed out: never silently drop an index
        if k not in seen:
            recs.append({"k": k, "outcome": "harness-error", "via": "-", "outstanding": None, "after": "-",
                         "size": None, "status": None, "phase": "-", "end": "rc=%s" % rc, "ctx": "-", "N": None,
                         "dtor": "-", "hsig": [], "fsig": "-", "sig": "-"})
    return recs


def sweep(exe, scenario, xsl, xml, ks, mode="single", jobs=None, throw=None, release=False, env=None,
          timeout=600):
    """Inject a failure at every k of `ks` (one forked child each).  Returns the records sorted by k; each
    has k, outcome, via, outstanding, after, size, sig, and also status, phase (where the child was when it
    ended: call|destroy|after|done), end (how it ended), ctx (normal|catch|unwind at the refused allocation),
    N, out (same|diff|-), dtor (path  allocation<...<innermost destructor frame  of the refused allocation or
    '-'), hsig (list of signatures of allocations made inside handlers / during unwinding after the refusal),
    fsig (site of the first foreign/double free), and in persist mode refused, lsig, ldtor (last refusal)."""
    ks = sorted(set(int(k) for k in ks if k >= 1))
    if not ks:
        return []
    jobs = jobs or core.NPROC
    # every chunk is one harness process (start-up + warm-up = 0.15-0.3 s): at least ~12 indices per chunk
    nchunks = max(1, min(jobs, (len(ks) + 11) // 12))
    # interleave so that every chunk gets cheap (small k) and expensive (large k) indices
    chunks = [ks[i::nchunks] for i in range(nchunks)]
    recs = []
    with ThreadPoolExecutor(max_workers=jobs) as ex:
        futs = [ex.submit(_run_chunk, exe, scenario, xsl, xml, c, mode, throw, release, env, timeout) for c in chunks if c]
        for f in futs:
            recs.extend(f.result())
    recs.sort(key=lambda r: r["k"])
    return recs


def choose_ks(N, rng, quick=True, near=(), first=40, strat=110):
    """quick: the first `first` indices + ~`strat` stratified random ones + every index in `near` (+-1)
    + the last 3; thorough: all of 1..N."""
    if not quick or N <= first + strat:
        return list(range(1, N + 1))
    ks = set(range(1, min(N, first) + 1))
    lo, hi = first + 1, N
    width = (hi - lo + 1) / float(strat)
    for i in range(strat):
        a = lo + int(i * width)
        b = max(a, min(hi, lo + int((i + 1) * width) - 1))
        ks.add(rng.randint(a, b))
    for k in near:
        for d in (-1, 0, 1):
            if 1 <= k + d <= N:
                ks.add(k + d)
    ks.update(k for k in (N - 2, N - 1, N) if k >= 1)
    return sorted(ks)


def short_sig(sig, n=3):
    if not sig or sig == "-":
        return "-"
    return "<".join(sig.split("<")[:n])


def classify(rec):
    """-> (cls, detail).  cls == 'ok' for a contained failure (clean / notreached with after=ok);
    otherwise the finding class '<outcome>@<3 innermost frames of the failing allocation>'.
    A clean outcome whose follow-up transformation fails is 'after-bad@...'."""
    oc = rec.get("outcome")
    if oc in ("clean", "notreached"):
        if rec.get("after") == "ok":
            return "ok", ""
        return ("after-bad@" + short_sig(rec.get("sig")),
                "k=%s via=%s after=%s" % (rec.get("k"), rec.get("via"), rec.get("after")))
    sig = rec.get("sig")
    if oc == "swallowed":
        # the API reported success although an allocation was refused; out=diff: the result differs from
        # the run without injection (e.g. document() catches everything and goes on with an empty node-set)
        return ("swallowed:%s@%s" % (rec.get("out"), short_sig(sig)),
                "k=%s status=0 out=%s after=%s" % (rec.get("k"), rec.get("out"), rec.get("after")))
    if oc in ("foreign", "double"):
        detail_sig = rec.get("fsig")
    else:
        detail_sig = rec.get("dtor")
    return ("%s@%s" % (oc, short_sig(sig)),
            "k=%s phase=%s end=%s ctx=%s size=%s where=%s" % (rec.get("k"), rec.get("phase"), rec.get("end"),
                                                             rec.get("ctx"), rec.get("size"), detail_sig))


def summarize(recs):
    """(Counter of outcomes, {class: [example records]}) - convenience for reports."""
    outcomes = collections.Counter(r["outcome"] + ("/" + r["via"] if r["outcome"] == "clean" else "") for r in recs)
    classes = collections.OrderedDict()
    for r in recs:
        c, _ = classify(r)
        if c != "ok":
            classes.setdefault(c, []).append(r)
    return outcomes, classes
