(* C02, extension part (family xpx): executable models — AS CODED — of
     xalan:difference / intersection / distinct / hasSameNodes, set:leading / trailing / has-same-node
       (XalanExtensions/Function{Difference,Intersection,Distinct,HasSameNodes}.cpp, XalanEXSLT/XalanEXSLTSet.cpp),
     math:min / max / highest / lowest (XalanEXSLT/XalanEXSLTMath.cpp findValue / findNodes),
     str:padding / str:align (XalanEXSLT/XalanEXSLTString.cpp),
     the tokenizer id() splits its argument with (PlatformSupport/StringTokenizer.cpp, XPath/FunctionID.cpp),
   and the independent specifications they are proved against.  Definitions only.

   Nodes are their document-order index (N); node lists are what NodeRefListBase holds; strings are lists of
   UTF-16 code units (N).  Numbers: math:min/max only compare, so a number is NaN or the image of a non-NaN
   double under an order-preserving map into Z (both zeros map to 0: DoubleSupport::equal(-0, 0) holds, neither
   comparison separates them, and string() prints both as "0", so the sign of a zero result is not modelled).  The decisions and tables come from GenXpx.v, which is
   regenerated from /repo on every run. *)
From Coq Require Import List NArith ZArith Bool Arith.
Require Import XV.GenXpx.
Import ListNotations.

(* ---------------------------------------------------------------------------------------------- *)
(* node lists *)

(* NodeRefListBase::indexOf(n) != npos *)
Definition mem (x : N) (l : list N) : bool := existsb (N.eqb x) l.

(* MutableNodeRefList::addNodeInDocOrder on a list that is in document order: the node goes to its place,
   a node that is already there is not added again (C12 owns the list class itself) *)
Fixpoint insert (x : N) (l : list N) : list N :=
  match l with
  | [] => [x]
  | y :: t => if N.ltb x y then x :: l else if N.eqb x y then l else y :: insert x t
  end.

(* strictly ascending = document order and duplicate-free *)
Fixpoint sorted (l : list N) : Prop :=
  match l with
  | [] => True
  | x :: t => (forall y, In y t -> (x < y)%N) /\ sorted t
  end.

(* FunctionDifference / FunctionIntersection::execute: for every node of the first list, in list order:
   if (found in the second list) = flag then addNodeInDocOrder *)
Definition select (keep_found : bool) (l1 l2 : list N) : list N :=
  fold_left (fun acc n => if Bool.eqb (mem n l2) keep_found then insert n acc else acc) l1 [].

Definition difference := select gen_difference_keep_found.
Definition intersection := select gen_intersection_keep_found.

(* XalanEXSLTFunctionHasSameNode::execute *)
Definition has_same_node (l1 l2 : list N) : bool :=
  match l1, l2 with
  | [], _ => false
  | _, [] => false
  | _, _ => existsb (fun n => mem n l2) l1
  end.

(* FunctionHasSameNodes::execute (xalan:hasSameNodes) *)
Definition has_same_nodes (l1 l2 : list N) : bool :=
  if Nat.eqb (length l1) (length l2) then forallb (fun n => mem n l2) l1 else false.

(* XalanEXSLTSet.cpp findNodes + Leading/TrailingCompareFunctor; isNodeAfter(a, b) = index a > index b *)
Definition is_after (a b : N) : bool := N.ltb b a.
Definition leading_pred (c n : N) : bool :=
  (if gen_leading_excludes_boundary then negb (N.eqb c n) else true) && negb (is_after c n).
Definition trailing_pred (c n : N) : bool := is_after c n.

Definition find_nodes (pred : N -> N -> bool) (l1 l2 : list N) : list N :=
  match l1, l2 with
  | [], _ => l1
  | _, [] => l1
  | _, n :: _ =>
      if mem n l1 then fold_left (fun acc c => if pred c n then insert c acc else acc) l1 [] else []
  end.
Definition leading := find_nodes leading_pred.
Definition trailing := find_nodes trailing_pred.

(* FunctionDistinct::execute.  sv = string-value of a node (DOMServices::getNodeData), K = strings *)
Section Distinct.
  Variable K : Type.
  Variable keqb : K -> K -> bool.
  Variable sv : N -> K.

  Definition kmem (k : K) (seen : list K) : bool := existsb (keqb k) seen.

  Definition distinct_step (st : list N * list K) (n : N) : list N * list K :=
    if kmem (sv n) (snd st) then st else (insert n (fst st), sv n :: snd st).

  Definition distinct (l : list N) : list N :=
    match l with
    | [x] => [x]                                       (* theLength == 1: addNode(item(0)) *)
    | _ => fst (fold_left distinct_step l ([], []))
    end.

  (* the specification: scan in document order, keep a node unless an earlier one had the same string-value *)
  Fixpoint dist_rec (seen : list K) (l : list N) : list N :=
    match l with
    | [] => []
    | n :: t => if kmem (sv n) seen then dist_rec seen t else n :: dist_rec (sv n :: seen) t
    end.
End Distinct.

(* string equality on code units *)
Fixpoint str_eqb (a b : list N) : bool :=
  match a, b with
  | [], [] => true
  | x :: a', y :: b' => N.eqb x y && str_eqb a' b'
  | _, _ => false
  end.

(* string-value table for the extracted model: node -> code units *)
Fixpoint sv_of (tbl : list (N * list N)) (n : N) : list N :=
  match tbl with
  | [] => []
  | (m, s) :: t => if N.eqb m n then s else sv_of t n
  end.
Definition distinct_tbl (tbl : list (N * list N)) (l : list N) : list N := distinct (list N) str_eqb (sv_of tbl) l.

(* ---------------------------------------------------------------------------------------------- *)
(* math:min / max / highest / lowest *)

Inductive xnum := XNaN | XV (z : Z).
Definition is_nan (x : xnum) : bool := match x with XNaN => true | _ => false end.
(* DoubleSupport::greaterThan (dir = true) / lessThan (dir = false): false when an operand is NaN *)
Definition better (dir : bool) (a b : xnum) : bool :=
  match a, b with
  | XV x, XV y => if dir then Z.ltb y x else Z.ltb x y
  | _, _ => false
  end.
Definition xeq (a b : xnum) : bool := match a, b with XV x, XV y => Z.eqb x y | _, _ => false end.

(* findValue: the first value, then for i = 1 .. : NaN -> result NaN, stop; better -> replace *)
Fixpoint fv_loop (dir : bool) (res : xnum) (l : list xnum) : xnum :=
  match l with
  | [] => res
  | c :: t => if is_nan c then c else if better dir c res then fv_loop dir c t else fv_loop dir res t
  end.
Definition find_value (dir : bool) (l : list xnum) : xnum :=
  match l with [] => XNaN | x :: t => fv_loop dir x t end.
Definition math_min := find_value gen_min_greater.
Definition math_max := find_value gen_max_greater.

(* findNodes: first value NaN -> empty; then NaN -> clear, stop; equal -> addNodeInDocOrder; better -> restart *)
Fixpoint fn_loop (dir : bool) (cur : xnum) (acc : list N) (l : list (N * xnum)) : list N :=
  match l with
  | [] => acc
  | (n, c) :: t =>
      if is_nan c then []
      else if xeq c cur then fn_loop dir cur (insert n acc) t
      else if better dir c cur then fn_loop dir c [n] t
      else fn_loop dir cur acc t
  end.
Definition find_nodes_m (dir : bool) (l : list (N * xnum)) : list N :=
  match l with
  | [] => []
  | (n, v) :: t => if is_nan v then [] else fn_loop dir v [n] t
  end.
Definition math_lowest := find_nodes_m gen_lowest_greater.
Definition math_highest := find_nodes_m gen_highest_greater.

(* specification side *)
Definition has_nan (l : list xnum) : bool := existsb is_nan l.
Definition dir_le (dir : bool) (a b : Z) : Prop := if dir then (b <= a)%Z else (a <= b)%Z.

(* ---------------------------------------------------------------------------------------------- *)
(* str:padding, str:align *)

(* XalanDOMString::assign/append(str, pos, n) *)
Definition substr (s : list N) (pos n : nat) : list N := firstn n (skipn pos s).

(* the for(;;) loop of XalanEXSLTFunctionPadding::execute; fuel = remaining length *)
Fixpoint pad_loop (fuel rem : nat) (pad acc : list N) : list N :=
  match fuel with
  | O => acc
  | S f => if Nat.ltb (length pad) rem then pad_loop f (rem - length pad) pad (acc ++ pad)
           else acc ++ substr pad 0 rem
  end.
(* n = size_type(round(first argument)); the classes n < 0 / NaN are known finding C03 K-new-2, outside the model *)
Definition padding (n : nat) (pad : list N) : list N :=
  match n, pad with
  | O, _ => []
  | _, [] => []
  | _, [c] => repeat c n
  | _, _ => pad_loop n n pad []
  end.

Inductive align_mode := ALeft | ARight | ACenter.
(* equals(keyword, theAlignmentString.c_str(), length of keyword): the first |keyword| code units are compared,
   the c_str() terminator (0) ends a shorter argument *)
Fixpoint prefix_eqb (kw s : list N) : bool :=
  match kw, s with
  | [], _ => true
  | k :: kw', c :: s' => N.eqb k c && prefix_eqb kw' s'
  | _ :: _, [] => false
  end.
(* exact = the whole argument is compared (the repaired form), otherwise only its first |keyword| units *)
Definition kw_test (exact : bool) (kw a : list N) : bool := if exact then str_eqb a kw else prefix_eqb kw a.
Definition align_mode_gen (exact : bool) (a : list N) : align_mode :=
  if kw_test exact gen_align_center a then ACenter else if kw_test exact gen_align_right a then ARight else ALeft.
Definition align_mode_of (a : list N) : align_mode := align_mode_gen gen_align_exact_keyword a.

Definition align (t p : list N) (m : align_mode) : list N :=
  let lt := length t in let lp := length p in
  if Nat.eqb lt lp then t
  else if Nat.ltb lp lt then substr t 0 lp
  else match m with
       | ALeft => t ++ substr p lt (lp - lt)
       | ARight => substr p 0 (lp - lt) ++ t
       | ACenter => let st := Nat.div (lp - lt) 2 in
                    substr p 0 st ++ t ++ substr p (lt + st) (lp - lt - st)
       end.
Definition align_start (lt lp : nat) (m : align_mode) : nat :=
  match m with ALeft => 0 | ARight => lp - lt | ACenter => Nat.div (lp - lt) 2 end.

(* ---------------------------------------------------------------------------------------------- *)
(* StringTokenizer (fReturnTokens = false) as FunctionID::execute drives it *)

Definition is_delim (d : list N) (c : N) : bool := existsb (N.eqb c) d.

(* FindNextDelimiterIndex from the current index: the run before the next delimiter, and the rest *)
Fixpoint span_nd (d : list N) (s : list N) : list N * list N :=
  match s with
  | [] => ([], [])
  | c :: t => if is_delim d c then ([], s) else let (a, b) := span_nd d t in (c :: a, b)
  end.

(* nextToken: a delimiter at the current index is skipped and, if input remains, nextToken calls itself;
   otherwise the token is the run up to the next delimiter.  None = theToken is left untouched *)
Fixpoint next_token (d : list N) (s : list N) : option (list N) * list N :=
  match s with
  | [] => (None, [])
  | c :: t => if is_delim d c then next_token d t else (Some (fst (span_nd d s)), snd (span_nd d s))
  end.

(* countTokens: while (cur < len) { next = FindNextDelimiterIndex(cur); if (next == cur) ++cur; else { ++count; cur = next; } } *)
Fixpoint count_loop (d : list N) (fuel : nat) (s : list N) : nat :=
  match fuel with
  | O => 0
  | S f => match s with
           | [] => 0
           | c :: t => if is_delim d c then count_loop d f t else S (count_loop d f (snd (span_nd d s)))
           end
  end.
Definition count_tokens (d : list N) (s : list N) : nat := count_loop d (length s) s.

(* FunctionID::execute: countTokens, then that many nextToken calls (an empty / untouched token is skipped) *)
Fixpoint take_tokens (d : list N) (n : nat) (s : list N) : list (list N) :=
  match n with
  | O => []
  | S k => match next_token d s with
           | (Some t, r) => (match t with [] => take_tokens d k r | _ => t :: take_tokens d k r end)
           | (None, r) => take_tokens d k r
           end
  end.
Definition id_tokens (s : list N) : list (list N) := take_tokens gen_id_delims (count_tokens gen_id_delims s) s.

(* specification: `tokenization d s ts` — ts are exactly the maximal delimiter-free runs of s, left to right:
   s = delimiters* t1 delimiters+ t2 ... , every t non-empty and delimiter-free, and each t is followed by a
   delimiter or by the end of the string *)
Definition starts_with_delim_or_empty (d : list N) (s : list N) : Prop :=
  match s with [] => True | c :: _ => is_delim d c = true end.
Inductive tokenization (d : list N) : list N -> list (list N) -> Prop :=
| tz_nil : forall s, (forall c, In c s -> is_delim d c = true) -> tokenization d s []
| tz_cons : forall pre t rest ts,
    (forall c, In c pre -> is_delim d c = true) ->
    t <> [] -> (forall c, In c t -> is_delim d c = false) ->
    starts_with_delim_or_empty d rest ->
    tokenization d rest ts ->
    tokenization d (pre ++ t ++ rest) (t :: ts).

(* id(): the elements whose ID is one of the tokens, in document order (ids = the document's ID table) *)
Fixpoint lookup_id (ids : list (list N * N)) (t : list N) : option N :=
  match ids with
  | [] => None
  | (k, n) :: r => if str_eqb k t then Some n else lookup_id r t
  end.
Definition id_nodes (ids : list (list N * N)) (s : list N) : list N :=
  fold_left (fun acc t => match lookup_id ids t with Some n => insert n acc | None => acc end) (id_tokens s) [].
