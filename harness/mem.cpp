// C19 correspondence + container-level oracle: the real XalanVector / XalanList / XalanMap / ArenaAllocator /
// ReusableArenaAllocator templates instantiated with a counting / failing xercesc::MemoryManager.
//   in :  <id> vec|list|map <fuse|-> <op>...      <id> arena|rarena <fuse|-> <blocksize> <op>...     sizes
//   out:  <id> | <ok|T> <events> o=<obs> | ... | D<ok|T> <events> | end out=<n> bad=<0|1>
//   events: A<mgr>:<bytes>=<id>  (ids = ordinal of the successful allocation, over both managers)
//           F<mgr>:<id>          (deallocate on manager <mgr> of the block with that id; F<mgr>:? = unknown pointer)
//           !                    (the manager refused: std::bad_alloc thrown, once, after <fuse> successful allocations)
//   out = blocks still outstanding after the containers were destroyed; bad = a deallocate of a block that
//   is not outstanding in that manager happened (foreign or double free).
// Inside a destructor the refusal is recorded ("DT") but the allocation is then served, because an exception
// leaving a destructor would be std::terminate and end the whole batch.
#include "common.hpp"
#include <map>
#include <new>
#include <exception>
#include <unistd.h>
#include <sys/wait.h>
#include <xercesc/framework/MemoryManager.hpp>
#include <xalanc/Include/XalanVector.hpp>
#include <xalanc/Include/XalanList.hpp>
#include <xalanc/Include/XalanMap.hpp>
#include <xalanc/PlatformSupport/ArenaAllocator.hpp>
#include <xalanc/PlatformSupport/ReusableArenaAllocator.hpp>

using namespace xalanc;

struct Ledger {
    std::map<void*, std::pair<long, int> > live;   // pointer -> (id, manager)
    long next = 0;
    long fuse = -1;
    bool bad = false, in_dtor = false, dtor_throw = false;
    std::string ev;
    void reset(long f) { live.clear(); next = 0; fuse = f; bad = false; in_dtor = false; dtor_throw = false; ev.clear(); }
};

static Ledger L;

struct Mgr : public xercesc::MemoryManager {
    int idx;
    explicit Mgr(int i) : idx(i) {}
    void* allocate(XMLSize_t n) {
        if (L.fuse == 0) {
            L.fuse = -1;
            L.ev += " !";
            if (!L.in_dtor) throw std::bad_alloc();
            L.dtor_throw = true;
        }
        else if (L.fuse > 0) --L.fuse;
        void* p = std::malloc(n ? n : 1);
        char buf[64];
        std::snprintf(buf, sizeof buf, " A%d:%lu=%ld", idx, (unsigned long) n, L.next);
        L.ev += buf;
        L.live[p] = std::make_pair(L.next++, idx);
        return p;
    }
    void deallocate(void* p) {
        if (p == 0) return;
        char buf[64];
        std::map<void*, std::pair<long, int> >::iterator it = L.live.find(p);
        if (it == L.live.end()) {
            L.bad = true;
            std::snprintf(buf, sizeof buf, " F%d:?", idx);
            L.ev += buf;
            return;                      // unknown pointer: do not hand it to free()
        }
        if (it->second.second != idx) L.bad = true;
        std::snprintf(buf, sizeof buf, " F%d:%ld", idx, it->second.first);
        L.ev += buf;
        L.live.erase(it);
        std::free(p);
    }
    xercesc::MemoryManager* getExceptionMemoryManager() { return this; }
};

static Mgr M0(0), M1(1);
static Mgr& mgr(int i) { return i ? M1 : M0; }

// an arena object owning one block of the manager
struct Obj {
    xercesc::MemoryManager* m; void* p; long pad;
    Obj(xercesc::MemoryManager& mm, size_t n) : m(&mm), p(mm.allocate(n)), pad(0) {}
    ~Obj() { m->deallocate(p); }
};

struct IdHash { size_t operator()(const size_t& k) const { return k; } };
struct IdKeyTraits { typedef IdHash Hasher; typedef std::equal_to<size_t> Comparator; };
typedef XalanMap<size_t, int, IdKeyTraits> MapT;
typedef XalanVector<int> VecT;
typedef XalanList<int> ListT;
typedef ArenaAllocator<Obj> ArenaT;
typedef ReusableArenaAllocator<Obj> RArenaT;

static bool idx_arg(const std::string& s, size_t plen, size_t& n)
{
    n = 0;
    std::string rest = s.substr(plen);
    size_t c = rest.find(':');
    if (c != std::string::npos) n = std::strtoul(rest.c_str() + c + 1, 0, 10);
    return rest[0] == '1';
}
static bool starts(const std::string& s, const char* p) { return s.compare(0, std::strlen(p), p) == 0; }

static std::string out;
static void step_begin() { L.ev.clear(); }
static void step_end(bool ok, const std::string& obs) { out += ok ? " | ok" : " | T"; out += L.ev; out += " o=" + obs; }
static std::string num(size_t n) { char b[32]; std::snprintf(b, sizeof b, "%lu", (unsigned long) n); return b; }
static void finish()
{
    out += L.dtor_throw ? " | DT" : " | Dok";
    out += L.ev;
    out += " | end out=" + num(L.live.size()) + " bad=" + (L.bad ? "1" : "0");
    for (std::map<void*, std::pair<long, int> >::iterator it = L.live.begin(); it != L.live.end(); ++it) std::free(it->first);
}

static void on_terminate()
{
    std::printf("%s | TERMINATE%s\n", out.c_str(), L.ev.c_str());
    std::fflush(stdout);
    _exit(0);
}

template <class T> struct Raw {      // storage whose destructor call we control
    alignas(16) char buf[sizeof(T)];
    T* p() { return reinterpret_cast<T*>(buf); }
};

static void run_vec(const std::vector<std::string>& t)
{
    Raw<VecT> r0, r1;
    VecT* v[2] = { new (r0.buf) VecT(M0), new (r1.buf) VecT(M1) };
    for (size_t k = 3; k < t.size(); ++k) {
        const std::string& s = t[k];
        size_t n; bool ok = true;
        step_begin();
        try {
            if (s == "x") v[0]->swap(*v[1]);
            else if (starts(s, "ie")) { VecT& x = *v[idx_arg(s, 2, n)]; x.insert(x.end(), n, 7); }
            else if (starts(s, "im")) { VecT& x = *v[idx_arg(s, 2, n)]; x.insert(x.begin() + x.size() / 2, n, 7); }
            else if (s[0] == 'p') v[idx_arg(s, 1, n)]->push_back(1);
            else if (s[0] == 'o') { VecT& x = *v[idx_arg(s, 1, n)]; if (!x.empty()) x.pop_back(); }
            else if (s[0] == 'e') { VecT& x = *v[idx_arg(s, 1, n)]; if (!x.empty()) x.erase(x.begin() + x.size() / 2); }
            else if (s[0] == 'c') v[idx_arg(s, 1, n)]->clear();
            else if (s[0] == 'r') { bool i = idx_arg(s, 1, n); v[i]->reserve(n); }
            else if (s[0] == 'z') { bool i = idx_arg(s, 1, n); v[i]->resize(n, 3); }
            else if (s[0] == 'a') { bool i = idx_arg(s, 1, n); *v[i] = *v[!i]; }
        }
        catch (const std::bad_alloc&) { ok = false; }
        step_end(ok, num(v[0]->size()) + "," + num(v[0]->capacity()) + "," + num(v[1]->size()) + "," + num(v[1]->capacity()));
    }
    step_begin();
    L.in_dtor = true;
    v[0]->~VecT(); v[1]->~VecT();
    finish();
}

static void run_list(const std::vector<std::string>& t)
{
    Raw<ListT> r0, r1;
    ListT* l[2] = { new (r0.buf) ListT(M0), new (r1.buf) ListT(M1) };
    size_t len[2] = { 0, 0 };        // shadow lengths: size() itself would allocate the sentinel
    for (size_t k = 3; k < t.size(); ++k) {
        const std::string& s = t[k];
        size_t n; bool ok = true;
        step_begin();
        try {
            if (s == "x") { l[0]->swap(*l[1]); std::swap(len[0], len[1]); }
            else if (starts(s, "pb")) { bool i = idx_arg(s, 2, n); l[i]->push_back(1); ++len[i]; }
            else if (starts(s, "pf")) { bool i = idx_arg(s, 2, n); l[i]->push_front(1); ++len[i]; }
            else if (starts(s, "in")) {
                bool i = idx_arg(s, 2, n);
                if (n > len[i]) n = len[i];
                ListT::iterator it = l[i]->begin();
                for (size_t j = 0; j < n; ++j) ++it;
                l[i]->insert(it, 2); ++len[i];
            }
            else if (starts(s, "er")) {
                bool i = idx_arg(s, 2, n);
                if (n < len[i]) {
                    ListT::iterator it = l[i]->begin();
                    for (size_t j = 0; j < n; ++j) ++it;
                    l[i]->erase(it); --len[i];
                }
            }
            else if (starts(s, "cl")) { bool i = idx_arg(s, 2, n); l[i]->clear(); len[i] = 0; }
            else if (starts(s, "em")) { bool i = idx_arg(s, 2, n); (void) l[i]->empty(); }
        }
        catch (const std::bad_alloc&) { ok = false; }
        step_end(ok, num(len[0]) + "," + num(len[1]));
    }
    step_begin();
    L.in_dtor = true;
    l[0]->~ListT(); l[1]->~ListT();
    finish();
}

static ArenaT* make_arena(ArenaT* p, size_t bs, bool) { return new (p) ArenaT(M0, bs); }
static RArenaT* make_arena(RArenaT* p, size_t bs, bool destroyBlocks) { return new (p) RArenaT(M0, (RArenaT::size_type) bs, destroyBlocks); }
static void destroy_obj(ArenaT*, Obj*) {}
static void destroy_obj(RArenaT* a, Obj* o) { a->destroyObject(o); }

template <class A>
static void run_arena(const std::vector<std::string>& t, bool reusable, bool destroyBlocks)
{
    size_t bs = std::strtoul(t[3].c_str(), 0, 10);
    Raw<A> r;
    A* a = make_arena((A*) r.buf, bs, destroyBlocks);
    std::vector<Obj*> objs;
    for (size_t k = 4; k < t.size(); ++k) {
        const std::string& s = t[k];
        bool ok = true;
        step_begin();
        try {
            if (s == "rs") { a->reset(); objs.clear(); }
            else if (starts(s, "n:")) {
                Obj* p = a->allocateBlock();
                new (p) Obj(M0, std::strtoul(s.c_str() + 2, 0, 10));
                a->commitAllocation(p);
                objs.push_back(p);
            }
            else if (starts(s, "d:") && reusable) {
                size_t i = std::strtoul(s.c_str() + 2, 0, 10);
                if (i < objs.size()) { destroy_obj(a, objs[i]); objs.erase(objs.begin() + i); }
            }
        }
        catch (const std::bad_alloc&) { ok = false; }
        step_end(ok, num(objs.size()));    // (getBlockCount() would allocate the list sentinel)
    }
    step_begin();
    L.in_dtor = true;
    a->~A();
    finish();
}

static void run_map(const std::vector<std::string>& t);

int main(int argc, char** argv)
{
    std::istream* in = &std::cin;
    std::ifstream f;
    if (argc > 1) { f.open(argv[1]); in = &f; }
    std::string line;
    while (std::getline(*in, line)) {
        std::vector<std::string> t = verif::split(line);
        if (t.empty() || t[0][0] == '#') continue;
        if (t[0] == "sizes") {
            std::printf("sizes 0=%lu 1=%lu 2=%lu 3=%lu 4=%lu 5=1 6=%lu 7=%lu 8=%lu 9=%lu 10=%lu\n",
                (unsigned long) sizeof(int), (unsigned long) sizeof(ListT::Node), (unsigned long) sizeof(ArenaBlock<Obj>),
                (unsigned long) sizeof(Obj), (unsigned long) sizeof(XalanList<ArenaBlock<Obj>*>::Node),
                (unsigned long) sizeof(MapT::BucketType), (unsigned long) sizeof(MapT::EntryListIterator),
                (unsigned long) sizeof(MapT::value_type), (unsigned long) sizeof(MapT::EntryListType::Node),
                (unsigned long) sizeof(ReusableArenaBlock<Obj>));
            continue;
        }
        if (t.size() < 3) continue;
        // every case runs in a forked child: a refusal inside a destructor that is reached from an operation
        // (operator= destroying its temporary) is std::terminate, and known defects can crash
        std::fflush(stdout);
        pid_t pid = fork();
        if (pid != 0) {
            int st = 0;
            waitpid(pid, &st, 0);
            if (WIFSIGNALED(st)) { std::printf("%s | CRASH signal=%d\n", t[0].c_str(), WTERMSIG(st)); std::fflush(stdout); }
            else if (WIFEXITED(st) && WEXITSTATUS(st) != 0) {   // a sanitizer report ends the child with its exitcode
                std::printf("%s | CRASH exit=%d\n", t[0].c_str(), WEXITSTATUS(st)); std::fflush(stdout);
            }
            continue;
        }
        std::set_terminate(on_terminate);
        out = t[0];
        L.reset(t[2] == "-" ? -1 : std::strtol(t[2].c_str(), 0, 10));
        if (t[1] == "vec") run_vec(t);
        else if (t[1] == "list") run_list(t);
        else if (t[1] == "arena" && t.size() > 3) run_arena<ArenaT>(t, false, false);
        else if (t[1] == "rarena" && t.size() > 3) run_arena<RArenaT>(t, true, false);
        else if (t[1] == "rarenad" && t.size() > 3) run_arena<RArenaT>(t, true, true);
        else if (t[1] == "map") run_map(t);
        else _exit(0);
        std::printf("%s\n", out.c_str());
        std::fflush(stdout);
        _exit(0);
    }
    return 0;
}

// map ops: i<m>:<key> insert, e<m>:<key> erase, c<m> clear, a<m> assign (m = other), x swap
static void run_map(const std::vector<std::string>& t)
{
    Raw<MapT> r0, r1;
    // small minimum bucket count and erase threshold so that rehash and compaction happen in short runs
    MapT* m[2] = { new (r0.buf) MapT(M0, 0.75, 3, 3), new (r1.buf) MapT(M1, 0.75, 3, 3) };
    for (size_t k = 3; k < t.size(); ++k) {
        const std::string& s = t[k];
        size_t n; bool ok = true;
        step_begin();
        try {
            if (s == "x") m[0]->swap(*m[1]);
            else if (s[0] == 'i') { bool i = idx_arg(s, 1, n); m[i]->insert(n, 5); }
            else if (s[0] == 'e') { bool i = idx_arg(s, 1, n); m[i]->erase(n); }
            else if (s[0] == 'c') { bool i = idx_arg(s, 1, n); m[i]->clear(); }
            else if (s[0] == 'a') { bool i = idx_arg(s, 1, n); *m[i] = *m[!i]; }
        }
        catch (const std::bad_alloc&) { ok = false; }
        step_end(ok, num(m[0]->size()) + "," + num(m[1]->size()));
    }
    step_begin();
    L.in_dtor = true;
    m[0]->~MapT(); m[1]->~MapT();
    finish();
}
