(* C01: which of the two modelled variants of the end of a template instance (XsltVarsDefs.end_template) the
   current source has; read from GenXslt.v (regenerated from /repo on every run). Kept apart from
   XsltFactsModel.v so that the extracted model still builds when a structural fact changes. *)
Require Import XV.GenXslt.
Definition reset_variant : bool := src_params_reset_when_template_frame_popped.
