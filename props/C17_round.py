"""C17, part "round": the value attribute of xsl:number is "converted to a number as if by a call to the number
function.  The number is rounded to an integer and then converted to a string" (XSLT 1.0, 7.7) - rounded as round()
does (XPath 4.4: the closest integer; of two equally close ones the one closer to positive infinity).  The core
value stream of props/C17.py passes integers only; this part passes fractional values, above all exact ties, as
literals and as expressions, and compares the decimal rendering with the rule computed here (added after seed C17_g:
ties rounded to the even neighbour)."""
import math, random
from vlib import core, xsltrun

XSL = "http://www.w3.org/1999/XSL/Transform"


def xround(x):
    return math.floor(x + 0.5)


def gen_items(r, n):
    items = []
    ints = [0, 1, 2, 3, 4, 5, 9, 10, 25, 26, 27, 99, 100, 999, 1000, 3999, 65535, 1000000, 2 ** 31, 2 ** 32, 2 ** 40]
    for k in ints:
        for frac in (0.5, 0.25, 0.75, 0.49999999, 0.50000001):
            v = k + frac
            if v >= 0.5 and v == float(repr(v)):
                items.append((repr(v) if "e" not in repr(v) else "%f" % v, v))
    exprs = [("5 div 2", 2.5), ("7 div 2", 3.5), ("'4.5'", 4.5), ("' 6.5 '", 6.5), ("1 + 1.5", 2.5), ("0.5 + 0.5 + 0.5", 1.5), ("9 div 4", 2.25),
             ("11 div 4", 2.75), ("count(/*) + 1.5", 2.5), ("count(/*) div 2", 0.5), ("string(8.5)", 8.5), ("number('12.5')", 12.5),
             ("2.5 * 5", 12.5), ("3 * 1.5", 4.5), ("ceiling(2.5) - 0.5", 2.5), ("floor(2.5) + 0.5", 2.5)]
    items += exprs
    for _ in range(n):
        k = r.choice([r.randrange(0, 60), r.randrange(0, 5000), r.randrange(0, 10 ** 9)])
        frac = r.choice([0.5, 0.5, 0.5, 0.125, 0.375, 0.625, 0.875, r.randrange(1, 1000) / 1000.0])
        v = k + frac
        if v >= 0.5:
            items.append(("%s" % repr(v), v))
    return items


def sheet(items, fmt):
    s = '<xsl:stylesheet version="1.0" xmlns:xsl="%s"><xsl:output method="text"/><xsl:template match="/">' % XSL
    for e, _ in items:
        s += '<xsl:number value="%s" format="%s"/><xsl:text>|</xsl:text><xsl:number value="round(%s)" format="%s"/><xsl:text>&#10;</xsl:text>' % (
            e.replace("'", "&apos;"), fmt, e.replace("'", "&apos;"), fmt)
    return s + "</xsl:template></xsl:stylesheet>"


def run_part(ctx):
    r = random.Random(ctx.rng.getrandbits(64))
    items = gen_items(r, 150 if not (ctx.thorough or ctx.escalated) else 6000)
    jobs, meta = [], {}
    for k in range(0, len(items), 60):
        for fmt in ("1", "001"):
            tag = "rd%d_%s" % (k, fmt)
            meta[tag] = (items[k:k + 60], fmt)
            jobs.append({"id": tag, "sheet": sheet(items[k:k + 60], fmt), "source": "<doc/>"})
    res = xsltrun.run(jobs)
    bad = []
    for tag, (its, fmt) in meta.items():
        out = res.get(tag)
        if out is None or out[0] != "ok":
            bad.append("%s: the transformation failed: %r" % (tag, out[:1] + out[2:3] if out else None))
            continue
        lines = out[1].decode("utf-8", "replace").split("\n")
        for i, (e, v) in enumerate(its):
            ctx.cov["evaluations"] += 1
            ctx.count("round:" + ("tie" if v * 2 == math.floor(v * 2) and v != math.floor(v) else "other"))
            want = str(int(xround(v))).rjust(len(fmt), "0")
            got = lines[i] if i < len(lines) else ""
            a, _, b = got.partition("|")
            if a != want or b != want:
                bad.append('<xsl:number value="%s" format="%s"/> printed %r, <xsl:number value="round(%s)" .../> printed %r; 7.7 / round() give %r' % (e, fmt, a, e, b, want))
    if bad:
        ctx.violation("round", "# C17: the value attribute of xsl:number is not rounded as round() rounds (XSLT 1.0 section 7.7, XPath 1.0 section 4.4)\n"
                               "# replay: put the quoted instruction into a template of a stylesheet with output method text and run it on <doc/>\n"
                      + "\n".join(bad[:40]))
    ctx.notes["round_failures"] = len(bad)
