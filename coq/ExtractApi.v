(* Extraction of the C06 model (transformer state machine) for the correspondence driver. ExtrOcamlBasic only. *)
Require Import ExtrOcamlBasic.
From Coq Require Import NArith ZArith.
Require Import XV.GenApi XV.ApiDefs.
Extraction "extracted/api_model.ml"
  step init members member_ids is_per_transformation is_objstack classify cleared fully_cleared
  objstack_reset_rewinds set_value_drops_expr set_expr_drops_value clear_params_clears_map
  errclear_dotransform errclear_compile errclear_parse dotransform_try_stmts fresh_setup
  N.of_nat Z.of_N.
