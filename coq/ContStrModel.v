(* ContStrModel.v — proofs about the XalanDOMString model: the buffer is either completely empty or
   the code units followed by exactly one NUL, m_size is the number of code units, and every
   operation (inside its precondition, outside the known-finding guards) produces the std::u16string
   result. *)
From Coq Require Import List Arith Bool Lia.
Require Import XV.GenCont XV.ContVecDefs XV.ContVecModel XV.ContStrDefs.
Import ListNotations.

Definition nz (l : list nat) : Prop := Forall (fun c => c <> 0) l.

Definition str_ok (s : xstr) (cs : list nat) : Prop :=
  wf (sdata s) /\ ssize s = length cs /\ nz cs /\
  ((vdata (sdata s) = [] /\ cs = []) \/ vdata (sdata s) = cs ++ [0]).

(* ---- list facts -------------------------------------------------------------------------------- *)
Lemma nonzero_nz : forall w, nonzero w = true -> nz w.
Proof.
  unfold nonzero, nz. intros w H. rewrite forallb_forall in H. apply Forall_forall. intros c Hc.
  specialize (H c Hc). apply negb_true_iff, Nat.eqb_neq in H. assumption.
Qed.

Lemma nz_app : forall a b, nz a -> nz b -> nz (a ++ b).
Proof. unfold nz. intros. apply Forall_app. split; assumption. Qed.
Lemma In_firstn : forall (n : nat) (a : list nat) x, In x (firstn n a) -> In x a.
Proof. induction n; intros a x H; simpl in *; [destruct H|]. destruct a; [destruct H|]. destruct H; [left | right; apply IHn]; assumption. Qed.
Lemma nz_firstn : forall n a, nz a -> nz (firstn n a).
Proof. unfold nz. intros. rewrite Forall_forall in *. intros x Hx. apply H. eapply In_firstn; eauto. Qed.
Lemma In_skipn : forall (n : nat) (a : list nat) x, In x (skipn n a) -> In x a.
Proof. induction n; intros a x H; simpl in *; [assumption|]. destruct a; [destruct H|]. right. apply IHn. assumption. Qed.
Lemma nz_skipn : forall n a, nz a -> nz (skipn n a).
Proof. unfold nz. intros. rewrite Forall_forall in *. intros x Hx. apply H. eapply In_skipn; eauto. Qed.
Lemma nz_sub : forall a b l, nz l -> nz (sub a b l).
Proof. intros. unfold sub. apply nz_firstn, nz_skipn, H. Qed.
Lemma nz_repeat : forall c n, c <> 0 -> nz (repeat c n).
Proof. unfold nz. intros. apply Forall_forall. intros x Hx. apply repeat_spec in Hx. subst. assumption. Qed.

Lemma set_nth_last : forall (a : list nat) y x, set_nth (length a) x (a ++ [y]) = a ++ [x].
Proof. induction a; intros; simpl; [reflexivity | f_equal; apply IHa]. Qed.

Lemma strlen_prefix_ok : forall cs rest, nz cs -> strlen_prefix (cs ++ 0 :: rest) = cs.
Proof.
  induction cs; intros rest H; simpl; [reflexivity|]. inversion H; subst.
  destruct (a =? 0) eqn:E; [apply Nat.eqb_eq in E; contradiction|]. f_equal. apply IHcs. assumption.
Qed.

Lemma ins_spec_app : forall p w (a b : list nat), p <= length a -> ins_spec p w (a ++ b) = ins_spec p w a ++ b.
Proof.
  intros. unfold ins_spec. rewrite firstn_app_l, skipn_app_l by assumption. rewrite <- !app_assoc. reflexivity.
Qed.

Lemma erase_spec_app : forall x y (a b : list nat), y <= length a -> x <= y -> erase_spec x y (a ++ b) = erase_spec x y a ++ b.
Proof.
  intros. unfold erase_spec. rewrite firstn_app_l, skipn_app_l by lia. rewrite <- !app_assoc. reflexivity.
Qed.

Lemma repeat_snoc : forall (c : nat) n, repeat c (n + 1) = repeat c n ++ [c].
Proof. intros. rewrite repeat_app. reflexivity. Qed.

(* ---- basic consequences of the invariant ----------------------------------------------------------- *)
Lemma vsize_of : forall d l, vdata d = l -> vsize d = length l.
Proof. intros. unfold vsize. rewrite H. reflexivity. Qed.

Lemma ok_chars : forall s cs, str_ok s cs -> chars s = cs.
Proof.
  intros s cs (W & Sz & N & [[D C]|D]); unfold chars; rewrite Sz, D.
  - subst. reflexivity.
  - rewrite firstn_app_l by lia. apply firstn_all.
Qed.

Lemma ok_buf_empty : forall s cs, str_ok s cs -> buf_empty s = true -> vdata (sdata s) = [] /\ cs = [].
Proof.
  intros s cs (W & Sz & N & [[D C]|D]) B; [auto|]. unfold buf_empty, vsize in B. rewrite D, app_length in B.
  simpl in B. apply Nat.eqb_eq in B. lia.
Qed.

Lemma ok_buf_nonempty : forall s cs, str_ok s cs -> buf_empty s = false -> vdata (sdata s) = cs ++ [0].
Proof.
  intros s cs (W & Sz & N & [[D C]|D]) B; [|assumption]. unfold buf_empty, vsize in B. rewrite D in B. discriminate.
Qed.

Lemma ok_terminated : forall s cs, str_ok s cs -> terminated s = true.
Proof.
  intros s cs H. unfold terminated. destruct (buf_empty s) eqn:B.
  - destruct (ok_buf_empty s cs H B) as [_ C]. destruct H as (_ & Sz & _). rewrite Sz, C. reflexivity.
  - rewrite (ok_buf_nonempty s cs H B). destruct H as (_ & Sz & _). rewrite Sz.
    rewrite app_nth2 by lia. rewrite Nat.sub_diag. reflexivity.
Qed.

Lemma ok_c_str : forall s cs, str_ok s cs -> c_str s = cs.
Proof.
  intros s cs H. unfold c_str. destruct (buf_empty s) eqn:B.
  - destruct (ok_buf_empty s cs H B) as [_ C]. auto.
  - rewrite (ok_buf_nonempty s cs H B). destruct H as (_ & _ & N & _). apply (strlen_prefix_ok cs []). assumption.
Qed.

Lemma ok_sempty : str_ok sempty [].
Proof. unfold str_ok, sempty, wf, vsize, nz. simpl. repeat split; auto. Qed.

Lemma mk_ok : forall d n cs, wf d -> n = length cs -> nz cs -> vdata d = cs ++ [0] -> str_ok (mkstr d n) cs.
Proof. intros. unfold str_ok. simpl. auto. Qed.

(* ---- operations ---------------------------------------------------------------------------------- *)
Lemma append_w_ok : forall s cs w, str_ok s cs -> nz w -> str_ok (append_w s w) (cs ++ w).
Proof.
  intros s cs w H Nw. unfold append_w. destruct (length w =? 0) eqn:E0.
  { apply Nat.eqb_eq in E0. destruct w; [|discriminate]. rewrite app_nil_r. assumption. }
  destruct (buf_empty s) eqn:B.
  - destruct (ok_buf_empty s cs H B) as [D C]. subst cs. destruct H as (W & _).
    set (d1 := reserve (sdata s) (length w + 1)).
    assert (D1 : vdata d1 = []) by (unfold d1; rewrite reserve_data; assumption).
    assert (W1 : wf d1) by (apply reserve_wf; assumption).
    rewrite (vsize_of d1 [] D1). simpl length.
    assert (D2 : vdata (insert_list false d1 0 w) = w).
    { rewrite insert_list_data by lia. rewrite D1. unfold ins_spec. simpl. apply app_nil_r. }
    apply mk_ok; [apply push_wf, insert_list_wf; [assumption | lia] | reflexivity | assumption |].
    rewrite push_data, D2. reflexivity.
  - pose proof (ok_buf_nonempty s cs H B) as D. destruct H as (W & Sz & N & _).
    assert (V : vsize (sdata s) - 1 = length cs) by (rewrite (vsize_of _ _ D), app_length; simpl; lia).
    rewrite V. apply mk_ok.
    + apply insert_list_wf; [assumption|]. rewrite (vsize_of _ _ D), app_length. lia.
    + rewrite app_length. lia.
    + apply nz_app; assumption.
    + rewrite insert_list_data by (rewrite (vsize_of _ _ D), app_length; lia).
      rewrite D, ins_spec_app by lia. unfold ins_spec. rewrite firstn_all, skipn_all, app_nil_r, <- app_assoc. reflexivity.
Qed.

Lemma set_back0_wf : forall d, wf d -> wf (set_back0 d).
Proof. unfold wf, vsize, set_back0. intros. simpl. rewrite set_nth_length. assumption. Qed.

Lemma append_n_ok : forall s cs n c, str_ok s cs -> c <> 0 -> str_ok (append_n s n c) (cs ++ repeat c n).
Proof.
  intros s cs n c H Nc. unfold append_n. destruct (buf_empty s) eqn:B.
  - destruct (ok_buf_empty s cs H B) as [D C]. subst cs. destruct H as (W & _).
    rewrite (vsize_of _ _ D). simpl length.
    assert (D2 : vdata (insert_list true (sdata s) 0 (repeat c (n + 1))) = repeat c n ++ [c]).
    { rewrite insert_list_data by lia. rewrite D. unfold ins_spec. simpl. rewrite app_nil_r. apply repeat_snoc. }
    apply mk_ok.
    + apply set_back0_wf, insert_list_wf; [assumption | lia].
    + simpl. rewrite repeat_length. reflexivity.
    + apply nz_repeat. assumption.
    + unfold set_back0. simpl. rewrite (vsize_of _ _ D2), D2, app_length, repeat_length. simpl.
      replace (n + 1 - 1) with (length (repeat c n)) by (rewrite repeat_length; lia). apply set_nth_last.
  - pose proof (ok_buf_nonempty s cs H B) as D. destruct H as (W & Sz & N & _).
    assert (V : vsize (sdata s) - 1 = length cs) by (rewrite (vsize_of _ _ D), app_length; simpl; lia).
    rewrite V. apply mk_ok.
    + apply insert_list_wf; [assumption|]. rewrite (vsize_of _ _ D), app_length. lia.
    + rewrite app_length, repeat_length. lia.
    + apply nz_app; [assumption | apply nz_repeat; assumption].
    + rewrite insert_list_data by (rewrite (vsize_of _ _ D), app_length; lia).
      rewrite D, ins_spec_app by lia. unfold ins_spec. rewrite firstn_all, skipn_all, app_nil_r, <- app_assoc. reflexivity.
Qed.

Lemma erase_all_ok : forall s cs, str_ok s cs -> str_ok (erase_all s) [].
Proof.
  intros s cs (W & _). unfold erase_all, str_ok. simpl.
  split; [apply erase_range_wf; [assumption | lia | lia]|]. split; [reflexivity|]. split; [constructor|]. left. split; [|reflexivity].
  rewrite erase_range_data by lia. unfold erase_spec, vsize. simpl. apply skipn_all.
Qed.

(* erasing [a, b) of the units when the buffer holds units ++ [0] *)
Lemma erase_units : forall d cs a b, wf d -> nz cs -> vdata d = cs ++ [0] -> a <= b -> b <= length cs ->
  wf (erase_range d a b) /\ vdata (erase_range d a b) = erase_spec a b cs ++ [0] /\
  vsize (erase_range d a b) = length (erase_spec a b cs) + 1 /\ nz (erase_spec a b cs) /\
  length (erase_spec a b cs) = length cs - (b - a).
Proof.
  intros d cs a b W N D Hab Hb.
  assert (Hv : b <= vsize d) by (rewrite (vsize_of _ _ D), app_length; lia).
  assert (E : vdata (erase_range d a b) = erase_spec a b cs ++ [0]).
  { rewrite erase_range_data by assumption. rewrite D. apply erase_spec_app; assumption. }
  split; [apply erase_range_wf; assumption|]. split; [assumption|].
  split; [rewrite (vsize_of _ _ E), app_length; reflexivity|].
  split; [unfold erase_spec; apply nz_app; [apply nz_firstn | apply nz_skipn]; assumption|].
  unfold erase_spec. rewrite app_length, firstn_length_le, skipn_length by lia. lia.
Qed.

Lemma after_erase_ok : forall d cs, wf d -> nz cs -> vdata d = cs ++ [0] -> str_ok (after_erase d) cs.
Proof.
  intros d cs W N D. unfold after_erase. rewrite (vsize_of _ _ D), app_length. simpl.
  apply mk_ok; auto. destruct (length cs + 1 <? 2) eqn:E; [apply Nat.ltb_lt in E | apply Nat.ltb_ge in E]; lia.
Qed.

Lemma erase_cnt_ok : forall s cs p n, str_ok s cs -> p + n <= length cs ->
  str_ok (erase_cnt s p n) (erase_spec p (p + n) cs).
Proof.
  intros s cs p n H L. unfold erase_cnt. pose proof H as (W & Sz & N & _).
  destruct ((p =? 0) && (ssize s <=? n)) eqn:E.
  - apply andb_prop in E. destruct E as [E1 E2]. apply Nat.eqb_eq in E1. apply Nat.leb_le in E2. subst p.
    assert (n = length cs) by lia. subst n. unfold erase_spec. simpl. rewrite skipn_all. eapply erase_all_ok; eassumption.
  - destruct (buf_empty s) eqn:B.
    + destruct (ok_buf_empty s cs H B) as [_ C]. subst cs. simpl in L. assert (p = 0) by lia. assert (n = 0) by lia. subst.
      rewrite Sz in E. simpl in E. discriminate.
    + pose proof (ok_buf_nonempty s cs H B) as D.
      destruct (erase_units (sdata s) cs p (p + n) W N D) as (W' & D' & _ & N' & _); [lia | lia|].
      apply after_erase_ok; assumption.
Qed.

Lemma erase_npos_ok : forall s cs p, str_ok s cs -> p <= length cs -> str_ok (erase_npos s p) (firstn p cs).
Proof.
  intros s cs p H L. unfold erase_npos. pose proof H as (W & Sz & N & _).
  destruct (p =? 0) eqn:E.
  - apply Nat.eqb_eq in E. subst. simpl. eapply erase_all_ok; eassumption.
  - apply Nat.eqb_neq in E. destruct (buf_empty s) eqn:B.
    + destruct (ok_buf_empty s cs H B) as [_ C]. subst cs. simpl in L. lia.
    + pose proof (ok_buf_nonempty s cs H B) as D. rewrite Sz.
      replace (p + (length cs - p)) with (length cs) by lia.
      destruct (erase_units (sdata s) cs p (length cs) W N D) as (W' & D' & _ & N' & _); [lia | lia|].
      assert (Es : erase_spec p (length cs) cs = firstn p cs) by (unfold erase_spec; rewrite skipn_all; apply app_nil_r).
      rewrite Es in *. apply after_erase_ok; assumption.
Qed.

Lemma erase_it_ok : forall s cs a b, str_ok s cs -> a <= b -> b <= length cs ->
  str_ok (erase_it s a b) (erase_spec a b cs).
Proof.
  intros s cs a b H Hab Hb. pose proof H as (W & Sz & N & _). destruct (buf_empty s) eqn:B.
  - (* no buffer at all: nothing to erase, the length stays 0 (m_data.empty() ? 0 : size - 1) *)
    destruct (ok_buf_empty s cs H B) as [D C]. subst cs. simpl in Hb. assert (b = 0) by lia. assert (a = 0) by lia. subst.
    unfold erase_it, erase_range. simpl. unfold erase_spec. simpl.
    unfold str_ok. simpl. rewrite (vsize_of _ _ D). simpl. repeat split; auto.
  - pose proof (ok_buf_nonempty s cs H B) as D.
    destruct (erase_units (sdata s) cs a b W N D Hab Hb) as (W' & D' & V' & N' & _).
    unfold erase_it. apply mk_ok; auto. rewrite V'. lia.
Qed.

Lemma erase_it1_ok : forall s cs p, str_ok s cs -> p < length cs -> str_ok (erase_it1 s p) (erase_spec p (S p) cs).
Proof.
  intros s cs p H L. pose proof H as (W & Sz & N & _).
  assert (B : buf_empty s = false).
  { destruct (buf_empty s) eqn:B; [|reflexivity]. destruct (ok_buf_empty s cs H B) as [_ C]. subst. simpl in L. lia. }
  pose proof (ok_buf_nonempty s cs H B) as D.
  destruct (erase_units (sdata s) cs p (S p) W N D) as (W' & D' & V' & N' & L'); [lia | lia|].
  unfold erase_it1. apply mk_ok; auto. rewrite Sz, L'. lia.
Qed.

(* resize(n + 1, c); back() = 0 on a buffer of at least n + 1 units: keeps the first n *)
Lemma shrink_buf : forall d l n c, wf d -> vdata d = l -> n + 1 <= length l ->
  wf (set_back0 (resize d (n + 1) c)) /\ vdata (set_back0 (resize d (n + 1) c)) = firstn n l ++ [0].
Proof.
  intros d l n c W D L. split; [apply set_back0_wf, resize_wf, W|].
  assert (R : vdata (resize d (n + 1) c) = firstn (n + 1) l).
  { rewrite resize_data, D. unfold resize_spec. replace (n + 1 - length l) with 0 by lia. simpl. apply app_nil_r. }
  unfold set_back0. simpl. rewrite (vsize_of _ _ R), R, firstn_length_le by lia.
  replace (n + 1 - 1) with n by lia.
  assert (F : firstn (n + 1) l = firstn n l ++ [nth n l 0]).
  { clear - L. revert l L. induction n; intros l L; destruct l; simpl in *; try lia; [reflexivity|].
    f_equal. apply IHn. lia. }
  rewrite F. replace n with (length (firstn n l)) at 1 by (rewrite firstn_length_le; lia). apply set_nth_last.
Qed.

Lemma set_back_nonempty : forall d cs c x, wf d -> vdata d = cs ++ [x] ->
  wf (set_back c d) /\ vdata (set_back c d) = cs ++ [c].
Proof.
  intros d cs c x W D. unfold set_back. rewrite (vsize_of _ _ D), app_length. simpl.
  replace (length cs + 1 =? 0) with false by (symmetry; apply Nat.eqb_neq; lia).
  split; [unfold wf, vsize in *; simpl; rewrite set_nth_length; assumption|].
  simpl. rewrite D. replace (length cs + 1 - 1) with (length cs) by lia. apply set_nth_last.
Qed.

Lemma sresize_ok : forall s cs n c, str_ok s cs -> (n <= length cs \/ c <> 0) ->
  str_ok (sresize s n c) (resize_spec n c cs).
Proof.
  intros s cs n c H G. pose proof H as (W & Sz & N & _). unfold sresize.
  destruct (n =? ssize s) eqn:E.
  { apply Nat.eqb_eq in E. rewrite Sz in E. subst n. unfold resize_spec. rewrite firstn_all, Nat.sub_diag. simpl. rewrite app_nil_r. assumption. }
  apply Nat.eqb_neq in E. rewrite Sz in E.
  destruct (buf_empty s) eqn:B.
  - destruct (ok_buf_empty s cs H B) as [D C]. subst cs. simpl in *.
    destruct G as [G|Nc]; [lia|].
    assert (SB : set_back c (sdata s) = sdata s) by (unfold set_back; rewrite (vsize_of _ _ D); reflexivity).
    rewrite SB.
    assert (R : vdata (resize (sdata s) (n + 1) c) = repeat c n ++ [c]).
    { rewrite resize_data, D. unfold resize_spec. simpl length. rewrite Nat.sub_0_r. rewrite firstn_nil. simpl. apply repeat_snoc. }
    unfold resize_spec. simpl length. rewrite firstn_nil, Nat.sub_0_r. cbn [app].
    apply mk_ok.
    + apply set_back0_wf, resize_wf, W.
    + rewrite repeat_length. reflexivity.
    + apply nz_repeat. assumption.
    + unfold set_back0. cbn [vdata]. rewrite (vsize_of _ _ R), R, app_length, repeat_length. cbn [length].
      replace (n + 1 - 1) with (length (repeat c n)) by (rewrite repeat_length; lia). apply set_nth_last.
  - pose proof (ok_buf_nonempty s cs H B) as D.
    destruct (set_back_nonempty (sdata s) cs c 0 W D) as (W1 & D1).
    destruct (le_lt_dec n (length cs)) as [Le|Gt].
    + (* shrinking *)
      assert (n < length cs) by lia.
      destruct (shrink_buf (set_back c (sdata s)) (cs ++ [c]) n c W1 D1) as (W' & D'); [rewrite app_length; simpl; lia|].
      rewrite firstn_app_l in D' by lia.
      unfold resize_spec. replace (n - length cs) with 0 by lia. simpl. rewrite app_nil_r.
      apply mk_ok; auto. rewrite firstn_length_le; lia. apply nz_firstn. assumption.
    + (* growing: the old terminator has been overwritten with c *)
      destruct G as [G|Nc]; [lia|].
      set (k := n - length cs).
      assert (R : vdata (resize (set_back c (sdata s)) (n + 1) c) = (cs ++ repeat c k) ++ [c]).
      { rewrite resize_data, D1. unfold resize_spec. rewrite firstn_all2 by (rewrite app_length; simpl; lia).
        rewrite app_length. simpl length. replace (n + 1 - (length cs + 1)) with k by (unfold k; lia).
        rewrite <- !app_assoc. f_equal. change ([c] ++ repeat c k) with (repeat c (S k)).
        replace (S k) with (k + 1) by lia. apply repeat_snoc. }
      unfold resize_spec. rewrite firstn_all2 by lia. fold k.
      apply mk_ok.
      * apply set_back0_wf, resize_wf, W1.
      * rewrite app_length, repeat_length. unfold k. lia.
      * apply nz_app; [assumption | apply nz_repeat; assumption].
      * unfold set_back0. cbn [vdata]. rewrite (vsize_of _ _ R), R, app_length. cbn [length].
        replace (length (cs ++ repeat c k) + 1 - 1) with (length (cs ++ repeat c k)) by lia. apply set_nth_last.
Qed.

Lemma sreserve_ok : forall s cs n, str_ok s cs -> str_ok (sreserve s n) cs.
Proof.
  intros s cs n (W & Sz & N & D). unfold sreserve, str_ok. simpl. rewrite reserve_data.
  split; [apply reserve_wf, W | auto].
Qed.

Lemma assign_w_ok : forall s cs w, str_ok s cs -> nz w -> str_ok (assign_w s w) w.
Proof.
  intros. unfold assign_w. change w with ([] ++ w) at 2. apply append_w_ok; [|assumption].
  change (@nil nat) with (firstn 0 cs). apply erase_npos_ok; [assumption | lia].
Qed.

Lemma assign_n_ok : forall s cs n c, str_ok s cs -> c <> 0 -> str_ok (assign_n s n c) (repeat c n).
Proof.
  intros. unfold assign_n. change (repeat c n) with ([] ++ repeat c n). apply append_n_ok; [|assumption].
  change (@nil nat) with (firstn 0 cs). apply erase_npos_ok; [assumption | lia].
Qed.

Lemma insert_mid_ok : forall fill s cs p w, str_ok s cs -> buf_empty s = false -> nz w -> p <= length cs ->
  str_ok (mkstr (insert_list fill (sdata s) p w) (ssize s + length w)) (ins_spec p w cs).
Proof.
  intros fill s cs p w H B Nw L. pose proof H as (W & Sz & N & _). pose proof (ok_buf_nonempty s cs H B) as D.
  assert (Hp : p <= vsize (sdata s)) by (rewrite (vsize_of _ _ D), app_length; lia).
  apply mk_ok.
  - apply insert_list_wf; assumption.
  - unfold ins_spec. rewrite !app_length, firstn_length_le, skipn_length by lia. lia.
  - unfold ins_spec. apply nz_app; [apply nz_firstn; assumption|]. apply nz_app; [assumption | apply nz_skipn; assumption].
  - rewrite insert_list_data by assumption. rewrite D. apply ins_spec_app. assumption.
Qed.

Lemma insert_w_ok : forall s cs p w, str_ok s cs -> nz w -> p <= length cs -> str_ok (insert_w s p w) (ins_spec p w cs).
Proof.
  intros s cs p w H Nw L. unfold insert_w. destruct (buf_empty s) eqn:B.
  - destruct (ok_buf_empty s cs H B) as [_ C]. subst cs. simpl in L. assert (p = 0) by lia. subst.
    unfold ins_spec. simpl. rewrite app_nil_r. change w with ([] ++ w) at 2. apply append_w_ok; assumption.
  - apply insert_mid_ok; assumption.
Qed.

Lemma insert_n_ok : forall s cs p n c, str_ok s cs -> c <> 0 -> p <= length cs ->
  str_ok (insert_n s p n c) (ins_spec p (repeat c n) cs).
Proof.
  intros s cs p n c H Nc L. unfold insert_n. destruct (buf_empty s) eqn:B.
  - destruct (ok_buf_empty s cs H B) as [_ C]. subst cs. simpl in L. assert (p = 0) by lia. subst.
    unfold ins_spec. simpl. rewrite app_nil_r. apply (assign_n_ok s []); assumption.
  - replace (ssize s + n) with (ssize s + length (repeat c n)) by (rewrite repeat_length; reflexivity).
    apply insert_mid_ok; auto. apply nz_repeat. assumption.
Qed.

Lemma insert_it_ok : forall s cs p c, str_ok s cs -> c <> 0 -> p <= length cs ->
  str_ok (fst (insert_it s p c)) (ins_spec p [c] cs) /\ snd (insert_it s p c) = p.
Proof.
  intros s cs p c H Nc L. unfold insert_it. destruct (buf_empty s) eqn:B; simpl.
  - destruct (ok_buf_empty s cs H B) as [_ C]. subst cs. simpl in L. assert (p = 0) by lia. subst.
    split; [|reflexivity]. apply (assign_n_ok s [] 1 c); assumption.
  - split; [|reflexivity]. replace (S (ssize s)) with (ssize s + length [c]) by (simpl; lia).
    apply insert_mid_ok; auto. apply (nz_repeat c 1). assumption.
Qed.

Lemma self_sub_ok : forall s cs p n, str_ok s cs -> p < length cs -> p + n <= length cs ->
  str_ok (self_sub s p n) (sub p (p + n) cs).
Proof.
  intros s cs p n H Lp L. pose proof H as (W & Sz & N & _). unfold self_sub.
  destruct (p =? 0) eqn:E.
  - apply Nat.eqb_eq in E. subst p. simpl. rewrite sub_0.
    destruct (n =? ssize s) eqn:E2.
    + apply Nat.eqb_eq in E2. rewrite Sz in E2. subst n. rewrite firstn_all. assumption.
    + replace (firstn n cs) with (resize_spec n 0 cs).
      * apply sresize_ok; [assumption | left; lia].
      * unfold resize_spec. replace (n - length cs) with 0 by lia. simpl. apply app_nil_r.
  - apply Nat.eqb_neq in E.
    assert (B : buf_empty s = false).
    { destruct (buf_empty s) eqn:B; [|reflexivity]. destruct (ok_buf_empty s cs H B) as [_ C]. subst. simpl in Lp. lia. }
    pose proof (ok_buf_nonempty s cs H B) as D.
    unfold sresize. simpl ssize. simpl sdata.
    assert (n =? ssize s = false) as -> by (apply Nat.eqb_neq; lia).
    set (d1 := mkvec (blit (sub p (p + n) (vdata (sdata s))) 0 (vdata (sdata s))) (vcap (sdata s))).
    assert (Ls : length (sub p (p + n) (vdata (sdata s))) = n).
    { rewrite sub_length; rewrite ?D, ?app_length; simpl; lia. }
    assert (W1 : wf d1).
    { unfold wf, vsize, d1 in *. simpl. rewrite blit_length; [assumption|]. rewrite Ls, D, app_length. simpl. lia. }
    assert (D1 : vdata d1 = sub p (p + n) cs ++ skipn n (cs ++ [0])).
    { unfold d1, blit. simpl. rewrite Ls, D. f_equal. unfold sub. rewrite skipn_app_l by lia.
      apply firstn_app_l. rewrite skipn_length. lia. }
    rewrite skipn_app_l, app_assoc in D1 by lia.
    destruct (set_back_nonempty d1 _ 0 0 W1 D1) as (W2 & D2).
    destruct (shrink_buf (set_back 0 d1) _ n 0 W2 D2) as (W' & D').
    { rewrite !app_length, sub_length, skipn_length by lia. simpl. lia. }
    rewrite <- app_assoc in D'.
    rewrite firstn_app_l in D' by (rewrite sub_length; lia).
    rewrite firstn_all2 in D' by (rewrite sub_length; lia).
    apply mk_ok; auto. rewrite sub_length; lia. apply nz_sub. assumption.
Qed.

Lemma scopy_ok : forall s cs, str_ok s cs -> str_ok (scopy s) cs.
Proof.
  intros s cs H. pose proof H as (W & Sz & N & _). unfold scopy. destruct (ssize s =? 0) eqn:E.
  - apply Nat.eqb_eq in E. rewrite Sz in E. destruct cs; [apply ok_sempty | discriminate].
  - apply Nat.eqb_neq in E.
    assert (B : buf_empty s = false).
    { destruct (buf_empty s) eqn:B; [|reflexivity]. destruct (ok_buf_empty s cs H B) as [_ C]. subst. simpl in *. lia. }
    rewrite (ok_buf_nonempty s cs H B). rewrite (strlen_prefix_ok cs [] N).
    change cs with ([] ++ cs) at 2. apply append_w_ok; [apply ok_sempty | assumption].
Qed.

Lemma sassign_ok : forall t ct r cr, str_ok t ct -> str_ok r cr -> str_ok (sassign t r) cr.
Proof.
  intros t ct r cr (Wt & _) (Wr & Sr & Nr & Dr). unfold sassign, str_ok. simpl. rewrite assign_from_data.
  split; [apply assign_from_wf, Wt | auto].
Qed.

(* ---------------------------------------------------------------------------------------------- *)
(* lock-step refinement *)
Definition strel (s : ststate) (u : ustate) : Prop :=
  str_ok (sreg0 s) (u0 u) /\ str_ok (sreg1 s) (u1 u) /\ stcur s = ucur u.

Lemma cur_ok : forall s u, strel s u -> str_ok (cur_str s) (cur_u u).
Proof. intros s u (A & B & C). unfold cur_str, cur_u. rewrite C. destruct (ucur u); assumption. Qed.
Lemma oth_ok : forall s u, strel s u -> str_ok (oth_str s) (oth_u u).
Proof. intros s u (A & B & C). unfold oth_str, oth_u. rewrite C. destruct (ucur u); assumption. Qed.
Lemma set_cur_ok : forall s u x l, strel s u -> str_ok x l -> strel (set_cur_st s x) (set_cur_u u l).
Proof. intros s u x l (A & B & C) H. unfold set_cur_st, set_cur_u, strel. rewrite C. destruct (ucur u); simpl; auto. Qed.
Lemma set_oth_ok : forall s u x l, strel s u -> str_ok x l -> strel (set_oth_st s x) (set_oth_u u l).
Proof. intros s u x l (A & B & C) H. unfold set_oth_st, set_oth_u, strel. rewrite C. destruct (ucur u); simpl; auto. Qed.

Lemma cmp_same : forall a b, cmp_units a b = cmp_units a b.
Proof. reflexivity. Qed.

Ltac upd := split; [reflexivity | apply set_cur_ok; [assumption|]].

Lemma ststep_refines : forall s u o, strel s u ->
  match ststep s o with
  | None => True
  | Some (s', r) => match ustep u o with
                    | Some (u', r') => r = r' /\ strel s' u'
                    | None => False
                    end
  end.
Proof.
  intros s u o R.
  pose proof (cur_ok s u R) as C. pose proof (oth_ok s u R) as O.
  pose proof C as (_ & Sz & Nz & _). pose proof O as (_ & So & No & _).
  pose proof (ok_chars _ _ C) as Cc. pose proof (ok_chars _ _ O) as Oc.
  destruct o; unfold ststep, ustep; rewrite ?Sz, ?So, ?Cc, ?Oc.
  - destruct (nonzero w) eqn:E; [|exact I]. upd. apply append_w_ok; [assumption | apply nonzero_nz, E].
  - destruct (c =? 0) eqn:E; [exact I|]. apply Nat.eqb_neq in E. upd. apply append_n_ok; assumption.
  - destruct (c =? 0) eqn:E; [exact I|]. apply Nat.eqb_neq in E. upd. apply (append_n_ok _ _ 1 c); assumption.
  - destruct (nonzero w && (p <=? length (cur_u u))) eqn:E; [|exact I]. apply andb_prop in E. destruct E as [E1 E2].
    apply Nat.leb_le in E2. upd. apply insert_w_ok; [assumption | apply nonzero_nz, E1 | assumption].
  - destruct (negb (c =? 0) && (p <=? length (cur_u u))) eqn:E; [|exact I]. apply andb_prop in E. destruct E as [E1 E2].
    apply Nat.leb_le in E2. apply negb_true_iff, Nat.eqb_neq in E1. upd. apply insert_n_ok; assumption.
  - destruct (negb (c =? 0) && (p <=? length (cur_u u))) eqn:E; [|exact I]. apply andb_prop in E. destruct E as [E1 E2].
    apply Nat.leb_le in E2. apply negb_true_iff, Nat.eqb_neq in E1.
    destruct (insert_it_ok _ _ p c C E1 E2) as (A & B). destruct (insert_it (cur_str s) p c) as [x' r]. simpl in *.
    split; [rewrite B; reflexivity | apply set_cur_ok; assumption].
  - destruct (p + n <=? length (cur_u u)) eqn:E; [|exact I]. apply Nat.leb_le in E. upd. apply erase_cnt_ok; assumption.
  - destruct (p <=? length (cur_u u)) eqn:E; [|exact I]. apply Nat.leb_le in E. upd. apply erase_npos_ok; assumption.
  - destruct ((a <=? b) && (b <=? length (cur_u u))) eqn:E; [|exact I].
    apply andb_prop in E. destruct E as [E1 E2]. apply Nat.leb_le in E1, E2. upd. apply erase_it_ok; assumption.
  - destruct (p <? length (cur_u u)) eqn:E; [|exact I]. apply Nat.ltb_lt in E. upd. apply erase_it1_ok; assumption.
  - destruct (c =? 0) eqn:E; [exact I|]. apply Nat.eqb_neq in E. upd. apply sresize_ok; [assumption | right; assumption].
  - destruct (length (cur_u u) <? n) eqn:E; [exact I|]. apply Nat.ltb_ge in E. upd.
    replace (firstn n (cur_u u)) with (resize_spec n 0 (cur_u u)).
    + apply sresize_ok; [assumption | left; assumption].
    + unfold resize_spec. replace (n - length (cur_u u)) with 0 by lia. simpl. apply app_nil_r.
  - upd. apply sreserve_ok. assumption.
  - upd. eapply erase_all_ok. eassumption.
  - destruct (nonzero w) eqn:E; [|exact I]. upd. eapply assign_w_ok; [eassumption | apply nonzero_nz, E].
  - destruct (c =? 0) eqn:E; [exact I|]. apply Nat.eqb_neq in E. upd. eapply assign_n_ok; eassumption.
  - destruct ((p <? length (cur_u u)) && (p + n <=? length (cur_u u))) eqn:E; [|exact I]. split; [|assumption].
    f_equal. unfold assign_sub. apply ok_chars. apply (assign_w_ok sempty []); [apply ok_sempty | apply nz_sub; assumption].
  - destruct ((p <? length (cur_u u)) && (p + n <=? length (cur_u u))) eqn:E; [|exact I].
    apply andb_prop in E. destruct E as [E1 E2]. apply Nat.ltb_lt in E1. apply Nat.leb_le in E2. upd. apply self_sub_ok; assumption.
  - destruct ((p <? length (oth_u u)) && (p + n <=? length (oth_u u))) eqn:E; [|exact I]. upd.
    apply append_w_ok; [assumption | apply nz_sub; assumption].
  - upd. apply append_w_ok; assumption.
  - split; [|assumption]. rewrite (ok_c_str _ _ O). reflexivity.
  - destruct (nonzero w); [|exact I]. split; [reflexivity | assumption].
  - destruct (i <? length (cur_u u)) eqn:E; [|exact I]. apply Nat.ltb_lt in E. split; [|assumption]. f_equal.
    destruct (buf_empty (cur_str s)) eqn:B.
    + destruct (ok_buf_empty _ _ C B) as [_ Q]. rewrite Q in E. simpl in E. lia.
    + rewrite (ok_buf_nonempty _ _ C B). apply app_nth1. assumption.
  - split; [|assumption]. rewrite (ok_c_str _ _ C). reflexivity.
  - split; [|assumption]. f_equal. destruct (buf_empty (cur_str s)) eqn:B.
    + destruct (ok_buf_empty _ _ C B) as [_ Q]. rewrite Q. reflexivity.
    + rewrite (ok_buf_nonempty _ _ C B). rewrite removelast_last. reflexivity.
  - split; [reflexivity|]. apply set_oth_ok; [assumption | apply scopy_ok; assumption].
  - upd. eapply sassign_ok; eassumption.
  - split; [reflexivity | assumption].
  - destruct R as (A & B & D). split; [reflexivity|]. unfold strel. simpl. auto.
  - destruct R as (A & B & D). split; [reflexivity|]. unfold strel. simpl. auto.
  - destruct (p <? length (oth_u u)) eqn:E; [|exact I]. apply Nat.ltb_lt in E. upd.
    assert (B : buf_empty (oth_str s) = false).
    { destruct (buf_empty (oth_str s)) eqn:B; [|reflexivity]. destruct (ok_buf_empty _ _ O B) as [_ Q]. rewrite Q in E. simpl in E. lia. }
    rewrite (ok_buf_nonempty _ _ O B). rewrite skipn_app_l by lia.
    rewrite (strlen_prefix_ok (skipn p (oth_u u)) [] (nz_skipn _ _ No)).
    apply append_w_ok; [assumption | apply nz_skipn; assumption].
  - destruct (p <? length (cur_u u)) eqn:E; [|exact I]. apply Nat.ltb_lt in E. split; [|assumption].
    f_equal. unfold assign_sub. rewrite (ok_chars _ (sub p (p + (length (cur_u u) - p)) (cur_u u))).
    + replace (p + (length (cur_u u) - p)) with (length (cur_u u)) by lia. apply sub_to_end.
    + apply (assign_w_ok sempty []); [apply ok_sempty | apply nz_sub; assumption].
Qed.

Theorem string_refines_u16_lemma : forall ops s u, strel s u -> st_refines s u ops.
Proof.
  induction ops; intros s u R; simpl; [exact I|].
  pose proof (ststep_refines s u a R) as H.
  destruct (ststep s a) as [[s' r]|]; [|apply IHops; assumption].
  destruct (ustep u a) as [[u' r']|]; [|contradiction]. destruct H as (-> & R').
  pose proof (cur_ok s' u' R') as C. pose proof C as (_ & Sz & _).
  split; [reflexivity|]. split; [apply ok_chars; assumption|]. split; [assumption|].
  split; [eapply ok_terminated; eassumption | apply IHops; assumption].
Qed.

(* the NUL-terminator invariant after any op sequence: buffer empty, or code units ++ exactly one NUL,
   no NUL among the code units, m_size = number of code units, allocation covers the buffer *)
Definition nul_inv (x : xstr) : Prop :=
  vsize (sdata x) <= vcap (sdata x) /\
  (vdata (sdata x) = [] /\ ssize x = 0 \/
   vdata (sdata x) = chars x ++ [0] /\ ssize x = length (chars x) /\ Forall (fun c => c <> 0) (chars x)).

Lemma ok_nul_inv : forall x cs, str_ok x cs -> nul_inv x.
Proof.
  intros x cs H. pose proof (ok_chars _ _ H) as Cc. destruct H as (W & Sz & N & [[D C]|D]).
  - split; [exact W|]. left. subst cs. auto.
  - split; [exact W|]. right. rewrite Cc. auto.
Qed.

Lemma stfinal_rel : forall ops s u, strel s u ->
  exists u', strel (stfinal s ops) u'.
Proof.
  induction ops; intros s u R; simpl; [eauto|].
  pose proof (ststep_refines s u a R) as H.
  destruct (ststep s a) as [[s' r]|]; [|eapply IHops; eassumption].
  destruct (ustep u a) as [[u' r']|]; [|contradiction]. destruct H as (_ & R'). eapply IHops; eassumption.
Qed.

Theorem string_nul_inv_lemma : forall ops,
  nul_inv (sreg0 (stfinal stinit ops)) /\ nul_inv (sreg1 (stfinal stinit ops)).
Proof.
  intros. destruct (stfinal_rel ops stinit uinit) as (u' & A & B & _).
  - unfold strel. simpl. split; [apply ok_sempty | split; [apply ok_sempty | reflexivity]].
  - split; eapply ok_nul_inv; eassumption.
Qed.
