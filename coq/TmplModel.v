(* TmplModel.v — C10: lemmas about the pattern tables (part 1: ordering and table contents). *)
From Coq Require Import List Bool ZArith NArith Lia Sorting.Sorted.
From Coq Require Import ZifyBool ZifyNat ZifyN.
Require Import XV.TmplDefs.
Import ListNotations.
Local Open Scope Z_scope.

(* ---------------------------------------------------------------------------------------- *)
(* the order of the lists: (priority-or-default, position), descending *)

Definition ge_entry (e1 e2 : entry) : Prop :=
  prio_or_default e2 < prio_or_default e1 \/
  (prio_or_default e1 = prio_or_default e2 /\ (e_pos e2 <= e_pos e1)%N).

Lemma ge_entry_total : forall a b, ge_entry a b \/ ge_entry b a.
Proof. unfold ge_entry; intros; lia. Qed.

Lemma ge_entry_trans : forall a b c, ge_entry a b -> ge_entry b c -> ge_entry a c.
Proof. unfold ge_entry; intros; lia. Qed.

Lemma goes_before_true : forall e cur, goes_before e cur = true -> ge_entry e cur.
Proof. unfold goes_before, ge_entry; intros; lia. Qed.

Lemma goes_before_false : forall e cur, goes_before e cur = false -> ge_entry cur e.
Proof. unfold goes_before, ge_entry; intros; lia. Qed.

Lemma add_to_list_in : forall l e x, In x (add_to_list l e) <-> x = e \/ In x l.
Proof.
  induction l as [|c r IH]; intros e x; cbn [add_to_list].
  - cbn; intuition.
  - destruct (goes_before e c) eqn:?.
    + cbn; intuition.
    + cbn [In]. rewrite IH. intuition.
Qed.

Lemma add_to_list_sorted : forall l e,
  StronglySorted ge_entry l -> StronglySorted ge_entry (add_to_list l e).
Proof.
  induction l as [|c r IH]; intros e Hs; cbn [add_to_list].
  - constructor; [constructor | constructor].
  - destruct (goes_before e c) eqn:Hg.
    + constructor; [exact Hs|].
      apply goes_before_true in Hg.
      inversion Hs as [|? ? Hr Hall]; subst.
      constructor; [exact Hg|].
      rewrite Forall_forall in *. intros x Hx. eapply ge_entry_trans; [exact Hg | auto].
    + apply goes_before_false in Hg.
      inversion Hs as [|? ? Hr Hall]; subst.
      constructor; [apply IH; exact Hr|].
      rewrite Forall_forall in *. intros x Hx. apply add_to_list_in in Hx.
      destruct Hx as [->|Hx]; auto.
Qed.

(* every insertion history keeps a list sorted *)
Lemma insertions_sorted : forall es l,
  StronglySorted ge_entry l -> StronglySorted ge_entry (fold_left add_to_list es l).
Proof.
  induction es as [|e r IH]; intros l Hs; cbn [fold_left]; [exact Hs|].
  apply IH, add_to_list_sorted, Hs.
Qed.

Lemma insertions_in : forall es l x,
  In x (fold_left add_to_list es l) <-> In x l \/ In x es.
Proof.
  induction es as [|e r IH]; intros l x; cbn [fold_left].
  - cbn; intuition.
  - rewrite IH, add_to_list_in. cbn [In]. intuition.
Qed.

(* ---------------------------------------------------------------------------------------- *)
(* the association list of member lists *)

Lemma slot_eqb_eq : forall a b, slot_eqb a b = true <-> a = b.
Proof.
  destruct a, b; cbn; split; intro H; try discriminate; try reflexivity;
    try (apply N.eqb_eq in H; subst; reflexivity);
    try (inversion H; subst; apply N.eqb_refl).
Qed.

Lemma slot_eqb_refl : forall a, slot_eqb a a = true.
Proof. intro; apply slot_eqb_eq; reflexivity. Qed.

Lemma slot_eqb_neq : forall a b, a <> b -> slot_eqb a b = false.
Proof.
  intros a b H. destruct (slot_eqb a b) eqn:E; [|reflexivity].
  apply slot_eqb_eq in E. contradiction.
Qed.

Lemma slot_eq_dec : forall a b : slot, {a = b} + {a <> b}.
Proof.
  intros a b. destruct (slot_eqb a b) eqn:E.
  - left; apply slot_eqb_eq; exact E.
  - right; intro H; subst; rewrite slot_eqb_refl in E; discriminate.
Qed.

Lemma lookup_upd_same : forall tb s e,
  lookup (upd tb s e) s = Some (add_to_list (get tb s) e).
Proof.
  unfold get. induction tb as [|[s' l] r IH]; intros s e; cbn [upd lookup].
  - rewrite slot_eqb_refl. reflexivity.
  - destruct (slot_eqb s s') eqn:E; cbn [lookup]; rewrite E; [reflexivity | apply IH].
Qed.

Lemma lookup_upd_other : forall tb s e s', s' <> s ->
  lookup (upd tb s e) s' = lookup tb s'.
Proof.
  induction tb as [|[s0 l] r IH]; intros s e s' Hn; cbn [upd lookup].
  - rewrite (slot_eqb_neq _ _ Hn). reflexivity.
  - destruct (slot_eqb s s0) eqn:E; cbn [lookup].
    + apply slot_eqb_eq in E; subst s0. rewrite (slot_eqb_neq _ _ Hn). reflexivity.
    + destruct (slot_eqb s' s0); [reflexivity | apply IH; exact Hn].
Qed.

Lemma get_upd : forall tb s e s',
  get (upd tb s e) s' = if slot_eqb s' s then add_to_list (get tb s) e else get tb s'.
Proof.
  intros. destruct (slot_eqb s' s) eqn:E.
  - apply slot_eqb_eq in E; subst. unfold get at 1. rewrite lookup_upd_same. reflexivity.
  - unfold get. rewrite lookup_upd_other; [reflexivity|].
    intro; subst; rewrite slot_eqb_refl in E; discriminate.
Qed.

(* all lists sorted *)
Definition tb_sorted (tb : tables) : Prop := forall s, StronglySorted ge_entry (get tb s).

Lemma tb_sorted_nil : tb_sorted [].
Proof. intro s; cbn; constructor. Qed.

Lemma upd_sorted : forall tb s e, tb_sorted tb -> tb_sorted (upd tb s e).
Proof.
  intros tb s e H s'. rewrite get_upd. destruct (slot_eqb s' s); [apply add_to_list_sorted|]; apply H.
Qed.

Lemma file_slots_sorted : forall slots tb e,
  tb_sorted tb -> tb_sorted (fold_left (fun tb s => upd tb s e) slots tb).
Proof.
  induction slots as [|s r IH]; intros tb e H; cbn [fold_left]; [exact H|].
  apply IH, upd_sorted, H.
Qed.

Lemma file_slots_in : forall slots tb e s x,
  In x (get (fold_left (fun tb s => upd tb s e) slots tb) s) <->
  In x (get tb s) \/ (x = e /\ In s slots).
Proof.
  induction slots as [|s0 r IH]; intros tb e s x; cbn [fold_left].
  - cbn; intuition.
  - rewrite IH, get_upd. cbn [In].
    destruct (slot_eqb s s0) eqn:E.
    + apply slot_eqb_eq in E; subst s0. rewrite add_to_list_in. intuition.
    + assert (s0 <> s) by (intro; subst; rewrite slot_eqb_refl in E; discriminate). intuition.
Qed.

(* the entries addTemplate creates, paired with the rule of the specification they stand for:
   alternatives are numbered by m_patternCount, templates by their index in the level *)
Definition slots_of_entry (e : entry) : list slot := slots_of_target (a_target (e_alt e)).

Fixpoint pairs_alts (prec idx : nat) (t : template) (alts : list alt) (cnt : N) : list (entry * rule) :=
  match alts with
  | [] => []
  | a :: r =>
      ({| e_tmpl := t; e_pos := cnt; e_alt := a |},
       {| r_prec := prec;
          r_prio := match t_prio t with Some p => p | None => score_value (a_score a) end;
          r_pos := idx; r_tmpl := t; r_alt := a |}) :: pairs_alts prec idx t r (N.succ cnt)
  end.

Fixpoint pairs (prec idx : nat) (ts : list template) (cnt : N) : list (entry * rule) :=
  match ts with
  | [] => []
  | t :: r => pairs_alts prec idx t (t_alts t) cnt ++
              pairs prec (S idx) r (cnt + N.of_nat (length (t_alts t)))%N
  end.

Definition entries (ts : list template) (cnt : N) : list entry := map fst (pairs 0 0 ts cnt).

Lemma pairs_alts_fst_indep : forall alts prec idx prec' idx' t cnt,
  map fst (pairs_alts prec idx t alts cnt) = map fst (pairs_alts prec' idx' t alts cnt).
Proof.
  induction alts as [|a r IH]; intros; cbn [pairs_alts map fst]; [reflexivity|].
  f_equal. apply IH.
Qed.

Lemma pairs_fst_indep : forall ts prec idx prec' idx' cnt,
  map fst (pairs prec idx ts cnt) = map fst (pairs prec' idx' ts cnt).
Proof.
  induction ts as [|t r IH]; intros; cbn [pairs]; [reflexivity|].
  rewrite !map_app. f_equal; [apply pairs_alts_fst_indep | apply IH].
Qed.

Lemma add_alts_spec : forall alts t tb cnt prec idx,
  tb_sorted tb ->
  let st := add_alts t alts (tb, cnt) in
  tb_sorted (fst st) /\ snd st = (cnt + N.of_nat (length alts))%N /\
  forall s x, In x (get (fst st) s) <->
              In x (get tb s) \/ (In x (map fst (pairs_alts prec idx t alts cnt)) /\ In s (slots_of_entry x)).
Proof.
  induction alts as [|a r IH]; intros t tb cnt prec idx Hs; cbn [add_alts].
  - cbn. split; [exact Hs|]. split; [lia|]. intros; intuition.
  - specialize (IH t (file_entry tb {| e_tmpl := t; e_pos := cnt; e_alt := a |}) (N.succ cnt) prec idx).
    destruct IH as [H1 [H2 H3]]; [apply file_slots_sorted; exact Hs|].
    split; [exact H1|]. split; [rewrite H2; cbn [length]; lia|].
    intros s x. rewrite H3. unfold file_entry. rewrite file_slots_in.
    cbn [pairs_alts map fst In]. unfold slots_of_entry.
    split.
    + intros [[H|[-> H]]|[H H']]; [left; exact H | right; split; [left; reflexivity | exact H] | right; split; [right; exact H | exact H']].
    + intros [H|[[<-|H] H']]; [left; left; exact H | left; right; split; [reflexivity | exact H'] | right; split; assumption].
Qed.

Lemma add_templates_spec : forall ts tb cnt prec idx,
  tb_sorted tb ->
  let st := fold_left add_template ts (tb, cnt) in
  tb_sorted (fst st) /\
  forall s x, In x (get (fst st) s) <->
              In x (get tb s) \/ (In x (map fst (pairs prec idx ts cnt)) /\ In s (slots_of_entry x)).
Proof.
  induction ts as [|t r IH]; intros tb cnt prec idx Hs; cbn [fold_left].
  - cbn. split; [exact Hs|]. intros; intuition.
  - change (add_template (tb, cnt) t) with (add_alts t (t_alts t) (tb, cnt)).
    pose proof (add_alts_spec (t_alts t) t tb cnt prec idx Hs) as Ha. cbv zeta in Ha.
    destruct (add_alts t (t_alts t) (tb, cnt)) as [tb1 cnt1] eqn:E. cbn [fst snd] in Ha.
    destruct Ha as [Ha1 [Ha2 Ha3]]. subst cnt1.
    specialize (IH tb1 (cnt + N.of_nat (length (t_alts t)))%N prec (S idx) Ha1). cbv zeta in IH.
    destruct IH as [I1 I2]. split; [exact I1|].
    intros s x. rewrite I2, Ha3. cbn [pairs]. rewrite map_app, in_app_iff. intuition.
Qed.

(* merge_any *)
Lemma lookup_merge_any : forall tb0 tb s,
  lookup (map (fun sl : slot * list entry =>
         match fst sl with
         | SElem _ => (fst sl, fold_left add_to_list (get tb0 SElemAny) (snd sl))
         | SAttr _ => (fst sl, fold_left add_to_list (get tb0 SAttrAny) (snd sl))
         | _ => sl
         end) tb) s =
  match lookup tb s with
  | None => None
  | Some l => Some match s with
                   | SElem _ => fold_left add_to_list (get tb0 SElemAny) l
                   | SAttr _ => fold_left add_to_list (get tb0 SAttrAny) l
                   | _ => l
                   end
  end.
Proof.
  induction tb as [|[s' l] r IH]; intros s; cbn [map lookup fst snd]; [reflexivity|].
  destruct (slot_eqb s s') eqn:E.
  - apply slot_eqb_eq in E; subst s'. destruct s; cbn [fst lookup]; rewrite ?slot_eqb_refl, ?N.eqb_refl; cbn; rewrite ?N.eqb_refl; reflexivity.
  - destruct s'; cbn [fst lookup]; rewrite E; apply IH.
Qed.

Lemma has_merge_any : forall tb s, has (merge_any tb) s = has tb s.
Proof.
  intros. unfold has, merge_any. rewrite lookup_merge_any. destruct (lookup tb s); reflexivity.
Qed.

Lemma get_merge_any : forall tb s,
  get (merge_any tb) s =
  if has tb s then
    match s with
    | SElem _ => fold_left add_to_list (get tb SElemAny) (get tb s)
    | SAttr _ => fold_left add_to_list (get tb SAttrAny) (get tb s)
    | _ => get tb s
    end
  else [].
Proof.
  intros. unfold get at 1, merge_any. rewrite lookup_merge_any. unfold has, get.
  destruct (lookup tb s); reflexivity.
Qed.

Lemma has_false_get : forall tb s, has tb s = false -> get tb s = [].
Proof. unfold has, get; intros tb s; destruct (lookup tb s); [discriminate | reflexivity]. Qed.

(* ---------------------------------------------------------------------------------------- *)
(* what a node's list contains after construction, and that it is sorted *)

Lemma existsb_slot : forall (f : slot -> bool) l, existsb f l = true <-> exists s, In s l /\ f s = true.
Proof. intros; apply existsb_exists. Qed.

Theorem locate_sorted : forall ts k, StronglySorted ge_entry (locate (build_tables ts) k).
Proof.
  intros ts k. unfold build_tables.
  pose proof (add_templates_spec ts [] 0%N 0%nat 0%nat tb_sorted_nil) as H. cbv zeta in H.
  destruct H as [Hs _].
  remember (fst (fold_left add_template ts ([], 0%N))) as tb eqn:Etb.
  change (fst (fold_left add_template ts ([], 0%N))) with (fst (fold_left add_template ts (([] : tables), 0%N))) in Etb.
  rewrite <- Etb in Hs. clear Etb.
  assert (Hm : forall s, StronglySorted ge_entry (get (merge_any tb) s)).
  { intro s. rewrite get_merge_any. destruct (has tb s); [|constructor].
    destruct s; try apply Hs; apply insertions_sorted, Hs. }
  destruct k; cbn [locate]; try apply Hm; try constructor.
  - destruct (has (merge_any tb) (SElem n)); apply Hm.
  - destruct (has (merge_any tb) (SAttr n)); apply Hm.
Qed.

Theorem locate_contents : forall ts k x,
  In x (locate (build_tables ts) k) <->
  In x (entries ts 0) /\ covers (a_target (e_alt x)) k = true.
Proof.
  intros ts k x. unfold build_tables, entries.
  pose proof (add_templates_spec ts [] 0%N 0%nat 0%nat tb_sorted_nil) as H. cbv zeta in H.
  destruct H as [_ Hc].
  remember (fst (fold_left add_template ts ([], 0%N))) as tb eqn:Etb.
  change (fst (fold_left add_template ts ([], 0%N))) with (fst (fold_left add_template ts (([] : tables), 0%N))) in Etb.
  rewrite <- Etb in Hc. clear Etb.
  set (E := map fst (pairs 0 0 ts 0)) in *.
  assert (Hc' : forall s, In x (get tb s) <-> In x E /\ In s (slots_of_entry x)).
  { intro s. rewrite Hc. cbn. intuition. }
  assert (Hfix : forall s, (match s with SElem _ | SAttr _ => False | _ => True end) ->
             (In x (get (merge_any tb) s) <-> In x E /\ In s (slots_of_entry x))).
  { intros s Hk. rewrite get_merge_any. destruct (has tb s) eqn:Hh.
    - destruct s; try contradiction; apply Hc'.
    - rewrite <- Hc'. rewrite (has_false_get _ _ Hh). cbn. tauto. }
  unfold covers. fold (slots_of_entry x).
  destruct k; cbn [locate].
  - (* element *)
    rewrite has_merge_any, !get_merge_any.
    rewrite existsb_exists.
    destruct (has tb (SElem n)) eqn:Hh.
    + rewrite insertions_in, !Hc'. split.
      * intros [[HE Hs]|[HE Hs]]; (split; [exact HE|]).
        -- exists (SElem n); split; [exact Hs|]. rewrite slot_eqb_refl; reflexivity.
        -- exists SElemAny; split; [exact Hs|]. rewrite slot_eqb_refl; apply orb_true_r.
      * intros [HE [s [Hs Hb]]]. apply orb_true_iff in Hb. destruct Hb as [Hb|Hb]; apply slot_eqb_eq in Hb; subst s; auto.
    + destruct (has tb SElemAny) eqn:Ha.
      * rewrite Hc'. split.
        -- intros [HE Hs]; split; [exact HE|]. exists SElemAny; split; [exact Hs|]. rewrite slot_eqb_refl; apply orb_true_r.
        -- intros [HE [s [Hs Hb]]]. apply orb_true_iff in Hb. destruct Hb as [Hb|Hb]; apply slot_eqb_eq in Hb; subst s; auto.
           exfalso. assert (Hx : In x (get tb (SElem n))) by (apply Hc'; auto).
           rewrite (has_false_get _ _ Hh) in Hx. exact Hx.
      * split; [intros []|].
        intros [HE [s [Hs Hb]]]. apply orb_true_iff in Hb. destruct Hb as [Hb|Hb]; apply slot_eqb_eq in Hb; subst s.
        -- assert (Hx : In x (get tb (SElem n))) by (apply Hc'; auto).
           rewrite (has_false_get _ _ Hh) in Hx. exact Hx.
        -- assert (Hx : In x (get tb SElemAny)) by (apply Hc'; auto).
           rewrite (has_false_get _ _ Ha) in Hx. exact Hx.
  - (* attribute *)
    rewrite has_merge_any, !get_merge_any.
    rewrite existsb_exists.
    destruct (has tb (SAttr n)) eqn:Hh.
    + rewrite insertions_in, !Hc'. split.
      * intros [[HE Hs]|[HE Hs]]; (split; [exact HE|]).
        -- exists (SAttr n); split; [exact Hs|]. rewrite slot_eqb_refl; reflexivity.
        -- exists SAttrAny; split; [exact Hs|]. rewrite slot_eqb_refl; apply orb_true_r.
      * intros [HE [s [Hs Hb]]]. apply orb_true_iff in Hb. destruct Hb as [Hb|Hb]; apply slot_eqb_eq in Hb; subst s; auto.
    + destruct (has tb SAttrAny) eqn:Ha.
      * rewrite Hc'. split.
        -- intros [HE Hs]; split; [exact HE|]. exists SAttrAny; split; [exact Hs|]. rewrite slot_eqb_refl; apply orb_true_r.
        -- intros [HE [s [Hs Hb]]]. apply orb_true_iff in Hb. destruct Hb as [Hb|Hb]; apply slot_eqb_eq in Hb; subst s; auto.
           exfalso. assert (Hx : In x (get tb (SAttr n))) by (apply Hc'; auto).
           rewrite (has_false_get _ _ Hh) in Hx. exact Hx.
      * split; [intros []|].
        intros [HE [s [Hs Hb]]]. apply orb_true_iff in Hb. destruct Hb as [Hb|Hb]; apply slot_eqb_eq in Hb; subst s.
        -- assert (Hx : In x (get tb (SAttr n))) by (apply Hc'; auto).
           rewrite (has_false_get _ _ Hh) in Hx. exact Hx.
        -- assert (Hx : In x (get tb SAttrAny)) by (apply Hc'; auto).
           rewrite (has_false_get _ _ Ha) in Hx. exact Hx.
  - rewrite (Hfix SText I), existsb_exists. split.
    + intros [HE Hs]; split; [exact HE|]. exists SText; split; [exact Hs | reflexivity].
    + intros [HE [s [Hs Hb]]]. apply slot_eqb_eq in Hb; subst s; auto.
  - rewrite (Hfix SComment I), existsb_exists. split.
    + intros [HE Hs]; split; [exact HE|]. exists SComment; split; [exact Hs | reflexivity].
    + intros [HE [s [Hs Hb]]]. apply slot_eqb_eq in Hb; subst s; auto.
  - rewrite (Hfix SPI I), existsb_exists. split.
    + intros [HE Hs]; split; [exact HE|]. exists SPI; split; [exact Hs | reflexivity].
    + intros [HE [s [Hs Hb]]]. apply slot_eqb_eq in Hb; subst s; auto.
  - rewrite (Hfix SRoot I), existsb_exists. split.
    + intros [HE Hs]; split; [exact HE|]. exists SRoot; split; [exact Hs | reflexivity].
    + intros [HE [s [Hs Hb]]]. apply slot_eqb_eq in Hb; subst s; auto.
  - cbn. split; [intros [] | intros [_ H]; discriminate].
  - rewrite (Hfix SNode I), existsb_exists. split.
    + intros [HE Hs]; split; [exact HE|]. exists SNode; split; [exact Hs | reflexivity].
    + intros [HE [s [Hs Hb]]]. apply slot_eqb_eq in Hb; subst s; auto.
Qed.
