(* Extraction of the XPath compiler model (tokenizer + recursive-descent parser). ExtrOcamlBasic only. *)
From Coq Require Import ZArith.
Require Import ExtrOcamlBasic.
Require Import XV.XpAst XV.XpcLexDefs XV.XpcParseDefs.
(* ocaml/conv.ml (prepended to every driver) mentions the constructors of Z *)
Definition xpc_z_probe : Z := Z.succ 0%Z.
Extraction "extracted/xpc_model.ml" compile_here compile tokenize parse flags_here str_eqb xpc_z_probe.
